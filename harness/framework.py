"""Shared machinery of the pipefunc verification checks.

A property module `harness/props/cXX.py` defines

    PID            "C20"
    PROPS          ["PfModel.Props.C20"]        Lean modules whose `theorem`s are this property's proof obligations
    DRIVER         "C20"                        lean/Driver/C20.lean (JSON-lines driver over the model's executable defs)
    RULE           str                          how cases are generated and what makes one non-trivial/distinct
    ASSUMPTIONS    [str]                        what is modelled rather than verified
    def run(ctx)                                generate cases, run the implementation and the model, report

and uses the `Ctx` object below for everything else (randomness, the Lean driver, coverage counters, violations,
known findings).  `./check CXX --tier quick|thorough` is `main.py`, which performs, in this order: build gate, axiom
audit, corpus + generated correspondence (`run`), evidence, verdict lines, exit status (0 ok / 1 violation / 2 infra).
"""
from __future__ import annotations

import collections
import fcntl
import hashlib
import json
import os
import random
import re
import subprocess
import sys
import time
from pathlib import Path

VERIF = Path(__file__).resolve().parent.parent
LEAN = VERIF / "lean"
REPO = Path(os.environ.get("VERIF_REPO", "/repo"))
PY = os.environ.get("VERIF_PYTHON", "/venv/bin/python")
ALLOWED_AXIOMS = {"propext", "Classical.choice", "Quot.sound"}
FORBIDDEN = re.compile(r"\bsorry\b|\badmit\b|^\s*axiom\s|native_decide|bv_decide|implemented_by|\bunsafe\s|maxHeartbeats\s+0\b", re.M)


class Infra(Exception):
    """Infrastructure failure (exit 2): never a verdict about the property."""


def digest(obj) -> str:
    return hashlib.sha1(json.dumps(obj, sort_keys=True, default=str).encode()).hexdigest()[:16]


# ---------------------------------------------------------------------------------------------- Lean side
def _lake_env() -> dict:
    env = dict(os.environ)
    env.pop("LEAN_PATH", None)
    return env


class LakeLock:
    """Serialise `lake build` across concurrently running checks (one workspace)."""

    def __enter__(self):
        (LEAN / ".lake").mkdir(exist_ok=True)
        self.f = open(LEAN / ".lake" / "verif.lock", "w")
        fcntl.flock(self.f, fcntl.LOCK_EX)
        return self

    def __exit__(self, *a):
        fcntl.flock(self.f, fcntl.LOCK_UN)
        self.f.close()


def lake_build(modules: list[str], timeout=1500) -> tuple[bool, str]:
    with LakeLock():
        p = subprocess.run(["lake", "build", *modules], cwd=LEAN, env=_lake_env(), capture_output=True, text=True, timeout=timeout)
    return p.returncode == 0, p.stdout + p.stderr


def strip_comments(src: str) -> str:
    out, i, depth = [], 0, 0
    while i < len(src):
        if src.startswith("/-", i):
            depth += 1; i += 2; continue
        if depth and src.startswith("-/", i):
            depth -= 1; i += 2; continue
        if depth:
            if src[i] == "\n": out.append("\n")
            i += 1; continue
        if src.startswith("--", i):
            j = src.find("\n", i)
            i = len(src) if j < 0 else j
            continue
        out.append(src[i]); i += 1
    return "".join(out)


def module_path(mod: str) -> Path:
    return LEAN / (mod.replace(".", "/") + ".lean")


def import_closure(mods: list[str]) -> list[str]:
    seen, todo = [], list(mods)
    while todo:
        m = todo.pop()
        if m in seen or not m.startswith("PfModel"):
            continue
        seen.append(m)
        p = module_path(m)
        if not p.exists():
            raise Infra(f"missing Lean module {m}")
        for line in p.read_text().splitlines():
            mm = re.match(r"\s*import\s+(\S+)", line)
            if mm:
                todo.append(mm.group(1))
    return sorted(seen)


def theorems_of(mod: str) -> list[str]:
    """Fully qualified names of the `theorem`s declared in a Props module (namespace tracking by `namespace`/`end`)."""
    src = strip_comments(module_path(mod).read_text())
    ns, out = [], []
    for line in src.splitlines():
        m = re.match(r"\s*namespace\s+(\S+)", line)
        if m:
            ns.append(m.group(1)); continue
        m = re.match(r"\s*end\s+(\S+)\s*$", line)
        if m and ns and ns[-1] == m.group(1):
            ns.pop(); continue
        m = re.match(r"\s*(?:@\[[^\]]*\]\s*)?(?:protected\s+|private\s+)?theorem\s+([^\s:({\[]+)", line)
        if m:
            out.append(".".join(ns + [m.group(1)]))
    return out


def audit(props: list[str]) -> dict:
    """Scan the import closure for forbidden constructs and read `#print axioms` for every property theorem."""
    closure = import_closure(props)
    bad_tokens = []
    for m in closure:
        code = strip_comments(module_path(m).read_text())
        for hit in FORBIDDEN.finditer(code):
            bad_tokens.append(f"{m}: {hit.group(0).strip()}")
    names = [t for p in props for t in theorems_of(p)]
    (LEAN / ".audit").mkdir(exist_ok=True)
    f = LEAN / ".audit" / (props[0].split(".")[-1] + f"_{os.getpid()}.lean")
    f.write_text("".join(f"import {p}\n" for p in props) + "".join(f"#print axioms {n}\n" for n in names))
    try:
        p = subprocess.run(["lake", "env", "lean", str(f)], cwd=LEAN, env=_lake_env(), capture_output=True, text=True, timeout=900)
    finally:
        f.unlink(missing_ok=True)
    text = p.stdout + p.stderr
    per = {}
    for m in re.finditer(r"'([^']+)' depends on axioms: \[([^\]]*)\]", text):
        per[m.group(1)] = [a.strip() for a in m.group(2).replace("\n", " ").split(",") if a.strip()]
    for m in re.finditer(r"'([^']+)' does not depend on any axioms", text):
        per[m.group(1)] = []
    discharged, failed, used = 0, [], set()
    for n in names:
        ax = per.get(n)
        if ax is None:
            failed.append(f"{n}: not found by #print axioms"); continue
        extra = set(ax) - ALLOWED_AXIOMS
        if extra:
            failed.append(f"{n}: axioms {sorted(extra)}"); continue
        used |= set(ax); discharged += 1
    if bad_tokens:
        failed += [f"forbidden construct in {b}" for b in bad_tokens]
    return {"theorems": names, "obligations": len(names), "discharged": discharged if not bad_tokens else 0,
            "failed": failed, "axioms_used": sorted(used), "closure": closure, "raw": text if failed else ""}


def run_driver(driver: str, requests: list[dict], timeout=900) -> list[dict]:
    """Pipe the request lines through `lake env lean --run Driver/<driver>.lean`; responses are matched by id."""
    if not requests:
        return []
    for i, r in enumerate(requests):
        r.setdefault("id", i)
    data = "".join(json.dumps(r) + "\n" for r in requests)
    p = subprocess.run(["lake", "env", "lean", "--run", f"Driver/{driver}.lean"], cwd=LEAN, env=_lake_env(),
                       input=data, capture_output=True, text=True, timeout=timeout)
    if p.returncode != 0:
        raise Infra(f"driver {driver} exited {p.returncode}: {p.stderr[-2000:]}{p.stdout[-500:]}")
    by_id = {}
    for line in p.stdout.splitlines():
        line = line.strip()
        if not line.startswith("{"):
            continue
        o = json.loads(line)
        by_id[o.get("id")] = o
    out = []
    for r in requests:
        o = by_id.get(r["id"])
        if o is None:
            raise Infra(f"driver {driver}: no response for request {r['id']}: {json.dumps(r)[:300]}")
        if "bad" in o:
            raise Infra(f"driver {driver} rejected request {json.dumps(r)[:400]}: {o['bad']}")
        out.append(o)
    return out


# ---------------------------------------------------------------------------------------------- findings
def load_findings(pid: str) -> list[dict]:
    f = VERIF / "known_findings.json"
    if not f.exists():
        return []
    return [e for e in json.loads(f.read_text())["findings"] if e["property"] == pid]


# ---------------------------------------------------------------------------------------------- context
class Ctx:
    def __init__(self, pid: str, tier: str, seed: int):
        self.pid, self.tier, self.seed = pid, tier, seed
        self.rng = random.Random(f"{pid}:{seed}")
        self.t0 = time.time()
        self.cov = collections.Counter()
        self.evaluations = 0
        self.nontrivial = set()
        self.samples: list = []
        self.violations: list[dict] = []
        self.known_hits: dict[str, str] = {}
        self.notes: list[str] = []
        self.traces_validated = 0
        self.skips = collections.Counter()
        self.findings = [f for f in load_findings(pid) if f.get("status") == "finding"]
        self.extra: dict = {}
        self.viol_keys = collections.Counter()
        self.suppressed = 0
        self.budget_scale = float(os.environ.get("VERIF_BUDGET", "1"))

    # -- sizing
    def n(self, quick: int, thorough: int) -> int:
        return max(1, int((quick if self.tier == "quick" else thorough) * self.budget_scale))

    def elapsed(self) -> float:
        return time.time() - self.t0

    # -- lean
    def lean(self, requests: list[dict], driver: str | None = None) -> list[dict]:
        return run_driver(driver or self.pid, requests)

    # -- bookkeeping
    def count(self, key: str, k: int = 1):
        self.cov[key] += k

    def skip(self, why: str):
        self.skips[why] += 1

    def record(self, case, nontrivial: bool = True, validated: bool = True):
        """One compared case. `nontrivial` by the module's stated RULE; distinctness by digest."""
        self.evaluations += 1
        if validated:
            self.traces_validated += 1
        if nontrivial:
            self.nontrivial.add(digest(case))
        if len(self.samples) < 3 or (len(self.samples) < 6 and self.rng.random() < 0.01):
            self.samples.append(case)

    # -- verdicts
    def violation(self, case, what: str, *, found_input: bool = True, item: str | None = None, impl=None, model=None, key: str | None = None):
        """A property violation with a concrete replay (`found_input`) or a broken tie (`item` names the theorem or
        correspondence item that no longer checks).  Known findings are filtered by `match_finding` first."""
        for f in self.findings:
            matcher = FINDING_MATCHERS.get(f["signature"]["matcher"])
            if matcher and matcher(case, f["signature"].get("params", {}), impl, model):
                self.known_hits.setdefault(f["id"], f["what"])
                self.count(f"known-finding:{f['id']}")
                return
        sig = digest([what, case])
        if any(v["sig"] == sig for v in self.violations):
            return
        key = key or re.sub(r"[0-9]+", "#", what)[:80]
        self.viol_keys[key] += 1
        if self.viol_keys[key] > 3 or len(self.violations) >= 12:      # keep the report readable: 3 replays per class
            self.suppressed += 1
            return
        self.violations.append({"sig": sig, "case": case, "what": what, "found_input": found_input, "item": item,
                                "impl": impl, "model": model})

    def known(self, fid: str):
        for f in self.findings:
            if f["id"] == fid:
                self.known_hits.setdefault(fid, f["what"])


FINDING_MATCHERS: dict = {}


def finding_matcher(name):
    def deco(fn):
        FINDING_MATCHERS[name] = fn
        return fn
    return deco


# ---------------------------------------------------------------------------------------------- evidence + verdict
def _repo_state() -> dict:
    """which tree the correspondence ran against: path, HEAD and a digest of the uncommitted changes under pipefunc/"""
    import hashlib
    import subprocess
    out = {"path": str(REPO)}
    try:
        out["head"] = subprocess.run(["git", "-C", str(REPO), "rev-parse", "--short", "HEAD"], capture_output=True, text=True, timeout=20).stdout.strip()
        diff = subprocess.run(["git", "-C", str(REPO), "diff", "HEAD", "--", "pipefunc"], capture_output=True, timeout=20).stdout
        out["working_tree"] = "clean" if not diff else "modified:" + hashlib.sha256(diff).hexdigest()[:12]
    except Exception as e:  # noqa: BLE001
        out["head"] = f"unknown ({type(e).__name__})"
    return out


def finish(ctx: Ctx, mod, aud: dict, build_ok: bool, build_log: str) -> int:
    replay_dir = VERIF / "replays"
    replay_dir.mkdir(exist_ok=True)
    lines = []
    for fid, what in sorted(ctx.known_hits.items()):
        lines.append(f"KNOWN-FINDING: property={ctx.pid} {fid} {what}")
    # a broken proof obligation with no concrete failing input
    proof_broken = (not build_ok) or aud["failed"] or aud["discharged"] != aud["obligations"] or aud["obligations"] == 0
    concrete = [v for v in ctx.violations if v["found_input"]]
    for i, v in enumerate(ctx.violations):
        path = replay_dir / f"{ctx.pid}-{ctx.tier}-{ctx.seed}-{i}.json"
        path.write_text(json.dumps({"property": ctx.pid, "what": v["what"], "case": v["case"], "item": v["item"],
                                    "impl": v["impl"], "model": v["model"], "found_input": v["found_input"]}, indent=1, default=str))
        tail = "" if v["found_input"] else " no-failing-input-found"
        lines.append(f"VIOLATION property={ctx.pid} replay={path} {v['what'][:200]}{tail}")
    if proof_broken and not concrete:
        path = replay_dir / f"{ctx.pid}-{ctx.tier}-{ctx.seed}-proof.json"
        path.write_text(json.dumps({"property": ctx.pid, "what": "proof obligation no longer checks",
                                    "failed": aud["failed"], "build_ok": build_ok, "build_log_tail": build_log[-4000:],
                                    "searched": ctx.evaluations}, indent=1))
        lines.append(f"VIOLATION property={ctx.pid} replay={path} proof obligations of {','.join(mod.PROPS)} no longer check "
                     f"({'; '.join(aud['failed'][:3]) or 'build failed'}) no-failing-input-found")
    n_viol = len(ctx.violations) + (1 if proof_broken and not concrete else 0)
    ev = {
        "property_id": ctx.pid, "tier": ctx.tier, "seed": ctx.seed, "level": "proof",
        "coverage": {
            "obligations": aud["obligations"], "discharged": aud["discharged"] if build_ok else 0,
            "checker_cmd": f"cd lean && lake build {' '.join(mod.PROPS)} && lake env lean <generated '#print axioms' file>"
                           + (" && lake env leanchecker " + " ".join(mod.PROPS) if ctx.tier == "thorough" else ""),
            "trusted_base": ["Lean 4.33.0 kernel", "axioms: " + ", ".join(aud["axioms_used"] or ["none"]),
                             "correspondence harness harness/props/" + ctx.pid.lower() + ".py (differential: real pipefunc vs the model's executable definitions via lean/Driver)",
                             *getattr(mod, "ASSUMPTIONS", [])],
            "theorems": aud["theorems"],
            "evaluations": ctx.evaluations, "distinct_nontrivial": len(ctx.nontrivial), "rule": getattr(mod, "RULE", ""),
            "samples": ctx.samples[:6], "traces_validated_against_impl": ctx.traces_validated,
            "distribution": dict(sorted(ctx.cov.items())), "skipped": dict(ctx.skips),
            "known_findings_reproduced": sorted(ctx.known_hits), "notes": ctx.notes, **ctx.extra,
        },
        "assumptions": list(getattr(mod, "ASSUMPTIONS", [])),
        "wall_s": round(ctx.elapsed(), 2), "violations": n_viol,
    }
    ev["coverage"]["repo"] = _repo_state()
    (VERIF / "evidence").mkdir(exist_ok=True)
    if str(REPO) == "/repo":
        (VERIF / "evidence" / f"{ctx.pid}.json").write_text(json.dumps(ev, indent=1, default=str))
    else:   # a scratch worktree (seeded change, builder): never overwrite the evidence that is committed for /repo
        sd = VERIF / "evidence" / ".scratch"
        sd.mkdir(exist_ok=True)
        (sd / f"{ctx.pid}.{REPO.name}.json").write_text(json.dumps(ev, indent=1, default=str))
    for l in lines:
        print(l)
    if ctx.suppressed:
        print(f"({ctx.suppressed} further violating cases of the same classes not listed: {dict(ctx.viol_keys)})")
    print(f"[{ctx.pid}] tier={ctx.tier} seed={ctx.seed} theorems={aud['discharged']}/{aud['obligations']} "
          f"cases={ctx.evaluations} distinct_nontrivial={len(ctx.nontrivial)} violations={n_viol} "
          f"known={len(ctx.known_hits)} wall={ctx.elapsed():.1f}s")
    return 1 if n_viol else 0
