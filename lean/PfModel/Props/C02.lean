import PfModel.Lemmas.Pipeline
import PfModel.Lemmas.PipelineLog
/-!
C02 — Calling a pipeline equals composing its functions along the DAG.
`run`/`runArgs`/`runTop` mirror `Pipeline._run/_get_func_args/run`; `compose` is the memo-free, log-free specification.
-/
namespace PF.C02
open PF PF.Pipe

/-- a diamond with a tuple-output node, a default and renames, used by the non-vacuity examples -/
def fA : Func := ⟨"fa", [("x", "x")], ["a"], [], []⟩
def fB : Func := ⟨"fb", [("a", "a"), ("y", "y")], ["b", "c"], [("y", .int 7)], []⟩
def fD : Func := ⟨"fd", [("a", "p"), ("b", "q"), ("c", "r")], ["d"], [], []⟩

/-- **Refinement.** Whatever the memoised run returns for a requested output (that is not itself supplied) is what the
    memo-free composition along the DAG returns — for every function list with unique output names, tuple outputs,
    defaults, bound values, renames and supplied intermediates, and for every amount of fuel. -/
theorem C02_run_eq_compose (fs : List Func) (kw : List (String × Val)) (hu : Unique fs) (n : Nat) (o : String)
    (v : Val) (s' : St) (ho : alookup kw o = none)
    (h : run fs kw n o ⟨kw, [], []⟩ = .ok (v, s')) : ∃ k, compose fs kw k o = .ok v := by
  have hg : Good fs kw ⟨kw, [], []⟩ := by
    intro p w hk hp; simp only [] at hp; rw [hk] at hp; exact absurd hp (by simp)
  exact ((run_sound fs kw hu n) o _ v s' hg h).1 ho

/-- The value of the composition is unique: it does not depend on the fuel (depth bound) it was computed with. -/
theorem C02_compose_deterministic (fs : List Func) (kw : List (String × Val)) (k k' : Nat) (o : String) (v v' : Val)
    (h : compose fs kw k o = .ok v) (h' : compose fs kw k' o = .ok v') : v = v' :=
  compose_det fs kw h h'

/-- **`full_output=True`** returns the memo of that same evaluation: every entry that is not a supplied keyword is the
    composition's value for that name. -/
theorem C02_full_output (fs : List Func) (kw : List (String × Val)) (hu : Unique fs) (n : Nat) (o : String)
    (v : Val) (s' : St) (h : run fs kw n o ⟨kw, [], []⟩ = .ok (v, s')) :
    ∀ q w, alookup kw q = none → alookup s'.memo q = some w → ∃ k, compose fs kw k q = .ok w := by
  have hg : Good fs kw ⟨kw, [], []⟩ := by
    intro p w hk hp; simp only [] at hp; rw [hk] at hp; exact absurd hp (by simp)
  exact ((run_sound fs kw hu n) o _ v s' hg h).2

/-- **Argument precedence**, stated outright: a bound value wins, else the supplied keyword (which thereby replaces —
    and does not execute — an upstream producer), else the upstream output, else the pipeline-wide default, else the
    call is refused. -/
theorem C02_precedence (fs : List Func) (kw : List (String × Val)) (f : Func) (p : String) :
    (∀ v, alookup f.bound p = some v → (match resolve fs kw f p with | .val w => w = v | _ => False)) ∧
    (alookup f.bound p = none → ∀ v, alookup kw p = some v → (match resolve fs kw f p with | .val w => w = v | _ => False)) ∧
    (alookup f.bound p = none → alookup kw p = none → (producer fs p).isSome →
        (match resolve fs kw f p with | .upstream => True | _ => False)) ∧
    (alookup f.bound p = none → alookup kw p = none → producer fs p = none → ∀ v, pdefault fs p = some v →
        (match resolve fs kw f p with | .val w => w = v | _ => False)) ∧
    (alookup f.bound p = none → alookup kw p = none → producer fs p = none → pdefault fs p = none →
        (match resolve fs kw f p with | .missing => True | _ => False)) := by
  refine ⟨?_, ?_, ?_, ?_, ?_⟩
  · intro v h; simp [resolve, h]
  · intro hb v h; simp [resolve, hb, h]
  · intro hb hk hp
    obtain ⟨g, hg⟩ := Option.isSome_iff_exists.mp hp
    simp [resolve, hb, hk, hg]
  · intro hb hk hp v hd; simp [resolve, hb, hk, hp, hd]
  · intro hb hk hp hd; simp [resolve, hb, hk, hp, hd]

/-- **Independence of the listing order.** For function lists with unique output names and consistent defaults, the
    composition computed from any permutation of the list is the same (same value or same error, for every output,
    keyword set and fuel). -/
theorem C02_order_independent (fs fs' : List Func) (hperm : fs.Perm fs') (hu : UniqueOut fs)
    (hc : ConsistentDefaults fs) (kw : List (String × Val)) (k : Nat) (o : String) :
    compose fs kw k o = compose fs' kw k o :=
  compose_congr fs fs' kw (producer_perm fs fs' hperm hu) (pdefault_perm fs fs' hperm hu hc) k o

/-- **Surplus keywords are rejected**: a run whose used-parameter set misses a supplied keyword ends in
    `UnusedParametersError`, whatever was computed. -/
theorem C02_surplus (fs : List Func) (kw : List (String × Val)) (o : String) (v : Val) (s : St) (k : String)
    (ho : alookup kw o = none) (h : run fs kw (fuelFor fs) o ⟨kw, [], []⟩ = .ok (v, s))
    (hk : k ∈ akeys kw) (hunused : k ∉ s.used) :
    ∃ ps, runTop fs kw (.name o) = .error (.unused ps) ∧ k ∈ ps := by
  have hmem : k ∈ (akeys kw).filter (fun k => !(s.used.contains k)) := by
    simp [List.mem_filter, hk, hunused]
  simp only [runTop, ho, h]
  simp only [Option.isSome_none, Bool.false_eq_true, ↓reduceIte]
  split
  · next he => rw [List.isEmpty_iff] at he; rw [he] at hmem; cases hmem
  · exact ⟨_, rfl, hmem⟩

/-- **Each once, dependencies first.** For a well-formed pipeline (unique function and output names, acyclic — witnessed
    by a rank decreasing along dependency edges) the call log of a successful run has no duplicates, lists every function
    after the producers of all values it consumed from upstream, and contains only functions of the pipeline. -/
theorem C02_each_once_deps_first (fs : List Func) (kw : List (String × Val)) (rank : String → Nat) (hw : WFp fs rank)
    (n : Nat) (o : String) (v : Val) (s' : St) (h : run fs kw n o ⟨kw, [], []⟩ = .ok (v, s')) :
    s'.calls.Nodup ∧ DepsFirst fs kw s'.calls ∧ (∀ nm ∈ s'.calls, ∃ g ∈ fs, g.name = nm) := by
  have h0 : Inv fs kw ⟨kw, [], []⟩ :=
    ⟨by simp, by simp, fun q hq => Or.inl hq, by intro pre nm post e; simp at e, by simp⟩
  obtain ⟨i, _, _⟩ := run_log fs kw rank hw n o _ v s' h0 h
  exact ⟨i.nodup, i.order, i.known⟩

/-- non-vacuity of `WFp`: the diamond below is well-formed with rank fa < fb < fd -/
example : WFp [fD, fB, fA] (fun nm => if nm = "fa" then 0 else if nm = "fb" then 1 else 2) := by
  refine ⟨?_, ?_, ?_⟩
  · intro f hf g hg e; simp [fD, fB, fA] at hf hg; rcases hf with rfl | rfl | rfl <;> rcases hg with rfl | rfl | rfl <;> simp_all
  · intro f hf g hg o h1 h2; simp [fD, fB, fA] at hf hg; rcases hf with rfl | rfl | rfl <;> rcases hg with rfl | rfl | rfl <;> simp_all
  · intro f hf p hp g hg hb
    simp [fD, fB, fA] at hf
    rcases hf with rfl | rfl | rfl <;> simp at hp <;> rcases hp with rfl | rfl | rfl <;>
      simp [producer, fD, fB, fA] at hg <;> subst hg <;> simp

/-- The output itself may not be supplied as a keyword. -/
theorem C02_output_in_kwargs (fs : List Func) (kw : List (String × Val)) (o : String) (v : Val)
    (h : alookup kw o = some v) : runTop fs kw (.name o) = .error .outputInKwargs := by
  simp [runTop, h]

/-- non-vacuity: a diamond with a tuple-output node, a default and a supplied intermediate; the memoised run and the
    specification agree, each function is called once, and the listing order does not matter -/

example : (runTop [fD, fB, fA] [("x", .int 1)] (.name "d")).toOption.map (·.calls) = some ["fa", "fb", "fd"] := by decide
example : (runTop [fA, fD, fB] [("a", .int 5)] (.name "d")).toOption.map (·.calls) = some ["fb", "fd"] := by decide
example : (runTop [fA, fD, fB] [("a", .int 5), ("x", .int 1)] (.name "d")).toOption.map (·.calls) = none := by decide

end PF.C02
