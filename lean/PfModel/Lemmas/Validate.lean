import PfModel.Model.Validate
/-! Helper lemmas for C12: the step interpreter, the `add` loop of `Pipeline.__init__`, Kahn layering on a cyclic graph. -/
namespace PF.Validate
open PF PF.Map

def isCheck : Step → Bool
  | .check _ _ => true
  | .eff _ => false

theorem exec_check (n : String) (r : V Unit) (rest : List Step) :
    exec (.check n r :: rest) = match r with | .ok _ => exec rest | .error e => ([], .error e) := by
  cases r with
  | error e => rfl
  | ok u => cases u; rfl

/-- a block of checks either refuses with no effect at all, or is transparent -/
theorem exec_checks (C : List Step) (hC : ∀ s ∈ C, isCheck s = true) (rest : List Step) :
    exec (C ++ rest) = exec rest ∨ ∃ e, exec (C ++ rest) = ([], .error e) := by
  induction C with
  | nil => exact Or.inl rfl
  | cons s C ih =>
    have hs := hC s (List.mem_cons_self ..)
    have ih' := ih (fun t ht => hC t (List.mem_cons_of_mem _ ht))
    cases s with
    | eff x => simp [isCheck] at hs
    | check n r =>
      rw [List.cons_append, exec_check]
      cases r with
      | error e => exact Or.inr ⟨e, rfl⟩
      | ok u => exact ih'

theorem exec_effs (E : List Effect) : exec (E.map Step.eff) = (E, .ok ()) := by
  induction E with
  | nil => rfl
  | cons x E ih => simp only [List.map_cons, exec, ih]

/-- a failing check anywhere in the list makes the whole start fail -/
theorem exec_error_of_mem (steps : List Step) (n : String) (e : VErr) (h : Step.check n (.error e) ∈ steps) :
    ∃ e', (exec steps).2 = .error e' := by
  induction steps with
  | nil => cases h
  | cons s rest ih =>
    cases s with
    | eff x =>
      have : Step.check n (.error e) ∈ rest := by
        rcases List.mem_cons.mp h with h | h
        · cases h
        · exact h
      simpa only [exec] using ih this
    | check m r =>
      rw [exec_check]
      cases r with
      | error e' => exact ⟨e', rfl⟩
      | ok u =>
        have : Step.check n (.error e) ∈ rest := by
          rcases List.mem_cons.mp h with h | h
          · cases h
          · exact h
        exact ih this

/-! ### the `add` loop -/

theorem validateEach_ok (fs : List MFunc) (h : validateEach fs = .ok ()) : ∀ f ∈ fs, pipeFuncValidate f = .ok () := by
  induction fs with
  | nil => intro f hf; cases hf
  | cons g rest ih =>
    simp only [validateEach, bind, Except.bind] at h
    split at h
    · cases h
    · next u hg =>
      intro f hf
      rcases List.mem_cons.mp hf with rfl | hf
      · cases u; exact hg
      · exact ih h f hf

theorem validateEach_of_all (fs : List MFunc) (h : ∀ f ∈ fs, pipeFuncValidate f = .ok ()) : validateEach fs = .ok () := by
  induction fs with
  | nil => rfl
  | cons g rest ih =>
    simp only [validateEach, bind, Except.bind, h g (List.mem_cons_self ..)]
    exact ih (fun f hf => h f (List.mem_cons_of_mem _ hf))

/-- `addAll rest acc` succeeds iff every step of the loop does: no clash with what is already there, and the
    pipeline made of the functions added so far validates -/
theorem addAll_ok_iff (rest acc : List MFunc) :
    addAll rest acc = .ok () ↔
      ∀ pre f post, rest = pre ++ f :: post → clashes f (acc ++ pre) = false ∧ pipelineValidate (acc ++ pre ++ [f]) = .ok () := by
  induction rest generalizing acc with
  | nil => simp [addAll, pure, Except.pure]
  | cons g rest ih =>
    simp only [addAll, bind, Except.bind]
    constructor
    · intro h
      cases hc : clashes g acc with
      | true => simp [hc, throw, throwThe, MonadExceptOf.throw] at h
      | false =>
        simp only [hc, Bool.false_eq_true, ↓reduceIte, pure, Except.pure] at h
        cases hv : pipelineValidate (acc ++ [g]) with
        | error e => simp [hv] at h
        | ok u =>
          cases u
          simp only [hv] at h
          have ih' := (ih (acc ++ [g])).mp h
          intro pre f post hsplit
          cases pre with
          | nil =>
            simp only [List.nil_append, List.cons.injEq] at hsplit
            obtain ⟨rfl, _⟩ := hsplit
            simpa using ⟨hc, hv⟩
          | cons p pre =>
            simp only [List.cons_append, List.cons.injEq] at hsplit
            obtain ⟨rfl, hrest⟩ := hsplit
            have := ih' pre f post hrest
            simpa [List.append_assoc] using this
    · intro h
      have h0 := h [] g rest rfl
      simp only [List.append_nil] at h0
      simp only [h0.1, h0.2, Bool.false_eq_true, ↓reduceIte, pure, Except.pure]
      apply (ih (acc ++ [g])).mpr
      intro pre f post hsplit
      have := h (g :: pre) f post (by simp [hsplit])
      simpa [List.append_assoc] using this

theorem pipeFuncValidate_ok_iff (f : MFunc) :
    pipeFuncValidate f = .ok () ↔
      selfNamed f = false ∧ mapspecInputNotParam f = false ∧ mapspecInputBound f = false ∧ mapspecOutputSetDiffers f = false ∧
      mapspecMalformed f = false := by
  unfold pipeFuncValidate
  cases mapspecMalformed f <;> cases selfNamed f <;> cases mapspecInputNotParam f <;> cases mapspecInputBound f <;>
    cases mapspecOutputSetDiffers f <;>
    simp [bind, Except.bind, pure, Except.pure, throw, throwThe, MonadExceptOf.throw]

theorem pipelineValidate_ok_iff (gs : List MFunc) :
    pipelineValidate gs = .ok () ↔
      defaultsConsistent gs = true ∧ gs.any mapspecOutputOrderDiffers = false ∧ axesConsistent gs = true ∧ acyclic gs = true := by
  unfold pipelineValidate
  cases defaultsConsistent gs <;> cases gs.any mapspecOutputOrderDiffers <;> cases axesConsistent gs <;> cases acyclic gs <;>
    simp [bind, Except.bind, pure, Except.pure, throw, throwThe, MonadExceptOf.throw]

theorem construct_ok_iff (fs : List MFunc) :
    construct fs = .ok () ↔
      (∀ f ∈ fs, pipeFuncValidate f = .ok ()) ∧
      (∀ pre f post, fs = pre ++ f :: post → clashes f pre = false ∧ pipelineValidate (pre ++ [f]) = .ok ()) := by
  unfold construct
  simp only [bind, Except.bind]
  constructor
  · intro h
    split at h
    · cases h
    · next u hv =>
      cases u
      exact ⟨validateEach_ok fs hv, by simpa using (addAll_ok_iff fs []).mp h⟩
  · intro ⟨h1, h2⟩
    rw [validateEach_of_all fs h1]
    exact (addAll_ok_iff fs []).mpr (by simpa using h2)

/-- `exec` accepts iff every check in the list passes -/
theorem exec_ok_iff (steps : List Step) : (exec steps).2 = .ok () ↔ ∀ n r, Step.check n r ∈ steps → r = .ok () := by
  induction steps with
  | nil => simp [exec]
  | cons s rest ih =>
    cases s with
    | eff x =>
      simp only [exec, ih, List.mem_cons]
      constructor
      · intro h n r hm
        rcases hm with hm | hm
        · cases hm
        · exact h n r hm
      · intro h n r hm; exact h n r (Or.inr hm)
    | check m r0 =>
      rw [exec_check]
      cases r0 with
      | error e =>
        simp only [List.mem_cons]
        constructor
        · intro h; cases h
        · intro h; have := h m (.error e) (Or.inl rfl); cases this
      | ok u =>
        cases u
        simp only [ih, List.mem_cons]
        constructor
        · intro h n r hm
          rcases hm with hm | hm
          · cases hm; rfl
          · exact h n r hm
        · intro h n r hm; exact h n r (Or.inr hm)

theorem exec_result_cases (steps : List Step) : (exec steps).2 = .ok () ∨ ∃ e, (exec steps).2 = .error e := by
  cases h : (exec steps).2 with
  | error e => exact Or.inr ⟨e, rfl⟩
  | ok u => cases u; exact Or.inl rfl

/-! ### Kahn layering never emits a member of a dependency-closed set -/

theorem filter_disjoint_le {α} (l : List α) (a b c : α → Bool)
    (hac : ∀ x ∈ l, a x = true → c x = true) (hbc : ∀ x ∈ l, b x = true → c x = true)
    (hab : ∀ x ∈ l, a x = true → b x = false) :
    (l.filter a).length + (l.filter b).length ≤ (l.filter c).length := by
  induction l with
  | nil => simp
  | cons x l ih =>
    have ih' := ih (fun y hy => hac y (List.mem_cons_of_mem _ hy)) (fun y hy => hbc y (List.mem_cons_of_mem _ hy))
      (fun y hy => hab y (List.mem_cons_of_mem _ hy))
    have h1 := hac x (List.mem_cons_self ..)
    have h2 := hbc x (List.mem_cons_self ..)
    have h3 := hab x (List.mem_cons_self ..)
    simp only [List.filter_cons]
    cases ha : a x <;> cases hb : b x <;> cases hc : c x <;> simp_all <;> omega

theorem filter_length_lt {α} (l : List α) (p : α → Bool) (x : α) (hx : x ∈ l) (hp : p x = false) :
    (l.filter p).length < l.length := by
  induction l with
  | nil => cases hx
  | cons y l ih =>
    simp only [List.filter_cons]
    rcases List.mem_cons.mp hx with rfl | hx
    · simp only [hp]
      have := List.length_filter_le p l
      simp only [Bool.false_eq_true, ↓reduceIte, List.length_cons]; omega
    · have := ih hx
      split <;> simp only [List.length_cons] <;> omega

/-- `S` is closed under "has an unmet dependency": every function named in `S` consumes (unbound) an output of a
    function named in `S`.  A dependency cycle is such a set. -/
def DependencyClosed (fs : List MFunc) (S : List String) : Prop :=
  ∀ f ∈ fs, f.name ∈ S → ∃ g ∈ upstream fs f, g ∈ S

theorem layers_length_le (fs : List MFunc) (S : List String) (hS : DependencyClosed fs S) :
    ∀ (fuel : Nat) (done : List String) (rest : List MFunc), (∀ n ∈ done, n ∉ S) → (∀ f ∈ rest, f ∈ fs) →
      (layers fs fuel done rest).flatten.length ≤ (rest.filter fun f => !S.contains f.name).length := by
  intro fuel
  induction fuel with
  | zero => intro done rest _ _; simp [layers]
  | succ fuel ih =>
    intro done rest hdone hrest
    simp only [layers]
    split
    · simp
    · split
      · simp
      · next hne =>
        -- the ready functions are not named in S
        have hready : ∀ f ∈ rest.filter (fun f => (upstream fs f).all fun g => done.contains g), f.name ∉ S := by
          intro f hf hfS
          simp only [List.mem_filter, List.all_eq_true] at hf
          obtain ⟨g, hg, hgS⟩ := hS f (hrest f hf.1) hfS
          have := hf.2 g hg
          simp only [List.contains_iff_mem] at this
          exact hdone g this hgS
        simp only [List.flatten_cons, List.length_append]
        have hdone' : ∀ n ∈ done ++ (rest.filter (fun f => (upstream fs f).all fun g => done.contains g)).map (·.name), n ∉ S := by
          intro n hn
          rcases List.mem_append.mp hn with hn | hn
          · exact hdone n hn
          · obtain ⟨f, hf, rfl⟩ := List.mem_map.mp hn
            exact hready f hf
        have hrest' : ∀ f ∈ rest.filter (fun f => !((rest.filter (fun f => (upstream fs f).all fun g => done.contains g)).any (·.name = f.name))), f ∈ fs := by
          intro f hf; exact hrest f (List.mem_filter.mp hf).1
        have := ih _ _ hdone' hrest'
        rw [List.filter_filter] at this
        refine Nat.le_trans (Nat.add_le_add_left this _) ?_
        apply filter_disjoint_le
        · intro x hx hax
          have := hready x (List.mem_filter.mpr ⟨hx, hax⟩)
          simpa [List.contains_iff_mem] using this
        · intro x _ hbx
          simp only [Bool.and_eq_true] at hbx
          exact hbx.1
        · intro x hx hax
          have hmem : x ∈ rest.filter (fun f => (upstream fs f).all fun g => done.contains g) := List.mem_filter.mpr ⟨hx, hax⟩
          have : (rest.filter (fun f => (upstream fs f).all fun g => done.contains g)).any (·.name = x.name) = true := by
            simp only [List.any_eq_true, decide_eq_true_eq]
            exact ⟨x, hmem, rfl⟩
          show (!S.contains x.name && !((rest.filter (fun f => (upstream fs f).all fun g => done.contains g)).any (·.name = x.name))) = false
          rw [this]
          simp

/-- a dependency-closed set with a member in the pipeline: Kahn layering leaves a residue -/
theorem acyclic_false_of_closed (fs : List MFunc) (S : List String) (hS : DependencyClosed fs S)
    (f : MFunc) (hf : f ∈ fs) (hfS : f.name ∈ S) : acyclic fs = false := by
  have h1 := layers_length_le fs S hS (fs.length + 1) [] fs (by intro n hn; cases hn) (fun _ h => h)
  have h2 := filter_length_lt fs (fun f => !S.contains f.name) f hf (by simp [List.contains_iff_mem, hfS])
  unfold acyclic generations
  simp only [beq_eq_false_iff_ne, ne_eq]
  omega

/-! ### refusal, membership of checks in `startSteps` -/

def Refused {ε α} (r : Except ε α) : Prop := ∃ e, r = .error e

theorem refused_iff_not_ok (r : V Unit) : Refused r ↔ r ≠ .ok () := by
  cases r with
  | error e => simp [Refused]
  | ok u => cases u; simp [Refused]


/-- the whole list is the last of the pipelines `Pipeline.__init__` validates -/
theorem whole_is_last_prefix (fs : List MFunc) (hne : fs ≠ []) : ∃ pre f, fs = pre ++ f :: [] ∧ pre ++ [f] = fs := by
  refine ⟨fs.dropLast, fs.getLast hne, ?_, ?_⟩ <;> simp [List.dropLast_concat_getLast]


theorem ofMap_refused {α} (c : String) (m : M α) : Refused (ofMap c m) ↔ Refused m := by
  cases m with
  | ok v => simp [ofMap, Refused]
  | error e => cases e <;> simp [ofMap, Refused]

theorem check_mem_folderSteps (fs : List MFunc) (r : Req) (n : String) (res : V Unit) :
    Step.check n res ∈ folderSteps fs r ↔
      (r.folder = true ∧ r.cleanup = false ∧ ∃ p, r.prev = some p ∧ n = "previous-run" ∧ res = comparePrev fs r p) := by
  unfold folderSteps
  cases r.folder <;> cases r.cleanup <;> cases r.prev <;> simp

theorem check_not_mem_effectSteps (fs : List MFunc) (r : Req) (n : String) (res : V Unit) :
    ¬ Step.check n res ∈ effectSteps fs r := by
  simp [effectSteps]

theorem check_mem_startSteps (fs : List MFunc) (r : Req) (n : String) (res : V Unit) :
    Step.check n res ∈ startSteps fs r ↔
      (n = "executor-without-parallel" ∧ res = checkExecutor r) ∨
      (n = "output-names" ∧ res = checkOutputNames fs r) ∨
      (n = "complete-inputs" ∧ res = ofMap "complete-inputs" (validateInputs fs r.inputs)) ∨
      (n = "consistent-axes" ∧ res = (if axesConsistent fs then .ok () else .error ⟨.value, "inconsistent-axes"⟩)) ∨
      (n = "fixed-indices" ∧ res = ofMap "fixed-indices" (PF.Pieces.validateFixed fs (normInputs r.inputs) r.fixed)) ∨
      (n = "storage" ∧ res = checkStorage r) ∨
      (n = "storage-default" ∧ res = checkStorageDefault fs r) ∨
      (r.folder = true ∧ r.cleanup = false ∧ ∃ p, r.prev = some p ∧ n = "previous-run" ∧ res = comparePrev fs r p) ∨
      (n = "check-inputs" ∧ res = checkInputs fs r) ∨
      (n = "map-shapes" ∧ res = ofMap "map-shapes" (shapesOf fs r.inputs r.internal)) := by
  simp only [startSteps, List.mem_append, check_mem_folderSteps, check_not_mem_effectSteps, or_false]
  simp only [headChecks, tailChecks, List.mem_cons, List.not_mem_nil, or_false, Step.check.injEq, or_assoc]

theorem refused_exec_iff (steps : List Step) : Refused (exec steps).2 ↔ ∃ n res, Step.check n res ∈ steps ∧ Refused res := by
  rw [refused_iff_not_ok, Ne, exec_ok_iff]
  constructor
  · intro h
    apply Classical.byContradiction
    intro hn
    apply h
    intro n res hm
    apply Classical.byContradiction
    intro hne
    exact hn ⟨n, res, hm, (refused_iff_not_ok res).mpr hne⟩
  · rintro ⟨n, res, hm, hr⟩ hall
    exact (refused_iff_not_ok res).mp hr (hall n res hm)

theorem checkExecutor_refused (r : Req) : Refused (checkExecutor r) ↔ (r.executor = true ∧ r.parallel = false) := by
  unfold checkExecutor
  cases r.executor <;> cases r.parallel <;> simp [Refused]

theorem checkStorage_refused (r : Req) : Refused (checkStorage r) ↔ ∃ n ∈ r.storage.names, n ∉ storageRegistry := by
  unfold checkStorage
  cases h : r.storage.names.all storageRegistry.contains with
  | true =>
    simp only [↓reduceIte, Refused, reduceCtorEq, exists_false, false_iff, not_exists, not_and, Decidable.not_not]
    intro n hn
    have := List.all_eq_true.mp h n hn
    simpa [List.contains_iff_mem] using this
  | false =>
    simp only [Bool.false_eq_true, ↓reduceIte, Refused, Except.error.injEq, exists_eq', true_iff]
    obtain ⟨n, hn, hc⟩ := List.all_eq_false.mp h
    exact ⟨n, hn, by simpa [List.contains_iff_mem] using hc⟩

theorem checkStorageDefault_refused (fs : List MFunc) (r : Req) :
    Refused (checkStorageDefault fs r) ↔ ∃ f, f ∈ storageUnresolved fs r.storage := by
  unfold checkStorageDefault
  cases h : storageUnresolved fs r.storage with
  | nil => simp [Refused]
  | cons g rest => simp only [List.isEmpty_cons, Bool.false_eq_true, ↓reduceIte, Refused, Except.error.injEq, exists_eq', true_iff]; exact ⟨g, List.mem_cons_self⟩

theorem checkOutputNames_refused (fs : List MFunc) (r : Req) :
    Refused (checkOutputNames fs r) ↔ ∃ ns, r.outputNames = some ns ∧ ∃ n ∈ ns, n ∉ nodeNames fs := by
  unfold checkOutputNames
  cases r.outputNames with
  | none => simp [Refused]
  | some ns =>
    simp only [Option.some.injEq, exists_eq_left']
    cases h : ns.all (nodeNames fs).contains with
    | true =>
      simp only [↓reduceIte, Refused, reduceCtorEq, exists_false, false_iff, not_exists, not_and, Decidable.not_not]
      intro n hn
      have := List.all_eq_true.mp h n hn
      simpa [List.contains_iff_mem] using this
    | false =>
      simp only [Bool.false_eq_true, ↓reduceIte, Refused, Except.error.injEq, exists_eq', true_iff]
      obtain ⟨n, hn, hc⟩ := List.all_eq_false.mp h
      exact ⟨n, hn, by simpa [List.contains_iff_mem] using hc⟩

theorem checkInputs_refused (fs : List MFunc) (r : Req) : Refused (checkInputs fs r) ↔ listForNd fs r.inputs = true := by
  unfold checkInputs
  cases listForNd fs r.inputs <;> simp [Refused]

theorem axesStep_refused (fs : List MFunc) :
    Refused (if axesConsistent fs then (.ok () : V Unit) else .error ⟨.value, "inconsistent-axes"⟩) ↔ axesConsistent fs = false := by
  cases axesConsistent fs <;> simp [Refused]


theorem headChecks_isCheck (fs : List MFunc) (r : Req) : ∀ s ∈ headChecks fs r, isCheck s = true := by
  intro s hs; simp only [headChecks, List.mem_cons, List.not_mem_nil, or_false] at hs
  rcases hs with rfl | rfl | rfl | rfl | rfl | rfl | rfl <;> rfl

theorem tailChecks_isCheck (fs : List MFunc) (r : Req) : ∀ s ∈ tailChecks fs r, isCheck s = true := by
  intro s hs; simp only [tailChecks, List.mem_cons, List.not_mem_nil, or_false] at hs
  rcases hs with rfl | rfl <;> rfl


end PF.Validate
