"""C03 — Map results and call counts are independent of executor, storage and schedule.

Correspondence: the real `Pipeline.map` / `Pipeline.map_async` on generated map pipelines (harness/mapgen.py) under
 (a) the permuting executor (harness/c03_permexec.py) through the public `executor=` argument — every completion order of
     a generation with <= 5 tasks, sampled orders otherwise; one shared schedule across per-output executors;
 (b) real ThreadPoolExecutor / ProcessPoolExecutor with seeded per-call delays;
 (c) a different executor per output (dict, with and without the "" default);
 (d) `map_async` (debounced permuting executor, real pools);
 x storages dict / file_array / shared_memory_dict and per-output mixes, with and without a run folder.
Every run is compared with the model's schedule-free answer (`map.run`, driver C01, proved equal to the MapSpec
denotation) on: returned arrays, in-memory stores, re-loaded stores, the cross-process call multiset, the barrier on the
append-only call log, the executor each task was handed to, and the place (worker / parent) and number of dumps of every
element.  Runs under the permuting executor are additionally compared with `PF.Sched.runMapSched` (driver C03,
`map.sched`) played on the observed schedule: the execution-order call log and the dump events must coincide.
"""
from __future__ import annotations

import asyncio
import copy
import itertools
import json
import math
import os
import random
import shutil
import sys
import tempfile
import threading
from concurrent.futures import ProcessPoolExecutor, ThreadPoolExecutor

import pfimport  # noqa: F401
from pfimport import exc_enum

import c03_permexec as px
import mapgen
import terms

PID = "C03"
PROPS = ["PfModel.Props.C03", "PfModel.Props.C03Part", "PfModel.Props.C03Exec", "PfModel.Props.C03Ops", "PfModel.Props.C03Count",
         "PfModel.Props.C03CountPart", "PfModel.Props.C03Slice", "PfModel.Props.C03Deps", "PfModel.Props.C03Valid", "PfModel.Props.C03Align"]
DRIVER = "C03"
RULE = ("pipelines from harness/mapgen.py (1-4 functions: element-wise/zip, outer product, partial and full reductions, internal axes, "
        "'... -> v[j]' producers, tuple outputs, plain functions; axis sizes 1-3); per pipeline: for every generation with <= 5 submitted "
        "tasks all its completion orders (the other generations in a fresh random order), else 40 (quick: 10) sampled orders, cycling "
        "through storages dict / file_array / per-output mixes / shared_memory_dict with and without a run folder, with one executor or a "
        "different executor per output; real thread pools and process pools (quick: three process-pool runs per pipeline; thorough: the full "
        "per-output storage x executor matrix for the first small pipelines), mixed pools and map_async with seeded per-call delays; one call "
        "raising under map and map_async; HISTORIES: map(fixed_indices=part, cleanup=False, parallel=True) sequences on one folder (one or two "
        "fixed parts — int, slice, two axes — then a full run; full then full) under the permuting executor / thread pools / map_async, each "
        "part compared with PF.SchedP.runPartSched played on the observed schedule; MALFORMED executor configurations (executor with "
        "parallel=False, empty dict, dict without default, a single name of a tuple output as key) compared with the Lean rule; "
        "PARITY (round 9): per history pipeline one request (fixed_indices int / slice / two axes / none, storage, executors, schedule seed) run through "
        "Pipeline.map AND Pipeline.map_async on fresh folders, the two real runs compared with each other, then each with runPartSched sync | gather; "
        "AXIS-1 (round 9): a family of pipelines whose ':'-sliced axis has length 1 (outer product reduced along either axis, internal axis of length 1, "
        "tuple output) under dict / file_array / shared_memory_dict and per-output overrides of the producer; COUNTS (round 9): per replayed run the "
        "number of invocations per function and of futures per (function, index) against callCount / demanded / taskCount of the Lean model; "
        "GATE (round 10): per pipeline one run (thorough: two) under a real thread pool with one worker per task of the largest generation (<= 8) in which "
        "every worker is held inside the write step of its dump (scratch file open / written, not yet renamed) until all writers of the wave are there, "
        "storage file_array and mixes keeping a file array, map and map_async; a SIBLINGS family (two or more mapped functions in one generation with "
        "common linear indices: element-wise pair, outer products, different ranks, tuple output beside single ones, second generation, internal axis) "
        "under the GATE stream only; judged by the same clauses (results, stored data, call multiset, barrier, single dump); "
        "non-trivial = some generation submits >= 2 tasks; distinct by (pipeline, inputs, configuration / history, schedule)")
ASSUMPTIONS = ["interleavings *inside* a task body (two workers inside cloudpickle.dump, Manager proxy round-trips, os.listdir racing a write) "
               "are exercised by the real pools but not modelled: the theorem covers every interleaving at the granularity of task bodies "
               "and parent-side processing; since round 10 the GATE stream DRIVES one extremal interleaving inside file dumps of thread pools (all "
               "writers of a wave have their scratch file open before any writes, all have written before any renames) by wrapping "
               "`cloudpickle.dump` in the harness process — still not modelled; process pools and Manager proxies are not gated",
               "NumPy object-array indexing, cloudpickle, concurrent.futures and asyncio are specified by the model, not verified",
               "the order of functions inside a generation is not compared (only the set), schedules are transported by task label",
               "dump events are observed by wrapping DictArray.dump / FileArray.dump in the harness process (inherited by forked workers)",
               "histories: the `run_info.json` comparison of cleanup=False is not modelled (same pipeline and inputs in every part); the previous "
               "store is what the preceding part left (crash states are C05's)",
               "map_async: `asyncio.gather` is modelled as 'results in submission order, first failure in completion order'; task cancellation "
               "is not modelled and not exercised; a raising user function is exercised (call counts, barrier, both entry points fail) but "
               "not modelled — the model's functions are total",
               "an executor whose truth value is False would make `_maybe_execute_single` (`if ex:`) run an un-mapped function in the parent; not modelled"]

DUMP_SUB = {"dict": False, "file_array": True, "shared_memory_dict": True}

# ------------------------------------------------------------------------------------------------ dump observation
_DUMP = {"path": None, "ppid": None, "ptid": None}


def _install_dump_hook():
    from pipefunc.map._storage_array._dict import DictArray
    from pipefunc.map._storage_array._file import FileArray

    for cls in (DictArray, FileArray):
        if getattr(cls.dump, "_c03", False):
            continue
        orig = cls.dump

        def dump(self, key, value, _orig=orig):
            path = _DUMP["path"]
            if path is not None:
                try:
                    folder = getattr(self, "folder", None)
                    worker = os.getpid() != _DUMP["ppid"] or threading.get_ident() != _DUMP["ptid"] or px.in_body()
                    rec = [os.path.basename(str(folder)) if folder is not None else None, id(self), repr(key), bool(worker)]
                    fd = os.open(path, os.O_WRONLY | os.O_APPEND | os.O_CREAT, 0o644)
                    try:
                        os.write(fd, (json.dumps(rec) + "\n").encode())
                    finally:
                        os.close(fd)
                except Exception:  # noqa: BLE001
                    pass
            return _orig(self, key, value)

        dump._c03 = True
        cls.dump = dump


# ------------------------------------------------------------------------------------------------ model side
def model_obs(r):
    if "err" in r:
        return {"err": r["err"], "msg": r.get("why")}
    return {"outputs": {k: terms.canon(v) for k, v in r["outputs"]}, "stored": {k: terms.canon(v) for k, v in r["stored"]},
            "calls": sorted(([n, [[k, terms.canon(v)] for k, v in sorted(kw, key=lambda kv: kv[0])]] for n, kw in r["calls"]), key=repr),
            "shapes": dict(r["shapes"]), "masks": dict(r["masks"]), "gens": r["gens"]}


def canon_call(n, kw):
    return [n, [[k, terms.canon(v)] for k, v in sorted(kw, key=lambda kv: kv[0])]]


def olabel(f):
    return "+".join(f["outputs"])


def is_mapped(f):
    return bool(f["mapspec"] and f["mapspec"]["inputs"])


def approx_tasks(desc):
    """Largest number of tasks one mapped function submits (from the generator's axis sizes)."""
    best = 1
    for f in desc["funcs"]:
        if is_mapped(f):
            ext = {a for spec in f["mapspec"]["inputs"] for a in spec[1] if a}
            best = max(best, math.prod(desc["sizes"][a] for a in ext))
    return best


def plan(desc, model):
    """Per generation of the model: {output label: number of submitted tasks}; also label -> function."""
    by_name = {f["name"]: f for f in desc["funcs"]}
    gens = []
    for g in model["gens"]:
        d = {}
        for n in g:
            f = by_name[n]
            if is_mapped(f):
                sh, mk = model["shapes"][f["outputs"][0]], model["masks"][f["outputs"][0]]
                d[olabel(f)] = math.prod(s for s, m in zip(sh, mk) if m)
            else:
                d[olabel(f)] = 1
        gens.append(d)
    return gens, {olabel(f): f for f in desc["funcs"]}


# ------------------------------------------------------------------------------------------------ implementation side
def out_key(f):
    return f["outputs"][0] if len(f["outputs"]) == 1 else tuple(f["outputs"])


def storage_arg(desc, cfg):
    st = cfg["storage"]
    if isinstance(st, str):
        return st
    by_name = {f["name"]: f for f in desc["funcs"]}
    return {("" if k == "" else out_key(by_name[k])): v for k, v in st.items()}


def storage_of(desc, cfg, f):
    st = cfg["storage"]
    if isinstance(st, str):
        return st
    return st.get(f["name"], st.get(""))


def make_executors(desc, cfg, core, record):
    """The `executor=` argument and the list of real pools to shut down."""
    pools = []

    def one(tag, kind):
        if kind == "perm":
            return px.PermExecutor(core, tag)
        inner = ThreadPoolExecutor(cfg.get("workers", 3)) if kind == "thread" else ProcessPoolExecutor(cfg.get("workers", 3))
        pools.append(inner)
        return px.TagExecutor(inner, tag, record)

    kinds = cfg["kinds"]                    # {"": kind | absent, fname: kind}
    if list(kinds) == [""]:
        return one("", kinds[""]), pools
    by_name = {f["name"]: f for f in desc["funcs"]}
    return {("" if k == "" else out_key(by_name[k])): one("" if k == "" else olabel(by_name[k]), v) for k, v in kinds.items()}, pools


def expected_tag(desc, cfg, f):
    return olabel(f) if f["name"] in cfg["kinds"] else ""


class Built:
    """A pipeline built once per case: the same `Pipeline` object serves every configuration (that runs do not depend on
    what earlier runs of the same object did is part of what is being checked); the per-call delays are re-seeded per run."""

    def __init__(self, desc):
        self.delays = {f["name"]: px.SeededDelay(0, 0.0) for f in desc["funcs"]}
        self.fails = {f["name"]: px.FailAt() for f in desc["funcs"]}
        self.log = px.PLog(None)
        try:
            self.p, _ = mapgen.build(desc, log=self.log, delay=self.delays, fail=self.fails)
            self.err = None
        except Exception as e:  # noqa: BLE001
            self.p, self.err = None, {"err": exc_enum(e), "at": "construct", "msg": str(e)[:200]}


def sel_py(j):
    return j if isinstance(j, int) else slice(*j["sl"])


def fixed_py(fx):
    return None if fx is None else {a: sel_py(s) for a, s in fx}


def run_impl(desc, cfg, base, built=None, folder=None):
    """One run of the real code under `cfg`.  Never raises; a hang is an observation.
    `folder`: a run folder shared by the runs of a history (`cfg["cleanup"] = False`, `cfg["fixed"]`)."""
    from pipefunc.map import load_outputs

    built = built or Built(desc)
    if built.err:
        return dict(built.err)
    work = tempfile.mkdtemp(dir=base)
    log, p = built.log, built.p
    log.path = os.path.join(work, "calls.log")
    log.calls.clear()
    dump_path = os.path.join(work, "dumps.log")
    obs = {"schedule": None}
    for i, (name, d) in enumerate(built.delays.items()):
        d.seed = (cfg.get("delay") or 0) * 131 + i
        d.max_s = cfg.get("max_delay", 0.004) if cfg.get("delay") is not None else 0.0
    for name, fl in built.fails.items():
        tgt = cfg.get("fail")
        fl.target, fl.cls = (tgt[1], tgt[2]) if tgt and tgt[0] == name else (None, "Fail")
    if folder is None:
        folder = os.path.join(work, "run") if cfg.get("folder", True) else None
    orders = cfg.get("orders") or []
    mism = []

    def choose(n, b):
        if b < len(orders) and sorted(orders[b]) == list(range(n)):
            return orders[b]
        if "order_seed" in cfg:          # schedules of a history: drawn when the batch is known, recorded in obs["schedule"]
            r = random.Random(f"{cfg['order_seed']}:{b}:{n}")
            return r.sample(range(n), n)
        mism.append((b, n))
        return list(range(n))

    # map_async never blocks on a future: the queued bodies are released by a debounce timer; under `map` the parent's first
    # `result()` releases them and the (long) timer is only a fallback so that code that never asks still makes progress
    core = px.PermCore(choose, debounce=0.03 if cfg["entry"] == "async" else 2.0, wait=cfg.get("timeout", 20))
    record: list = []
    ex, pools = make_executors(desc, cfg, core, record)
    gate = px.DumpGate(cfg.get("workers", 3), **cfg["gate"]) if cfg.get("gate") else None      # owner = this (the parent) thread
    kw = dict(run_folder=folder, internal_shapes=mapgen.internal_shapes_arg(desc), executor=ex, storage=storage_arg(desc, cfg))
    if "fixed" in cfg or not cfg.get("cleanup", True):
        kw.update(fixed_indices=fixed_py(cfg.get("fixed")), cleanup=cfg.get("cleanup", True))
    inputs = mapgen.py_inputs(desc)

    def go():
        _DUMP.update(path=dump_path, ppid=os.getpid(), ptid=threading.get_ident())
        px.GATE["gate"] = gate
        if cfg["entry"] == "map":
            return mapgen.quiet(p.map, inputs, parallel=True, **kw)

        async def main():
            am = p.map_async(inputs, **kw)
            return await asyncio.wait_for(am.task, cfg.get("timeout", 20))

        return mapgen.quiet(asyncio.run, main())

    saved_streams = (sys.stdout, sys.stderr)
    ids = {}
    by_out = {o: f for f in desc["funcs"] for o in f["outputs"]}

    def read(res):
        """Returned arrays, in-memory stores, stores re-loaded from the run folder."""
        obs["outputs"], obs["stored"], obs["reloaded"], obs["present"] = {}, {}, {}, {}
        try:
            for name, r in res.items():
                obs["outputs"][name] = terms.enc(r.output)
                st = r.store
                obs["present"][name] = [i for i, m in enumerate(st.mask_linear()) if not m] if hasattr(st, "mask_linear") else None
                if hasattr(st, "to_array"):
                    obs["stored"][name] = terms.enc(st.to_array())
                    ids[id(st)] = name
                elif hasattr(st, "value"):
                    obs["stored"][name] = terms.enc(st.value)
                else:
                    from pipefunc._utils import load
                    obs["stored"][name] = terms.enc(load(st))
            names = [n for n in res if folder is not None and cfg.get("reload", True)]
            if names:
                vals = load_outputs(*names, run_folder=folder)
                for n, v in zip(names, [vals] if len(names) == 1 else vals):
                    obs["reloaded"][n] = terms.enc(v)
        except px.Hang:
            raise
        except Exception as e:  # noqa: BLE001
            obs.update(err=exc_enum(e), at="read", msg=str(e)[:200])

    try:
        status, val = px.run_with_watchdog(lambda: read(go()), cfg.get("timeout", 60 if pools else 25))
        px.close_core(core)
        sys.stdout, sys.stderr = saved_streams       # a hung run never leaves `redirect_stdout`
        _DUMP["path"] = None
        px.GATE["gate"] = None
        if gate is not None:
            gate.close()
            obs["gate"] = gate.summary()
        obs["schedule"] = [{"labels": b["labels"], "order": b["order"], "tags": b["tags"]} for b in core.batches]
        obs["order_mismatch"] = mism
        obs["submitted_during_flush"] = core.submitted_during_flush
        obs["timer_flushes"] = core.timer_flushes
        if status == "hang" or (status == "exc" and isinstance(val, (px.Hang, asyncio.TimeoutError, TimeoutError))):
            for q in pools:
                px.kill_pool(q)
            pools.clear()
            obs["hang"] = True
            obs["log"] = log.read()
            return obs
        if status == "exc":
            obs.update(err=exc_enum(val), at="map", msg=str(val)[:200], log=log.read())
            obs["tags"] = record + [(t, l) for b in core.batches for t, l in zip(b["tags"], b["labels"])]
            return obs
        if "err" in obs:
            return obs
        obs["log"] = log.read()
        obs["tags"] = record + [(t, l) for b in core.batches for t, l in zip(b["tags"], b["labels"])]
        dumps = []
        if os.path.exists(dump_path):
            with open(dump_path) as fh:
                for line in fh:
                    base_name, ident, key, worker = json.loads(line)
                    dumps.append([base_name if base_name is not None else ids.get(ident, f"?{ident}"), key, worker])
        obs["dumps"] = dumps
        return obs
    finally:
        _DUMP["path"] = None
        px.GATE["gate"] = None
        if gate is not None:
            gate.close()
        for q in pools:                   # join the workers: lingering threads make later forks (process pools, Managers) hazardous
            try:
                q.shutdown(wait=True, cancel_futures=True)
            except Exception:  # noqa: BLE001
                pass
        shutil.rmtree(work, ignore_errors=True)


# ------------------------------------------------------------------------------------------------ judging
def cfg_key(cfg):
    return f"{'+'.join(sorted(set(cfg['kinds'].values())))}/{cfg['entry']}/{'split' if len(cfg['kinds']) > 1 or '' not in cfg['kinds'] else 'one'}"


def storage_key(cfg):
    st = cfg["storage"]
    return st if isinstance(st, str) else "mix:" + "+".join(sorted(set(st.values())))


def judge(ctx, desc, cfg, obs, model):
    """Clauses of the property evaluated on the implementation's own observation; returns True when the run is clean."""
    case = {"desc": desc, "cfg": cfg, "schedule": obs.get("schedule")}
    gens, by_label = plan(desc, model)
    ctx.count("run:" + cfg_key(cfg))
    if cfg.get("matrix"):
        ctx.count("matrix-cell")
    if cfg.get("gate"):
        ctx.count("gate-run:" + cfg["entry"] + "/" + storage_key(cfg) + ("/siblings" if cfg.get("siblings") else ""))
    if cfg.get("axis1"):
        ctx.count("axis1-storage:" + (storage_key(cfg) if isinstance(cfg["storage"], str) else "override:" + "+".join(f"{k or 'default'}={v}" for k, v in sorted(cfg["storage"].items()))))
    ctx.count("storage:" + storage_key(cfg) + ("" if cfg.get("folder", True) else "/no-folder"))
    ctx.record({"desc": desc, "cfg": cfg}, nontrivial=any(sum(g.values()) >= 2 for g in gens))
    if obs.get("hang"):
        ctx.violation(case, "the run hangs (a submitted future is never resolved / map does not return) under this schedule", impl={"log": obs.get("log")})
        return False
    if "err" in obs:
        ctx.violation(case, f"valid request fails at {obs['at']} with {obs['err']}: {obs.get('msg', '')[:120]}", impl=obs)
        return False
    # equal results, equal stored data
    for name, want in model["outputs"].items():
        if obs["outputs"].get(name) != want:
            ctx.violation(case, f"returned `{name}` differs from the schedule-free result", impl={"output": obs["outputs"].get(name)}, model={"output": want})
            return False
        if obs["stored"].get(name) != model["stored"].get(name):
            ctx.violation(case, f"stored `{name}` differs from the schedule-free result", impl={"stored": obs["stored"].get(name)}, model={"stored": model["stored"].get(name)})
            return False
        if name in obs["reloaded"] and obs["reloaded"][name] != model["stored"].get(name):
            ctx.violation(case, f"re-loaded `{name}` differs from the schedule-free result", impl={"reloaded": obs["reloaded"][name]}, model={"stored": model["stored"].get(name)})
            return False
    # once per index / once in total
    calls = sorted(([c[0], c[1]] for c in obs["log"] if c[2] == "call"), key=repr)
    if calls != model["calls"]:
        ctx.violation(case, "call multiset differs: a function was not invoked exactly once per output index (once in total without MapSpec)",
                      impl={"calls": calls}, model={"calls": model["calls"]})
        return False
    # barrier: no call of a later generation before every 'done' of all earlier generations
    gen_of = {n: g for g, names in enumerate(model["gens"]) for n in names}
    expected = [0] * len(model["gens"])
    for n, _ in model["calls"]:
        expected[gen_of[n]] += 1
    done = [0] * len(model["gens"])
    for n, _, phase, _ in obs["log"]:
        g = gen_of[n]
        if phase == "done":
            done[g] += 1
        elif any(done[h] != expected[h] for h in range(g)):
            ctx.violation(case, f"`{n}` (generation {g}) was invoked before every task of the earlier generations had completed",
                          impl={"log": [[c[0], c[2]] for c in obs["log"]]}, model={"gens": model["gens"]})
            return False
    # executor selection: compared with the Lean rule (`exec.select`) after the batch (see `judge_exec`)
    EXEC_JOBS.append((case, obs["tags"], exec_request(desc, cfg, model)))
    if len(obs["tags"]) != sum(sum(g.values()) for g in gens):
        ctx.violation(case, "number of submitted tasks differs from one per (mapped function, index) plus one per un-mapped function",
                      found_input=False, item="correspondence:submitted-tasks", impl={"tags": obs["tags"]}, model={"plan": gens})
        return False
    # single dump, worker xor parent
    want_dumps = []
    for f in desc["funcs"]:
        if is_mapped(f):
            n = next(g[olabel(f)] for g in gens if olabel(f) in g)
            for o in f["outputs"]:
                want_dumps += [(o, DUMP_SUB[storage_of(desc, cfg, f)])] * n
    got_dumps = sorted((d[0], d[2]) for d in obs["dumps"])
    if got_dumps != sorted(want_dumps) or len({(d[0], d[1]) for d in obs["dumps"]}) != len(obs["dumps"]):
        ctx.violation(case, "an element was not dumped exactly once (in the worker iff the storage has dump_in_subprocess, else in the parent)",
                      found_input=False, item="correspondence:single-dump", impl={"dumps": obs["dumps"]}, model={"dumps": sorted(want_dumps)})
        return False
    if obs.get("submitted_during_flush") and cfg["entry"] == "map" and not obs.get("timer_flushes"):
        ctx.violation(case, "tasks were submitted while bodies of the previous batch were still running (no barrier at the executor)",
                      found_input=False, item="correspondence:barrier-submit")
        return False
    if cfg.get("gate"):
        g = obs.get("gate") or {"waves": 0, "max": 0, "shared": []}
        ctx.count(f"gate:writers-held-together:{min(g['max'], 9)}")
        if g["shared"]:
            ctx.violation(case, f"two writers that were inside a dump at the same time had the SAME scratch file open ({g['shared'][:3]}); results and stored "
                          "data were right in this run", found_input=False, item="correspondence:scratch-file-shared", impl={"gate": g})
            return False
    return True


def sched_request(desc, cfg, obs, model):
    """`map.sched` request replaying the observed schedule of a permuting-executor run; None when the batches are not the model's generations."""
    gens, by_label = plan(desc, model)
    sched = obs["schedule"]
    if len(sched) != len(gens):
        return None
    orders = []
    for b, g in zip(sched, gens):
        cnt = {}
        for lab, _ in b["labels"]:
            cnt[lab] = cnt.get(lab, 0) + 1
        if cnt != g:
            return None
        orders.append([[by_label[b["labels"][i][0]]["name"], b["labels"][i][1] or 0] for i in b["order"]])
    dump_sub = [o for f in desc["funcs"] for o in f["outputs"] if DUMP_SUB[storage_of(desc, cfg, f)]]
    a = mapgen.model_request(desc)
    a.update(orders=orders, dump_sub=dump_sub)
    return {"m": "map.sched", "a": a}


def judge_sched(ctx, desc, cfg, obs, model, resp):
    case = {"desc": desc, "cfg": cfg, "schedule": obs.get("schedule")}
    ctx.count("sched-replayed")
    if not resp.get("unique_outputs") or not resp.get("equal") or not resp.get("barrier", False):
        raise AssertionError(f"model: scheduled run differs from the sequential run on a generated case: {json.dumps(case)[:2000]}")
    if not judge_counts(ctx, case, desc, obs, model, resp):
        return
    want = [canon_call(n, kw) for tr in resp["trace"] for n, kw in tr["calls"]]
    got = [[c[0], c[1]] for c in obs["log"] if c[2] == "call"]
    if got != want:
        ctx.violation(case, "execution-order call log differs from the model played on the same schedule", found_input=False,
                      item="correspondence:execution-order", impl={"calls": got}, model={"calls": want})
        return
    by_out = {o: f for f in desc["funcs"] for o in f["outputs"]}
    want_d = sorted([o, w] for tr in resp["trace"] for o, idx, w in tr["dumps"] if idx is not None and is_mapped(by_out[o]))
    got_d = sorted([d[0], d[2]] for d in obs["dumps"])
    if got_d != want_d:
        ctx.violation(case, "dump events differ from the model played on the same schedule", found_input=False,
                      item="correspondence:dump-events", impl={"dumps": got_d}, model={"dumps": want_d})


def judge_counts(ctx, case, desc, obs, model, resp):
    """Round 9 — the COUNT clause ("each function is invoked exactly once per output index, once in total if it has no MapSpec")
    against `Props/C03Count.lean`: `counts` = per function (name, callCount in the model's execution-order log under the observed
    schedule, `demanded`), `tasks` = per submitted future (generation, function position, future position, taskCount).  The
    implementation's numbers: entries of the cross-process call log per function name; per (function, index) the futures handed
    to the executors (their labels carry the index)."""
    ctx.count("counts-checked")
    if resp.get("stray") or any(got != dem for _, got, dem in resp["counts"]) or any(t[3] != 1 for t in resp["tasks"]):
        raise AssertionError(f"model: counts under a valid schedule differ from the demanded ones (C03_count_calls / C03_count_tasks): {json.dumps(case)[:1500]}")
    seen = {}
    for c in obs["log"]:
        if c[2] == "call":
            seen[c[0]] = seen.get(c[0], 0) + 1
    for name, _, dem in resp["counts"]:
        ctx.count("count:mapped" if dem != 1 or is_mapped(next(f for f in desc["funcs"] if f["name"] == name)) else "count:single")
        if seen.get(name, 0) != dem:
            ctx.violation(case, f"`{name}` was invoked {seen.get(name, 0)} times; once per output index (once in total without MapSpec) is {dem}",
                          impl={"calls_per_function": seen}, model={"demanded": {n: d for n, _, d in resp["counts"]}})
            return False
    by_label = {olabel(f): f for f in desc["funcs"]}
    want = {}
    for g, j, k, _ in resp["tasks"]:
        key = (g, model["gens"][g][j], k)
        want[key] = want.get(key, 0) + 1
    got = {}
    for g, b in enumerate(obs["schedule"]):
        for lab, idx in b["labels"]:
            key = (g, by_label[lab]["name"] if lab in by_label else lab, idx or 0)
            got[key] = got.get(key, 0) + 1
    if got != want:
        extra = sorted(k for k in set(got) | set(want) if got.get(k, 0) != want.get(k, 0))[:6]
        ctx.violation(case, f"the futures handed to the executors are not exactly one per (function, output index): (generation, function, index) {extra} "
                      f"submitted {[got.get(k, 0) for k in extra]} times, demanded {[want.get(k, 0) for k in extra]}",
                      impl={"submitted": sorted([list(k), v] for k, v in got.items())}, model={"tasks": resp["tasks"]})
        return False
    return True


def judge_part_counts(ctx, case, obs, mp, what):
    """Partial / resumed / async runs: per function the number of invocations in the real call log against `demandedP` (one per selected
    missing index; an un-mapped function once unless its outputs are stored) — `C03_part_count_calls`.  True when clean."""
    ctx.count("part-counts-checked")
    if any(got != dem for _, got, dem in mp["counts"]):
        raise AssertionError(f"model: counts of a scheduled partial run differ from the demanded ones (C03_part_count_calls): {json.dumps(case)[:1500]}")
    seen = {}
    for c in obs["log"]:
        if c[2] == "call":
            seen[c[0]] = seen.get(c[0], 0) + 1
    for name, _, dem in mp["counts"]:
        ctx.count("part-count:" + ("zero" if dem == 0 else "one" if dem == 1 else "many"))
        if seen.get(name, 0) != dem:
            ctx.violation(case, f"{what}: `{name}` was invoked {seen.get(name, 0)} times; once per selected index that is not stored yet (an un-mapped "
                          f"function: once unless its outputs are stored) is {dem}", impl={"calls_per_function": seen},
                          model={"demanded": {n: d for n, _, d in mp["counts"]}})
            return False
    return True


# ------------------------------------------------------------------------------------------------ executor selection (Lean rule)
EXEC_JOBS: list = []


def exec_arg(desc, cfg):
    """The `executor=` argument of a configuration as the driver's `exec.select` wants it: executors are named by their tag."""
    kinds = cfg["kinds"]
    if list(kinds) == [""]:
        return "E:"
    by_name = {f["name"]: f for f in desc["funcs"]}
    out = []
    for k in kinds:
        if k == "":
            out.append(["", "E:"])
        else:
            f = by_name[k]
            out.append([f["outputs"][0] if len(f["outputs"]) == 1 else list(f["outputs"]), "E:" + olabel(f)])
    return out


def exec_request(desc, cfg, model, parallel=True, executor=None):
    by_name = {f["name"]: f for f in desc["funcs"]}
    return {"m": "exec.select", "a": {"parallel": parallel, "gens": [[by_name[n]["outputs"] for n in g] for g in model["gens"]],
                                      "executor": exec_arg(desc, cfg) if executor is None else executor}}


def judge_exec(ctx, case, tags, resp):
    ctx.count("executor-rule-checked")
    if "choices" not in resp:
        ctx.violation(case, f"the model refuses the executor configuration of a run that succeeded: {resp}", found_input=False,
                      item="correspondence:executor-selection")
        return
    want = {"+".join(outs): ch for gen in resp["choices"] for outs, ch in gen}
    for tag, (lab, _) in tags:
        ch = want.get(lab)
        if ch is None or ch.get("submit") != "E:" + tag:
            ctx.violation(case, f"task of `{lab}` was submitted to executor `{tag or 'default'}`, the rule (_executor_for_func) says {ch}",
                          found_input=False, item="correspondence:executor-selection")
            return


# ------------------------------------------------------------------------------------------------ histories: fixed_indices, cleanup=False
def axes_of(desc):
    names = []
    for f in desc["funcs"]:
        if is_mapped(f):
            for a in f["mapspec"]["inputs"] + f["mapspec"]["outputs"]:
                for x in a[1]:
                    if x is not None and x not in names:
                        names.append(x)
    return names


def free_axes(desc):
    """Axes that no function reduces (an approximation of `_reduced_axes`: arrays taken whole or sliced with ':')."""
    carried = {}
    for f in desc["funcs"]:
        if f["mapspec"]:
            for name, ax in f["mapspec"]["inputs"] + f["mapspec"]["outputs"]:
                cur = carried.setdefault(name, [None] * len(ax))
                for q, x in enumerate(ax):
                    if q < len(cur) and x is not None:
                        cur[q] = x
    reduced = set()
    for f in desc["funcs"]:
        specs = {n: ax for n, ax in (f["mapspec"]["inputs"] if f["mapspec"] else [])}
        for p, _ in f["params"]:
            if p in carried:
                if p not in specs:
                    reduced.update(x for x in carried[p] if x)
                else:
                    reduced.update(c for c, x in zip(carried[p], specs[p]) if x is None and c)
    return [a for a in axes_of(desc) if a not in reduced]


def gen_history(rng, desc, thorough):
    """A sequence of `map(fixed_indices=…, cleanup=False, parallel=True)` runs on one folder, ending with a full run."""
    axes = [a for a in axes_of(desc) if desc["sizes"].get(a, 1) >= 1]
    free = [a for a in free_axes(desc) if a in axes]
    if free and rng.random() < 0.85:          # mostly axes the validation accepts; sometimes a reduced one (refused by both sides)
        axes = free
    parts = []
    shape = rng.choice(["fix-then-full", "fix-then-full", "two-then-full", "full-then-full", "slice-then-full"]) if axes else "full-then-full"
    if shape == "full-then-full":
        parts = [None, None]
    else:
        a = rng.choice(axes)
        n = desc["sizes"].get(a, 1)
        if shape == "fix-then-full":
            parts = [[[a, rng.randrange(n)]], None]
        elif shape == "two-then-full":
            ks = rng.sample(range(n), min(n, 2))
            parts = [[[a, k]] for k in ks] + [None]
        else:
            m = rng.randrange(n + 1)
            sl = rng.choice([[None, m, None], [m, None, None], [None, None, 2], [None, None, -1]])
            parts = [[[a, {"sl": sl}]], None]
        if len(axes) > 1 and rng.random() < 0.3:       # a second fixed axis in the first part
            b = rng.choice([x for x in axes if x != a])
            parts[0] = parts[0] + [[b, rng.randrange(desc["sizes"].get(b, 1))]]
    kind = rng.choice(["perm", "perm", "perm", "perm", "thread"])
    split = rng.random() < 0.3
    return {"parts": parts, "entry": rng.choice(["map", "map", "async"]),
            "kinds": split_kinds(rng, desc, kind, kind) if split else {"": kind},
            "storage": storages_for(rng, desc, rng.randrange(5), False), "order_seed": rng.randrange(10**9),
            "workers": rng.randint(2, 4), "delay": rng.randrange(10**6) if kind == "thread" else None}


def part_cfg(hist, k, fixed):
    cfg = {"kinds": hist["kinds"], "entry": hist["entry"], "storage": hist["storage"], "folder": True, "cleanup": False, "fixed": fixed,
           "order_seed": hist["order_seed"] * 7 + k, "reload": False, "workers": hist.get("workers", 3)}
    if hist.get("delay") is not None:
        cfg["delay"] = hist["delay"] + k
    if hist.get("orders") and k < len(hist["orders"]):     # replay: the recorded schedules
        cfg["orders"] = hist["orders"][k]
    return cfg


def run_history(desc, hist, base, parallel=True):
    """The parts in order on one fresh folder (a fresh `Pipeline` object); one observation per part, stopping at the first failure."""
    built = Built(desc)
    folder = tempfile.mkdtemp(dir=base)
    out = []
    try:
        for k, fixed in enumerate(hist["parts"]):
            if parallel:
                obs = run_impl(desc, part_cfg(hist, k, fixed), base, built, folder=os.path.join(folder, "run"))
            else:
                obs = run_seq_part(desc, hist, fixed, built, os.path.join(folder, "run"))
            out.append(obs)
            if "err" in obs or obs.get("hang"):
                break
        return out
    finally:
        shutil.rmtree(folder, ignore_errors=True)


def run_seq_part(desc, hist, fixed, built, folder):
    """The same part with `parallel=False` (the sequential runner of the real code): the reference for classification."""
    obs = {"outputs": {}, "stored": {}, "present": {}}
    built.log.path = None
    built.log.calls.clear()
    try:
        res = mapgen.quiet(built.p.map, mapgen.py_inputs(desc), run_folder=folder, internal_shapes=mapgen.internal_shapes_arg(desc),
                           parallel=False, storage=storage_arg(desc, hist), cleanup=False, fixed_indices=fixed_py(fixed))
        for name, r in res.items():
            obs["outputs"][name] = terms.enc(r.output)
            st = r.store
            obs["present"][name] = [i for i, m in enumerate(st.mask_linear()) if not m] if hasattr(st, "mask_linear") else None
            if hasattr(st, "to_array"):
                obs["stored"][name] = terms.enc(st.to_array())
            elif hasattr(st, "value"):
                obs["stored"][name] = terms.enc(st.value)
            else:
                from pipefunc._utils import load
                obs["stored"][name] = terms.enc(load(st))
        obs["log"] = built.log.read()
    except Exception as e:  # noqa: BLE001
        obs.update(err=exc_enum(e), at="map", msg=str(e)[:200], log=built.log.read())
    return obs


def part_orders(desc, model, obs):
    """The observed schedule of one part as per-generation [[function name, external index]] lists; None when a batch is
    not (part of) exactly one generation or a generation was released in several batches."""
    by_label = {olabel(f): f for f in desc["funcs"]}
    gen_of = {n: g for g, names in enumerate(model["gens"]) for n in names}
    orders = [[] for _ in model["gens"]]
    seen = set()
    for b in obs.get("schedule") or []:
        gs = {gen_of[by_label[lab]["name"]] for lab, _ in b["labels"] if lab in by_label}
        if len(gs) != 1 or any(lab not in by_label for lab, _ in b["labels"]):
            return None
        g = gs.pop()
        if g in seen:
            return None
        seen.add(g)
        orders[g] = [[by_label[b["labels"][i][0]]["name"], b["labels"][i][1] or 0] for i in b["order"]]
    return orders


def history_request(desc, hist, obs_list, model):
    dump_sub = [o for f in desc["funcs"] for o in f["outputs"] if DUMP_SUB[storage_of(desc, hist, f)]]
    perm = set(hist["kinds"].values()) == {"perm"}
    parts, replayed = [], []
    for fixed, obs in zip(hist["parts"], obs_list):
        orders = part_orders(desc, model, obs) if perm and "err" not in obs and not obs.get("hang") else None
        replayed.append(orders is not None)
        parts.append({"fixed": fixed, "orders": orders} if orders is not None else {"fixed": fixed})
    a = mapgen.model_request(desc)
    a.update(dump_sub=dump_sub, mode="gather" if hist["entry"] == "async" else "sync", parts=parts)
    return {"m": "part.sched", "a": a}, replayed


def model_part(r):
    if "err" in r:
        return {"err": r["err"], "msg": r.get("why")}
    return {"calls": sorted((canon_call(n, kw) for n, kw in r["calls"]), key=repr), "present": dict(r["present"]),
            "stored": {k: terms.canon(v) for k, v in r["stored"]}, "outputs": {k: terms.canon(v) for k, v in r["outputs"]}}


def part_diff(obs, want):
    """First difference between an observed part and a reference part (model or sequential real run); None when equal."""
    if ("err" in obs) != ("err" in want):
        return f"one fails ({obs.get('err') or want.get('err')}: {(obs.get('msg') or want.get('msg') or '')[:80]}), the other does not"
    if "err" in obs:
        return None if obs["err"] == want["err"] else f"fails with {obs['err']}, reference {want['err']}"
    for key in ("outputs", "stored", "present"):
        for name, v in want[key].items():
            if obs[key].get(name) != v:
                return f"{key} of `{name}` differ"
    calls = sorted(([c[0], c[1]] for c in obs["log"] if c[2] == "call"), key=repr)
    if calls != want["calls"]:
        return "call multisets differ (an index that is stored or not selected was computed, or a missing selected one was not)"
    return None


def judge_history(ctx, desc, hist, obs_list, model, resp, replayed, base):
    sched = [o.get("schedule") for o in obs_list]
    case = {"desc": desc, "history": dict(hist, orders=[[b["order"] for b in (sc or [])] for sc in sched])}
    ctx.count(f"history:{len(hist['parts'])}-parts/{hist['entry']}/{'+'.join(sorted(set(hist['kinds'].values())))}")
    ctx.count("history-storage:" + storage_key(hist))
    mparts = resp["parts"]
    nontrivial = False
    for k, obs in enumerate(obs_list):
        pcase = dict(case, part=k)
        if obs.get("hang"):
            ctx.record(pcase, nontrivial=True)
            ctx.violation(pcase, "a partial / resumed parallel run hangs under this schedule", impl={"log": obs.get("log")})
            return
        if k >= len(mparts):
            break
        mp = mparts[k]
        if "not_perm" in mp:
            ctx.record(pcase, nontrivial=True)
            ref = model_part(mp["seq"])
            d = part_diff(obs, ref)
            ctx.violation(pcase, "the tasks handed to the executors are not one per selected missing index (plus one per un-mapped function)"
                          + (f"; and {d}" if d else ""), found_input=bool(d), item=None if d else "correspondence:submitted-tasks-partial",
                          impl={"schedule": obs.get("schedule")}, model={"not_perm": mp["not_perm"]})
            return
        if not resp.get("unique_outputs") or not mp.get("equal") or not mp.get("modes_agree") or \
                ("err" not in mp["part"] and not (mp.get("barrier") and mp.get("ops_equal"))):
            raise AssertionError(f"model: scheduled partial run differs from the sequential one / sync and gather disagree / operation-level run differs: {json.dumps(pcase)[:1500]}")
        want = model_part(mp["part"])
        d = part_diff(obs, want)
        ntasks = sum(len(b["order"]) for b in (obs.get("schedule") or []))
        nontrivial = nontrivial or ntasks >= 2
        ctx.record(pcase, nontrivial=ntasks >= 2)
        if "err" in want and d is None:
            ctx.count("history:refused-by-both")
            return
        if d is not None:
            # classification: does the *real* sequential runner agree with the real parallel one?
            seq = run_history(desc, hist, base, parallel=False)
            sref = None
            if k < len(seq):
                so = seq[k]
                sref = so if "err" in so else dict(so, calls=sorted(([c[0], c[1]] for c in so["log"] if c[2] == "call"), key=repr))
            d2 = part_diff(obs, sref) if sref is not None else "the sequential history stops earlier"
            if d2 is not None:
                ctx.violation(pcase, f"part {k} of a history run in parallel differs from the same history run sequentially (real code): {d2}",
                              impl={k2: obs.get(k2) for k2 in ("outputs", "stored", "present", "err", "msg")},
                              model={k2: (sref or {}).get(k2) for k2 in ("outputs", "stored", "present", "err", "msg")})
            else:
                hc = history_clause(hist, obs_list, model)        # search nearby: does the property itself fail on this history?
                if hc is not None:
                    ctx.violation(case, hc[0] + f" [first difference with the model: part {k}: {d}]", impl=hc[1], model=hc[2])
                else:
                    ctx.violation(pcase, f"part {k}: {d} (parallel and sequential real runs agree with each other, not with the model)", found_input=False,
                                  item="correspondence:partial-run-model", impl={k2: obs.get(k2) for k2 in ("outputs", "stored", "present", "err")}, model=want)
            return
        if "err" in obs:
            return
        if not judge_part_counts(ctx, pcase, obs, mp, f"part {k}"):
            return
        # once per selected missing index is `calls == want["calls"]` above; barrier inside the part
        gen_of = {n: g for g, names in enumerate(model["gens"]) for n in names}
        expected = [0] * len(model["gens"])
        for n, _ in want["calls"]:
            expected[gen_of[n]] += 1
        done = [0] * len(model["gens"])
        for n, _, phase, _ in obs["log"]:
            g = gen_of[n]
            if phase == "done":
                done[g] += 1
            elif any(done[h] != expected[h] for h in range(g)):
                ctx.violation(pcase, f"`{n}` (generation {g}) was invoked before every task of the earlier generations had completed (partial run)",
                              impl={"log": [[c[0], c[2]] for c in obs["log"]]}, model={"gens": model["gens"]})
                return
        EXEC_JOBS.append((pcase, obs["tags"], exec_request(desc, hist, model)))
        by_out = {o: f for f in desc["funcs"] for o in f["outputs"]}
        want_d = sorted([o, w] for tr in mp["trace"] for o, idx, w in tr["dumps"] if idx is not None and is_mapped(by_out[o]))
        got_d = sorted([x[0], x[2]] for x in obs["dumps"])
        if got_d != want_d or len({(x[0], x[1]) for x in obs["dumps"]}) != len(obs["dumps"]):
            ctx.violation(pcase, "partial run: an element was not dumped exactly once (worker iff dump_in_subprocess, else parent), or a stored one was dumped again",
                          found_input=False, item="correspondence:single-dump-partial", impl={"dumps": obs["dumps"]}, model={"dumps": want_d})
            return
        if replayed[k]:
            ctx.count("history-part-replayed")
            want_c = [canon_call(n, kw) for tr in mp["trace"] for n, kw in tr["calls"]]
            got_c = [[c[0], c[1]] for c in obs["log"] if c[2] == "call"]
            if got_c != want_c:
                ctx.violation(pcase, "partial run: execution-order call log differs from the model played on the same schedule", found_input=False,
                              item="correspondence:execution-order-partial", impl={"calls": got_c}, model={"calls": want_c})
                return
    # the property's own clause on the whole history
    hc = history_clause(hist, obs_list, model)
    if hc is not None:
        ctx.violation(case, hc[0], impl=hc[1], model=hc[2])


def history_clause(hist, obs_list, model):
    """After the final full run of a history the returned results and the stored data are those of an uninterrupted run, and
    over all parts every function was invoked exactly once per output index.  Returns (what, impl, model) or None."""
    if not (len(obs_list) == len(hist["parts"]) and hist["parts"][-1] is None and all("err" not in o and not o.get("hang") for o in obs_list)):
        return None
    last = obs_list[-1]
    for name, want in model["stored"].items():
        if last["stored"].get(name) != want:
            return (f"after the final full run of the history, stored `{name}` differs from the stored data of an uninterrupted run",
                    {"stored": last["stored"].get(name)}, {"stored": want})
    for name, want in model["outputs"].items():
        if last["outputs"].get(name) != want:
            return (f"the final full run of the history returns `{name}` different from what an uninterrupted run returns",
                    {"output": last["outputs"].get(name)}, {"output": want})
    allc = sorted(([c[0], c[1]] for o in obs_list for c in o["log"] if c[2] == "call"), key=repr)
    if allc != model["calls"]:
        return ("over the whole history a function was not invoked exactly once per output index (an element was recomputed or skipped)",
                {"calls": allc}, {"calls": model["calls"]})
    return None


# ------------------------------------------------------------------------------------------------ parity: map vs map_async, same request
def gen_fixed(rng, desc):
    """A `fixed_indices` the validation accepts (axes nobody reduces): an int, a slice, sometimes a second axis; None when there is no such axis."""
    free = [a for a in free_axes(desc) if desc["sizes"].get(a, 1) >= 1]
    if not free:
        return None
    a = rng.choice(free)
    n = desc["sizes"].get(a, 1)
    if rng.random() < 0.55:
        fx = [[a, rng.randrange(n)]]
    else:
        m = rng.randrange(n + 1)
        fx = [[a, {"sl": rng.choice([[None, m, None], [m, None, None], [None, None, 2], [None, None, -1]])}]]
    if len(free) > 1 and rng.random() < 0.3:
        b = rng.choice([x for x in free if x != a])
        fx.append([b, rng.randrange(desc["sizes"].get(b, 1))])
    return fx


def gen_parity(rng, desc):
    kind = rng.choice(["perm", "perm", "perm", "thread"])
    return {"fixed": gen_fixed(rng, desc), "kinds": split_kinds(rng, desc, kind, kind) if rng.random() < 0.3 else {"": kind},
            "storage": storages_for(rng, desc, rng.randrange(6), False), "order_seed": rng.randrange(10**9), "workers": rng.randint(2, 4),
            "delay": rng.randrange(10**6) if kind == "thread" else None}


def parity_cfg(par, entry):
    cfg = {"kinds": par["kinds"], "entry": entry, "storage": par["storage"], "folder": True, "cleanup": True, "fixed": par["fixed"],
           "order_seed": par["order_seed"], "reload": False, "workers": par.get("workers", 3)}
    if par.get("delay") is not None:
        cfg["delay"] = par["delay"]
    return cfg


def run_parity(desc, par, base):
    """The SAME request (pipeline, inputs, fixed_indices, storage, executors, schedule seed) through `Pipeline.map` and through
    `Pipeline.map_async`, each on its own fresh run folder."""
    built = Built(desc)
    return {entry: run_impl(desc, parity_cfg(par, entry), base, built) for entry in ("map", "async")}


def parity_requests(desc, par, obs, model):
    """One `part.sched` request per entry point: a one-part history on an empty folder, awaited `sync` / `gather`, on the observed schedule."""
    out = []
    for entry in ("map", "async"):
        hist = {"parts": [par["fixed"]], "kinds": par["kinds"], "storage": par["storage"], "entry": entry}
        out.append(history_request(desc, hist, [obs[entry]], model)[0])
    return out


def _with_calls(o):
    return o if "err" in o or o.get("hang") else dict(o, calls=sorted(([c[0], c[1]] for c in o["log"] if c[2] == "call"), key=repr))


def judge_parity(ctx, desc, par, obs, model, resps, base):
    """The clause "Pipeline.map and Pipeline.map_async return equal results and leave equal stored data … each function is invoked
    exactly once per output index" evaluated DIRECTLY on the two real runs of the same request (seeded change C03-s4-A: the async driver
    dropped `fixed_indices`), then each run against `PF.SchedP.runPartSched sync | gather`."""
    case = {"desc": desc, "parity": par}
    fx = par["fixed"]
    ctx.count("parity:" + ("full" if fx is None else "+".join("int" if isinstance(sel, int) else "slice" for _, sel in fx))
              + "/" + "+".join(sorted(set(par["kinds"].values()))))
    ctx.count("parity-storage:" + storage_key(par))
    a, b = obs["map"], obs["async"]
    ntasks = max(sum(len(bt["order"]) for bt in (o.get("schedule") or [])) for o in (a, b))
    ctx.record(case, nontrivial=ntasks >= 2)
    for entry, o in obs.items():
        if o.get("hang"):
            ctx.violation(case, f"the run through `{entry}` hangs", impl={"log": o.get("log")})
            return
    if ("err" in a) != ("err" in b):
        bad = a if "err" in a else b
        ctx.violation(case, f"the same request succeeds through one of Pipeline.map / Pipeline.map_async and fails through the other "
                      f"({bad['err']}: {bad.get('msg', '')[:100]})", impl={"map": a.get("err"), "async": b.get("err")})
        return
    if "err" in a:
        ctx.count("parity:refused-by-both")
        if a["err"] != b["err"]:
            ctx.violation(case, f"map fails with {a['err']}, map_async with {b['err']}", found_input=False, item="correspondence:parity-failure-class")
        return
    d = part_diff(b, _with_calls(a))
    if d is not None:
        ctx.violation(case, f"Pipeline.map and Pipeline.map_async differ on the same pipeline, inputs, fixed_indices, storage and schedule seed: {d} "
                      "(compared: returned arrays, stored data, present elements, call multiset; reference = map)",
                      impl={k2: b.get(k2) for k2 in ("outputs", "stored", "present")}, model={k2: a.get(k2) for k2 in ("outputs", "stored", "present")})
        return
    for entry, resp in zip(("map", "async"), resps):
        o = obs[entry]
        mp = resp["parts"][0]
        if "not_perm" in mp:
            ctx.violation(case, f"`{entry}`: the tasks handed to the executors are not one per selected index (plus one per un-mapped function)",
                          found_input=False, item="correspondence:submitted-tasks-partial", impl={"schedule": o.get("schedule")}, model={"not_perm": mp["not_perm"]})
            return
        if not resp.get("unique_outputs") or not mp.get("equal") or not mp.get("modes_agree") or \
                ("err" not in mp["part"] and not (mp.get("barrier") and mp.get("ops_equal"))):
            raise AssertionError(f"model: scheduled partial run differs from the sequential one / sync and gather disagree: {json.dumps(case)[:1500]}")
        d = part_diff(o, model_part(mp["part"]))
        if d is not None:
            folder = tempfile.mkdtemp(dir=base)
            try:
                seq = run_seq_part(desc, {"storage": par["storage"]}, fx, Built(desc), os.path.join(folder, "run"))
            finally:
                shutil.rmtree(folder, ignore_errors=True)
            d2 = part_diff(o, _with_calls(seq))
            if d2 is not None:
                ctx.violation(case, f"the run through `{entry}` differs from the same request run with parallel=False (real code): {d2}",
                              impl={k2: o.get(k2) for k2 in ("outputs", "stored", "present")}, model={k2: seq.get(k2) for k2 in ("outputs", "stored", "present", "err")})
            else:
                ctx.violation(case, f"`{entry}`: {d} (map, map_async and the sequential real run agree with each other, not with the model)", found_input=False,
                              item="correspondence:parity-model", impl={k2: o.get(k2) for k2 in ("outputs", "stored", "present")}, model=model_part(mp["part"]))
            return
        if not judge_part_counts(ctx, case, o, mp, f"through `{entry}`"):
            return
    ctx.count("parity:agree")


# ------------------------------------------------------------------------------------------------ a failing task: sync vs async
def fail_runs(ctx, desc, model, base, built):
    """One call of a mapped function raises.  C03 states nothing about the exception itself (C13 does); what it states and is
    checked here, for `map` and `map_async` under the same schedule: no function is invoked twice for an index, nothing of a
    later generation is invoked, and both entry points fail."""
    rng = ctx.rng
    gens, by_label = plan(desc, model)
    by_name = {f["name"]: f for f in desc["funcs"]}
    gen_of = {n: g for g, names in enumerate(model["gens"]) for n in names}
    cands = [c for c in model["calls"] if is_mapped(by_name[c[0]]) and next(g[olabel(by_name[c[0]])] for g in gens if olabel(by_name[c[0]]) in g) >= 2]
    if not cands:
        return
    cands = [c for c in cands if model["calls"].count(c) == 1] or cands       # a call whose arguments occur once
    target = rng.choice(cands)
    sizes = [sum(g.values()) for g in gens]
    orders = [rng.sample(range(m), m) for m in sizes]
    errs = {}
    for entry in ("map", "async"):
        cfg = {"kinds": {"": "perm"}, "entry": entry, "storage": rng.choice(["dict", "file_array"]), "folder": True, "orders": orders,
               "fail": [target[0], target[1], "Fail"], "reload": False}
        case = {"desc": desc, "cfg": cfg}
        obs = run_impl(desc, cfg, base, built)
        ctx.count("failing-task:" + entry)
        ctx.record(case, nontrivial=True)
        if obs.get("hang"):
            ctx.violation(case, "a run in which one task raises hangs instead of failing", impl={"log": obs.get("log")})
            return
        if "err" not in obs:
            calls = [[c[0], c[1]] for c in obs["log"] if c[2] == "call"]
            if [target[0], target[1]] in calls:
                ctx.violation(case, "a task raised but the run returned results", impl={"outputs": obs.get("outputs")})
            else:
                ctx.skip("the injected failure did not fire (argument encoding)")
            return
        errs[entry] = obs["err"]
        calls = [[c[0], c[1]] for c in obs["log"] if c[2] == "call"]
        if any(calls.count(c) > model["calls"].count(c) for c in calls):
            ctx.violation(case, "in a failing run a function was invoked twice for the same index", impl={"calls": calls})
            return
        late = [c[0] for c in calls if gen_of[c[0]] > gen_of[target[0]]]
        if late:
            ctx.violation(case, f"after a task of generation {gen_of[target[0]]} raised, `{late[0]}` of a later generation was still invoked "
                          "(its inputs are not complete)", impl={"calls": [c[0] for c in calls]})
            return
    if len(errs) == 2 and errs["map"] != errs["async"]:
        ctx.violation({"desc": desc, "fail": target, "orders": orders}, f"map fails with {errs['map']}, map_async with {errs['async']} for the same single failing task",
                      found_input=False, item="correspondence:async-failure-class")


# ------------------------------------------------------------------------------------------------ configurations
def storages_for(rng, desc, k, thorough):
    """The k-th storage assignment for a pipeline (cycled)."""
    names = [f["name"] for f in desc["funcs"]]
    base = ["dict", "file_array", "mix", "dict", "file_array", "mix2"]
    s = base[k % len(base)]
    if s == "mix":
        return {"": "dict", rng.choice(names): "file_array"}
    if s == "mix2":
        pool = ["dict", "file_array", "shared_memory_dict"] if thorough or rng.random() < 0.15 else ["dict", "file_array"]
        return {"": rng.choice(pool), **{n: rng.choice(pool) for n in names if rng.random() < 0.6}}
    return s


def split_kinds(rng, desc, kind_default, kind_other):
    """A different executor per output: some functions get their own executor; sometimes there is no default at all."""
    names = [f["name"] for f in desc["funcs"]]
    if rng.random() < 0.3:
        return {n: (kind_other if rng.random() < 0.5 else kind_default) for n in names}
    own = [n for n in names if rng.random() < 0.5] or [rng.choice(names)]
    return {"": kind_default, **{n: kind_other for n in own}}


def perm_orders(rng, sizes, limit):
    """Schedules for one pipeline: for every generation with <= 5 tasks all its orders (others random), else `limit` samples."""
    out = []
    for g, n in enumerate(sizes):
        if n <= 1:
            continue
        perms = list(itertools.permutations(range(n))) if n <= 5 else [tuple(rng.sample(range(n), n)) for _ in range(limit)]
        for pm in perms:
            out.append([list(pm) if h == g else rng.sample(range(m), m) for h, m in enumerate(sizes)])
    if not out:
        out.append([list(range(m)) for m in sizes])
    return out


def _chain():
    """The design-phase prototype: f0, f1 element-wise over x0 in one generation (6 tasks), f2 zips their results."""
    def fn(name, ins, out):
        ms = {"inputs": [[p, ["i"]] for p in ins], "outputs": [[out, ["i"]]]}
        return {"name": name, "params": [[p, p] for p in ins], "outputs": [out], "mapspec": ms, "mapspec_str": mapgen.spec_str(ms), "autogen": False,
                "ret": None, "internal": None, "defaults": [], "bound": []}
    elems = [{"f": "in", "k": [["n", {"s": "x0"}], ["at", {"arr": [[1], [q]]}]]} for q in range(3)]
    return {"funcs": [fn("f0", ["x0"], "y0"), fn("f1", ["x0"], "y1"), fn("f2", ["y0", "y1"], "y2")],
            "inputs": [["x0", {"arr": [[3], elems]}]], "input_kinds": {"x0": "list"}, "internal": [], "sizes": {"i": 3, "j": 1, "k": 1}}


def _lead_internal():
    """`x0[i] -> y0[j, i]` (the internal axis j BEFORE the external one, both of size 2) consumed element-wise: the stored element
    (external key, internal key) of every backend must be split by the shape mask, not by position (seeded change C03-s1-A)."""
    f0 = {"name": "f0", "params": [["x0", "x0"]], "outputs": ["y0"], "mapspec": {"inputs": [["x0", ["i"]]], "outputs": [["y0", ["j", "i"]]]},
          "mapspec_str": "x0[i] -> y0[j, i]", "autogen": False, "ret": [2], "internal": [2], "defaults": [], "bound": []}
    f1 = {"name": "f1", "params": [["y0", "y0"]], "outputs": ["y1"], "mapspec": {"inputs": [["y0", ["j", "i"]]], "outputs": [["y1", ["j", "i"]]]},
          "mapspec_str": "y0[j, i] -> y1[j, i]", "autogen": False, "ret": None, "internal": None, "defaults": [], "bound": []}
    elems = [{"f": "in", "k": [["n", {"s": "x0"}], ["at", {"arr": [[1], [q]]}]]} for q in range(2)]
    return {"funcs": [f0, f1], "inputs": [["x0", {"arr": [[2], elems]}]], "input_kinds": {"x0": "array"}, "internal": [], "sizes": {"i": 2, "j": 2, "k": 1}}


def _root(name, shape):
    elems = [{"f": "in", "k": [["n", {"s": name}], ["at", {"arr": [[len(ix)], list(ix)]}]]} for ix in itertools.product(*map(range, shape))]
    return [name, {"arr": [list(shape), elems]}]


def _fn(name, ins, outs, ret=None, internal=None):
    ms = {"inputs": [[p, list(ax)] for p, ax in ins], "outputs": [[o, list(ax)] for o, ax in outs]}
    return {"name": name, "params": [[p, p] for p, _ in ins], "outputs": [o for o, _ in outs], "mapspec": ms, "mapspec_str": mapgen.spec_str(ms),
            "autogen": False, "ret": ret, "internal": internal, "defaults": [], "bound": []}


def axis1_family():
    """Pipelines in which an axis that a consumer takes with ':' has LENGTH 1 (seeded change C03-s4-B: `DictArray.__getitem__` squeezed
    it away, `FileArray` kept it): an outer product reduced along either axis, an internal axis of length 1, a length-1 array taken whole
    beside a mapped one, a tuple output.  Every storage backend must hand the consumer an array with the sliced axis still there."""
    out = []
    for ni, nj in ((3, 1), (1, 2), (1, 1), (2, 1)):
        for drop in (1, 0):
            cons_in = ["i", None] if drop == 1 else [None, "j"]
            keep = "i" if drop == 1 else "j"
            out.append({"funcs": [_fn("f0", [("x0", ["i"]), ("x1", ["j"])], [("y0", ["i", "j"])]),
                                  _fn("f1", [("y0", cons_in)], [("y1", [keep])])],
                        "inputs": [_root("x0", [ni]), _root("x1", [nj])], "input_kinds": {"x0": "list", "x1": "array"}, "internal": [],
                        "sizes": {"i": ni, "j": nj, "k": 1}, "axis1": f"outer{ni}x{nj}/drop{drop}"})
    for ni in (2, 1):           # an internal axis of length 1, then reduced with ':'
        out.append({"funcs": [_fn("f0", [("x0", ["i"])], [("y0", ["i", "k"])], ret=[1], internal=[1]),
                              _fn("f1", [("y0", ["i", None])], [("y1", ["i"])])],
                    "inputs": [_root("x0", [ni])], "input_kinds": {"x0": "array"}, "internal": [], "sizes": {"i": ni, "j": 1, "k": 1},
                    "axis1": f"internal1/{ni}"})
        out.append({"funcs": [_fn("f0", [("x0", ["i"])], [("y0", ["k", "i"])], ret=[1], internal=[1]),
                              _fn("f1", [("y0", [None, "i"])], [("y1", ["i"])])],
                    "inputs": [_root("x0", [ni])], "input_kinds": {"x0": "array"}, "internal": [], "sizes": {"i": ni, "j": 1, "k": 1},
                    "axis1": f"lead-internal1/{ni}"})
    # a length-1 array taken with ':' beside a mapped parameter; a tuple output reduced along its length-1 axis
    out.append({"funcs": [_fn("f0", [("x0", ["j"])], [("y0", ["j"])]), _fn("f1", [("y0", [None]), ("x1", ["i"])], [("y1", ["i"])])],
                "inputs": [_root("x0", [1]), _root("x1", [2])], "input_kinds": {"x0": "list", "x1": "list"}, "internal": [],
                "sizes": {"i": 2, "j": 1, "k": 1}, "axis1": "whole1-beside-mapped"})
    out.append({"funcs": [_fn("f0", [("x0", ["i"]), ("x1", ["j"])], [("y0a", ["i", "j"]), ("y0b", ["i", "j"])]),
                          _fn("f1", [("y0a", ["i", None]), ("y0b", ["i", None])], [("y1", ["i"])])],
                "inputs": [_root("x0", [2]), _root("x1", [1])], "input_kinds": {"x0": "array", "x1": "list"}, "internal": [],
                "sizes": {"i": 2, "j": 1, "k": 1}, "axis1": "tuple/outer2x1"})
    return out


AXIS1_STORAGES = ["dict", "file_array", {"": "file_array", "f0": "dict"}, {"": "dict", "f0": "file_array"}, "shared_memory_dict",
                  {"": "file_array", "f0": "shared_memory_dict"}, {"": "shared_memory_dict", "f1": "dict"}]


def axis1_cfgs(rng, desc, sizes, thorough, slot):
    """Every storage backend and the per-output overrides of the producer, under the permuting executor (one fresh random order each),
    a thread pool and map_async.  Quick: the two shared-memory assignments that need a Manager process on one family member per run."""
    cfgs = []
    for k, st in enumerate(AXIS1_STORAGES):
        if "shared_memory_dict" in (st if isinstance(st, str) else "+".join(st.values())) and not (thorough or (slot == 0 and k == 4)):
            continue
        kind = "thread" if k % 3 == 2 else "perm"
        cfg = {"kinds": {"": kind}, "entry": "async" if k % 4 == 3 else "map", "storage": copy.deepcopy(st), "folder": True, "axis1": True,
               "orders": [rng.sample(range(m), m) for m in sizes]}
        if kind == "thread":
            cfg.update(workers=2, delay=rng.randrange(10**6))
        cfgs.append(cfg)
    return cfgs


def siblings_family():
    """Pipelines in which one GENERATION holds two or more mapped functions whose outputs have common linear indices (seeded change
    C03-s5-A: the scratch file of a dump was shared by index i of all outputs of a run folder): the writers of `y0[i]` and `y1[i]`
    may be inside their dumps at the same moment."""
    z = {"input_kinds": {"x0": "list", "x1": "array"}, "internal": []}
    out = [dict(_chain(), siblings="chain3")]
    out.append(dict(z, funcs=[_fn("f0", [("x0", ["i"]), ("x1", ["j"])], [("y0", ["i", "j"])]), _fn("f1", [("x0", ["i"]), ("x1", ["j"])], [("y1", ["i", "j"])]),
                              _fn("f2", [("y0", ["i", "j"]), ("y1", ["i", "j"])], [("y2", ["i", "j"])])],
                    inputs=[_root("x0", [2]), _root("x1", [2])], sizes={"i": 2, "j": 2, "k": 1}, siblings="outer2x2"))
    out.append(dict(z, funcs=[_fn("f0", [("x0", ["i"])], [("y0", ["i"])]), _fn("f1", [("x0", ["i"]), ("x1", ["j"])], [("y1", ["i", "j"])]),
                              _fn("f2", [("y0", ["i"]), ("y1", ["i", None])], [("y2", ["i"])])],
                    inputs=[_root("x0", [2]), _root("x1", [2])], sizes={"i": 2, "j": 2, "k": 1}, siblings="shapes-differ"))
    out.append(dict(z, funcs=[_fn("f0", [("x0", ["i"])], [("y0a", ["i"]), ("y0b", ["i"])]), _fn("f1", [("x0", ["i"])], [("y1", ["i"])]),
                              _fn("f2", [("x0", ["i"])], [("y2", ["i"])]),
                              _fn("f3", [("y0a", ["i"]), ("y0b", ["i"]), ("y1", ["i"]), ("y2", ["i"])], [("y3", ["i"])])],
                    inputs=[_root("x0", [2])], sizes={"i": 2, "j": 1, "k": 1}, siblings="tuple+two"))
    out.append(dict(z, funcs=[_fn("f0", [("x0", ["i"])], [("y0", ["i"])]), _fn("f1", [("y0", ["i"])], [("y1", ["i"])]), _fn("f2", [("y0", ["i"])], [("y2", ["i"])]),
                              _fn("f3", [("y1", ["i"]), ("y2", ["i"])], [("y3", ["i"])])],
                    inputs=[_root("x0", [3])], sizes={"i": 3, "j": 1, "k": 1}, siblings="second-generation"))
    out.append(dict(z, funcs=[_fn("f0", [("x0", ["i"])], [("y0", ["i", "k"])], ret=[2], internal=[2]), _fn("f1", [("x0", ["i"])], [("y1", ["i"])]),
                              _fn("f2", [("y0", ["i", None]), ("y1", ["i"])], [("y2", ["i"])])],
                    inputs=[_root("x0", [3])], sizes={"i": 3, "j": 1, "k": 2}, siblings="internal+plain"))
    return out


def gate_cfgs(rng, desc, sizes, n, siblings=False, k0=0):
    """GATE stream (round 10): a real THREAD pool with as many workers as the largest generation has tasks (at most 8), no delays in
    the user functions; instead every worker is held inside the write step of its dump until all writers of the wave are there
    (c03_permexec.DumpGate): all tasks of a generation complete — and write — at the same moment.  Storage: file_array for every
    output, then mixes that keep a file array; map and map_async."""
    names = [f["name"] for f in desc["funcs"]]
    out = []
    for k in range(k0, k0 + n):
        st = "file_array" if k % 2 == 0 else {"": "file_array", rng.choice(names): rng.choice(["dict", "file_array"])}
        cfg = {"kinds": {"": "thread"}, "entry": "async" if k % 3 == 2 or (k == 1 and rng.random() < 0.5) else "map", "storage": st, "folder": True,
               "workers": max(2, min(max(sizes), 8)), "gate": {"quiet": 0.02}}
        if siblings:
            cfg["siblings"] = True
        out.append(cfg)
    return out


# (desc, cfg) pairs: the prototype pipeline under an interleaved reversed schedule with one executor per output and mixed
# storages; past failures are appended here
CORPUS: list = [(_chain(), {"kinds": {"f0": "perm", "f1": "perm", "f2": "perm"}, "entry": "map", "storage": {"": "dict", "f1": "file_array"},
                            "folder": True, "orders": [[5, 2, 4, 1, 3, 0], [1, 2, 0]]}),
                (_lead_internal(), {"kinds": {"": "perm"}, "entry": "map", "storage": "dict", "folder": True, "orders": [[1, 0], [3, 1, 2, 0]]}),
                (_lead_internal(), {"kinds": {"": "perm"}, "entry": "map", "storage": {"": "file_array", "f0": "dict"}, "folder": True, "orders": [[0, 1], [0, 3, 2, 1]]}),
                # round 9: `y0[i, :] -> y1[i]` over an axis of length 1, producer in a dict (seeded change C03-s4-B), globally and as a per-output override
                (axis1_family()[0], {"kinds": {"": "perm"}, "entry": "map", "storage": "dict", "folder": True, "orders": [[2, 0, 1], [1, 2, 0]]}),
                (axis1_family()[0], {"kinds": {"": "perm"}, "entry": "async", "storage": {"": "file_array", "f0": "dict"}, "folder": True,
                                     "orders": [[0, 2, 1], [2, 1, 0]]}),
                # round 10: f0 and f1 of one generation write y0[i] and y1[i] at the same moment (seeded change C03-s5-A)
                (_chain(), {"kinds": {"": "thread"}, "entry": "map", "storage": "file_array", "folder": True, "workers": 6, "gate": {"quiet": 0.02}})]


MALFORMED = ["seq+executor", "seq+dict", "seq+empty-dict", "par+empty-dict", "no-default", "no-default", "tuple-part-key", "tuple-part-key"]


N_QUICK, N_HIST_QUICK = 12, 12


MATRIX_DONE = [0]


def process_cfgs(rng, desc, di, thorough):
    """Real process pools.  Measured on this machine: a `map` under a 2-3 worker ProcessPoolExecutor costs ~0.05 s (fork), under
    shared_memory_dict ~0.3 s (a Manager process per array) — so quick affords three process-pool runs per pipeline (alone,
    mixed with a thread pool per output, through map_async) and shared memory on every fourth pipeline; thorough adds, for
    the first small pipelines, the full per-output storage x per-output executor matrix."""
    out = []
    plain = ["file_array", "dict", storages_for(rng, desc, 2, False)]
    for k in range(4 if thorough else 3):
        kinds = {"": "process"} if k % 2 == 0 else split_kinds(rng, desc, "process", "thread")
        st = ["file_array", "dict", "shared_memory_dict", storages_for(rng, desc, 5, True)][k % 4] if thorough else plain[(k + di) % 3]
        out.append({"kinds": kinds, "entry": "async" if k == (3 if thorough else 2) else "map", "storage": st, "folder": True,
                    "workers": rng.randint(2, 3), "delay": rng.randrange(10**6), "max_delay": 0.003})
    if not thorough and di % 4 == 1:
        out.append({"kinds": {"": "process"}, "entry": "map", "storage": "shared_memory_dict", "folder": True,
                    "workers": 2, "delay": rng.randrange(10**6), "max_delay": 0.003})
    if thorough and len(desc["funcs"]) <= 3 and MATRIX_DONE[0] < 8:
        MATRIX_DONE[0] += 1
        out += matrix_cfgs(rng, desc)
    return out


def matrix_cfgs(rng, desc):
    """Every assignment of (storage, executor) to the functions of a small pipeline: {dict, file_array, shared_memory_dict} x
    {thread, process} per output for <= 2 functions (36 runs), {dict, file_array} x {thread, process} for 3 (64 runs)."""
    names = [f["name"] for f in desc["funcs"]]
    sts = ["dict", "file_array", "shared_memory_dict"] if len(names) <= 2 else ["dict", "file_array"]
    cells = [(s_, e) for s_ in sts for e in ("thread", "process")]
    out = []
    for combo in itertools.product(cells, repeat=len(names)):
        out.append({"kinds": {n: e for n, (_, e) in zip(names, combo)}, "entry": "map", "matrix": True,
                    "storage": {n: s_ for n, (s_, _) in zip(names, combo)} | {"": "dict"}, "folder": True,
                    "workers": 2, "delay": rng.randrange(10**6), "max_delay": 0.002})
    return out


def _hist_chain():
    d = _chain()
    return d


# (desc, history): the prototype pipeline, first `i = 1` under one executor per output, then the full run, async, mixed storages
HISTORY_CORPUS: list = [(_hist_chain(), {"parts": [[["i", 1]], None], "entry": "async", "kinds": {"f0": "perm", "f1": "perm", "f2": "perm"},
                                         "storage": {"": "dict", "f1": "file_array"}, "order_seed": 7, "workers": 2, "delay": None})]


def malformed_cases(ctx):
    """Executor configurations the runner must refuse (the malformed stream): generated up front so that their schedule-free
    models come with the first driver batch."""
    rng, out = ctx.rng, []
    for _ in range(ctx.n(8, 60)):
        which = rng.choice(MALFORMED)
        desc = mapgen.gen_case(rng, max_funcs=rng.choice([2, 3, 4]), p_tuple=0.6 if which == "tuple-part-key" else 0.2)
        if which == "tuple-part-key" and not any(len(f["outputs"]) > 1 for f in desc["funcs"]):
            which = "no-default"
        if which == "no-default" and len(desc["funcs"]) < 2:
            which = "par+empty-dict"
        out.append((desc, which))
    return out


def run_malformed(ctx, desc, which, model, base):
    """Returns (case, observation, `exec.select` request)."""
    rng = ctx.rng
    log = px.PLog(os.path.join(base, f"mal{rng.randrange(10**9)}.log"))
    p, _ = mapgen.build(desc, log=log)
    core = px.PermCore(lambda n, b: list(range(n)), debounce=None)      # queued tasks of a refused generation never run
    ex = lambda: px.PermExecutor(core)                                     # noqa: E731
    parallel = not which.startswith("seq")
    if which == "seq+executor":
        arg, marg = ex(), "E:"
    elif which == "seq+dict":
        arg, marg = {"": ex()}, [["", "E:"]]
    elif which in ("seq+empty-dict", "par+empty-dict"):
        arg, marg = {}, []
    else:
        funcs = list(desc["funcs"])
        if which == "tuple-part-key":
            t = rng.choice([f for f in funcs if len(f["outputs"]) > 1])
            covered = [f for f in funcs if f is not t]
            arg = {out_key(f): ex() for f in covered}
            marg = [[f["outputs"][0] if len(f["outputs"]) == 1 else list(f["outputs"]), "E:"] for f in covered]
            o = rng.choice(t["outputs"])                      # one *name* of the tuple: does not cover the function
            arg[o] = ex()
            marg.append([o, "E:"])
        else:
            k = rng.randrange(0, len(funcs))                  # a proper subset, possibly empty … but never an empty dict
            covered = rng.sample(funcs, k) or [rng.choice(funcs)]
            if len(covered) == len(funcs):
                covered = covered[:-1]
            arg = {out_key(f): ex() for f in covered}
            marg = [[f["outputs"][0] if len(f["outputs"]) == 1 else list(f["outputs"]), "E:"] for f in covered]
    case = {"desc": desc, "malformed": which, "executor_keys": marg, "parallel": parallel}
    obs = {}
    try:
        status, val = px.run_with_watchdog(lambda: mapgen.quiet(p.map, mapgen.py_inputs(desc), internal_shapes=mapgen.internal_shapes_arg(desc),
                                                                parallel=parallel, executor=arg, storage="dict"), 20)
        if status == "hang":
            obs["hang"] = True
        elif status == "exc":
            obs.update(err=exc_enum(val), msg=str(val)[:160])
    except Exception as e:  # noqa: BLE001
        obs.update(err=exc_enum(e), msg=str(e)[:160])
    obs["calls"] = sorted(([c[0], c[1]] for c in log.read() if c[2] == "call"), key=repr)
    return case, obs, exec_request(desc, None, model, parallel=parallel, executor=marg)


def judge_malformed(ctx, case, obs, model, resp):
    ctx.count("malformed:" + case["malformed"])
    ctx.record(case, nontrivial=False)
    if obs.get("hang"):
        ctx.violation(case, "a refused executor configuration hangs instead of raising")
        return
    if "choices" in resp:
        ctx.count("malformed:accepted-by-rule")
        if "err" in obs:
            ctx.violation(case, f"the rule accepts this executor configuration, the run fails with {obs['err']}: {obs.get('msg')}", found_input=False,
                          item="correspondence:malformed-executor")
        return
    if "err" not in obs:
        ctx.violation(case, "an executor configuration that names no executor for an output is accepted")
        return
    if obs["err"] != "ValueError":
        ctx.violation(case, f"refused with {obs['err']} instead of ValueError", found_input=False, item="correspondence:malformed-executor")
        return
    gen_of = {n: g for g, names in enumerate(model["gens"]) for n in names}
    g = 0 if resp["at"] == "prepare" else resp["gen"]
    want = [c for c in model["calls"] if gen_of[c[0]] < g]
    if resp["at"] == "prepare" and obs["calls"]:
        ctx.violation(case, "user code ran although the request was refused")
    elif obs["calls"] != want:
        ctx.violation(case, f"refused when generation {g} was submitted, but the calls made before are not exactly those of the generations before it",
                      found_input=False, item="correspondence:malformed-executor", impl={"calls": obs["calls"]}, model={"calls": want})


def scratch_root():
    """Run folders hold one small file per element: use the memory-backed tmpfs when there is one."""
    return "/dev/shm" if os.path.isdir("/dev/shm") and os.access("/dev/shm", os.W_OK) else None


def run(ctx):
    rng = ctx.rng
    thorough = ctx.tier == "thorough"
    _install_dump_hook()
    px.install_gate_hook()
    EXEC_JOBS.clear()
    MATRIX_DONE[0] = 0
    base = tempfile.mkdtemp(prefix="verif-c03-", dir=scratch_root())
    try:
        descs = [copy.deepcopy(d) for d, _ in CORPUS]
        ncorp = len(descs)
        kinds = ["elem", "elem", "elem", "outer", "outer", "partial", "partial", "full", "internal", "internal", "gen", "scalar", "autogen"]
        for _ in range(ctx.n(N_QUICK, 90)):
            while True:      # mostly pipelines in which some function is mapped over >= 2 indices; a few trivial ones
                d = mapgen.gen_case(rng, max_funcs=rng.choice([2, 3, 4, 5]), kinds=kinds, max_size=rng.choice([2, 3, 3, 4, 5]))
                if approx_tasks(d) >= 2 or rng.random() < 0.1:
                    break
            descs.append(d)
        fam = axis1_family()                       # round 9: a ':'-sliced axis of length 1 under every storage backend
        axis1_from = len(descs)
        descs += fam if thorough else rng.sample(fam, 2)
        sfam = siblings_family()                   # round 10: two mapped functions of one generation writing the same index together
        sib_from = len(descs)
        descs += sfam if thorough else rng.sample(sfam, 3)
        hist_descs = [copy.deepcopy(d) for d, _ in HISTORY_CORPUS]
        for _ in range(ctx.n(N_HIST_QUICK, 120)):
            while True:
                d = mapgen.gen_case(rng, max_funcs=rng.choice([2, 3, 4]), kinds=kinds, max_size=rng.choice([2, 3, 3, 4]))
                if approx_tasks(d) >= 2 or rng.random() < 0.1:
                    break
            hist_descs.append(d)
        mal = malformed_cases(ctx)
        all_models = [model_obs(r["r"]) for r in ctx.lean([{"m": "map.run", "a": mapgen.model_request(d)}
                                                           for d in descs + hist_descs + [m[0] for m in mal]], driver="C01")]
        models = all_models[:len(descs)]
        hist_models = all_models[len(descs):len(descs) + len(hist_descs)]
        mal_models = all_models[len(descs) + len(hist_descs):]
        sched_jobs, hist_jobs, mal_jobs, par_jobs, hangs = [], [], [], [], 0
        for di, (desc, model) in enumerate(zip(descs, models)):
            if "err" in model:
                raise AssertionError(f"model refuses a generated case: {model} {desc}")
            gens, _ = plan(desc, model)
            sizes = [sum(g.values()) for g in gens]
            ctx.count(f"generation-size:{min(max(sizes), 9)}{'+' if max(sizes) >= 9 else ''}")
            cfgs = []
            if di < ncorp:
                cfgs.append(copy.deepcopy(CORPUS[di][1]))
            if di >= sib_from:                # the siblings family runs under the GATE stream only
                ctx.count("siblings:" + desc["siblings"])
                built = Built(desc)
                for cfg in gate_cfgs(rng, desc, sizes, 4 if thorough else 2, siblings=True):
                    if hangs < 3:
                        obs = run_impl(desc, cfg, base, built)
                        hangs += bool(obs.get("hang"))
                        judge(ctx, desc, cfg, obs, model)
                continue
            if di >= axis1_from:
                ctx.count("axis1:" + desc["axis1"].split("/")[0].rstrip("0123456789x"))
                cfgs += axis1_cfgs(rng, desc, sizes, thorough, di - axis1_from)
            # (a) the permuting executor
            for k, orders in enumerate(perm_orders(rng, sizes, 40 if thorough else 10)):
                split = rng.random() < 0.25
                cfgs.append({"kinds": split_kinds(rng, desc, "perm", "perm") if split else {"": "perm"}, "entry": "map",
                             "storage": storages_for(rng, desc, k, thorough), "folder": k % 4 != 3, "orders": orders})
            for cfg in cfgs:                      # dict/mix storages need no folder; file_array and shared memory do
                if not cfg.get("folder", True) and storage_key(cfg) != "dict":
                    cfg["folder"] = True
            # shared memory under the permuting executor (slow: a Manager process per array)
            for _ in range(3 if thorough else (1 if di % 3 == 0 else 0)):
                cfgs.append({"kinds": {"": "perm"}, "entry": "map", "storage": "shared_memory_dict", "folder": True,
                             "orders": [rng.sample(range(m), m) for m in sizes]})
            # (d) map_async under the debounced permuting executor
            for k in range(4 if thorough else 1):
                cfgs.append({"kinds": split_kinds(rng, desc, "perm", "perm") if k % 2 else {"": "perm"}, "entry": "async",
                             "storage": storages_for(rng, desc, rng.randrange(6), thorough), "folder": True,
                             "orders": [rng.sample(range(m), m) for m in sizes]})
            # (b), (c) real pools with seeded delays
            for k in range(8 if thorough else 3):
                cfgs.append({"kinds": split_kinds(rng, desc, "thread", "thread") if k % 3 == 2 else {"": "thread"},
                             "entry": "async" if (k % 4 == 3 or (k == 1 and di % 3 == 0)) else "map", "storage": storages_for(rng, desc, k, thorough), "folder": True,
                             "workers": rng.randint(2, 5), "delay": rng.randrange(10**6)})
            cfgs += gate_cfgs(rng, desc, sizes, 2 if thorough else 1, k0=di)
            cfgs += process_cfgs(rng, desc, di, thorough)
            if not thorough:                      # quick: `load_outputs` (a full RunInfo.load) on every third run only
                for k, cfg in enumerate(cfgs):
                    cfg["reload"] = k % 3 == 0
            replayed = 0
            built = Built(desc)
            for cfg in cfgs:
                if hangs >= 3:           # every further run would cost a watchdog period: three replays are enough
                    ctx.skip("not run after three hangs")
                    continue
                obs = run_impl(desc, cfg, base, built)
                if obs.get("hang") and (set(cfg["kinds"].values()) != {"perm"} or "shared_memory_dict" in storage_key(cfg)):
                    # real pools and Manager processes fork: re-run once; only a hang that repeats is attributed to the run
                    ctx.count("hang-rerun")
                    obs = run_impl(desc, cfg, base, built)
                    if not obs.get("hang"):
                        ctx.skip("hang under a real pool / Manager did not repeat (not reported)")
                hangs += bool(obs.get("hang"))
                clean = judge(ctx, desc, cfg, obs, model)
                if clean and set(cfg["kinds"].values()) == {"perm"} and replayed < (6 if thorough else 4):
                    req = sched_request(desc, cfg, obs, model)
                    if req is None and (cfg["entry"] == "async" or obs.get("timer_flushes")):
                        ctx.skip("a timer released part of a generation (slow parent); schedule not replayed on the model")
                    elif req is None:
                        ctx.violation({"desc": desc, "cfg": cfg, "schedule": obs["schedule"]},
                                      "the batches handed to the executor are not the model's generations", found_input=False,
                                      item="correspondence:generations", impl={"schedule": obs["schedule"]}, model={"plan": gens})
                    else:
                        replayed += 1
                        sched_jobs.append((desc, cfg, obs, model, req))
            # a failing task under `map` and `map_async`
            if hangs < 3 and (thorough or di % 2 == 0):
                fail_runs(ctx, desc, model, base, built)
        # histories: fixed_indices / cleanup=False under schedules
        for hi, (desc, model) in enumerate(zip(hist_descs, hist_models)):
            if "err" in model:
                raise AssertionError(f"model refuses a generated case: {model} {desc}")
            hists = [copy.deepcopy(HISTORY_CORPUS[hi][1])] if hi < len(HISTORY_CORPUS) else []
            hists += [gen_history(rng, desc, thorough) for _ in range(3 if thorough else 1)]
            for hist in hists:
                if hangs >= 3:
                    ctx.skip("not run after three hangs")
                    continue
                obs_list = run_history(desc, hist, base)
                hangs += any(o.get("hang") for o in obs_list)
                req, replayed = history_request(desc, hist, obs_list, model)
                hist_jobs.append((desc, hist, obs_list, model, req, replayed))
            # round 9: the same request through both entry points
            if hangs < 3:
                par = gen_parity(rng, desc)
                pobs = run_parity(desc, par, base)
                hangs += any(o.get("hang") for o in pobs.values())
                par_jobs.append((desc, par, pobs, model, parity_requests(desc, par, pobs, model)))
        for (desc, which), model in zip(mal, mal_models):
            if "err" in model:
                raise AssertionError(f"model refuses a generated case: {model} {desc}")
            mal_jobs.append(run_malformed(ctx, desc, which, model, base) + (model,))
        exec_jobs = list(EXEC_JOBS)
        reqs = [j[4] for j in sched_jobs] + [j[4] for j in hist_jobs] + [j[2] for j in mal_jobs] + [j[2] for j in exec_jobs]
        resps = ctx.lean(reqs)
        n1, n2, n3 = len(sched_jobs), len(sched_jobs) + len(hist_jobs), len(sched_jobs) + len(hist_jobs) + len(mal_jobs)
        for (desc, cfg, obs, model, _), resp in zip(sched_jobs, resps[:n1]):
            judge_sched(ctx, desc, cfg, obs, model, resp["r"])
        EXEC_JOBS.clear()
        for (desc, hist, obs_list, model, _, replayed), resp in zip(hist_jobs, resps[n1:n2]):
            judge_history(ctx, desc, hist, obs_list, model, resp["r"], replayed, base)
        for (case, obs, _, model), resp in zip(mal_jobs, resps[n2:n3]):
            judge_malformed(ctx, case, obs, model, resp["r"])
        for (case, tags, _), resp in zip(exec_jobs, resps[n3:]):
            judge_exec(ctx, case, tags, resp["r"])
        if par_jobs:
            presps = ctx.lean([r for j in par_jobs for r in j[4]])
            for q, (desc, par, pobs, model, _) in enumerate(par_jobs):
                judge_parity(ctx, desc, par, pobs, model, [presps[2 * q]["r"], presps[2 * q + 1]["r"]], base)
        late = list(EXEC_JOBS)                      # executor selection of the history parts
        if late:
            for (case, tags, _), resp in zip(late, ctx.lean([j[2] for j in late])):
                judge_exec(ctx, case, tags, resp["r"])
    finally:
        EXEC_JOBS.clear()
        shutil.rmtree(base, ignore_errors=True)


def replay(ctx, case):
    _install_dump_hook()
    px.install_gate_hook()
    base = tempfile.mkdtemp(prefix="verif-c03-", dir=scratch_root())
    try:
        model = model_obs(ctx.lean([{"m": "map.run", "a": mapgen.model_request(case["desc"])}], driver="C01")[0]["r"])
        if "malformed" in case:
            print("malformed-stream case:", case.get("malformed"), case.get("executor_keys"), "parallel =", case.get("parallel"))
            req = exec_request(case["desc"], None, model, parallel=case.get("parallel", True), executor=case.get("executor_keys", []))
            print("rule (exec.select):", ctx.lean([req])[0]["r"])
            return
        if "parity" in case:
            par = case["parity"]
            pobs = run_parity(case["desc"], par, base)
            resps = ctx.lean(parity_requests(case["desc"], par, pobs, model))
            print("fixed_indices:", par["fixed"], "storage:", par["storage"], "executors:", par["kinds"])
            for entry, resp in zip(("map", "async"), resps):
                o = pobs[entry]
                print(f"--- through {entry}: schedule {o.get('schedule')}")
                print("implementation:", {k2: v for k2, v in o.items() if k2 in ("outputs", "stored", "present", "err", "msg", "hang")})
                print("calls:", sorted(([c[0], c[1]] for c in o.get("log", []) if c[2] == "call"), key=repr))
                print("model:", resp["r"]["parts"][0].get("part") or resp["r"]["parts"][0])
            return
        if "history" in case:
            hist = case["history"]
            obs_list = run_history(case["desc"], hist, base)
            req, _ = history_request(case["desc"], hist, obs_list, model)
            resp = ctx.lean([req])[0]["r"]
            seq = run_history(case["desc"], hist, base, parallel=False)
            for k, obs in enumerate(obs_list):
                print(f"--- part {k}: fixed_indices={hist['parts'][k]}")
                print("schedule:", obs.get("schedule"))
                print("implementation (parallel):", {k2: v for k2, v in obs.items() if k2 in ("outputs", "stored", "present", "err", "msg", "hang")})
                print("calls:", [[c[0], c[1]] for c in obs.get("log", []) if c[2] == "call"])
                if k < len(seq):
                    print("implementation (parallel=False):", {k2: v for k2, v in seq[k].items() if k2 in ("outputs", "stored", "present", "err", "msg")})
                if k < len(resp["parts"]):
                    print("model:", resp["parts"][k].get("part") or resp["parts"][k])
            return
        if "cfg" not in case:
            print("case:", case)
            return
        obs = run_impl(case["desc"], case["cfg"], base)
        print("schedule:", obs.get("schedule"))
        print("implementation:", {k: v for k, v in obs.items() if k != "schedule"})
        print("model (schedule-free):", model)
    finally:
        shutil.rmtree(base, ignore_errors=True)
