import PfModel.Lemmas.ResumeTop
/-!
C05 — An interrupted map resumes to the uninterrupted result, redoing no stored work.

`PF.ResumeFS.runOn cfg fs` is the model of `Pipeline.map(..., run_folder=F, cleanup=False, parallel=False)` started on the
folder state `fs`; it returns the file-system events it performs, the user calls it makes, and its result.  A crash is a
prefix of the event list (`crashAt`).  `PF.Map.runMap` is the uninterrupted run (C01: equal to the MapSpec denotation).
-/
namespace PF.C05
open PF PF.Map PF.ResumeFS

/-- **The folder invariant of the repaired write protocol**: every file that is not a temporary name is absent or holds,
    completely, the value the uninterrupted run stores there; and an existing `run_info.json` implies complete inputs and
    defaults.  Temporary names may hold anything: nobody reads them. -/
def Good (fsd : List MFunc) (inputs : List (String × Val)) (ui : List (String × List Nat)) (fs : FS) : Prop :=
  Inv (rightW (freshSlots fsd inputs ui)) fs ∧ MetaOk (akeys inputs) fs

theorem good_empty (fsd : List MFunc) (inputs : List (String × Val)) (ui : List (String × List Nat)) : Good fsd inputs ui FS.empty :=
  ⟨fun _ _ => Or.inl rfl, fun h => absurd rfl h⟩

/-- **Nothing that is stored is ever lost** — `C05_resume` with one more conclusion at every crash point: besides the invariant,
    every non-temporary file that exists in the folder the run started on still exists after any prefix of the run's events
    (`Mono`; by the invariant it is then complete and holds the right value).  The repaired protocol only ever *adds* files or
    replaces one atomically (`os.replace` of a complete temporary file): no `unlink`, no truncating `open` of a stored file, no
    clean-up under `cleanup=False`.  This is what makes "stored before the interruption ⇒ not recomputed" survive a *sequence* of
    interruptions (`C05_stored_kept`, `C05_history_no_recompute`): a resumed run that is killed cannot have un-stored anything. -/
theorem C05_resume_keeps (cfg : Cfg) (hl : cfg.legacy = false)
    (fsd : List MFunc) (inputs : List (String × Val)) (ui : List (String × List Nat)) (r0 : MapResult)
    (h0 : runMap fsd inputs ui = .ok r0) (hnd : ((freshSlots fsd inputs ui).map (·.1)).Nodup)
    (fs : FS) (hg : Good fsd inputs ui fs) :
    (∀ k, Good fsd inputs ui (crashAt fs (runOn cfg fs fsd inputs ui).evs k) ∧ Mono fs (crashAt fs (runOn cfg fs fsd inputs ui).evs k)) ∧
    (∀ c ∈ (runOn cfg fs fsd inputs ui).calls, ∃ f ∈ (generations fsd).flatten, c.fn = f.name ∧ doneInC cfg fs f c.li = false) ∧
    ((∃ x, (runOn cfg fs fsd inputs ui).res = .ok x ∧ x.outputs = r0.outputs) ∨
     (cfg.failAt ≠ none ∧ ∃ fn, (runOn cfg fs fsd inputs ui).res = .error (.raised fn))) := by
  obtain ⟨shapes, masks, rs, envF, hpre, hloop, hout⟩ := runMap_unfold fsd inputs ui r0 h0
  have hfresh : freshSlots fsd inputs ui = rs.flatMap (·.slots) := by simp [freshSlots, pfLoop, hpre, hloop]
  unfold Good at hg ⊢
  rw [hfresh] at hnd hg ⊢
  have hI : I (rightW (rs.flatMap (·.slots))) (akeys inputs) fs fs := I.start hg.1 hg.2
  have hW : ∀ p v, (∀ o li, p ≠ .cell o li) → (∀ o, p ≠ .single o) → (∀ o, p ≠ .dictArr o) → p.isTmp = false →
      rightW (rs.flatMap (·.slots)) p v := by
    intro p v h1 h2 h3 h4
    cases p with
    | cell o li => exact absurd rfl (h1 o li)
    | single o => exact absurd rfl (h2 o)
    | dictArr o => exact absurd rfl (h3 o)
    | tmp q => simp [Path.isTmp] at h4
    | _ => trivial
  have hcomp := compare_ok _ fs fs inputs hI
  have hdump := dumpAll_safe _ fs inputs hW fs hI
  have hIdump : I (rightW (rs.flatMap (·.slots))) (akeys inputs) fs (applyAll fs (dumpAllEvs false inputs)) := by
    have := hdump (dumpAllEvs false inputs).length
    rwa [crashAt_all _ _ _ (Nat.le_refl _)] at this
  obtain ⟨mem, hinit, hMem, hPlanMem, hinitS⟩ := initStore_spec (rightW (rs.flatMap (·.slots)))
    (I (rightW (rs.flatMap (·.slots))) (akeys inputs) fs) (fun d => safe_mkdirp _ _ _ d)
    (applyAll fs (dumpAllEvs false inputs)) hIdump.inv (storePlan cfg fsd)
  have hstep : ∀ env f r, f ∈ (generations fsd).flatten → runFuncWith opArray fsd shapes masks env f = .ok r →
      SlotsRight (rightW (rs.flatMap (·.slots))) r.slots →
      ∀ fs', I (rightW (rs.flatMap (·.slots))) (akeys inputs) fs fs' → ∀ nc,
        StepOk (rightW (rs.flatMap (·.slots))) (akeys inputs) fs cfg f r (stepFunc cfg fsd shapes masks mem env fs' nc f) := by
    intro env f r hf h1 h2 fs' h3 nc
    refine stepFunc_spec _ _ fs cfg hl fsd shapes masks mem env f r h1 h2 _ hIdump.mono hMem ?_ fs' h3 nc
    intro hm hdct o ho
    apply hPlanMem
    exact List.mem_flatMap.mpr ⟨f, List.mem_filter.mpr ⟨hf, hm⟩, List.mem_map.mpr ⟨o, ho, by rw [hdct]⟩⟩
  have hSR : ∀ r ∈ rs, SlotsRight (rightW (rs.flatMap (·.slots))) r.slots := fun r hr =>
    slotsRight_of_nodup _ _ hnd fun e he => List.mem_flatMap.mpr ⟨r, hr, he⟩
  obtain ⟨L1, L2, L3⟩ := runGensR_spec _ _ fs cfg _ _ (fun f => f ∈ (generations fsd).flatten) hstep (generations fsd)
    { inputs := inputs, store := [] } rs envF
    (applyAll (applyAll fs (dumpAllEvs false inputs)) (initStore false (applyAll fs (dumpAllEvs false inputs)) (storePlan cfg fsd)).evs) 0
    (fun f hf => hf) hloop hSR (hinitS.final _ hIdump)
  obtain ⟨_, hwk, hstore⟩ := runGensWith_slots _ (fun env f r h => runFuncWith_slots fsd shapes masks env f r h) _ _ rs envF hloop
  have hpersist : Safe (I (rightW (rs.flatMap (·.slots))) (akeys inputs) fs) (persistEvs false envF.store (storePlan cfg fsd)) := by
    apply persist_safe
    intro o sh mk cells hlk
    rw [hstore] at hlk
    have hm : (o, Slot.array sh mk cells) ∈ rs.flatMap (·.slots) := alookup_some_mem _ _ _ (by simpa using hlk)
    exact ⟨_, hm, rfl, hwk o sh mk cells hm⟩
  have hev : ∀ k, I (rightW (rs.flatMap (·.slots))) (akeys inputs) fs
      (crashAt fs ((dumpAllEvs false inputs ++ (initStore false (applyAll fs (dumpAllEvs false inputs)) (storePlan cfg fsd)).evs) ++
        (runGensR (stepFunc cfg fsd shapes masks mem) (generations fsd) { inputs := inputs, store := [] }
          (applyAll (applyAll fs (dumpAllEvs false inputs)) (initStore false (applyAll fs (dumpAllEvs false inputs)) (storePlan cfg fsd)).evs) 0).evs) k) :=
    prefix_then_safe (prefix_then_safe hdump hinitS) L1
  simp only [runOn, hpre, hl, hcomp, List.nil_append, hinit]
  rcases L3 with ⟨rs', hres, ho⟩ | ⟨hne, fn, hres⟩
  · simp only [hres]
    have hev2 := prefix_then_safe hev hpersist
    exact ⟨fun k => ⟨⟨(hev2 k).inv, (hev2 k).metaOk⟩, (hev2 k).mono⟩, L2, Or.inl ⟨_, rfl, by rw [hout, ← ho]⟩⟩
  · simp only [hres]
    exact ⟨fun k => ⟨⟨(hev k).inv, (hev k).metaOk⟩, (hev k).mono⟩, L2, Or.inr ⟨hne, fn, rfl⟩⟩

/-- **C05, repaired protocol, every storage** (`file_array`, `dict`, and any per-function mix of the two) — for every
    pipeline and inputs on which the uninterrupted run succeeds (with distinct output names), every configuration of the
    repaired protocol (`dict`, `other`, `failAt` arbitrary), and *every* folder state that satisfies the invariant:
    1. every prefix of the events of the run started on that folder — every crash point, before, between and inside its
       writes, including the final `persist` of the dict arrays — again satisfies the invariant (so the theorem applies to
       the crashed folder: any number of successive crashes);
    2. the run calls a user function only for elements that were not completely stored in the folder it started on
       (`doneInC`: all element files of a `file_array` function; the persisted dicts of a `dict` function; all output files
       of a function without MapSpec inputs);
    3. the run completes with exactly the outputs of the uninterrupted run — or, when a user call is told to raise, stops
       with that exception.
    No partial content is read: the run succeeds, and reading a partial file is an error of the model (`RErr.corrupt`). -/
theorem C05_resume (cfg : Cfg) (hl : cfg.legacy = false)
    (fsd : List MFunc) (inputs : List (String × Val)) (ui : List (String × List Nat)) (r0 : MapResult)
    (h0 : runMap fsd inputs ui = .ok r0) (hnd : ((freshSlots fsd inputs ui).map (·.1)).Nodup)
    (fs : FS) (hg : Good fsd inputs ui fs) :
    (∀ k, Good fsd inputs ui (crashAt fs (runOn cfg fs fsd inputs ui).evs k)) ∧
    (∀ c ∈ (runOn cfg fs fsd inputs ui).calls, ∃ f ∈ (generations fsd).flatten, c.fn = f.name ∧ doneInC cfg fs f c.li = false) ∧
    ((∃ x, (runOn cfg fs fsd inputs ui).res = .ok x ∧ x.outputs = r0.outputs) ∨
     (cfg.failAt ≠ none ∧ ∃ fn, (runOn cfg fs fsd inputs ui).res = .error (.raised fn))) := by
  obtain ⟨a, b, c⟩ := C05_resume_keeps cfg hl fsd inputs ui r0 h0 hnd fs hg
  exact ⟨fun k => (a k).1, b, c⟩

/-- the hypothesis on distinct stored names follows from a predicate on the function list alone: no two functions share an
    output name and no function lists an output twice (what `Pipeline` validates at construction) -/
theorem C05_nodup_of_unique (fsd : List MFunc) (inputs : List (String × Val)) (ui : List (String × List Nat)) (hu : UniqueOutputs fsd) :
    ((freshSlots fsd inputs ui).map (·.1)).Nodup := freshSlots_nodup fsd inputs ui hu

/-- `C05_resume` in its first form (file arrays only, `doneIn`), kept as a corollary -/
theorem C05_resume_file (cfg : Cfg) (hl : cfg.legacy = false) (hd : cfg.dict = false) (ho : cfg.other = [])
    (fsd : List MFunc) (inputs : List (String × Val)) (ui : List (String × List Nat)) (r0 : MapResult)
    (h0 : runMap fsd inputs ui = .ok r0) (hnd : ((freshSlots fsd inputs ui).map (·.1)).Nodup)
    (fs : FS) (hg : Good fsd inputs ui fs) :
    (∀ k, Good fsd inputs ui (crashAt fs (runOn cfg fs fsd inputs ui).evs k)) ∧
    (∀ c ∈ (runOn cfg fs fsd inputs ui).calls, ∃ f ∈ (generations fsd).flatten, c.fn = f.name ∧ doneIn fs f c.li = false) ∧
    ((∃ x, (runOn cfg fs fsd inputs ui).res = .ok x ∧ x.outputs = r0.outputs) ∨
     (cfg.failAt ≠ none ∧ ∃ fn, (runOn cfg fs fsd inputs ui).res = .error (.raised fn))) := by
  obtain ⟨a, b, c⟩ := C05_resume cfg hl fsd inputs ui r0 h0 hnd fs hg
  refine ⟨a, fun x hx => ?_, c⟩
  obtain ⟨f, hf, h1, h2⟩ := b x hx
  refine ⟨f, hf, h1, ?_⟩
  rwa [doneInC_file cfg fs f _ (by simp [isDictF, hd, ho])] at h2

/-- folder states reachable by any number of successive crashes: start from the empty folder; run (any configuration of the
    repaired protocol — any storage mix, any user call raising) on the current folder and die after any prefix of its events -/
inductive Reach (fsd : List MFunc) (inputs : List (String × Val)) (ui : List (String × List Nat)) : FS → Prop
  | empty : Reach fsd inputs ui FS.empty
  | crash (cfg : Cfg) (hl : cfg.legacy = false) (fs : FS) (k : Nat) :
      Reach fsd inputs ui fs → Reach fsd inputs ui (crashAt fs (runOn cfg fs fsd inputs ui).evs k)

/-- every reachable folder satisfies the invariant -/
theorem C05_reach_good (fsd : List MFunc) (inputs : List (String × Val)) (ui : List (String × List Nat)) (r0 : MapResult)
    (h0 : runMap fsd inputs ui = .ok r0) (hnd : ((freshSlots fsd inputs ui).map (·.1)).Nodup) (fs : FS)
    (h : Reach fsd inputs ui fs) : Good fsd inputs ui fs := by
  induction h with
  | empty => exact good_empty fsd inputs ui
  | crash cfg hl fs k _ ih => exact (C05_resume cfg hl fsd inputs ui r0 h0 hnd fs ih).1 k

/-- **Resume after any history of crashes**: the run started on a reachable folder (with no call told to raise) completes,
    returns exactly the outputs of the uninterrupted run, and calls no user function for a completely stored element. -/
theorem C05_resume_after_crashes (cfg : Cfg) (hl : cfg.legacy = false) (hf : cfg.failAt = none)
    (fsd : List MFunc) (inputs : List (String × Val)) (ui : List (String × List Nat)) (r0 : MapResult)
    (h0 : runMap fsd inputs ui = .ok r0) (hnd : ((freshSlots fsd inputs ui).map (·.1)).Nodup) (fs : FS) (h : Reach fsd inputs ui fs) :
    (∃ x, (runOn cfg fs fsd inputs ui).res = .ok x ∧ x.outputs = r0.outputs) ∧
    (∀ c ∈ (runOn cfg fs fsd inputs ui).calls, ∃ f ∈ (generations fsd).flatten, c.fn = f.name ∧ doneInC cfg fs f c.li = false) := by
  obtain ⟨_, b, c⟩ := C05_resume cfg hl fsd inputs ui r0 h0 hnd fs (C05_reach_good fsd inputs ui r0 h0 hnd fs h)
  rcases c with c | ⟨hne, _⟩
  · exact ⟨c, b⟩
  · exact absurd hf hne

/-- the uninterrupted run of the model (into an empty folder, any storage) returns what `PF.Map.runMap` returns -/
theorem C05_fresh_eq_runMap (cfg : Cfg) (hl : cfg.legacy = false) (hf : cfg.failAt = none)
    (fsd : List MFunc) (inputs : List (String × Val)) (ui : List (String × List Nat)) (r0 : MapResult)
    (h0 : runMap fsd inputs ui = .ok r0) (hnd : ((freshSlots fsd inputs ui).map (·.1)).Nodup) :
    ∃ x, (runFresh cfg fsd inputs ui).res = .ok x ∧ x.outputs = r0.outputs :=
  (C05_resume_after_crashes cfg hl hf fsd inputs ui r0 h0 hnd FS.empty .empty).1

/-- **A user function raising at any call** (`j` = global index of the call; any `j`, also beyond the last call) is a crash:
    whatever the failing run left behind (any storage `c`), the re-run completes with the uninterrupted outputs, without
    calling a user function for a stored element. -/
theorem C05_raise (j : Nat) (c : Cfg) (hl : c.legacy = false) (hf : c.failAt = none)
    (fsd : List MFunc) (inputs : List (String × Val)) (ui : List (String × List Nat)) (r0 : MapResult)
    (h0 : runMap fsd inputs ui = .ok r0) (hnd : ((freshSlots fsd inputs ui).map (·.1)).Nodup) :
    (∃ x, (runOn c (applyAll FS.empty (runFresh { c with failAt := some j } fsd inputs ui).evs) fsd inputs ui).res = .ok x ∧ x.outputs = r0.outputs) ∧
    (∀ x ∈ (runOn c (applyAll FS.empty (runFresh { c with failAt := some j } fsd inputs ui).evs) fsd inputs ui).calls,
      ∃ f ∈ (generations fsd).flatten, x.fn = f.name ∧
        doneInC c (applyAll FS.empty (runFresh { c with failAt := some j } fsd inputs ui).evs) f x.li = false) := by
  have hr : Reach fsd inputs ui (applyAll FS.empty (runFresh { c with failAt := some j } fsd inputs ui).evs) := by
    have := Reach.crash (fsd := fsd) (inputs := inputs) (ui := ui) { c with failAt := some j } hl FS.empty
      (runFresh { c with failAt := some j } fsd inputs ui).evs.length .empty
    rwa [show runOn { c with failAt := some j } FS.empty fsd inputs ui = runFresh { c with failAt := some j } fsd inputs ui from rfl,
      crashAt_all _ _ _ (Nat.le_refl _)] at this
  exact C05_resume_after_crashes c hl hf fsd inputs ui r0 h0 hnd _ hr

/-- **A kill inside the clean-up of `cleanup=True`** (repaired `_cleanup_run_folder`: the run folder is renamed away in one
    step).  Whatever the folder held before — a complete or crashed run of this request *or of any other request*, or
    arbitrary files — every prefix of `map(..., cleanup=True)` leaves either that folder untouched (the kill came before the
    rename) or a folder satisfying the invariant of the new request, from which `C05_resume` resumes to the uninterrupted
    result: no file of the old run can be taken for a result of the new one. -/
theorem C05_cleanup_crash (cfg : Cfg) (hl : cfg.legacy = false) (order : List Path)
    (fsd : List MFunc) (inputs : List (String × Val)) (ui : List (String × List Nat)) (r0 : MapResult)
    (h0 : runMap fsd inputs ui = .ok r0) (hnd : ((freshSlots fsd inputs ui).map (·.1)).Nodup) (fs : FS) (k : Nat) :
    crashAt fs (runClean cfg order fsd inputs ui).evs k = fs ∨ Good fsd inputs ui (crashAt fs (runClean cfg order fsd inputs ui).evs k) := by
  cases k with
  | zero => exact Or.inl (crashAt_zero _ _)
  | succ k =>
    refine Or.inr ?_
    have : crashAt fs (runClean cfg order fsd inputs ui).evs (k + 1) = crashAt FS.empty (runOn cfg FS.empty fsd inputs ui).evs k := by
      simp [runClean, cleanupEvs, hl, crashAt, applyAll, apply]
    rw [this]
    exact (C05_resume cfg hl fsd inputs ui r0 h0 hnd FS.empty (good_empty fsd inputs ui)).1 k

/-! ### non-vacuity, and the pinned protocol -/

def fY : MFunc := { name := "f", params := [("x", "x")], outputs := ["y"], mapspec := some { inputs := [⟨"x", [some "i"]⟩], outputs := [⟨"y", [some "i"]⟩] }, ret := none, internal := none, defaults := [], bound := [] }
def gZ : MFunc := { name := "g", params := [("y", "y")], outputs := ["z"], mapspec := none, ret := none, internal := none, defaults := [], bound := [] }
def inp : List (String × Val) := [("x", .arr [2] [.int 1, .int 2])]
def resErr (r : Run) : Option RErr := match r.res with | .error e => some e | .ok _ => none

/-- the hypotheses of `C05_resume` hold for `x[i] -> y[i]` followed by a reduction -/
example : (runMap [fY, gZ] inp []).toOption.isSome = true ∧ ((freshSlots [fY, gZ] inp []).map (·.1)).Nodup := by decide

/-- the function-list predicate holds for the reference pipeline -/
example : UniqueOutputs [fY, gZ] := by
  refine ⟨?_, ?_⟩
  · simp [fY, gZ]
  · intro f hf; simp at hf; rcases hf with rfl | rfl <;> simp [fY, gZ]

/-- storage `dict`: dying inside the final persist (event 24 is the `chunk` of the temporary file of `dict_array.cloudpickle`)
    leaves nothing stored for `f`: the resumed run calls `f` for both elements again but not `g`, whose output file exists;
    dying after the persist: nothing is called -/
example : ((runOn { dict := true } (crashAt FS.empty (runFresh { dict := true } [fY, gZ] inp []).evs 24) [fY, gZ] inp []).calls.map fun c => (c.fn, c.li)) = [("f", 0), ("f", 1)] ∧
    resErr (runOn { dict := true } (crashAt FS.empty (runFresh { dict := true } [fY, gZ] inp []).evs 24) [fY, gZ] inp []) = none ∧
    ((runOn { dict := true } (applyAll FS.empty (runFresh { dict := true } [fY, gZ] inp []).evs) [fY, gZ] inp []).calls.map fun c => (c.fn, c.li)) = [] := by
  decide

/-- a storage mix (`f`'s output in a `DictArray`, default `file_array`) is a configuration of the theorem -/
example : resErr (runOn { other := ["f"] } (crashAt FS.empty (runFresh { other := ["f"] } [fY, gZ] inp []).evs 20) [fY, gZ] inp []) = none := by decide

/-- repaired protocol: dying inside the write of `outputs/y/__1__.pickle` (event 25 is the `chunk` of its temporary file),
    the resumed run succeeds and calls `f` only for element 1, then `g` -/
example : resErr (runOn {} (crashAt FS.empty (runFresh {} [fY, gZ] inp []).evs 25) [fY, gZ] inp []) = none ∧
    ((runOn {} (crashAt FS.empty (runFresh {} [fY, gZ] inp []).evs 25) [fY, gZ] inp []).calls.map fun c => (c.fn, c.li)) = [("f", 1), ("g", 0)] := by
  decide

namespace Legacy
def cfg : Cfg := { legacy := true }
def cfgDict : Cfg := { legacy := true, dict := true }
/-- resume after the process died having performed `k` events of an uninterrupted run, pinned protocol -/
def resumeErr (c : Cfg) (k : Nat) : Option RErr :=
  resErr (runOn c (crashAt FS.empty (runFresh c [fY, gZ] inp []).evs k) [fY, gZ] inp [])

/-- **The write protocol of the pinned tree does not have the property** (DF-14), for `x[i] -> y[i]` on two elements followed
    by a reduction: dying (a) right after `open('w')` of `run_info.json`; (b) between `run_info.json` and
    `inputs/x.cloudpickle`; (c) right after `open('wb')` of `outputs/y/__1__.pickle`; (d) storage `dict`: between
    `mkdir outputs/y` and `dict_array.cloudpickle` — makes the re-run with `cleanup=False` fail. -/
theorem C05_current_protocol_fails :
    resumeErr cfg 2 = some .refused ∧ resumeErr cfg 4 = some .refused ∧
    resumeErr cfg 21 = some (.corrupt (.cell "y" 1)) ∧ resumeErr cfgDict 20 = some (.notFound (.dictArr "y")) := by decide

/-- DF-33: on the pinned tree a re-run on a *complete* folder starts by rewriting `run_info.json` in place (the loaded
    `RunInfo` dumps itself): its first events are `mkdir`, `open('w')` of `run_info.json` — a second crash there destroys a
    folder that was complete -/
theorem C05_current_loader_writes :
    resErr (runOn cfg (crashAt (applyAll FS.empty (runFresh cfg [fY, gZ] inp []).evs)
      (runOn cfg (applyAll FS.empty (runFresh cfg [fY, gZ] inp []).evs) [fY, gZ] inp []).evs 2) [fY, gZ] inp []) = some .refused := by decide
def inp' : List (String × Val) := [("x", .arr [2] [.int 7, .int 8])]
/-- the complete folder of the run on `inp` (repaired write protocol) -/
def doneFS : FS := applyAll FS.empty (runFresh {} [fY, gZ] inp []).evs

/-- **DF-C05-rmtree: `shutil.rmtree` as the clean-up of `cleanup=True` does not have the property.**  On the complete folder
    of the run on `x = [1, 2]`: (a) `map(x = [7, 8], cleanup=True)` is killed when `rmtree` has unlinked `run_info.json` only;
    the re-run with `x = [7, 8]`, `cleanup=False` is accepted (nothing to compare with), calls no function at all and returns
    the stored results of `x = [1, 2]` — stale values; (b) `map(x = [1, 2], cleanup=True)` killed when `rmtree` has unlinked
    `inputs/x.cloudpickle` only: the re-run of the very same request is refused. -/
theorem C05_rmtree_window :
    (resErr (runOn {} (crashAt doneFS (cleanupEvs true [.runInfo, .input "x", .defaults]) 1) [fY, gZ] inp' []) = none ∧
     (runOn {} (crashAt doneFS (cleanupEvs true [.runInfo, .input "x", .defaults]) 1) [fY, gZ] inp' []).calls.length = 0 ∧
     (runFresh {} [fY, gZ] inp' []).calls.length = 3) ∧
    resErr (runOn {} (crashAt doneFS (cleanupEvs true [.input "x", .runInfo, .defaults]) 1) [fY, gZ] inp []) = some .refused := by decide
end Legacy

end PF.C05
