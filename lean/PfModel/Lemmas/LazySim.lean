import PfModel.Lemmas.LazySession
/-! Helper lemmas for `Props/C18Calls.lean`: a lazy request that finds nothing in a cache *simulates* the eager run of C02
(`PF.Pipe.run`/`runTop`) step by step: same memo keys, same used parameters, one call node per eager invocation (in the same
order), every created call node is needed by the returned object, and nothing older than the request is referred to. -/
namespace PF.Lazy
open PF PF.Pipe

/-- the user functions of the call nodes of a table segment, in creation order -/
def cnames : List Lazy.Node → List String
  | [] => []
  | .call f _ :: r => f.name :: cnames r
  | .pick _ _ _ :: r => cnames r

def Node.isCall : Lazy.Node → Bool
  | .call _ _ => true
  | .pick _ _ _ => false

theorem cnames_append (a b : List Lazy.Node) : cnames (a ++ b) = cnames a ++ cnames b := by
  induction a with
  | nil => rfl
  | cons nd r ih => cases nd <;> simp [cnames, ih]

theorem cnames_picks {f : Func} {r : LArg} : ∀ {ext : List Lazy.Node}, (∀ nd ∈ ext, ∃ o, nd = Node.pick f r o) → cnames ext = [] := by
  intro ext
  induction ext with
  | nil => intro _; rfl
  | cons nd rest ih =>
    intro h
    obtain ⟨o, rfl⟩ := h nd List.mem_cons_self
    simp only [cnames]
    exact ih (fun nd' h' => h nd' (List.mem_cons_of_mem _ h'))

/-- the name a log entry contributes to `callNames` -/
def cname (nodes : List Lazy.Node) (i : Nat) : Option String :=
  match nodes[i]? with
  | some (Node.call f _) => some f.name
  | _ => none

theorem callNames_eq (nodes : List Lazy.Node) (log : List Nat) : callNames nodes log = log.filterMap (cname nodes) := rfl

theorem cname_isSome {nodes : List Lazy.Node} {i : Nat} (h : (cname nodes i).isSome) :
    ∃ nd, nodes[i]? = some nd ∧ nd.isCall = true := by
  unfold cname at h
  split at h
  · next f args hn => exact ⟨_, hn, rfl⟩
  · cases h

theorem cname_of_call {nodes : List Lazy.Node} {i : Nat} {nd : Lazy.Node} (hn : nodes[i]? = some nd) (hc : nd.isCall = true) :
    (cname nodes i).isSome := by
  unfold cname
  cases nd with
  | call f args => rw [hn]; rfl
  | pick f src name => cases hc

/-- the names of the call nodes of a segment of the table are `callNames` of its ids in order -/
theorem cnames_range : ∀ (ext pre : List Lazy.Node),
    (List.range' pre.length ext.length).filterMap (cname (pre ++ ext)) = cnames ext := by
  intro ext
  induction ext with
  | nil => intro pre; rfl
  | cons nd rest ih =>
    intro pre
    have h1 : (pre ++ nd :: rest) = (pre ++ [nd]) ++ rest := by simp
    have hlen : (pre ++ [nd]).length = pre.length + 1 := by simp
    have hget : (pre ++ nd :: rest)[pre.length]? = some nd := by simp
    have ih' := ih (pre ++ [nd])
    rw [hlen, ← h1] at ih'
    simp only [List.length_cons, List.range'_succ, List.filterMap_cons]
    cases nd with
    | call f args => simp only [cname, hget, cnames]; rw [← ih']
    | pick f src name => simp only [cname, hget, cnames]; rw [← ih']

theorem needs_ext {nodes : List Lazy.Node} (ext : List Lazy.Node) {a : LArg} {i : Nat} (h : Needs nodes a i) :
    Needs (nodes ++ ext) a i := by
  induction h with
  | self e => exact .self e
  | @arg i' j' nd' _ hn hj ih =>
    refine .arg ih ?_ hj
    have hlt : i' < nodes.length := by
      apply Classical.byContradiction
      intro hh
      rw [List.getElem?_eq_none (Nat.le_of_not_lt hh)] at hn; cases hn
    rw [List.getElem?_append_left hlt]; exact hn

/-! ### what `mkPicks` / `updateAll` create -/

theorem mkPicks_struct (f : Func) (r : LArg) : ∀ (names : List String) (s : LSt),
    ∃ ext, (mkPicks f r names s).2.nodes = s.nodes ++ ext ∧
      (∀ nd ∈ ext, ∃ o, nd = Node.pick f r o) ∧
      akeys (mkPicks f r names s).1 = names ∧
      (mkPicks f r names s).2.usedNone = s.usedNone ∧ (mkPicks f r names s).2.memo = s.memo ∧
      (∀ o a, alookup (mkPicks f r names s).1 o = some a →
         ∃ pid, a = .ref pid ∧ s.nodes.length ≤ pid ∧ (mkPicks f r names s).2.nodes[pid]? = some (.pick f r o)) := by
  intro names
  induction names with
  | nil => intro s; exact ⟨[], by simp [mkPicks], by simp, rfl, rfl, rfl, by intro o a h; simp [mkPicks, alookup] at h⟩
  | cons n names ih =>
    intro s
    simp only [mkPicks]
    obtain ⟨ext, hn, hp, hk, hu, hm, hl⟩ := ih (mkNode (.pick f r n) s).2
    rw [mkNode_nodes] at hn
    refine ⟨Node.pick f r n :: ext, by rw [hn]; simp, ?_, by simp [akeys] at hk ⊢; exact hk, hu, hm, ?_⟩
    · intro nd hnd
      rcases List.mem_cons.mp hnd with rfl | hnd
      · exact ⟨n, rfl⟩
      · exact hp nd hnd
    · intro o a hla
      simp only [alookup] at hla
      split at hla
      · next e =>
        subst e; injection hla with hla; subst hla
        refine ⟨s.nodes.length, by rw [mkNode_fst], Nat.le_refl _, ?_⟩
        rw [hn]; simp
      · obtain ⟨pid, ha, hge, hnd⟩ := hl o a hla
        rw [mkNode_nodes] at hge
        simp only [List.length_append, List.length_singleton] at hge
        exact ⟨pid, ha, by omega, hnd⟩

/-- `_update_all_results` in lazy mode: one new memo entry per output name of the function, in front; only pick nodes are
    created; each new entry is the object `r` itself or a pick node over it -/
theorem updateAll_struct (f : Func) (r : LArg) (s : LSt) :
    ∃ ext newm, (updateAll f r s).nodes = s.nodes ++ ext ∧ (∀ nd ∈ ext, ∃ o, nd = Node.pick f r o) ∧
      (updateAll f r s).memo = newm ++ s.memo ∧ akeys newm = f.outputs ∧ (updateAll f r s).usedNone = s.usedNone ∧
      (∀ o a, alookup newm o = some a → a = r ∨
         ∃ pid, a = .ref pid ∧ s.nodes.length ≤ pid ∧ (updateAll f r s).nodes[pid]? = some (.pick f r o)) := by
  unfold updateAll
  split
  · next o ho =>
    refine ⟨[], [(o, r)], by simp, by simp, rfl, by simp [akeys, ho], rfl, ?_⟩
    intro o' a hl
    simp only [alookup] at hl
    split at hl
    · injection hl with hl; exact Or.inl hl.symm
    · cases hl
  · obtain ⟨ext, hn, hp, hk, hu, hm, hl⟩ := mkPicks_struct f r f.outputs s
    exact ⟨ext, (mkPicks f r f.outputs s).1, hn, hp, by simp only [hm], hk, hu, fun o a h => Or.inr (hl o a h)⟩

end PF.Lazy
