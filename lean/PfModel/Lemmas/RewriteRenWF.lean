import PfModel.Model.RewriteRenWF
import PfModel.Lemmas.RewriteRen
/-! `wfB` decides `WF`. -/
namespace PF.Rw

theorem wfB_sound (f : RFunc) (h : wfB f = true) : WF f := by
  simp only [wfB, Bool.and_eq_true, decide_eq_true_eq, beq_iff_eq, List.all_eq_true, List.contains_eq_mem] at h
  obtain ⟨⟨⟨⟨⟨h1, h2⟩, h3⟩, h4⟩, h5⟩, h6⟩ := h
  refine ⟨h1, h2, h3, ?_, ?_, ?_⟩
  · intro kv hkv; simpa using h4 kv hkv
  · intro kv hkv; simpa using h5 kv hkv
  · intro ms hms a ha
    rw [hms] at h6
    simp only [List.all_eq_true, List.contains_eq_mem] at h6
    simpa using h6 a ha

theorem wfB_complete (f : RFunc) (h : WF f) : wfB f = true := by
  obtain ⟨h1, h2, h3, h4, h5, h6⟩ := h
  simp only [wfB, Bool.and_eq_true, decide_eq_true_eq, beq_iff_eq, List.all_eq_true, List.contains_eq_mem]
  refine ⟨⟨⟨⟨⟨h1, h2⟩, h3⟩, fun kv hkv => by simpa using h4 kv hkv⟩, fun kv hkv => by simpa using h5 kv hkv⟩, ?_⟩
  cases hm : f.mapspec with
  | none => rfl
  | some ms =>
    simp only [List.all_eq_true, List.contains_eq_mem]
    intro a ha
    simpa using h6 ms hm a ha

/-- a parameterless function whose output `o` was renamed to `y` earlier (closed instance for `Props/C10RenWF.lean`) -/
def nYW : RFunc := { core := { name := "n", params := [], outputs := ["y"], defaults := [], bound := [] }, outOrig := ["o"], body := none }

end PF.Rw
