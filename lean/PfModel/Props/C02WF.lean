import PfModel.Props.C02Needed
import PfModel.Lemmas.PipelineWFCheck
/-!
C02 — the well-formedness hypothesis `WFp fs rank` ("unique function names, unique output names, acyclic — witnessed by a
rank") that `C02_each_once_deps_first`, `C02_exactly_needed`, `C02_used_parameters`, `C02_unused_iff`,
`C02_run_succeeds` and the `C02_arg_combinations…` theorems take is *decidable given a certificate*: `wfCertB fs cert`
is a `Bool` function of the function list and an association list of ranks (no equality on functions or values), it
implies `WFp`, and every well-formed pipeline has a certificate.  So the hypothesis can be discharged by `decide` on any
concrete pipeline, and "acyclic" is exactly "some certificate passes".
-/
namespace PF.C02
open PF PF.Pipe

/-- **The checker is sound**: a passing certificate yields the hypothesis of the C02 theorems. -/
theorem C02_wf_checker_sound (fs : List Func) (cert : List (String × Nat)) (h : wfCertB fs cert = true) :
    WFp fs (certRank cert) := wfCertB_sound fs cert h

/-- **… and complete**: for a list whose positions are distinct by function name and by output name (the two
    rank-free conjuncts; a list that repeats the very same function twice is the only well-formed list that fails them),
    a rank exists iff a certificate passes — the ranks of the listed names are the certificate. -/
theorem C02_wf_iff_certificate (fs : List Func) (hn : namesDistinctB fs = true) (ho : outsDisjointB fs = true) :
    (∃ rank, WFp fs rank) ↔ ∃ cert, wfCertB fs cert = true := by
  constructor
  · rintro ⟨rank, hw⟩
    refine ⟨certOf fs rank, ?_⟩
    simp only [wfCertB, hn, ho, Bool.true_and]
    apply edgesDownB_complete
    intro f hf p hp g hg hb
    rw [certRank_certOf fs rank g (List.mem_of_find?_eq_some hg), certRank_certOf fs rank f hf]
    exact hw.acyc f hf p hp g hg hb
  · rintro ⟨cert, h⟩
    exact ⟨_, wfCertB_sound fs cert h⟩

/-- A cycle has no certificate: if some function takes, through an unbound parameter, one of its own outputs, every
    certificate fails (and so does every rank). -/
theorem C02_wf_self_loop_refused (fs : List Func) (f : Func) (hf : f ∈ fs) (p : String × String) (hp : p ∈ f.params)
    (hb : alookup f.bound p.1 = none) (hprod : producer fs p.1 = some f) :
    (∀ cert, wfCertB fs cert = false) ∧ ¬ ∃ rank, WFp fs rank := by
  have hno : ¬ ∃ rank, WFp fs rank := by
    rintro ⟨rank, hw⟩
    exact Nat.lt_irrefl _ (hw.acyc f hf p hp f hprod hb)
  refine ⟨?_, hno⟩
  intro cert
  cases h : wfCertB fs cert with
  | false => rfl
  | true => exact absurd ⟨_, wfCertB_sound fs cert h⟩ hno

/-- **The property text for a checked pipeline, without any abstract hypothesis left**: if the certificate passes, every
    successful `Pipeline.run(o, kwargs=kw)` returns the composition along the DAG, its `full_output` entries are
    compositions too, and it called exactly the needed functions, each once, dependencies first. -/
theorem C02_checked_run (fs : List Func) (cert : List (String × Nat)) (hcert : wfCertB fs cert = true)
    (kw : List (String × Val)) (o : String) (out : Outcome) (h : runTop fs kw (.name o) = .ok out) :
    (∃ k, compose fs kw k o = .ok out.value) ∧
    (∀ q w, alookup kw q = none → alookup out.full q = some w → ∃ k, compose fs kw k q = .ok w) ∧
    out.calls.Nodup ∧ DepsFirst fs kw out.calls ∧ (∀ nm, nm ∈ out.calls ↔ needed fs kw o nm) := by
  have hw := wfCertB_sound fs cert hcert
  have ho : alookup kw o = none := by
    cases hk : alookup kw o with
    | none => rfl
    | some w => rw [C02_output_in_kwargs fs kw o w hk] at h; cases h
  simp only [runTop, ho, Option.isSome_none, Bool.false_eq_true, ↓reduceIte] at h
  split at h
  · cases h
  · next v s hr =>
    split at h
    · injection h with h; subst h
      have hu := unique_of_uniqueOut fs hw.uniq
      have hl := C02_each_once_deps_first fs kw _ hw _ o v s hr
      exact ⟨C02_run_eq_compose fs kw hu _ o v s ho hr, C02_full_output fs kw hu _ o v s hr,
        hl.1, hl.2.1, C02_exactly_needed fs kw _ hw _ o v s hr⟩
    · cases h

/-! ### non-vacuity: the hypotheses are discharged by `decide` on the pipelines used throughout C02 -/

example : wfCertB [fD, fB, fA] [("fa", 0), ("fb", 1), ("fd", 2)] = true := by decide
example : wfCertB [fA, fD, fB] [("fa", 0), ("fb", 1), ("fd", 2)] = true := by decide
example : wfCertB [fM, fN] [("fm", 1)] = true := by decide
example : WFp [fD, fB, fA] (certRank [("fa", 0), ("fb", 1), ("fd", 2)]) := C02_wf_checker_sound _ _ (by decide)
example : namesDistinctB [fD, fB, fA] = true ∧ outsDisjointB [fD, fB, fA] = true := by decide
example : ∃ cert, wfCertB [fD, fB, fA] cert = true :=
  (C02_wf_iff_certificate _ (by decide) (by decide)).mp ⟨rankD, wf_diamond⟩
/-- a wrong certificate (fb ranked above fd) and a duplicated output name are refused -/
example : wfCertB [fD, fB, fA] [("fa", 0), ("fb", 3), ("fd", 2)] = false := by decide
example : wfCertB [fA, ⟨"g", [("x", "x")], ["a"], [], []⟩] [] = false := by decide
/-- a self-loop: `h` takes its own output; unless the parameter is bound (then the edge is gone) -/
example : ∀ cert, wfCertB [⟨"h", [("z", "z")], ["z"], [], []⟩] cert = false :=
  (C02_wf_self_loop_refused _ ⟨"h", [("z", "z")], ["z"], [], []⟩ (by simp) ("z", "z") (by simp) rfl rfl).1
example : wfCertB [⟨"h", [("z", "z")], ["z"], [], [("z", .int 0)]⟩] [] = true := by decide
/-- `C02_checked_run` speaks about real outcomes -/
example : ∃ out, runTop [fD, fB, fA] [("x", .int 1)] (.name "d") = .ok out ∧ out.calls.Nodup := by
  obtain ⟨out, h⟩ : ∃ out, runTop [fD, fB, fA] [("x", .int 1)] (.name "d") = .ok out := ⟨_, rfl⟩
  exact ⟨out, h, (C02_checked_run _ [("fa", 0), ("fb", 1), ("fd", 2)] (by decide) _ "d" out h).2.2.1⟩

end PF.C02
