import PfModel.Lemmas.LazyRun
/-! Helper lemmas for `Props/C18.lean`, part 4: the memoised `evaluate` refines the pure denotation, and invokes each node's
function at most once. -/
namespace PF.Lazy
open PF PF.Pipe

theorem denArgs_agree {vals vals' : List (Option Val)} : ∀ (args : List (String × LArg)),
    (∀ j ∈ argRefs args, vals[j]? = vals'[j]?) → denArgs vals args = denArgs vals' args := by
  intro args
  induction args with
  | nil => intro _; rfl
  | cons e r ih =>
    obtain ⟨k, a⟩ := e
    intro h
    cases a with
    | val v =>
      simp only [argRefs] at h
      simp only [denArgs, denArg, ih h]
    | ref i =>
      simp only [argRefs, List.mem_cons] at h
      have h1 := h i (Or.inl rfl)
      have h2 := ih (fun j hj => h j (Or.inr hj))
      simp only [denArgs, denArg, h1, h2]

theorem nodeVal_agree {vals vals' : List (Option Val)} (nd : Lazy.Node) (h : ∀ j ∈ nd.refs, vals[j]? = vals'[j]?) :
    nodeVal vals nd = nodeVal vals' nd := by
  cases nd with
  | call f args => simp only [nodeVal]; rw [denArgs_agree args h]
  | pick f src name =>
    cases src with
    | val v => simp only [nodeVal, denArg]
    | ref i => simp only [nodeVal, denArg]; rw [h i (by simp [Node.refs])]

/-- in a closed table a node stands for its function applied to what its arguments stand for -/
theorem den_unfold {nodes : List Lazy.Node} (hc : Closed nodes) {id : Nat} {nd : Lazy.Node} (h : nodes[id]? = some nd) :
    den nodes (.ref id) = nodeVal (denAll nodes) nd := by
  have hlt : id < nodes.length := by
    by_cases hh : id < nodes.length
    · exact hh
    · rw [List.getElem?_eq_none (Nat.le_of_not_lt hh)] at h; cases h
  have hget : nodes[id] = nd := by
    rw [List.getElem?_eq_getElem hlt] at h; injection h
  have hsplit : nodes = (nodes.take id ++ [nd]) ++ nodes.drop (id+1) := by
    have h1 := (List.take_append_drop id nodes).symm
    rw [List.drop_eq_getElem_cons hlt, hget] at h1
    rw [List.append_assoc]; exact h1
  have hlen : (nodes.take id).length = id := by simp [List.length_take]; omega
  obtain ⟨ext, hext⟩ := denAll_append (nodes.take id ++ [nd]) (nodes.drop (id+1))
  rw [← hsplit, denAll_snoc] at hext
  have hdl : (denAll (nodes.take id)).length = id := by rw [denAll_length, hlen]
  have hidx : (denAll nodes)[id]? = some (nodeVal (denAll (nodes.take id)) nd) := by
    rw [hext, List.append_assoc, List.getElem?_append_right (by omega), hdl]; simp
  have hagree : ∀ j ∈ nd.refs, (denAll (nodes.take id))[j]? = (denAll nodes)[j]? := by
    intro j hj
    have hjlt : j < id := hc id nd h j hj
    rw [hext, List.append_assoc, List.getElem?_append_left (by omega)]
  unfold den; simp only [denArg]
  rw [hidx, nodeVal_agree nd hagree]; rfl

/-! ### soundness of the memoised evaluation -/

/-- every `_result` stored so far is the value its node stands for -/
def DoneSound (nodes : List Lazy.Node) (s : ESt) : Prop := ∀ i w, dlookup s.done i = some w → den nodes (.ref i) = some w

def ERecSound (nodes : List Lazy.Node) (r : Nat → ESt → Except EErr (Val × ESt)) : Prop :=
  ∀ id s v s', DoneSound nodes s → r id s = .ok (v, s') → den nodes (.ref id) = some v ∧ DoneSound nodes s'

theorem evalArg_sound {nodes : List Lazy.Node} {r} (hr : ERecSound nodes r) (a : LArg) (s : ESt) (v : Val) (s' : ESt)
    (hs : DoneSound nodes s) (h : evalArg r a s = .ok (v, s')) : den nodes a = some v ∧ DoneSound nodes s' := by
  cases a with
  | val w => simp [evalArg] at h; obtain ⟨rfl, rfl⟩ := h; exact ⟨rfl, hs⟩
  | ref i => exact hr i s v s' hs h

theorem evalArgs_sound {nodes : List Lazy.Node} {r} (hr : ERecSound nodes r) : ∀ (args : List (String × LArg)) (s : ESt) vals s',
    DoneSound nodes s → evalArgs r args s = .ok (vals, s') → denArgs (denAll nodes) args = some vals ∧ DoneSound nodes s' := by
  intro args
  induction args with
  | nil => intro s vals s' hs h; simp [evalArgs] at h; obtain ⟨rfl, rfl⟩ := h; exact ⟨rfl, hs⟩
  | cons e rest ih =>
    obtain ⟨k, a⟩ := e
    intro s vals s' hs h
    simp only [evalArgs] at h
    split at h
    · simp at h
    · next v s1 h1 =>
      split at h
      · simp at h
      · next vs s2 h2 =>
        simp at h; obtain ⟨rfl, rfl⟩ := h
        obtain ⟨hd1, hs1⟩ := evalArg_sound hr a s v s1 hs h1
        obtain ⟨hd2, hs2⟩ := ih s1 vs s2 hs1 h2
        have hd1' : denArg (denAll nodes) a = some v := hd1
        exact ⟨by simp [denArgs, hd1', hd2], hs2⟩

theorem doneSound_cons {nodes : List Lazy.Node} {s1 : ESt} {id : Nat} {r : Val} {l : List Nat} (hs : DoneSound nodes s1)
    (hd : den nodes (.ref id) = some r) : DoneSound nodes { done := (id, r) :: s1.done, log := l } := by
  intro i w hl
  simp only [dlookup] at hl
  split at hl
  · next e => subst e; injection hl with hl; subst hl; exact hd
  · exact hs i w hl

theorem eval_succ (nodes : List Lazy.Node) (n id : Nat) (s : ESt) : eval nodes (n+1) id s =
    match dlookup s.done id with
    | some v => .ok (v, s)
    | none =>
      match nodes[id]? with
      | none => .error (.dangling id)
      | some (.call f args) =>
        match evalArgs (eval nodes n) args s with
        | .error e => .error e
        | .ok (vals, s1) => .ok (result f vals, { done := (id, result f vals) :: s1.done, log := s1.log ++ [id] })
      | some (.pick f src name) =>
        match evalArg (eval nodes n) src s with
        | .error e => .error e
        | .ok (v, s1) =>
          match pickVal f.outputs name v with
          | none => .error .notTuple
          | some r => .ok (r, { done := (id, r) :: s1.done, log := s1.log ++ [id] }) := by
  rw [eval]; rfl

theorem eval_sound {nodes : List Lazy.Node} (hc : Closed nodes) : ∀ n, ERecSound nodes (eval nodes n) := by
  intro n
  induction n with
  | zero => intro id s v s' _ h; simp [eval] at h
  | succ n ih =>
    intro id s v s' hs h
    rw [eval_succ] at h
    split at h
    · next w hw => simp at h; obtain ⟨rfl, rfl⟩ := h; exact ⟨hs id w hw, hs⟩
    · split at h
      · simp at h
      · next f args hnd =>
        split at h
        · simp at h
        · next vals s1 hargs =>
          simp at h; obtain ⟨rfl, rfl⟩ := h
          obtain ⟨hd, hs1⟩ := evalArgs_sound ih args s vals s1 hs hargs
          have hden : den nodes (.ref id) = some (result f vals) := by
            rw [den_unfold hc hnd]; simp [nodeVal, hd]
          exact ⟨hden, doneSound_cons hs1 hden⟩
      · next f src name hnd =>
        split at h
        · simp at h
        · next v0 s1 harg =>
          split at h
          · simp at h
          · next r hr =>
            simp at h; obtain ⟨rfl, rfl⟩ := h
            obtain ⟨hd, hs1⟩ := evalArg_sound ih src s v0 s1 hs harg
            have hd' : denArg (denAll nodes) src = some v0 := hd
            have hden : den nodes (.ref id) = some r := by
              rw [den_unfold hc hnd]; simp [nodeVal, hd', hr]
            exact ⟨hden, doneSound_cons hs1 hden⟩

/-! ### at most once -/

/-- the log has no duplicates and lists only nodes whose `_evaluated` flag is set -/
def LogInv (s : ESt) : Prop := s.log.Nodup ∧ ∀ i ∈ s.log, (dlookup s.done i).isSome

/-- what one `evaluate` does to the memo and the log, with a bound `B` on the ids it may touch -/
def Grows (B : Nat) (s s' : ESt) : Prop :=
  LogInv s' ∧ (∀ i ∈ s'.log, i ∈ s.log ∨ i < B) ∧ (∀ i, (dlookup s.done i).isSome → (dlookup s'.done i).isSome) ∧
  ∃ new, s'.log = s.log ++ new

theorem Grows.refl {B : Nat} {s : ESt} (h : LogInv s) : Grows B s s := ⟨h, fun i hi => Or.inl hi, fun _ h => h, [], by simp⟩

theorem Grows.trans {B : Nat} {a b c : ESt} (h1 : Grows B a b) (h2 : Grows B b c) : Grows B a c := by
  obtain ⟨_, h1b, h1m, n1, h1n⟩ := h1
  obtain ⟨h2i, h2b, h2m, n2, h2n⟩ := h2
  refine ⟨h2i, ?_, fun i hi => h2m i (h1m i hi), n1 ++ n2, by rw [h2n, h1n, List.append_assoc]⟩
  intro i hi
  rcases h2b i hi with h | h
  · exact h1b i h
  · exact Or.inr h

theorem Grows.mono {B B' : Nat} {a b : ESt} (h : Grows B a b) (hB : B ≤ B') : Grows B' a b := by
  obtain ⟨h1, h2, h3, h4⟩ := h
  exact ⟨h1, fun i hi => (h2 i hi).imp id (fun h => Nat.lt_of_lt_of_le h hB), h3, h4⟩

def EOnce (r : Nat → ESt → Except EErr (Val × ESt)) : Prop :=
  ∀ id s v s', LogInv s → r id s = .ok (v, s') → Grows (id+1) s s' ∧ (dlookup s'.done id).isSome

theorem evalArgs_once {r} (hr : EOnce r) (B : Nat) : ∀ (args : List (String × LArg)) (s : ESt) vals s',
    LogInv s → (∀ j ∈ argRefs args, j < B) → evalArgs r args s = .ok (vals, s') → Grows B s s' := by
  intro args
  induction args with
  | nil => intro s vals s' hs _ h; simp [evalArgs] at h; obtain ⟨_, rfl⟩ := h; exact Grows.refl hs
  | cons e rest ih =>
    obtain ⟨k, a⟩ := e
    intro s vals s' hs hB h
    simp only [evalArgs] at h
    split at h
    · simp at h
    · next v s1 h1 =>
      split at h
      · simp at h
      · next vs s2 h2 =>
        simp at h; obtain ⟨_, rfl⟩ := h
        cases a with
        | val w =>
          simp [evalArg] at h1; obtain ⟨_, rfl⟩ := h1
          exact ih s vs s2 hs (fun j hj => hB j (by simp [argRefs, hj])) h2
        | ref i =>
          obtain ⟨hg1, _⟩ := hr i s v s1 hs h1
          have hi : i < B := hB i (by simp [argRefs])
          have hg1' : Grows B s s1 := hg1.mono (by omega)
          have hg2 := ih s1 vs s2 hg1'.1 (fun j hj => hB j (by simp [argRefs, hj])) h2
          exact hg1'.trans hg2

theorem grows_push {id : Nat} {s s1 : ESt} {r : Val} (hs : LogInv s) (hnone : dlookup s.done id = none) (hg : Grows id s s1) :
    Grows (id+1) s { done := (id, r) :: s1.done, log := s1.log ++ [id] } ∧
    (dlookup ({ done := (id, r) :: s1.done, log := s1.log ++ [id] } : ESt).done id).isSome := by
  obtain ⟨⟨hnd, hdone⟩, hb, hm, new, hnew⟩ := hg
  have hnotin : id ∉ s1.log := by
    intro hin
    rcases hb id hin with h | h
    · have := hs.2 id h; rw [hnone] at this; simp at this
    · omega
  refine ⟨⟨⟨?_, ?_⟩, ?_, ?_, new ++ [id], by simp [hnew]⟩, by simp [dlookup]⟩
  · exact List.nodup_append.mpr ⟨hnd, by simp, by intro a ha b hb'; simp at hb'; subst hb'; intro e; subst e; exact hnotin ha⟩
  · intro i hi
    simp only [List.mem_append, List.mem_singleton] at hi
    simp only [dlookup]
    split
    · simp
    · rcases hi with hi | hi
      · exact hdone i hi
      · next ne => exact absurd hi.symm ne
  · intro i hi
    simp only [List.mem_append, List.mem_singleton] at hi
    rcases hi with hi | hi
    · exact (hb i hi).imp (fun h => h) (fun h => by omega)
    · exact Or.inr (by omega)
  · intro i hi
    simp only [dlookup]
    split
    · simp
    · exact hm i hi

theorem eval_once {nodes : List Lazy.Node} (hc : Closed nodes) : ∀ n, EOnce (eval nodes n) := by
  intro n
  induction n with
  | zero => intro id s v s' _ h; simp [eval] at h
  | succ n ih =>
    intro id s v s' hs h
    rw [eval_succ] at h
    split at h
    · next w hw => simp at h; obtain ⟨_, rfl⟩ := h; exact ⟨Grows.refl hs, by simp [hw]⟩
    · next hnone =>
      split at h
      · simp at h
      · next f args hnd =>
        split at h
        · simp at h
        · next vals s1 hargs =>
          simp at h; obtain ⟨_, rfl⟩ := h
          have hg := evalArgs_once ih id args s vals s1 hs (fun j hj => hc id _ hnd j hj) hargs
          exact grows_push hs hnone hg
      · next f src name hnd =>
        split at h
        · simp at h
        · next v0 s1 harg =>
          split at h
          · simp at h
          · next r hr =>
            simp at h; obtain ⟨_, rfl⟩ := h
            have hg : Grows id s s1 := by
              cases src with
              | val w => simp [evalArg] at harg; obtain ⟨_, rfl⟩ := harg; exact Grows.refl hs
              | ref i =>
                have hi : i < id := hc id _ hnd i (by simp [Node.refs])
                exact (ih i s v0 s1 hs harg).1.mono (by omega)
            exact grows_push hs hnone hg

/-- evaluating an evaluated node returns the stored result and changes nothing -/
theorem eval_done (nodes : List Lazy.Node) (n id : Nat) (s : ESt) (v : Val) (h : dlookup s.done id = some v) :
    eval nodes (n+1) id s = .ok (v, s) := by
  rw [eval_succ, h]

end PF.Lazy

namespace PF.Lazy
/-- a directed path along recorded edges -/
inductive Path (E : List (Nat × Nat)) : Nat → Nat → Prop
  | edge {a b : Nat} : (a, b) ∈ E → Path E a b
  | trans {a b c : Nat} : Path E a b → Path E b c → Path E a c

theorem path_lt {E : List (Nat × Nat)} (h : ∀ a b, (a, b) ∈ E → a < b) {a b : Nat} (p : Path E a b) : a < b := by
  induction p with
  | edge he => exact h _ _ he
  | trans _ _ ih1 ih2 => exact Nat.lt_trans ih1 ih2

theorem alookup_map_val (kw : List (String × Val)) (p : String) :
    alookup (kw.map fun (k, v) => (k, LArg.val v)) p = (alookup kw p).map LArg.val := by
  induction kw with
  | nil => rfl
  | cons e r ih => obtain ⟨k, v⟩ := e; simp only [List.map, alookup]; split <;> simp_all
end PF.Lazy
