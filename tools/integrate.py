#!/usr/bin/env python3
"""tools/integrate.py CXX : apply a builder's fix patches (fixes/CXX/*.patch, pipefunc/ part only) to /repo as individual
commits, merge its known-findings entries (PENDING → commit sha, matched by order of the 'fixed' entries), and report.
Does not run the baseline or the check; does not commit /verif."""
import json
import pathlib
import re
import subprocess
import sys

V = pathlib.Path(__file__).resolve().parent.parent
pid = sys.argv[1]
d = V / "fixes" / pid
patches = sorted(d.glob("*.patch"))
shas = []
for p in patches:
    r = subprocess.run(["git", "-C", "/repo", "am", "--include=pipefunc/*", "--3way", str(p)], capture_output=True, text=True)
    if r.returncode != 0:
        print("FAILED to apply", p.name, r.stdout[-500:], r.stderr[-500:])
        subprocess.run(["git", "-C", "/repo", "am", "--abort"])
        sys.exit(1)
    sha = subprocess.check_output(["git", "-C", "/repo", "log", "--format=%h", "-1"], text=True).strip()
    subj = subprocess.check_output(["git", "-C", "/repo", "log", "--format=%s", "-1"], text=True).strip()
    files = subprocess.check_output(["git", "-C", "/repo", "show", "--stat", "--format=", "HEAD"], text=True).strip().splitlines()
    print(f"applied {p.name} -> {sha} {subj}  [{'; '.join(f.strip() for f in files[:-1])}]")
    if not subj.startswith("fix:"):
        print("  WARNING: subject does not start with fix:")
    shas.append((sha, subj))
ef = d / "known_findings_entries.json"
if ef.exists():
    entries = json.loads(ef.read_text())
    kf = json.loads((V / "known_findings.json").read_text())
    have = {e["id"] for e in kf["findings"]}
    fixed = [e for e in entries if e.get("status") == "fixed"]
    if len(fixed) != len(shas):
        print(f"  NOTE: {len(fixed)} fixed entries vs {len(shas)} patches — matching by order where possible")
    for i, e in enumerate(fixed):
        if i < len(shas):
            e["commit"] = shas[i][0]
            e["what"] = e["what"].replace("PENDING", shas[i][0])
            e["commit_subject"] = shas[i][1]
    for e in entries:
        if e["id"] in have:
            kf["findings"] = [x for x in kf["findings"] if x["id"] != e["id"]]
        kf["findings"].append(e)
    (V / "known_findings.json").write_text(json.dumps(kf, indent=1))
    print(f"merged {len(entries)} known-findings entries")
