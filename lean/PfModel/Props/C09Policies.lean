import PfModel.Lemmas.PipeCachePolicies
import PfModel.Lemmas.CachePolicyDisk
import PfModel.Props.C09Fail
/-!
C09, extension (round 2) — eviction and arbitrary containers.

* `C09_transparent_lastPut`: the transparency theorem for an ARBITRARY cache that satisfies "`get` returns `None` or the
  value most recently `put` for that key" (`LastPutCache` → `Policy.ofLastPut`).
* `C09_c14_containers_satisfy_policy_laws`: each of C14's four container models (`LRUCache`, `HybridCache`, `SimpleCache`,
  `DiskCache` — `PF.Cache.Lawful`, proved in C14), on the states satisfying its invariant, satisfies the three laws of C09's
  `Policy` with `res := view`; so the abstraction C09 quantifies over is the one C14 establishes.  (C14's models are over
  `Nat` keys and values; the laws are stated for them as they are, the two developments share no type.)
* `lruPolicy n` (Model/PipeCacheLRU.lean) is C14's `Recency` policy at the pipeline's key/value types; the driver runs it
  for `LRUCache(max_size=n)`, so hits and misses under eviction are predicted; `C09_transparent_lru` is the instance.
-/
namespace PF.C09
open PF PF.Pipe PF.PipeCache

/-- **(5) Any "most-recently-put" cache is transparent.**  For an arbitrary container whose `get` returns nothing or the value
    most recently put for the key (eviction, reordering, read-back from a second level allowed), started in any tracked
    state whose most-recently-put values are right (e.g. a new container): over every history of calls — failing or not —
    and `update_defaults` on a pipeline well-formed at every stage, every call that succeeds without a cache returns
    normally with the cache the equal value / `full_output` dictionary. -/
theorem C09_transparent_lastPut {H σ} [DecidableEq H] (L : LastPutCache H σ) (h : Val → H) (hinj : ∀ a b, h a = h b → a = b)
    (cached : Func → Bool) (steps : List Step) (fs : List Func) (c : Tracked L) (hnb : noBoundReplace steps = true)
    (hwf : WFAll fs steps) (hi : Inv (Policy.ofLastPut L) h fs c) :
    AgreesF steps (histU fs steps) (histF (Policy.ofLastPut L) cached (fun fs => computeKey h fs) fs c steps) :=
  C09_transparent_all (Policy.ofLastPut L) h hinj cached steps fs c hnb hwf hi

/-- a new container (nothing put yet) satisfies the invariant -/
theorem C09_lastPut_new_inv {H σ} [DecidableEq H] (L : LastPutCache H σ) (h : Val → H) (fs : List Func) (s : σ)
    (ht : L.Tracks s (fun _ => none)) : Inv (Policy.ofLastPut L) h fs ⟨(s, fun _ => none), ht⟩ := by
  intro K r hr
  simp [Policy.ofLastPut] at hr

/-- **C14's containers satisfy C09's policy laws.**  For every container model that C14 proves `Lawful` (all four), on
    states satisfying its invariant: what `get` returns is the view (`get_res`); after a `get` every key answers what it
    answered before (`get_sub`); after a `put` every key answers what it answered before or what was just put (`put_sub`);
    and the invariant is kept, so the laws hold along every history. -/
theorem C09_c14_containers_satisfy_policy_laws {σ : Type} (M : PF.Cache.Sem σ) (I : σ → Prop) (L : PF.Cache.Lawful M I) :
    (∀ s k s' v, I s → M.step s (.get k) = .ok (s', .val (some v)) → M.view s k = some v) ∧
    (∀ s k s' o, I s → M.step s (.get k) = .ok (s', o) → I s' ∧ ∀ k' w, M.view s' k' = some w → M.view s k' = some w) ∧
    (∀ s k v d s' o, I s → M.step s (.put k v d) = .ok (s', o) → I s' ∧
      ∀ k' w, M.view s' k' = some w → (k' = k ∧ w = v) ∨ M.view s k' = some w) := by
  refine ⟨?_, ?_, ?_⟩
  · intro s k s' v hs hstep
    have := L.get_obs s k s' _ hs hstep
    injection this with e
    exact e.symm
  · intro s k s' o hs hstep
    obtain ⟨s2, o2, h2, hi2⟩ := L.total s (.get k) hs trivial
    rw [hstep] at h2
    injection h2 with h2
    injection h2 with e1 e2
    subst e1
    refine ⟨hi2, ?_⟩
    intro k' w hw
    have := L.frame s (.get k) s' o k' w hs hstep hw
    simpa [PF.Cache.recent] using this
  · intro s k v d s' o hs hstep
    obtain ⟨s2, o2, h2, hi2⟩ := L.total s (.put k v d) hs trivial
    rw [hstep] at h2
    injection h2 with h2
    injection h2 with e1 e2
    subst e1
    refine ⟨hi2, ?_⟩
    intro k' w hw
    have := L.frame s (.put k v d) s' o k' w hs hstep hw
    simp only [PF.Cache.recent] at this
    split at this
    · next e => left; exact ⟨e, by injection this with e'; exact e'.symm⟩
    · right; exact this

/-- … in particular the four instances C14 proves -/
theorem C09_c14_instances :
    PF.Cache.Lawful PF.Cache.lruSem PF.Cache.LRU.Inv ∧ PF.Cache.Lawful PF.Cache.hybSem PF.Cache.Hyb.Inv ∧
    PF.Cache.Lawful PF.Cache.simpleSem (fun _ => True) ∧ PF.Cache.Lawful PF.Cache.diskSem PF.Cache.Disk.Inv :=
  ⟨PF.Cache.lru_lawful, PF.Cache.hyb_lawful, PF.Cache.simple_lawful, PF.Cache.disk_lawful⟩

/-- the empty `LRUCache` of any capacity satisfies the invariant -/
theorem C09_empty_inv_lru {H} [DecidableEq H] (n : Nat) (h : Val → H) (fs : List Func) : Inv (lruPolicy H n) h fs [] := by
  intro K r hr
  simp [lruPolicy, mapGet] at hr

/-- **Transparent under eviction.**  `LRUCache(max_size=n)` for every `n` (also 0 and 1), from the empty cache. -/
theorem C09_transparent_lru {H} [DecidableEq H] (n : Nat) (h : Val → H) (hinj : ∀ a b, h a = h b → a = b) (cached : Func → Bool)
    (steps : List Step) (fs : List Func) (hnb : noBoundReplace steps = true) (hwf : WFAll fs steps) :
    AgreesF steps (histU fs steps) (histF (lruPolicy H n) cached (fun fs => computeKey h fs) fs [] steps) :=
  C09_transparent_all (lruPolicy H n) h hinj cached steps fs [] hnb hwf (C09_empty_inv_lru n h fs)

/-- non-vacuity, and eviction at work: `LRUCache(max_size=1)`, only `f` cached, `d(a=1) ; d(a=2) ; d(a=1) ; d(a=1)`: the
    entry of `a=1` is evicted by `a=2`, so the third call executes `g` and `f` again (with the unbounded `SimpleCache` it is a
    hit), the fourth is a hit; the values are the twin's throughout -/
def hEvict : List Step :=
  [.call "d" [("a", .str "1")] false, .call "d" [("a", .str "2")] false, .call "d" [("a", .str "1")] false,
   .call "d" [("a", .str "1")] false]

example : (histF (lruPolicy String 1) (fun f => f.name = "f") (fun fs => computeKey hS fs) [gA, fD] [] hEvict).map
      (fun r => match r with | some (.ok o) => some (o.calls, o.hits.length) | _ => none) =
      [some (["g", "f"], 0), some (["g", "f"], 0), some (["g", "f"], 0), some ([], 1)] ∧
    (histF (simplePolicy String) (fun f => f.name = "f") (fun fs => computeKey hS fs) [gA, fD] [] hEvict).map
      (fun r => match r with | some (.ok o) => some (o.calls, o.hits.length) | _ => none) =
      [some (["g", "f"], 0), some (["g", "f"], 0), some ([], 1), some ([], 1)] ∧
    (histF (lruPolicy String 1) (fun f => f.name = "f") (fun fs => computeKey hS fs) [gA, fD] [] hEvict).map
      (fun r => match r with | some (.ok o) => some o.value | _ => none) = valsU [gA, fD] hEvict ∧
    noBoundReplace hEvict = true := by
  refine ⟨?_, ?_, ?_, ?_⟩ <;> rfl

/-- non-vacuity of `LastPutCache`: the recency-list LRU is one, and its empty state is tracked by the empty map -/
example : (lruLastPut String 2).Tracks [] (fun _ => none) := by
  intro k v hk
  simp [mapGet] at hk

end PF.C09
