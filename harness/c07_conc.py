"""C07 extension — several processes dumping into one `FileArray` folder, with a concurrent reader.

A case = external shape, 2-4 writer programs (lists of `(cell, value id)`), a mode:

  distinct   every cell belongs to one writer                      -> final content = that writer's last value (schedule independent)
  same       all writers hammer the same one or two cells          -> final content = the LAST value of ONE of the writers
  mixed      random cells
  kill       like mixed, one writer is SIGKILLed at a random moment -> every file present is complete and holds a value some writer
                                                                       dumped to that cell (the crash point of `dump`)

Writers are forked processes (released together by a barrier); each opens its own `FileArray` on the folder and dumps through the
public `dump`.  While they run the parent keeps reading (`has_index`, `get_from_index`, `__getitem__`, `to_array`, `mask_linear`):
a read must never raise and must return `masked` or a value that was dumped to that cell.  Values carry a payload of up to ~300 kB so
that a dump that is not atomic (written in place) is caught half-written.

The Lean side (`storage.conc`: `PF.St.runW`, `lastTo`, `projW`; `C07_conc_last_writer_wins`, `C07_conc_same_cell`,
`C07_conc_distinct_cells`) gives, for every cell, the candidates = the last value of each writer's program; the real folder's final
content must be one of them, and for a cell with one writer exactly that one.  A failure here is a clause of the property
("written elements read back equal, unwritten elements are masked") on the implementation's own answer -> violation with the case.
"""
from __future__ import annotations

import hashlib
import multiprocessing
import os
import signal
import time

import numpy as np

import pfimport  # noqa: F401
from pfimport import exc_enum
from pipefunc.map._storage_array._file import FileArray

CTX = multiprocessing.get_context("fork")


def payload(vid, size):
    """deterministic value: (id, bytes) — large enough to need several write() calls"""
    blk = hashlib.sha256(str(vid).encode()).digest()
    return (vid, (blk * (size // len(blk) + 1))[:size])


def value_id(x, sizes):
    """the id of a read value if it is exactly a dumped value, else a description of the damage"""
    if x is np.ma.masked:
        return "masked"
    if not (isinstance(x, tuple) and len(x) == 2 and isinstance(x[0], int)):
        return f"?{type(x).__name__}"
    vid = x[0]
    if vid not in sizes or x != payload(vid, sizes[vid]):
        return f"?damaged:{vid}"
    return vid


def unravel(i, shape):
    return tuple(int(k) for k in np.unravel_index(i, shape)) if shape else ()


def _writer(folder, shape, program, sizes, barrier, conn):
    err = None
    done = 0
    try:
        arr = FileArray(folder, tuple(shape))
        barrier.wait(timeout=20)
        for cell, vid in program:
            arr.dump(unravel(cell, shape), payload(vid, sizes[vid]))
            done += 1
    except BaseException as e:  # noqa: BLE001
        err = f"{exc_enum(e)}: {str(e)[:120]}"
    try:
        conn.send((done, err))
        conn.close()
    finally:
        os._exit(0)


def gen_case(rng, quick):
    rank = rng.choice([1, 1, 2])
    shape = [rng.randint(2, 4) for _ in range(rank)]
    size = int(np.prod(shape))
    k = rng.randint(2, 4)
    mode = rng.choice(["distinct", "same", "same", "mixed", "kill"])
    steps = rng.randint(8, 20 if quick else 40)
    big = rng.choice([300, 20_000, 300_000])
    programs, sizes, vid = [], {}, 1
    hot = rng.sample(range(size), min(size, rng.choice([1, 1, 2])))
    owner = [rng.randrange(k) for _ in range(size)]
    for w in range(k):
        prog = []
        mine = [c for c in range(size) if owner[c] == w]
        for _ in range(steps):
            if mode == "distinct":
                if not mine:
                    break
                cell = rng.choice(mine)
            elif mode == "same":
                cell = rng.choice(hot)
            else:
                cell = rng.randrange(size)
            sizes[vid] = rng.choice([big, big, 50])
            prog.append([cell, vid])
            vid += 1
        programs.append(prog)
    case = {"stream": "conc", "shape": shape, "mode": mode, "programs": programs, "sizes": {str(v): s for v, s in sizes.items()}}
    if mode == "kill":
        case["kill"] = {"writer": rng.randrange(k), "after_ms": rng.choice([0, 1, 3, 10, 30])}
    return case


def run_case(case, folder, read=True):
    """-> (final: cell -> id|'masked'|'?…', problems: [str], stats)"""
    shape, programs = case["shape"], case["programs"]
    sizes = {int(v): s for v, s in case["sizes"].items()}
    size = int(np.prod(shape))
    written = {c: set() for c in range(size)}
    for prog in programs:
        for cell, vid in prog:
            written[cell].add(vid)
    barrier = CTX.Barrier(len(programs) + 1)
    procs, conns = [], []
    problems, reads = [], 0
    stats_none = [0]
    arr = FileArray(folder, tuple(shape))
    try:
        for prog in programs:
            rx, tx = CTX.Pipe(duplex=False)
            p = CTX.Process(target=_writer, args=(folder, shape, prog, sizes, barrier, tx), daemon=True)
            p.start()
            tx.close()
            procs.append(p)
            conns.append(rx)
        try:
            barrier.wait(timeout=20)
        except Exception as e:  # noqa: BLE001
            return None, [f"infra: barrier {exc_enum(e)}"], {}
        t0 = time.monotonic()
        kill = case.get("kill")
        killed = False
        rr = np.random.default_rng(len(programs) * 1000 + size)      # which cell the reader looks at: irrelevant for the verdict
        while any(p.is_alive() for p in procs) and time.monotonic() - t0 < 30:
            if kill and not killed and (time.monotonic() - t0) * 1000 >= kill["after_ms"]:
                try:
                    os.kill(procs[kill["writer"]].pid, signal.SIGKILL)
                except ProcessLookupError:
                    pass
                killed = True
            if not read:
                time.sleep(0.001)
                continue
            c = int(rr.integers(size))
            kind = reads % 5
            reads += 1
            try:
                if kind == 0:
                    got = [value_id(arr.get_from_index(c), sizes)] if arr.has_index(c) else ["masked"]
                    cells = [c]
                elif kind == 1:
                    got, cells = [value_id(arr[unravel(c, shape)], sizes)], [c]
                elif kind == 2:
                    ta = arr.to_array()
                    m = np.ma.getmaskarray(ta)
                    got = ["masked" if m[unravel(i, shape)] else value_id(ta.data[unravel(i, shape)], sizes) for i in range(size)]
                    cells = list(range(size))
                elif kind == 3:
                    ml = arr.mask_linear()
                    got, cells = [], []
                    if len(ml) != size:
                        problems.append(f"reader: mask_linear has {len(ml)} entries while writers run")
                else:
                    sl = arr[tuple(slice(None) for _ in shape)]
                    m = np.ma.getmaskarray(sl)
                    got = ["masked" if m[unravel(i, shape)] else value_id(sl.data[unravel(i, shape)], sizes) for i in range(size)]
                    cells = list(range(size))
            except Exception as e:  # noqa: BLE001
                problems.append(f"reader: {['get_from_index', '__getitem__', 'to_array', 'mask_linear', '__getitem__[slices]'][kind]} raised "
                                f"{exc_enum(e)} while writers run ({str(e)[:80]})")
                continue
            for cc, g in zip(cells, got):
                if kind == 2 and g == "?NoneType":
                    # `FileArray.to_array` lists the files (mask) AFTER it has read them: an element dumped in between shows as an
                    # unmasked `None`.  A reader/writer race of to_array itself, not a torn file, and outside the property: counted only.
                    stats_none[0] += 1
                    continue
                if g != "masked" and g not in written[cc]:
                    problems.append(f"reader: cell {cc} read as {g}, which no writer dumped there")
        for p in procs:
            p.join(timeout=90)       # the writers dump a handful of elements; the margin is for a loaded machine
        done = []
        for w, (p, rx) in enumerate(zip(procs, conns)):
            if kill and w == kill["writer"]:
                done.append(None)
                continue
            if rx.poll(10):
                d, err = rx.recv()
                done.append(d)
                if err:
                    problems.append(f"writer {w}: dump raised {err}")
                elif d != len(programs[w]):
                    problems.append(f"writer {w}: stopped after {d} of {len(programs[w])} dumps")
            else:
                done.append(None)
                problems.append(f"writer {w}: no report (died or hung)")
    finally:
        for p in procs:
            if p.is_alive():
                p.kill()
            p.join(timeout=2)
        for rx in conns:
            rx.close()
    # final state through a fresh object
    final = {}
    arr2 = FileArray(folder, tuple(shape))
    try:
        ml = arr2.mask_linear()
        ta = arr2.to_array()
        tm = np.ma.getmaskarray(ta)
        for c in range(size):
            if arr2.has_index(c):
                final[c] = value_id(arr2.get_from_index(c), sizes)
            else:
                final[c] = "masked"
            v2 = "masked" if tm[unravel(c, shape)] else value_id(ta.data[unravel(c, shape)], sizes)
            if v2 != final[c] or ml[c] != (final[c] == "masked"):
                problems.append(f"final: cell {c}: get_from_index {final[c]}, to_array {v2}, mask_linear {ml[c]}")
    except Exception as e:  # noqa: BLE001
        problems.append(f"final: reading the folder raised {exc_enum(e)} ({str(e)[:80]})")
    leftovers = sorted(n for n in os.listdir(folder) if not (n.startswith("__") and n.endswith("__.pickle")))
    if leftovers and not case.get("kill"):
        problems.append(f"final: files that are no elements were left in the folder: {leftovers[:3]}")
    return final, problems, {"reads": reads, "leftovers": len(leftovers), "to_array_none": stats_none[0]}


def verdict(case, final, cand):
    """property clauses on the final folder, given the model's candidates per cell (last value of each writer's program)"""
    out = []
    size = int(np.prod(case["shape"]))
    kill = case.get("kill")
    for c in range(size):
        cs = [x[0] for x in cand[c] if x is not None]
        allowed = set(cs)
        may_be_masked = not cs
        if kill:
            kw = [vid for cell, vid in case["programs"][kill["writer"]] if cell == c]
            allowed |= set(kw)
            # the killed writer may not have reached this cell: then the survivors' candidates (or masked, if there are none) remain
            others = [x[0] for w, x in enumerate(cand[c]) if x is not None and w != kill["writer"]]
            may_be_masked = not others
        got = final.get(c)
        if got == "masked":
            if not may_be_masked:
                out.append(f"cell {c} was dumped to by a writer that finished, but reads as masked")
        elif got not in allowed:
            out.append(f"cell {c} holds {got}; the last dumps of the writers' programs are {sorted(allowed)}")
    return out


def prepare(ctx):
    quick = ctx.tier == "quick"
    n = ctx.n(8, 120)
    cases = [gen_case(ctx.rng, quick) for _ in range(n)]
    reqs = []
    for case in cases:
        trace = [[w, cell, [vid]] for w, prog in enumerate(case["programs"]) for cell, vid in prog]     # one interleaving: w0; w1; …
        reqs.append({"m": "storage.conc", "a": {"trace": trace, "cells": list(range(int(np.prod(case["shape"])))),
                                                 "writers": len(case["programs"])}})
    return reqs, cases


def finish(ctx, base, cases, outs):
    quick = ctx.tier == "quick"
    t_start = time.monotonic()
    budget = 12 if quick else 240
    for idx, (case, resp) in enumerate(zip(cases, outs)):
        if time.monotonic() - t_start > budget:
            ctx.skip("conc:time-budget")
            continue
        cand = resp["r"]["candidates"]
        folder = os.path.join(base, f"conc{idx}")
        final, problems, stats = run_case(case, folder)
        ctx.count("stream:conc")
        ctx.count(f"conc:mode:{case['mode']}")
        ctx.count(f"conc:writers:{len(case['programs'])}")
        if final is None:
            ctx.skip("conc:" + problems[0])
            continue
        ctx.count("conc:concurrent-reads", stats["reads"])
        if case.get("kill") and stats["leftovers"]:
            ctx.count("conc:kill:writer-died-inside-dump(temporary-file-left)")
        if stats["to_array_none"]:
            ctx.count("conc:to_array-saw-unmasked-None-during-writes(not-checked)", stats["to_array_none"])
        single = [c for c in range(len(cand)) if sum(x is not None for x in cand[c]) == 1]
        ctx.count("conc:cells-with-one-writer", len(single))
        ctx.count("conc:cells-contended", sum(1 for c in range(len(cand)) if sum(x is not None for x in cand[c]) > 1))
        ctx.record({k: v for k, v in case.items() if k != "sizes"} | {"n_values": len(case["sizes"])}, nontrivial=True)
        problems = problems + verdict(case, final, cand)
        # distinct cells: the model's final state for ANY interleaving is the implementation's (C07_conc_distinct_cells)
        if case["mode"] == "distinct" and not problems:
            mfinal = {c: (x[0] if x is not None else "masked") for c, x in enumerate(resp["r"]["final"])}
            if mfinal != final:
                problems.append(f"distinct cells: final folder {final} differs from the model's schedule-independent result {mfinal}")
        if problems:
            # confirm on a fresh folder (a torn read is a race: report how often it shows)
            again = sum(1 for r in range(3) if (lambda f: bool(f[1] + (verdict(case, f[0], cand) if f[0] else [])))(
                run_case(case, os.path.join(base, f"conc{idx}-again{r}"))))
            if again == 0 and all("no report (died or hung)" in q for q in problems):
                # a writer process that never reported, not reproduced on three fresh folders: the forked writer was starved or lost on a
                # loaded machine (seen once per ~10 thorough runs under load 50+, never on an idle one).  Nothing was observed about
                # pipefunc, so nothing is claimed: counted as a skipped case, not a violation.
                ctx.skip("conc:writer-no-report-not-reproduced")
                continue
            ctx.violation(case, f"concurrent writers on FileArray ({case['mode']}): {problems[0]}", impl={"problems": problems[:5],
                          "final": {str(k): v for k, v in final.items()}, "reproduced_in_3_reruns": again},
                          model={"candidates": cand}, key=f"conc:{case['mode']}:{problems[0].split(':')[0]}")


def replay(ctx, case, base):
    trace = [[w, cell, [vid]] for w, prog in enumerate(case["programs"]) for cell, vid in prog]
    size = int(np.prod(case["shape"]))
    resp = ctx.lean([{"m": "storage.conc", "a": {"trace": trace, "cells": list(range(size)), "writers": len(case["programs"])}}])[0]["r"]
    print("shape", case["shape"], "mode", case["mode"], "kill", case.get("kill"))
    for w, prog in enumerate(case["programs"]):
        print(f"   writer {w}: dumps (cell, value id) {prog}")
    print("   model: candidates per cell (last value of each writer's program):", resp["candidates"])
    for r in range(5):
        final, problems, stats = run_case(case, os.path.join(base, f"replay{r}"))
        problems = problems + (verdict(case, final, resp["candidates"]) if final else [])
        print(f"   run {r}: final {final} concurrent reads {stats.get('reads')} problems {problems[:4]}")
