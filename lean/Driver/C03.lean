import PfModel.DriverVal
import PfModel.Model.Sched
/-! Driver for C03 (`map.sched`): the parallel map runner `PF.Sched.runMapSched` under a given family of schedules
    (`orders`: per generation the (function name, future position) pairs in execution order) and `dump_in_subprocess`
    assignment (`dump_sub`: output names); reports the result, whether it equals the sequential runner's (`PF.Map.runMap`),
    the barrier on the execution log, and per generation the submitted ids, the execution order, the call log and the dumps. -/
open Lean PF PF.Drv PF.Map PF.Sched

def getASpec (j : Json) : R ASpec := do
  let (n, ax) ← asPair asStr (asList (asOpt asStr)) j
  return { name := n, axes := ax }

def getMSpec (j : Json) : R MSpec := do
  return { inputs := ← listF getASpec j "inputs", outputs := ← listF getASpec j "outputs" }

def getMFunc (j : Json) : R MFunc := do
  return { name := ← strF j "name", params := ← listF (asPair asStr asStr) j "params", outputs := ← listF asStr j "outputs",
           mapspec := ← optF getMSpec j "mapspec", ret := ← optF (asList asNat) j "ret", internal := ← optF (asList asNat) j "internal",
           defaults := (← optF getKw j "defaults").getD [], bound := (← optF getKw j "bound").getD [] }

def putMErr : PF.Map.Err → Json
  | .value w => jObj [("err", jStr "ValueError"), ("why", jStr w)]
  | .type w => jObj [("err", jStr "TypeError"), ("why", jStr w)]
  | .index w => jObj [("err", jStr "IndexError"), ("why", jStr w)]
  | .key w => jObj [("err", jStr "KeyError"), ("why", jStr w)]
  | .fuel => jObj [("err", jStr "Hang")]

def putCall (c : Call) : Json := jArr [jStr c.name, putKw c.args]
def putId (id : TaskId) : Json := jArr [jNat id.1, jNat id.2]
def putDump (d : DumpEv) : Json := jArr [jStr d.out, jOpt jNat d.idx, jBool d.inWorker]

def putResult (r : MapResult) : Json :=
  jObj [("outputs", putKw r.outputs), ("stored", putKw r.stored),
        ("shapes", jList (jPair jStr (jList jNat)) r.shapes), ("masks", jList (jPair jStr (jList jBool)) r.masks),
        ("calls", jList putCall r.calls), ("gens", jList (jList jStr) r.gens)]

/-- decidable version of `UniqueOutputs` -/
def uniqueOutputs : List MFunc → Bool
  | [] => true
  | f :: rest => rest.all (fun g => f.outputs.all fun o => !g.outputs.contains o) && uniqueOutputs rest

/-- the barrier on the execution log: generation numbers never decrease -/
def barrierOk : List (Nat × TaskId) → Bool
  | (g, _) :: (g', id) :: rest => g ≤ g' && barrierOk ((g', id) :: rest)
  | _ => true

/-- a family of schedules from per-generation lists of (function name, position in the function's futures) in execution
    order; a generation without a list runs in submission order -/
def schedOf (fs : List MFunc) (orders : List (List (String × Nat))) : Scheds := fun g ids =>
  match orders[g]?, (generations fs)[g]? with
  | some ord, some gen => ord.filterMap fun (nm, k) => (gen.findIdx? (·.name = nm)).map fun j => (j, k)
  | _, _ => ids

def handle (m : String) (a : Json) : R Json := do
  match m with
  | "map.sched" =>
    let fs ← listF getMFunc a "funcs"
    let inputs ← getKw (← fld a "inputs")
    let internal := (← optF (asList (asPair asStr (asList asNat))) a "internal").getD []
    let orders := (← optF (asList (asList (asPair asStr asNat))) a "orders").getD []
    let dumpSubL := (← optF (asList asStr) a "dump_sub").getD []
    let dumpSub : String → Bool := fun o => dumpSubL.contains o
    let seq := runMap fs inputs internal
    let seqJ := match seq with | .error e => putMErr e | .ok r => putResult r
    match runMapSched fs inputs internal dumpSub (schedOf fs orders) with
    | .error e => return jObj [("sched", putMErr e), ("equal", jBool ((putMErr e).compress == seqJ.compress)),
                              ("unique_outputs", jBool (uniqueOutputs fs))]
    | .ok (r, trs) =>
      -- a schedule that is not a permutation of the submitted futures is a malformed request
      for tr in trs do
        if !(tr.ran.isPerm tr.ids) then throw s!"schedule is not a permutation of the submitted tasks: {repr tr.ran} vs {repr tr.ids}"
      let rJ := putResult r
      return jObj [("sched", rJ), ("equal", jBool (rJ.compress == seqJ.compress)),
                   ("unique_outputs", jBool (uniqueOutputs fs)),
                   ("barrier", jBool (barrierOk (runLog 0 trs))),
                   ("trace", jList (fun (tr : GenTrace) => jObj [("ids", jList putId tr.ids), ("ran", jList putId tr.ran),
                                      ("calls", jList putCall tr.calls), ("dumps", jList putDump tr.dumps)]) trs)]
  | _ => .error s!"unknown entry {m}"

def main : IO Unit := loop handle
