import PfModel.Lemmas.SweepDistinctCart
/-! Lemmas for the `filtered_sweep` branch *without* derivers: the rebuilt sweep (per-group de-duplication of the fixed code)
enumerates the distinct restrictions of the combinations of the original sweep. -/

namespace PF.Sweep

section Transpose2
variable {V : Type}

/-- `zip(*seqs)` for sequences of length `n`, also for no sequences (`n` empty rows) — a uniform recursion for `zipRows` -/
def zipRowsN (n : Nat) : List (List V) → List (List V)
  | [] => List.replicate n []
  | c :: C => List.zipWith (fun v r => v :: r) c (zipRowsN n C)

theorem zipWith_replicate_right {α β γ : Type} (f : α → β → γ) (c : List α) (b : β) :
    List.zipWith f c (List.replicate c.length b) = c.map (fun v => f v b) := by
  induction c with
  | nil => rfl
  | cons v w ih => simp [List.replicate_succ, ih]

theorem zipRows_eq_N (C : List (List V)) (n : Nat) (hne : C ≠ []) (h : ∀ c ∈ C, c.length = n) : zipRows C = zipRowsN n C := by
  induction C with
  | nil => exact absurd rfl hne
  | cons c cs ih =>
    cases cs with
    | nil =>
      have := zipWith_replicate_right (fun (v : V) (r : List V) => v :: r) c []
      rw [h c (by simp)] at this
      simp only [zipRows, zipRowsN, this]
    | cons c2 cs' =>
      rw [zipRows_cons_cons, ih (by simp) (fun c' hc' => h c' (by simp [hc']))]
      rfl

theorem length_zipRowsN (C : List (List V)) (n : Nat) (h : ∀ c ∈ C, c.length = n) : (zipRowsN n C).length = n := by
  induction C with
  | nil => simp [zipRowsN]
  | cons c cs ih =>
    simp only [zipRowsN, List.length_zipWith, ih (fun c' hc' => h c' (by simp [hc'])), h c (by simp), Nat.min_self]

theorem mem_zipWith_right {α β γ : Type} (f : α → β → γ) (a : List α) (b : List β) (x : γ) (h : x ∈ List.zipWith f a b) :
    ∃ u v, v ∈ b ∧ x = f u v := by
  induction a generalizing b with
  | nil => simp at h
  | cons u a' ih =>
    cases b with
    | nil => simp at h
    | cons v b' =>
      simp only [List.zipWith_cons_cons, List.mem_cons] at h
      rcases h with rfl | h
      · exact ⟨u, v, by simp, rfl⟩
      · obtain ⟨u', v', hv', e⟩ := ih b' h
        exact ⟨u', v', by simp [hv'], e⟩

theorem width_zipRowsN (C : List (List V)) (n : Nat) : ∀ r ∈ zipRowsN n C, r.length = C.length := by
  induction C with
  | nil => intro r hr; simp only [zipRowsN, List.mem_replicate] at hr; rw [hr.2]; rfl
  | cons c cs ih =>
    intro r hr
    obtain ⟨v, r', hr', rfl⟩ := mem_zipWith_right _ _ _ _ hr
    simp [ih r' hr']

theorem zipWith_ignore_left {α β γ : Type} (h : β → γ) (a : List α) (b : List β) (hl : b.length ≤ a.length) :
    List.zipWith (fun _ y => h y) a b = b.map h := by
  induction b generalizing a with
  | nil => simp
  | cons y r ih =>
    cases a with
    | nil => simp at hl
    | cons x a' => simp [ih a' (by simpa using hl)]

/-- the sub-dictionary of a combination on the names `ks`: the projection onto `ks` as a mapping -/
def restrict (ks : List Key) (c : Dict V) : Dict V := c.filter (fun kv => ks.contains kv.1)

theorem restrict_cons_mem (ks : List Key) (k : Key) (v : V) (y : Dict V) (hk : k ∈ ks) :
    restrict ks ((k, v) :: y) = (k, v) :: restrict ks y := by
  simp [restrict, List.filter_cons, hk]

theorem restrict_cons_not_mem (ks : List Key) (k : Key) (v : V) (y : Dict V) (hk : k ∉ ks) :
    restrict ks ((k, v) :: y) = restrict ks y := by
  simp [restrict, List.filter_cons, hk]

theorem lookup_restrict (ks : List Key) (c : Dict V) (k : Key) :
    lookup (restrict ks c) k = if k ∈ ks then lookup c k else none := by
  induction c with
  | nil => simp [restrict, lookup]
  | cons p r ih =>
    obtain ⟨k0, v0⟩ := p
    by_cases h0 : k0 ∈ ks
    · rw [restrict_cons_mem ks k0 v0 r h0]
      simp only [lookup, ih]
      by_cases e : k0 = k
      · subst e; simp [h0]
      · simp [e]
    · rw [restrict_cons_not_mem ks k0 v0 r h0, ih]
      simp only [lookup]
      by_cases e : k0 = k
      · subst e; simp [h0]
      · simp [e]

theorem restrict_flatten (ks : List Key) (rows : List (Dict V)) : restrict ks rows.flatten = (rows.map (restrict ks)).flatten := by
  show List.filter _ rows.flatten = (rows.map (fun c => List.filter _ c)).flatten
  rw [List.filter_flatten]

/-- restricting the rows of a zipped group = the rows of the restricted group (`n` = the common length of the columns) -/
theorem zipRowsN_restrict (ks : List Key) (items : Dict (List V)) (n : Nat) (g : List Key)
    (h : ∀ k ∈ g, (col items k).length = n) :
    (zipRowsN n (g.map (col items))).map (fun r => restrict ks (g.zip r)) =
      (zipRowsN n ((g.filter ks.contains).map (col items))).map (fun r => (g.filter ks.contains).zip r) := by
  induction g with
  | nil => simp [zipRowsN, restrict]
  | cons k t ih =>
    have ih' := ih (fun k' hk' => h k' (by simp [hk']))
    have hX : (zipRowsN n (t.map (col items))).length = n :=
      length_zipRowsN _ n (fun c hc => by obtain ⟨k', hk', rfl⟩ := List.mem_map.mp hc; exact h k' (by simp [hk']))
    by_cases hk : k ∈ ks
    · have hf : (k :: t).filter ks.contains = k :: t.filter ks.contains := by simp [List.filter_cons, hk]
      rw [hf]
      simp only [List.map_cons, zipRowsN, List.map_zipWith, List.zip_cons_cons, restrict_cons_mem ks k _ _ hk]
      have hL : List.zipWith (fun x y => (k, x) :: restrict ks (t.zip y)) (col items k) (zipRowsN n (t.map (col items))) =
          List.zipWith (fun (v : V) (y : Dict V) => (k, v) :: y) (col items k)
            ((zipRowsN n (t.map (col items))).map (fun r => restrict ks (t.zip r))) := by
        rw [List.zipWith_map_right]
      have hR : List.zipWith (fun x y => (k, x) :: (t.filter ks.contains).zip y) (col items k)
            (zipRowsN n ((t.filter ks.contains).map (col items))) =
          List.zipWith (fun (v : V) (y : Dict V) => (k, v) :: y) (col items k)
            ((zipRowsN n ((t.filter ks.contains).map (col items))).map (fun r => (t.filter ks.contains).zip r)) := by
        rw [List.zipWith_map_right]
      rw [hL, hR, ih']
    · have hf : (k :: t).filter ks.contains = t.filter ks.contains := by simp [List.filter_cons, hk]
      rw [hf]
      simp only [List.map_cons, zipRowsN, List.map_zipWith, List.zip_cons_cons, restrict_cons_not_mem ks k _ _ hk]
      rw [zipWith_ignore_left (fun r => restrict ks (t.zip r)) _ _ (by rw [hX, h k (by simp)]; exact Nat.le_refl _), ih']

theorem zipWith_filterMap_drop (rows : List (List V)) (n : Nat) (h : ∀ r ∈ rows, n < r.length) :
    List.zipWith (fun v r => v :: r) (rows.filterMap (fun r => r[n]?)) (rows.map (List.drop (n + 1))) = rows.map (List.drop n) := by
  induction rows with
  | nil => rfl
  | cons r rs ih =>
    have hr := h r (by simp)
    simp only [List.filterMap_cons, List.getElem?_eq_getElem hr, List.map_cons, List.zipWith_cons_cons,
      ih (fun r' hr' => h r' (by simp [hr'])), List.drop_eq_getElem_cons hr]

/-- the columns `[row[i] for row in rows]` read back as the rows (from position `n` on) -/
theorem transpose_back (t : List Key) (n : Nat) (rows : List (List V)) (h : ∀ r ∈ rows, r.length = n + t.length) :
    zipRowsN rows.length ((t.zipIdx n).map (fun ki => rows.filterMap (fun r => r[ki.2]?))) = rows.map (List.drop n) := by
  induction t generalizing n with
  | nil =>
    simp only [List.zipIdx_nil, List.map_nil, zipRowsN]
    have : rows.map (List.drop n) = rows.map (fun _ => ([] : List V)) :=
      List.map_congr_left (fun r hr => List.drop_eq_nil_of_le (by rw [h r hr]; simp))
    rw [this, List.map_const']
  | cons k t' ih =>
    simp only [List.zipIdx_cons, List.map_cons, zipRowsN]
    rw [ih (n + 1) (fun r hr => by rw [h r hr]; simp; omega)]
    exact zipWith_filterMap_drop rows n (fun r hr => by rw [h r hr]; simp)

theorem keys_unzipRows (ks : List Key) (rows : List (List V)) : keys (unzipRows ks rows) = ks := by
  simp only [keys, unzipRows, List.map_map, Function.comp_def]
  exact List.zipIdx_map_fst 0 ks

theorem vals_unzipRows_length (ks : List Key) (rows : List (List V)) (h : ∀ r ∈ rows, r.length = ks.length) :
    ∀ c ∈ vals (unzipRows ks rows), c.length = rows.length := by
  intro c hc
  simp only [vals, unzipRows, List.map_map, Function.comp_def, List.mem_map] at hc
  obtain ⟨ki, hki, rfl⟩ := hc
  have hi : ki.2 < ks.length := by
    have := List.mem_zipIdx hki
    omega
  clear hki
  induction rows with
  | nil => rfl
  | cons r rs ih =>
    have hr : ki.2 < r.length := by rw [h r (by simp)]; exact hi
    simp only [List.filterMap_cons, List.getElem?_eq_getElem hr, List.length_cons, ih (fun r' hr' => h r' (by simp [hr']))]

/-- **transpose twice**: reading the columns built by `unzipRows` back with `zip(*…)` gives the rows -/
theorem zipRows_unzipRows (ks : List Key) (rows : List (List V)) (hne : ks ≠ []) (h : ∀ r ∈ rows, r.length = ks.length) :
    zipRows (vals (unzipRows ks rows)) = rows := by
  have hv : vals (unzipRows ks rows) = (ks.zipIdx 0).map (fun ki => rows.filterMap (fun r => r[ki.2]?)) := by
    simp [vals, unzipRows, List.map_map, Function.comp_def]
  have hne' : vals (unzipRows ks rows) ≠ [] := by
    rw [hv]
    cases ks with
    | nil => exact absurd rfl hne
    | cons k t => simp [List.zipIdx_cons]
  rw [zipRows_eq_N _ rows.length hne' (vals_unzipRows_length ks rows h), hv,
    transpose_back ks 0 rows (fun r hr => by rw [h r hr]; simp)]
  have : (List.drop 0 : List V → List V) = id := by funext l; rfl
  rw [this, List.map_id]

end Transpose2

section DictMore
variable {α : Type}

theorem lookup_of_mem_nodup {d : Dict α} (hn : (keys d).Nodup) {k : Key} {v : α} (h : (k, v) ∈ d) : lookup d k = some v := by
  induction d with
  | nil => simp at h
  | cons p r ih =>
    obtain ⟨k0, v0⟩ := p
    simp only [keys, List.map_cons, List.nodup_cons] at hn
    simp only [lookup]
    rcases List.mem_cons.mp h with e | hm
    · cases e; simp
    · have : k0 ≠ k := by
        intro e; subst e
        exact hn.1 (List.mem_map_of_mem (f := Prod.fst) hm)
      rw [if_neg this]
      exact ih hn.2 hm

theorem map_lookup_keys {d : Dict α} (hn : (keys d).Nodup) : (keys d).map (lookup d) = (vals d).map some := by
  simp only [keys, vals, List.map_map, Function.comp_def]
  apply List.map_congr_left
  intro kv hkv
  exact lookup_of_mem_nodup hn (k := kv.1) (v := kv.2) hkv

theorem lookup_update (d e : Dict α) (hn : (keys e).Nodup) (k : Key) :
    lookup (update d e) k = match lookup e k with | some v => some v | none => lookup d k := by
  induction e generalizing d with
  | nil => rfl
  | cons p r ih =>
    obtain ⟨k0, v0⟩ := p
    simp only [keys, List.map_cons, List.nodup_cons] at hn
    have e1 : update d ((k0, v0) :: r) = update (insert d k0 v0) r := rfl
    rw [e1, ih _ hn.2, lookup_insert]
    simp only [lookup]
    by_cases e : k0 = k
    · subst e
      have : lookup r k0 = none := lookup_eq_none_of_not_mem hn.1
      simp [this]
    · simp [e]

theorem keys_insert_of_mem {d : Dict α} {k : Key} (v : α) (h : k ∈ keys d) : keys (insert d k v) = keys d := by
  induction d with
  | nil => simp [keys] at h
  | cons p r ih =>
    obtain ⟨k0, v0⟩ := p
    simp only [insert]
    by_cases e : k0 = k
    · simp [e, keys]
    · simp only [e, if_false, keys, List.map_cons, List.cons.injEq, true_and]
      simp only [keys, List.map_cons, List.mem_cons] at h
      rcases h with h | h
      · exact absurd h.symm e
      · exact ih h

theorem keys_update_of_subset (d e : Dict α) (h : ∀ k ∈ keys e, k ∈ keys d) : keys (update d e) = keys d := by
  induction e generalizing d with
  | nil => rfl
  | cons p r ih =>
    obtain ⟨k0, v0⟩ := p
    have e1 : update d ((k0, v0) :: r) = update (insert d k0 v0) r := rfl
    have hk : keys (insert d k0 v0) = keys d := keys_insert_of_mem v0 (h k0 (by simp [keys]))
    rw [e1, ih _ (fun k hk' => by rw [hk]; exact h k (by simp only [keys, List.map_cons, List.mem_cons] at hk' ⊢; exact Or.inr hk')), hk]

end DictMore

end PF.Sweep
