"""C15 — Cache keys identify argument values: equal key iff equal value.

For batches of generated values (recursive, depth <= 3, with look-alikes derived from values of the same batch) the check
evaluates, on the real `pipefunc.cache.to_hashable`:
  * a key is produced and is hashable;                                   (clause "returns a hashable key")
  * for ALL pairs of the batch: keys equal  <=>  `py_same` (Python `==`, same container type at every level, equal
    attributes that `==` ignores);                                       (clauses "equal keys for equal values",
                                                                          "unequal keys for values that differ")
  * the printed key is the same in two child interpreters with different PYTHONHASHSEED and in this process;
  * `memoize` over each cache class returns a stored result only for an argument `py_same` to the one that produced it;
and compares, for the values inside the modelled fragment, the key itself with `PF.Hashable.key true` (the Lean model the
theorems are about), also after re-listing every set / mapping in a shuffled iteration order.
"""
from __future__ import annotations

import collections
import copy
import json
import os
import random
import shutil
import subprocess
import sys
import tempfile
from pathlib import Path

import pfimport  # noqa: F401
import framework
from pipefunc.cache import DiskCache, HybridCache, LRUCache, SimpleCache, UnhashableError, memoize, to_hashable

sys.path.insert(0, str(Path(__file__).resolve().parent.parent))
import c15_values as V  # noqa: E402
import c15_calls  # noqa: E402
import c15_extract  # noqa: E402

PID = "C15"
PROPS = ["PfModel.Props.C15", "PfModel.Props.C15Keys", "PfModel.Props.C15Sort", "PfModel.Props.C15Pandas", "PfModel.Props.C15Calls", "PfModel.Props.C15Sub", "PfModel.Props.C15SubInj",
         "PfModel.Props.C15Def", "PfModel.Props.C15Src", "PfModel.Props.C15Run", "PfModel.Props.C15RunPipe"]
GENERATED = True          # Props/C15Src.lean is proved against lean/PfModel/Generated/C15Facts.lean, regenerated from the source on every run
DRIVER = "C15"
RULE = ("values from one seeded recursive generator (depth <= 3) over None/bool/int/float(half-integers, inf, nan, -0.0)/str/bytes/"
        "class objects/the marker string, tuple/list/deque/set/frozenset/dict/OrderedDict/defaultdict/Counter/bytearray/array.array/"
        "ndarray; ~60% of a batch are look-alikes derived from other values of the batch (other container type, permuted insertion "
        "order, int/float/bool retyping, forged tagged tuples built from real keys, dtype/shape/typecode/maxlen/default_factory "
        "changes, one leaf changed, wrapping); a separate stream adds pandas objects, picklable and unpicklable user objects, "
        "subclasses, numpy scalars, object arrays, mixed-type and partially ordered sets, Fortran-ordered / strided / 0-d / masked / "
        "structured arrays. A case is one ordered pair of values of a batch; non-trivial when at least one of the two is a "
        "container; distinct by the pair of specs. A second stream (c15_calls.py) draws values from the same batches and makes "
        "calls: memoized functions of 1-3 parameters with defaults called with the same effective arguments passed positionally / "
        "by keyword / in another keyword order / with defaults given explicitly and with look-alike values; compute_cache_key "
        "directly; cached one- and two-function pipelines through Pipeline.__call__ with every cache type; Pipeline.map with a "
        "cache. A call case is non-trivial always (every call carries at least one argument); distinct by signature, passing "
        "style and argument specs. Round 3: a pandas batch per run (Series / DataFrames from label families — 0..n-1, shifted / scaled "
        "ints, str, digit strings, floats, dates, tuples — and their look-alikes: the same cells under other labels or the same labels as "
        "another type, rows / columns / only labels / only cells moved, repeated labels, renamed, as dict / list / one-column frame), each "
        "top-level one compared with seriesKey / frameKey; memoized functions with *args / **kwargs / an optional parameter called with "
        "base calls and their call look-alikes (the same leaves laid out differently over positionals and keywords), the key memoize "
        "really hands to its cache recorded by a SimpleCache subclass. Round 9: a subclass batch per run — instances of user subclasses "
        "that override nothing (namedtuples of 1-3 fields, two with the same fields; subclasses of tuple, list (two), frozenset, set, dict, "
        "OrderedDict, deque; MaskedArray without masked elements) bare and nested, with hashable and with unhashable content, and their "
        "look-alikes (the builtin-class copy, another subclass of the same base, content changed) — every value holding one compared with "
        "wkey (Model/HashableSub.lean); float ndarrays and array('d') with -0.0 next to 0.0. Round s5: a state batch per run (its own stream "
        "derived from the seed) — Counters holding counts <= 0 (as after Counter.subtract) and picklable unhashable objects whose state is not "
        "(only) their instance __dict__ (inherited slot + __dict__, slots only, exception args + __dict__, __getstate__ + __dict__), bare and "
        "nested, with look-alikes that differ only in a count <= 0 / in what unary + or - keeps / only on the hidden or only on the visible "
        "side of the object / in the class; pairs that differ only in zero counts (equal for Counter.__eq__) are counted, not judged")
ASSUMPTIONS = ["int, float and bool of equal value are one model value (Python == and hash do not distinguish them; the statement is read "
               "with Python's ==)", "floats are half-integers, inf or nan; nan equality is object identity (fresh objects for ndarray data)",
               "md5 of the cloudpickle bytes is treated as collision-free (opaque digest in the model); pandas objects and fallback "
               "objects are checked for determinism and collision-freedom on the implementation only",
               "a frozenset is listed in a canonical order by the encoder (to_hashable never iterates a frozenset)",
               "sorted() is modelled only where the elements are pairwise strictly ordered by < (then its result is unique); "
               "partially ordered elements (frozensets, nan) are answered 'unspecified' by the model",
               "the translator harness/c15_extract.py reads the isinstance chain of to_hashable with ast; its vocabulary (helper "
               "called, sort flag, leading attributes) is trusted to describe what the branch does",
               "'effective arguments' of a call are what inspect.Signature.bind + apply_defaults computes (bindArgs in the model, "
               "compared with inspect on every run); positional-or-keyword parameters, optionally followed by *args / **kwargs (bindSig)",
               "a Series / DataFrame is its labels (index, columns, name) and its cells, compared with == (dtype, Index class are not part of "
               "the value); pandas `tolist()` is trusted to read labels and cells for the model's serieskeys / framekeys requests",
               "modelled user subclasses override nothing (__eq__, __hash__, __iter__, items are those of the builtin base); a hashable "
               "instance inside a key is the model's base value (== and hash do not see the class)"]

HARNESS = Path(__file__).resolve().parent.parent
M = V.MARKER

# ------------------------------------------------------------------------------------------------ generator
INTS = [-1, 0, 1, 2, 3, 7]
FLOATS = [0.0, -0.0, 0.5, 1.0, 2.0, -1.5, 3.0, "inf", "-inf"]
STRS = ["", "a", "b", "ab", "ba", "k", M, "\u00e9", "list"]
BYTES = [[], [97], [97, 98], [0]]
CLS = ["list", "tuple", "dict", "set", "int", "odict", "frozenset", "ndarray", "deque"]


def g_num(rng):
    r = rng.random()
    if r < 0.5:
        return ["int", rng.choice(INTS)]
    if r < 0.85:
        return ["float", rng.choice(FLOATS)]
    return ["bool", rng.random() < 0.5]


def g_atom(rng):
    r = rng.random()
    if r < 0.45:
        return g_num(rng)
    if r < 0.70:
        return ["str", rng.choice(STRS)]
    if r < 0.78:
        return ["bytes", rng.choice(BYTES)]
    if r < 0.86:
        return ["none"]
    if r < 0.93:
        return ["cls", rng.choice(CLS)]
    return ["nan", rng.randrange(2)]


def g_family(rng, n):
    """n distinct mutually comparable hashable specs (one family under `<`)."""
    fam = rng.choice(["num", "num", "str", "str", "bytes", "tuple", "tuple2"])
    out, seen = [], set()
    for _ in range(n * 3):
        if len(out) >= n:
            break
        if fam == "num":
            s = g_num(rng)
            if s[0] == "float" and s[1] in ("inf", "-inf") and rng.random() < 0.7:
                continue
        elif fam == "str":
            s = ["str", rng.choice(STRS)]
        elif fam == "bytes":
            s = ["bytes", rng.choice(BYTES)]
        elif fam == "tuple":
            s = ["tuple", [["int", rng.choice(INTS)] for _ in range(rng.randint(0, 2))]]
        else:
            s = ["tuple", [["str", rng.choice(["a", "b", M])], ["int", rng.choice(INTS)]]]
        try:
            v = V.build(s)
            if v in seen:
                continue
            seen.add(v)
        except Exception:  # noqa: BLE001
            continue
        out.append(s)
    return out


def g_hashable(rng, d):
    r = rng.random()
    if d >= 2 or r < 0.6:
        return g_atom(rng)
    if r < 0.9:
        return ["tuple", [g_hashable(rng, d + 1) for _ in range(rng.randint(0, 3))]]
    return ["fset", g_family(rng, rng.randint(0, 3))]


def g_items(rng, d, n):
    return [[k, g_value(rng, d + 1)] for k in g_family(rng, n)]


def g_value(rng, d=0):  # noqa: C901, PLR0911, PLR0912
    r = rng.random()
    if d >= 3 or r < (0.12 if d == 0 else 0.4):
        return g_hashable(rng, max(d, 1))
    kind = rng.choice(["list", "list", "tuple", "tuple", "set", "dict", "dict", "odict", "ddict", "counter", "deque", "bytearray",
                       "array", "nd", "fset"])
    n = rng.randint(0, 3)
    if kind in ("list", "tuple"):
        return [kind, [g_value(rng, d + 1) for _ in range(n)]]
    if kind == "set":
        return ["set", g_family(rng, n)]
    if kind == "fset":
        return ["fset", g_family(rng, n)]
    if kind in ("dict", "odict"):
        return [kind, g_items(rng, d, n)]
    if kind == "ddict":
        return ["ddict", rng.choice([None, ["cls", "int"], ["cls", "list"]]), g_items(rng, d, n)]
    if kind == "counter":
        return ["counter", [[k, ["int", rng.choice([1, 2, 3, -1])]] for k in g_family(rng, n)]]
    if kind == "deque":
        return ["deque", rng.choice([None, None, 3, 5]), [g_value(rng, d + 1) for _ in range(n)]]
    if kind == "bytearray":
        return ["bytearray", rng.choice(BYTES + [[1, 2], [2, 1]])]
    if kind == "array":
        tc = rng.choice("bilqd")
        return ["array", tc, [rng.choice([0, 1, 2, 3] if tc != "d" else [0, 1, 2, 0.5, -0.0]) for _ in range(n)]]
    shape = rng.choice([[0], [1], [2], [3], [1, 2], [2, 1], [2, 2], [4], [1, 1, 2]])
    size = 1
    for s in shape:
        size *= s
    dtype = rng.choice(["<i8", "<i4", "<f8", "<f4", "|b1", "|u1"])
    pool = [0, 1, 2, 3] if dtype not in ("<f8", "<f4") else ([0, 1, 2, 0.5, "nan", "inf", -0.0, -0.0] if dtype == "<f8" else [0, 1, 2, 0.5, -0.0])
    return ["nd", shape, dtype, [rng.choice(pool) if rng.random() < 0.3 else rng.choice([0, 1]) for _ in range(size)]]


EMPTIES = [["list", []], ["tuple", []], ["dict", []], ["set", []], ["fset", []], ["odict", []], ["deque", None, []], ["bytearray", []],
           ["bytes", []], ["str", ""], ["none"], ["counter", []], ["ddict", None, []], ["nd", [0], "<f8", []], ["array", "i", []]]
ONES = [["int", 1], ["float", 1.0], ["bool", True], ["npscalar", "int64", 1], ["npscalar", "float64", 1], ["npscalar", "bool_", 1],
        ["str", "1"], ["bytes", [49]], ["int", 0], ["float", 0.0], ["float", -0.0], ["bool", False], ["nd", [], "<i8", [1]], ["nd", [1], "<i8", [1]]]


def g_family_lookalikes(rng):
    """the look-alike families named in the task: empties of every container type, 1 / 1.0 / True / np.int64(1) / '1' / b'1',
    0.0 / -0.0 / False — bare and nested one level"""
    s = rng.choice(EMPTIES if rng.random() < 0.5 else ONES)
    r = rng.random()
    if r < 0.4:
        return s
    if r < 0.6:
        return ["list", [s]]
    if r < 0.8:
        return ["tuple", [s]]
    return ["dict", [[["str", "k"], s]]]


# ---- pandas: a Series is its name + rows (label, value) in row order, a DataFrame its index labels + columns (label, values)
LABELS = {"range": lambda i: ["int", i], "shift": lambda i: ["int", i + 1], "tens": lambda i: ["int", 10 * (i + 1)],
          "abc": lambda i: ["str", "abcd"[i]], "xyz": lambda i: ["str", "xyzw"[i]], "ts": lambda i: ["ts", i], "ts7": lambda i: ["ts", i + 7],
          "half": lambda i: ["float", i + 0.5], "neg": lambda i: ["int", -i], "digits": lambda i: ["str", str(i)], "floats": lambda i: ["float", float(i)], "pair": lambda i: ["tuple", [["str", "k"], ["int", i]]]}
SERIES_NAMES = ["x", "y", "v", None, ["int", 0], ["tuple", [["str", "x"], ["int", 1]]]]


def g_labels(rng, n, fam=None):
    fam = fam or rng.choice(list(LABELS))
    return [LABELS[fam](i) for i in range(n)]


def g_cell(rng, fam):
    if fam == "int":
        return ["int", rng.choice([1, 2, 5])]
    if fam == "float":
        return ["float", rng.choice([0.5, 1.0, 2.0, 5.0])]
    if fam == "str":
        return ["str", rng.choice(["a", "b", "ab"])]
    if fam == "bool":
        return ["bool", rng.random() < 0.5]
    return rng.choice([["list", [["int", rng.choice([1, 2])]]], ["tuple", [["int", 1], ["int", rng.choice([1, 2])]]], ["int", 1], ["str", "a"], ["none"]])


def g_series(rng):
    n = rng.choice([0, 1, 2, 2, 3, 3, 4])
    fam = rng.choice(["int", "int", "float", "str", "bool", "obj"])
    return ["series", rng.choice(SERIES_NAMES), [[l, g_cell(rng, fam)] for l in g_labels(rng, n)]]


def g_df(rng):
    n = rng.choice([0, 1, 2, 2, 3])
    cols = rng.choice([["a"], ["a", "b"], ["b", "a"], ["x", "y"], [["int", 0], ["int", 1]], ["a", "b", "c"], [], [["int", 1]]])
    return ["df", g_labels(rng, n), [[c, [g_cell(rng, fam) for _ in range(n)]] for c in cols for fam in [rng.choice(["int", "float", "str", "obj"])]]]


def g_pandas(rng):
    r = rng.random()
    if r < 0.55:
        return g_series(rng)
    if r < 0.9:
        return g_df(rng)
    return rng.choice([["ts", rng.randrange(3)], ["list", [g_series(rng)]], ["dict", [[["str", "k"], g_series(rng)]]], ["tuple", [g_df(rng), ["int", 1]]]])


def retype_pandas(rng, s):  # noqa: PLR0911
    """look-alikes of a Series / DataFrame that keep the values at their positions"""
    t = s[0]
    r = rng.random()
    if t == "series":
        rows = s[2]
        if r < 0.33:                  # the same values at the same positions under other index labels
            return ["series", s[1], [[l, v] for l, (_, v) in zip(g_labels(rng, len(rows)), rows)]]
        if r < 0.45:                  # … under the same labels as another type (0 / "0" / 0.0 / False, "a" / b"a")
            return ["series", s[1], [[_retype_label(rng, l), v] for l, v in rows]]
        if r < 0.55:
            return ["series", rng.choice(SERIES_NAMES), rows]
        if r < 0.65:                  # the dict / the list / the ndarray the Series was made of
            return ["dict", [[l, v] for l, v in rows]] if all(hashable_spec(l) for l, _ in rows) else ["list", [v for _, v in rows]]
        if r < 0.75:
            return [rng.choice(["list", "tuple"]), [v for _, v in rows]]
        if r < 0.9:                   # the one-column DataFrame
            return ["df", [l for l, _ in rows], [[s[1] if s[1] is not None else "x", [v for _, v in rows]]]]
        return ["tuple", [s[1] if isinstance(s[1], list) else (["str", s[1]] if s[1] is not None else ["none"]), ["dict", [[l, v] for l, v in rows]]]]
    idx, cols = s[1], s[2]
    if r < 0.3:                       # other index labels (the known finding: the index never reaches the key)
        return ["df", g_labels(rng, len(idx)), cols]
    if r < 0.5:                       # other column labels over the same cells
        new = rng.choice([["a", "b", "c"], ["x", "y", "z"], [["int", 0], ["int", 1], ["int", 2]], ["b", "a", "c"], ["b", "c", "a"], ["0", "1", "2"]])
        return ["df", idx, [[new[i % 3], vs] for i, (_, vs) in enumerate(cols)]]
    if r < 0.6:                       # the same column labels as another type
        return ["df", idx, [[_retype_label(rng, c if isinstance(c, list) else ["str", c]), vs] for c, vs in cols]]
    if r < 0.75 and cols:             # one column as a Series
        c, vs = rng.choice(cols)
        return ["series", c, [[l, v] for l, v in zip(idx, vs)]]
    if r < 0.9:                       # to_dict("list") itself, and as lists of rows
        return ["dict", [[c if isinstance(c, list) else ["str", c], ["list", vs]] for c, vs in cols]]
    return ["list", [["list", [vs[i] for _, vs in cols]] for i in range(len(idx))]]


def _retype_label(rng, l):
    if l[0] == "int":
        return rng.choice([["str", str(l[1])], ["float", float(l[1])], ["str", str(l[1])]])
    if l[0] == "str":
        return ["int", int(l[1])] if l[1].isdigit() else rng.choice([["bytes", [ord(c) for c in l[1] if ord(c) < 128]], ["tuple", [l]]])
    if l[0] == "float":
        return ["str", str(float(l[1]))] if l[1] not in ("inf", "-inf") else l
    if l[0] == "ts":
        return ["str", f"2024-01-{l[1] + 1:02d} 00:00:00"]
    return l


def permute_pandas(rng, s):
    s = copy.deepcopy(s)
    r = rng.random()
    if s[0] == "series":
        rows = s[2]
        if len(rows) < 2:
            return s
        if r < 0.4:                   # whole rows move (same label -> value mapping: the known finding)
            rng.shuffle(rows)
        elif r < 0.7:                 # the labels move, the values stay
            ls = [l for l, _ in rows]
            ls = ls[1:] + ls[:1]
            s[2] = [[l, v] for l, (_, v) in zip(ls, rows)]
        else:                         # the values move, the labels stay
            vs = [v for _, v in rows]
            vs = vs[1:] + vs[:1]
            s[2] = [[l, v] for (l, _), v in zip(rows, vs)]
        return s
    idx, cols = s[1], s[2]
    if r < 0.35 and len(cols) > 1:    # whole columns move (the known finding: the dict branch sorts the columns)
        rng.shuffle(cols)
    elif r < 0.6 and len(cols) > 1:   # the column labels move, the cells stay
        ls = [c for c, _ in cols]
        ls = ls[1:] + ls[:1]
        s[2] = [[l, vs] for l, (_, vs) in zip(ls, cols)]
    elif len(idx) > 1:                # whole rows move
        order = list(range(len(idx)))
        rng.shuffle(order)
        s[1] = [idx[i] for i in order]
        s[2] = [[c, [vs[i] for i in order]] for c, vs in cols]
    return s


def perturb_pandas(rng, s):  # noqa: PLR0911
    s = copy.deepcopy(s)
    r = rng.random()
    if s[0] == "series":
        rows = s[2]
        if not rows or r < 0.2:
            return ["series", s[1], rows + [[LABELS[rng.choice(["tens", "xyz"])](len(rows) % 4), ["int", 1]]]]
        i = rng.randrange(len(rows))
        if r < 0.55:
            rows[i][1] = g_cell(rng, rng.choice(["int", "float", "str", "obj"]))
        elif r < 0.7:
            del rows[i]
        elif r < 0.85 and len(rows) > 1:   # a repeated index label (to_dict keeps its last row only: the known finding)
            rows[i][0] = rows[i - 1][0]
        else:
            rows[i][0] = rng.choice([["int", 7], ["str", "q"], ["ts", 3]])
        return s
    idx, cols = s[1], s[2]
    if not cols or r < 0.15:
        return ["df", idx, cols + [[rng.choice(["q", "a", ["int", 2]]), [["int", 1] for _ in idx]]]]
    j = rng.randrange(len(cols))
    if r < 0.55 and idx:
        cols[j][1][rng.randrange(len(idx))] = g_cell(rng, rng.choice(["int", "float", "str", "obj"]))
    elif r < 0.7:
        del cols[j]
    elif r < 0.85 and len(cols) > 1:       # a repeated column label
        cols[j][0] = cols[j - 1][0]
    else:
        cols[j][0] = rng.choice(["q", ["int", 9]])
    return s


# ---- user subclasses (round 9): ["sub", class name, spec of the builtin-class value]
def resub(rng, name, inner):
    """`inner` as an instance of the class `name`, or of another class that can hold it (namedtuples have a fixed number of fields)"""
    names = V.SUB_FOR.get(inner[0])
    if not names:
        return inner
    if name not in names:
        name = rng.choice(names)
    if inner[0] == "tuple":
        ok = ["SubTuple"] + [n for n in names if n.startswith("NT") and n[2] == str(len(inner[1]))]
        if name not in ok:
            name = rng.choice(ok)
    return ["sub", name, inner]


def g_sub(rng):  # noqa: PLR0911
    kind = rng.choice(["tuple", "tuple", "tuple", "list", "list", "fset", "set", "dict", "odict", "deque"])
    if kind == "tuple":
        n = rng.choice([0, 1, 2, 2, 2, 3])
        hashable_content = rng.random() < 0.55            # a namedtuple of hashable fields is returned as it is; one holding a list is tagged
        inner = ["tuple", [g_hashable(rng, 2) if hashable_content or rng.random() < 0.5 else g_value(rng, 2) for _ in range(n)]]
    elif kind == "list":
        inner = ["list", [g_value(rng, 2) for _ in range(rng.randint(0, 3))]]
    elif kind in ("fset", "set"):
        inner = [kind, g_family(rng, rng.randint(0, 3))]
    elif kind in ("dict", "odict"):
        inner = [kind, g_items(rng, 1, rng.randint(0, 3))]
    else:
        inner = ["deque", rng.choice([None, 3]), [g_value(rng, 2) for _ in range(rng.randint(0, 2))]]
    s = resub(rng, "", inner)
    r = rng.random()
    if r < 0.5:
        return s
    if r < 0.62:
        return ["list", [s]]
    if r < 0.74:
        return ["tuple", [s, ["int", rng.choice(INTS)]]]
    if r < 0.84:
        return ["dict", [[["str", "k"], s]]]
    if r < 0.92:
        return resub(rng, "", ["list", [s, g_atom(rng)]])
    return ["ma", [2], rng.choice(["<i8", "<f8"]), [rng.choice([0, 1, 2]), 1], [0, 0]]


# ---- the state family (round s5): values whose key must read MORE than the obvious view of their state
#   * Counters holding counts <= 0 (what Counter.subtract leaves behind; unary + / - , `elements()`, `most_common` style views drop
#     or reorder them) — ["counter", items] with counts from COUNTS;
#   * picklable unhashable objects whose state is not (only) their instance __dict__ — ["fobj", class, hidden parts, visible parts]
#     (c15_values.FOBJ: inherited slot + __dict__, slots only, exception args + __dict__, __getstate__ + __dict__).
COUNTS = [-3, -2, -1, -1, 0, 1, 2, 3]
FOBJ_NAMES = list(V.FOBJ)


def g_counter_nonpos(rng):
    fam = g_family(rng, rng.randint(1, 3))
    items = [[k, ["int", rng.choice(COUNTS)]] for k in fam]
    if items and all(v[1] > 0 for _, v in items):
        items[rng.randrange(len(items))][1] = ["int", rng.choice([-2, -1, 0])]
    return ["counter", items]


def g_fobj(rng):
    part = lambda lo: [g_value(rng, 2) if rng.random() < 0.35 else g_atom(rng) for _ in range(rng.randint(lo, 2))]  # noqa: E731
    return ["fobj", rng.choice(FOBJ_NAMES), part(0), part(0 if rng.random() < 0.25 else 1)]


def g_state(rng):
    s = g_counter_nonpos(rng) if rng.random() < 0.5 else g_fobj(rng)
    r = rng.random()
    if r < 0.55:
        return s
    if r < 0.67:
        return ["list", [s]]
    if r < 0.77:
        return ["tuple", [s, ["int", rng.choice(INTS)]]]
    if r < 0.87:
        return ["dict", [[["str", "k"], ["tuple", [s, ["list", [["int", 1]]]]]]]]
    if r < 0.94:
        return ["fobj", rng.choice(FOBJ_NAMES), [s], [["str", "p"]]]
    return ["obj", False, [s]]


def relook_counter(rng, s):  # noqa: PLR0911
    """look-alikes of a Counter that differ (or do not) in its counts <= 0"""
    items = copy.deepcopy(s[1])
    r = rng.random()
    if not items:
        return ["counter", [[["str", "a"], ["int", rng.choice([-1, 0])]]]]
    i = rng.randrange(len(items))
    if r < 0.35 and items[i][1][0] == "int":                  # one count changed, with preference among the counts <= 0
        nonpos = [j for j, (_, v) in enumerate(items) if v[0] == "int" and v[1] <= 0]
        i = rng.choice(nonpos) if nonpos and rng.random() < 0.8 else i
        items[i][1] = ["int", rng.choice([c for c in COUNTS if c != items[i][1][1]])]
        return ["counter", items]
    if r < 0.55:                                               # what `+c` keeps: the positive counts
        return ["counter", [[k, v] for k, v in items if v[0] != "int" or v[1] > 0]]
    if r < 0.65:                                               # the zero counts dropped (Counter.__eq__ cannot tell: not judged)
        return ["counter", [[k, v] for k, v in items if v[0] != "int" or v[1] != 0]]
    if r < 0.75:                                               # what `-c` keeps / every sign flipped
        return ["counter", [[k, ["int", -v[1]]] if v[0] == "int" else [k, v] for k, v in items]]
    if r < 0.85:                                               # negative counts clamped to zero
        return ["counter", [[k, ["int", max(v[1], 0)]] if v[0] == "int" else [k, v] for k, v in items]]
    if r < 0.93:
        return [rng.choice(["dict", "odict"]), items]                # the same mapping as another type
    rng.shuffle(items)
    return ["counter", items]


def relook_fobj(rng, s):  # noqa: PLR0911
    """look-alikes of a fallback object: one part changed on the hidden / on the visible side, the parts on the other side, another
    class with the same parts, the same parts in a plain object, an identical copy"""
    _, name, hid, vis = copy.deepcopy(s)
    r = rng.random()
    if r < 0.35:                                               # the hidden part differs
        if hid and rng.random() < 0.8:
            i = rng.randrange(len(hid))
            hid[i] = perturb(rng, hid[i]) if rng.random() < 0.5 else g_atom(rng)
        else:
            hid = hid + [g_atom(rng)]
        return ["fobj", name, hid, vis]
    if r < 0.5:                                                # the visible part differs
        if vis and rng.random() < 0.8:
            i = rng.randrange(len(vis))
            vis[i] = perturb(rng, vis[i]) if rng.random() < 0.5 else g_atom(rng)
        else:
            vis = vis + [g_atom(rng)]
        return ["fobj", name, hid, vis]
    if r < 0.6:
        return ["fobj", name, vis, hid]
    if r < 0.7 and hid:                                        # one part moved from the hidden to the visible side
        return ["fobj", name, hid[:-1], [hid[-1]] + vis]
    if r < 0.82:
        return ["fobj", rng.choice([n for n in FOBJ_NAMES if n != name]), hid, vis]
    if r < 0.9:
        return ["obj", rng.random() < 0.3, hid + vis]
    return ["fobj", name, hid, vis]


def relook_state(rng, s):
    """apply a targeted look-alike at one Counter / fallback-object node of `s` (anywhere below the root), else a general look-alike"""
    paths = []

    def find(x, path):
        if x[0] in ("counter", "fobj"):
            paths.append(path)
        for i, k in enumerate(kids(x)):
            find(k, path + [i])
    find(s, [])
    if not paths or rng.random() < 0.2:
        return lookalike(rng, s)
    path = rng.choice(paths)

    def go(x, p):
        if not p:
            return relook_counter(rng, x) if x[0] == "counter" else relook_fobj(rng, x)
        ks = list(kids(x))
        ks[p[0]] = go(ks[p[0]], p[1:])
        return with_kids(x, ks)
    try:
        return go(s, path)
    except Exception:  # noqa: BLE001
        return copy.deepcopy(s)


def make_state_batch(rng, n):
    specs = []
    while len(specs) < n:
        s = g_state(rng) if len(specs) < 4 or rng.random() < 0.38 else relook_state(rng, rng.choice(specs))
        try:
            V.build(s)
        except Exception:  # noqa: BLE001
            continue
        specs.append(s)
    return specs


def g_outside(rng):  # noqa: PLR0911
    """The stream outside the modelled fragment / outside what the generator considers well-formed."""
    r = rng.randrange(20)
    if r in (18, 19):
        return g_sub(rng)
    if r == 14:
        return ["ma", [3], "<i8", [1, 2, 3], [0, rng.randrange(2), 0]]
    if r == 15:
        return ["nds", [[rng.choice(["a", "x"]), "<i4"], ["b", rng.choice(["<f4", "<i4"])]], [[1, 2]]]
    if r in (16, 17):
        return g_family_lookalikes(rng)
    if r == 0:
        return ["set", [["int", 1], ["str", "a"]]]                                        # DF-20 (a)
    if r == 1:
        return ["dict", [[["int", rng.choice(INTS)], g_value(rng, 2)], [["str", "a"], g_value(rng, 2)]]]
    if r == 2:
        return ["list", [["set", [["fset", [["str", s]]] for s in rng.sample(["a", "b", "c", "d", "e"], rng.randint(2, 4))]]]]
    if r == 3:
        return ["set", [["nan", 0], ["float", 1.0], ["float", 0.0]]]
    if r == 4:
        return g_df(rng)
    if r == 5:
        return g_series(rng) if rng.random() < 0.8 else g_pandas(rng)
    if r == 6:
        return ["obj", rng.random() < 0.3, [g_value(rng, 2) for _ in range(rng.randint(0, 2))]]
    if r == 7:
        return ["objarr", [["list", [["int", 1]]], ["list", [["int", 2], ["int", 3]]]]]    # DF-20 (c)
    if r == 8:
        return ["sublist", [g_value(rng, 2) for _ in range(rng.randint(0, 2))]]
    if r == 9:
        return ["subdict", g_items(rng, 2, rng.randint(0, 2))]
    if r == 10:
        return ["npscalar", rng.choice(["int64", "float64", "int32", "float32", "bool_"]), rng.choice([0, 1, 2])]
    if r == 11:
        return ["list", [["unpicklable"]]]
    if r == 12:
        return ["counter", [[["str", "a"], ["list", [["int", 1]]]]]]                       # Counter with an unhashable count
    return ["list", [["npscalar", "float64", rng.choice([1, 2])], ["obj", False, [["int", 1]]]]]


# ------------------------------------------------------------------------------------------------ look-alikes
SEQ = ("tuple", "list", "sublist", "set", "fset")
MAP = ("dict", "odict", "subdict", "counter")


def kids(s):
    t = s[0]
    if t == "sub":
        return kids(s[2])
    if t in SEQ or t in ("objarr",):
        return s[1]
    if t == "deque":
        return s[2]
    if t == "obj":
        return s[2]
    if t == "fobj":
        return s[2] + s[3]
    if t in MAP:
        return [v for _, v in s[1]]
    if t == "ddict":
        return [v for _, v in s[2]]
    return []


def with_kids(s, new):
    s = copy.deepcopy(s)
    t = s[0]
    if t == "sub":
        return ["sub", s[1], with_kids(s[2], new)]
    if t in SEQ or t == "objarr":
        s[1] = new
    elif t in ("deque", "obj"):
        s[2] = new
    elif t == "fobj":
        s[2], s[3] = new[:len(s[2])], new[len(s[2]):]
    elif t in MAP:
        s[1] = [[k, v] for (k, _), v in zip(s[1], new)]
    elif t == "ddict":
        s[2] = [[k, v] for (k, _), v in zip(s[2], new)]
    return s


def at_random_subtree(rng, s, fn, p_here=0.45):
    ks = kids(s)
    if not ks or rng.random() < p_here or s[0] in ("set", "fset"):
        return fn(s)
    i = rng.randrange(len(ks))
    new = list(ks)
    new[i] = at_random_subtree(rng, ks[i], fn, p_here)
    return with_kids(s, new)


def hashable_spec(s):
    try:
        hash(V.build(s))
        return True
    except Exception:  # noqa: BLE001
        return False


def key_to_spec(k):
    """A value that *is* the key of another value (the DF-32 look-alike)."""
    import numpy as np
    if isinstance(k, tuple):
        return ["tuple", [key_to_spec(x) for x in k]]
    if isinstance(k, frozenset):
        return ["fset", [key_to_spec(x) for x in k]]
    if isinstance(k, type):
        n = V.cls_name(k)
        if n is None:
            n = V.OTHER_CLASSES.index(k)
        return ["cls", n]
    if isinstance(k, (bool, np.bool_)):
        return ["bool", bool(k)]
    if isinstance(k, (int, np.integer)):
        return ["int", int(k)]
    if isinstance(k, (float, np.floating)):
        x = float(k)
        return ["nan", 0] if x != x else ["float", "inf" if x == float("inf") else "-inf" if x == float("-inf") else x]
    if isinstance(k, str):
        return ["str", str(k)]
    if isinstance(k, bytes):
        return ["bytes", list(k)]
    if k is None:
        return ["none"]
    raise ValueError(type(k))


def retype(rng, s):  # noqa: C901, PLR0911, PLR0912
    t = s[0]
    if t in ("series", "df"):
        return retype_pandas(rng, s)
    if t == "sub":                                          # the builtin-class copy / another subclass of the same base / the base retyped
        r = rng.random()
        if r < 0.45:
            return s[2]
        if r < 0.85:
            return resub(rng, rng.choice(V.SUB_FOR[s[2][0]]), s[2])
        return resub(rng, s[1], retype(rng, s[2]))
    if t in V.SUB_FOR and rng.random() < 0.12:              # the same content as an instance of a user subclass
        return resub(rng, "", s)
    if t in ("tuple", "list", "sublist"):
        to = rng.choice(["tuple", "list", "deque", "set", "sublist", "fset"])
        if to == "deque":
            return ["deque", None, s[1]]
        if to in ("set", "fset"):
            fam = [x for x in s[1] if hashable_spec(x)]
            return [to, fam] if len(fam) == len(s[1]) else ["list" if t == "tuple" else "tuple", s[1]]
        return [to, s[1]]
    if t in ("set", "fset"):
        return [rng.choice(["set", "fset", "list", "tuple"]), s[1]]
    if t == "deque":
        return rng.choice([["list", s[2]], ["deque", rng.choice([None, 3, 5, 7]), s[2]], ["tuple", s[2]]])
    if t in ("dict", "odict", "subdict", "counter"):
        to = rng.choice(["dict", "odict", "ddict", "subdict", "counter", "items"])
        if to == "ddict":
            return ["ddict", rng.choice([None, ["cls", "int"]]), s[1]]
        if to == "items":
            return [rng.choice(["list", "tuple"]), [["tuple", [k, v]] for k, v in s[1]]]
        if to == "counter" and not all(v[0] == "int" for _, v in s[1]):
            return ["odict", s[1]]
        return [to, s[1]]
    if t == "ddict":
        return rng.choice([["dict", s[2]], ["ddict", rng.choice([None, ["cls", "int"], ["cls", "list"]]), s[2]], ["odict", s[2]]])
    if t == "bytearray":
        return rng.choice([["bytes", s[1]], ["list", [["int", x] for x in s[1]]], ["tuple", [["int", x] for x in s[1]]],
                           ["array", "B", s[1]], ["nd", [len(s[1])], "|u1", s[1]]])
    if t == "bytes":
        return rng.choice([["bytearray", s[1]], ["tuple", [["int", x] for x in s[1]]], ["str", "".join(chr(x) for x in s[1])]])
    if t == "array":
        return rng.choice([["array", rng.choice("bilqd"), s[2]], ["list", [["int", x] for x in s[2]]],
                           ["nd", [len(s[2])], "<i8", s[2]], ["tuple", [["str", s[1]], ["tuple", [["int", x] for x in s[2]]]]]])
    if t in ("ndf", "ndview"):
        return ["nd", s[1], s[2], s[3]]
    if t == "ma":
        return rng.choice([["nd", s[1], s[2], s[3]], ["ma", s[1], s[2], s[3], [0] * len(s[3])], ["ma", s[1], s[2], [0] * len(s[3]), s[4]]])
    if t == "nd" and rng.random() < 0.3 and all(x not in ("nan", "inf") for x in s[3]):
        r = rng.random()
        if r < 0.3:
            return ["ndf", s[1], s[2], s[3]]                       # same value, other memory order: the key must not change
        if r < 0.55:
            return ["ndview", s[1], s[2], s[3]]                    # same value, non-contiguous strides
        if r < 0.75:
            return ["ma", s[1], s[2], s[3], [0] * len(s[3])]       # a masked array without masked elements: another type
        if r < 0.85 and s[3]:
            return ["ma", s[1], s[2], s[3], [rng.randrange(2) for _ in s[3]]]
        if len(s[3]) == 1:
            return ["nd", [] if s[1] != [] else [1], s[2], s[3]]   # 0-d against 1-d
        return ["nds", [["f0", s[2]]], [[x] for x in s[3]]]        # a structured array with one field
    if t == "nd":
        r = rng.random()
        if r < 0.35:
            return ["nd", s[1], rng.choice(["<i8", "<i4", "<f8", "<f4", "|u1"]), [0 if x in ("nan", "inf") else int(x) for x in s[3]]]
        if r < 0.7:
            n = len(s[3])
            return ["nd", rng.choice([[n], [1, n], [n, 1]] + ([[2, n // 2]] if n % 2 == 0 else [])), s[2], s[3]]
        return ["list", [["int", int(x)] if x not in ("nan", "inf", 0.5) else ["float", x] for x in s[3]]]
    if t == "int":
        return rng.choice([["float", float(s[1])], ["bool", bool(s[1])] if s[1] in (0, 1) else ["float", float(s[1])], ["str", str(s[1])]])
    if t == "float":
        if s[1] in ("inf", "-inf"):
            return ["float", "inf" if s[1] == "-inf" else "-inf"]
        return ["int", int(s[1])] if float(s[1]) == int(float(s[1])) else ["float", -float(s[1])]
    if t == "bool":
        return rng.choice([["int", int(s[1])], ["float", float(s[1])]])
    if t == "str":
        return rng.choice([["bytes", [ord(c) for c in s[1] if ord(c) < 128]], ["list", [["str", c] for c in s[1]]], ["tuple", [["str", c] for c in s[1]]]])
    if t == "none":
        return rng.choice([["bool", False], ["int", 0], ["str", "None"], ["tuple", []]])
    if t == "cls":
        return rng.choice([["cls", rng.choice(CLS)], ["str", s[1] if isinstance(s[1], str) else "x"]])
    if t == "nan":
        return ["nan", 1 - s[1]] if s[1] in (0, 1) else ["nan", 0]
    return s


def permute(rng, s):
    s = copy.deepcopy(s)
    t = s[0]
    if t in ("series", "df"):
        return permute_pandas(rng, s)
    if t == "sub":
        return ["sub", s[1], permute(rng, s[2])]
    if t in ("set", "fset", "dict", "odict", "subdict", "counter"):
        rng.shuffle(s[1])
    elif t == "ddict":
        rng.shuffle(s[2])
    elif t in ("list", "tuple", "sublist") and len(s[1]) > 1:
        rng.shuffle(s[1])                                   # a *significant* order: must change the key unless equal
    elif t == "deque" and len(s[2]) > 1:
        rng.shuffle(s[2])
    return s


def perturb(rng, s):
    ks = kids(s)
    t = s[0]
    if t in ("series", "df"):
        return perturb_pandas(rng, s)
    if t == "sub":
        return resub(rng, s[1], perturb(rng, s[2]))
    if t in ("set", "fset"):
        fam = g_family(rng, 1)
        return [t, (s[1] + fam) if rng.random() < 0.5 or not s[1] else s[1][1:]]
    if t in MAP + ("ddict",) and rng.random() < 0.5:
        items = s[1] if t != "ddict" else s[2]
        new = (items + g_items(rng, 2, 1)) if rng.random() < 0.5 or not items else items[1:]
        if t == "counter":
            new = [[k, v if v[0] == "int" else ["int", 1]] for k, v in new]
        return [t, new] if t != "ddict" else ["ddict", s[1], new]
    if ks and rng.random() < 0.7:
        i = rng.randrange(len(ks))
        new = list(ks)
        new[i] = g_value(rng, 2) if t not in ("counter",) else ["int", rng.choice([1, 2, 5])]
        return with_kids(s, new)
    if t in ("list", "tuple", "sublist"):
        return [t, s[1] + [g_value(rng, 2)]]
    if t == "deque":
        return ["deque", s[1], s[2] + [g_value(rng, 2)]]
    if t == "nd" and s[3]:
        d = copy.deepcopy(s)
        i = rng.randrange(len(d[3]))
        if d[2] in ("<f8", "<f4") and d[3][i] == 0 and rng.random() < 0.6:
            d[3][i] = 0 if str(d[3][i]).startswith("-") else -0.0      # 0.0 <-> -0.0: the same value (==), the key must not change
        else:
            d[3][i] = rng.choice([0, 1, 2, 3])
        return d
    if t == "array":
        return ["array", s[1], s[2] + [1]]
    if t == "bytearray":
        return ["bytearray", s[1] + [98]]
    return g_atom(rng)


def forge(rng, s):
    st, k = V.describe(to_hashable, V.build(s))
    if st != "ok":
        return s
    try:
        hash(k)
        return key_to_spec(k)
    except Exception:  # noqa: BLE001
        return s


def wrap(rng, s):
    r = rng.randrange(6)
    if r == 0:
        return ["list", [s]]
    if r == 1:
        return ["tuple", [s]]
    if r == 2:
        return ["dict", [[["str", "k"], s]]]
    if r == 3:
        return ["tuple", [["str", M], ["cls", "list"], s]] if hashable_spec(s) else ["tuple", [["list", []], s]]
    if r == 4:
        return ["deque", None, [s]]
    return ["odict", [[["int", 0], s]]]


def lookalike(rng, s):
    r = rng.random()
    try:
        if r < 0.10:
            return copy.deepcopy(s)
        if r < 0.35:
            return at_random_subtree(rng, s, lambda x: retype(rng, x))
        if r < 0.55:
            return at_random_subtree(rng, s, lambda x: permute(rng, x), p_here=0.6)
        if r < 0.70:
            return at_random_subtree(rng, s, lambda x: perturb(rng, x))
        if r < 0.85:
            return at_random_subtree(rng, s, lambda x: forge(rng, x), p_here=0.6)
        return wrap(rng, s)
    except Exception:  # noqa: BLE001
        return copy.deepcopy(s)


def make_batch(rng, n, outside=0.06, base=None, p_base=0.0):
    """`base`: a second generator of fresh values (the pandas family), drawn with probability `p_base` instead of `g_value`"""
    specs = []
    while len(specs) < n:
        r = rng.random()
        if r < outside:
            s = g_outside(rng)
        elif r < 0.42 or not specs:
            s = base(rng) if base is not None and rng.random() < p_base else g_value(rng)
        else:
            s = lookalike(rng, rng.choice(specs))
        try:
            V.build(s)
        except Exception:  # noqa: BLE001   (e.g. a set spec whose elements became unhashable)
            continue
        specs.append(s)
    return specs


# ------------------------------------------------------------------------------------------------ finding signatures
def _walk(obj, seen=None):
    import numpy as np
    yield obj
    if isinstance(obj, (tuple, list, set, frozenset, collections.deque)):
        for x in obj:
            yield from _walk(x)
    elif isinstance(obj, dict):
        for k, v in obj.items():
            yield from _walk(k)
            yield from _walk(v)
    elif isinstance(obj, np.ndarray) and obj.dtype == object:
        for x in obj.flatten():
            yield from _walk(x)
    elif isinstance(obj, V.Obj):
        for x in obj.attrs:
            yield from _walk(x)
    elif isinstance(obj, V.FOBJ_CLASSES):
        for part in obj.parts():
            for x in part:
                yield from _walk(x)
    elif type(obj).__module__.split(".")[0] == "pandas" and type(obj).__name__ in ("Series", "DataFrame"):
        d = _pandas_dict(obj)                      # what the key is built from: its keys are sorted like those of any dict
        if d is not None:
            yield from _walk(d)


def _pandas_dict(x):
    import warnings
    import pandas as pd
    try:
        with warnings.catch_warnings():
            warnings.simplefilter("ignore")
            return x.to_dict() if isinstance(x, pd.Series) else x.to_dict("list")
    except Exception:  # noqa: BLE001
        return None


def _sorted_collections(obj):
    for x in _walk(obj):
        if isinstance(x, (set, frozenset)) and not _is_hashable(x) or type(x) is set:
            yield list(x)
        elif isinstance(x, dict) and not isinstance(x, collections.OrderedDict):
            yield list(x.keys())


def _is_hashable(x):
    try:
        hash(x)
        return True
    except Exception:  # noqa: BLE001
        return False


def _partial(e):
    if isinstance(e, (frozenset, set)):
        return True
    if isinstance(e, float) and e != e:
        return True
    return isinstance(e, tuple) and any(_partial(x) for x in e)


def has_unorderable(obj):
    for els in _sorted_collections(obj):
        if len(els) >= 2 and not any(_partial(e) for e in els):
            try:
                sorted(els)
            except TypeError:
                return True
    return False


def has_partial_order(obj):
    return any(len(els) >= 2 and any(_partial(e) for e in els) for els in _sorted_collections(obj))


c15_calls.PARTIAL_ORDER = has_partial_order      # "recomputed a call that passes the same values" is not demanded of KF-C15-partial-order-sort values


def exc_matches(k, err):
    """the implementation's exception `k` ("TypeError", "TypeError:UFuncTypeError" — numpy's subclass, raised when `sorted` compares a
    numpy scalar with a str) is the model's error class `err`; UnhashableError (a TypeError subclass too) is a documented answer of its own"""
    return isinstance(k, str) and (k == err or (k.startswith(err + ":") and k != "TypeError:UnhashableError"))


def _specs(case):
    return [case[k] for k in ("a", "b") if case.get(k) is not None]


@framework.finding_matcher("c15_unorderable_keys")
def _m_unorderable(case, params, impl, model):
    return case.get("kind") == "raise" and exc_matches(case.get("exc"), "TypeError") and has_unorderable(V.build(case["a"]))


@framework.finding_matcher("c15_partial_order_sort")
def _m_partial(case, params, impl, model):
    return case.get("kind") in ("cross-process", "split", "nondeterministic", "raise") and any(has_partial_order(V.build(s)) for s in _specs(case))


@framework.finding_matcher("c15_pandas_lossy_key")
def _m_df(case, params, impl, model):
    """Both values hold pandas objects that differ, but whose `to_dict("list")` (DataFrame) or `to_dict()` + name (Series) —
    the only things the key is built from — are the same dicts: what `to_dict` drops (the DataFrame index, the rows / columns
    under a repeated label but the last) and what the sorting `dict` branch drops (Series row order, DataFrame column order)."""
    if case.get("kind") not in ("collision", "memo", "memo-call", "pipeline-call", "map-cache", "pipe-key") or case.get("b") is None:
        return False
    import pandas as pd
    try:
        if case["kind"] == "map-cache":                  # "a" lists the element values, "i" / "j" are the two that share a result
            if "i" not in case:
                return False
            a, b = V.build(case["a"][case["i"]]), V.build(case["a"][case["j"]])
        else:
            a, b = V.build(case["a"]), V.build(case["b"])
    except Exception:  # noqa: BLE001
        return False
    fa = [x for x in _walk(a) if isinstance(x, (pd.DataFrame, pd.Series))]
    fb = [x for x in _walk(b) if isinstance(x, (pd.DataFrame, pd.Series))]
    if not fa or len(fa) != len(fb):
        return False
    differ = False
    for x, y in zip(fa, fb):
        if type(x) is not type(y):
            return False
        dx, dy = _pandas_dict(x), _pandas_dict(y)
        if dx is None or dy is None or not V.py_same(dx, dy):
            return False
        if isinstance(x, pd.Series) and not V.py_same(x.name, y.name):
            return False
        differ |= not V.py_same(x, y)
    return differ


def _case_pair(case):
    B = V.Builder()                                      # one builder: ["nan", i] is the same object in both values, as in the batch
    if case.get("kind") == "map-cache":                  # "a" lists the element values, "i" / "j" are the two that share a result
        if "i" not in case:
            return None
        return B.b(case["a"][case["i"]]), B.b(case["a"][case["j"]])
    if case.get("b") is None:
        return None
    return B.b(case["a"]), B.b(case["b"])


@framework.finding_matcher("c15_hashable_subclass_as_is")
def _m_subclass(case, params, impl, model):
    """Two different values share a key / a cached result, at least one holds a HASHABLE instance of a tuple / frozenset subclass (it is
    returned as it is; as a key it compares and hashes as its builtin base), and with every such instance replaced by its builtin
    copy the two are the same value.  Unhashable subclass instances are never erased: keying them by their base (seeded C15-s4-A)
    is not matched."""
    if case.get("kind") not in ("collision", "memo", "memo-call", "pipeline-call", "map-cache", "pipe-key"):
        return False
    try:
        ab = _case_pair(case)
        if ab is None:
            return False
        a, b = ab
        if not (V.has_hashable_sub(a) or V.has_hashable_sub(b)):
            return False
        return not V.py_same(a, b) and V.py_same(V.erase_hashable_sub(a), V.erase_hashable_sub(b))
    except Exception:  # noqa: BLE001
        return False


@framework.finding_matcher("c15_raw_payload_unhashable")
def _m_objarr(case, params, impl, model):
    import numpy as np
    if case.get("kind") != "unhashable-key":
        return False
    for x in _walk(V.build(case["a"])):
        if isinstance(x, np.ndarray) and (x.dtype == object or x.dtype.names is not None or isinstance(x, np.ma.MaskedArray)) and any(
                not _is_hashable(e) for e in tuple(x.flatten())):
            return True                                    # object / structured (np.void) / masked (MaskedConstant) elements
        if isinstance(x, collections.Counter) and any(not _is_hashable(v) for v in x.values()):
            return True
    return False


# ------------------------------------------------------------------------------------------------ corpus
L1 = ["list", [["int", 1]]]
FORGED_L1 = ["tuple", [["str", M], ["cls", "list"], ["tuple", [["int", 1]]]]]
CORPUS = [
    L1, FORGED_L1,                                                                                   # DF-32
    ["tuple", [["list", [["int", 0]]], ["list", [["int", 2]]]]],
    ["tuple", [["list", [["int", 0]]], ["tuple", [["str", M], ["cls", "list"], ["tuple", [["int", 2]]]]]]],   # DF-32 nested
    ["dict", [[["str", "k"], L1]]], ["dict", [[["str", "k"], FORGED_L1]]],
    ["tuple", [["str", M], ["cls", "tuple"], FORGED_L1]],                                            # the key of the forged value, as a value
    ["tuple", [["int", 1]]], ["list", [["float", 1.0]]], ["list", [["bool", True]]],
    ["dict", [[["str", "a"], ["int", 1]], [["str", "b"], ["int", 2]]]], ["dict", [[["str", "b"], ["int", 2]], [["str", "a"], ["int", 1]]]],
    ["odict", [[["str", "a"], ["int", 1]], [["str", "b"], ["int", 2]]]], ["odict", [[["str", "b"], ["int", 2]], [["str", "a"], ["int", 1]]]],
    ["ddict", ["cls", "int"], [[["str", "a"], ["int", 1]]]], ["ddict", ["cls", "list"], [[["str", "a"], ["int", 1]]]], ["ddict", None, [[["str", "a"], ["int", 1]]]],
    ["counter", [[["str", "a"], ["int", 1]]]],
    ["deque", None, [["int", 1]]], ["deque", 3, [["int", 1]]],
    ["set", [["str", "a"], ["str", "b"], ["str", "ab"]]], ["fset", [["str", "a"], ["str", "b"], ["str", "ab"]]],
    ["nd", [2], "<i8", [1, 2]], ["nd", [2], "<i4", [1, 2]], ["nd", [2], "<f8", [1, 2]], ["nd", [1, 2], "<i8", [1, 2]], ["nd", [2, 1], "<i8", [1, 2]],
    ["nd", [2], "<f8", [1, "nan"]],
    ["array", "i", [1, 2]], ["array", "d", [1, 2]], ["bytearray", [97]], ["bytes", [97]],
    ["list", [["nan", 0]]], ["list", [["nan", 1]]], ["nan", 0],
    ["dict", [[["int", 1], L1], [["str", "a"], ["list", [["int", 2]]]]]],                              # DF-20 (a)
    ["list", [["set", [["int", 1], ["str", "a"]]]]],                                                  # DF-20 (a)
    ["df", [["int", 0], ["int", 1]], [["a", [["int", 1], ["int", 2]]]]], ["df", [["int", 5], ["int", 6]], [["a", [["int", 1], ["int", 2]]]]],   # DF-20 (b)
    ["objarr", [["list", [["int", 1]]], ["list", [["int", 2], ["int", 3]]]]],                         # DF-20 (c)
    ["list", [["set", [["fset", [["str", s]]] for s in "abcdefgh"]]]],                               # DF-20 (d): partial order under sorted()
    ["obj", False, [["int", 1]]], ["obj", True, [["int", 1]]], ["obj", False, [["int", 2]]],
    ["series", "x", [[["int", 0], ["int", 1]]]], ["series", "y", [[["int", 0], ["int", 1]]]],
    ["series", "x", [[["int", 0], ["int", 2]], [["int", 1], ["int", 1]]]], ["series", "x", [[["int", 1], ["int", 1]], [["int", 0], ["int", 2]]]],   # row order
    ["list", [["unpicklable"]]],
    # round 2: memory order / strides / 0-d / masked / structured arrays, the empties, the ones
    ["nd", [2, 2], "<i8", [1, 2, 3, 4]], ["ndf", [2, 2], "<i8", [1, 2, 3, 4]], ["ndview", [2, 2], "<i8", [1, 2, 3, 4]], ["nd", [2, 2], "<i8", [1, 3, 2, 4]],
    ["nd", [], "<i8", [1]], ["nd", [1], "<i8", [1]], ["ma", [2], "<i8", [1, 2], [0, 0]], ["nd", [2], "<i8", [1, 2]],
    ["ma", [3], "<i8", [1, 2, 3], [0, 1, 0]],                                                          # masked element: MaskedConstant in the key
    ["nds", [["a", "<i4"], ["b", "<f4"]], [[1, 2]]],                                                   # np.void in the key
    # round 3 (seeded C15-s3-A): Series with the same values at the same positions under other index labels — str, shifted / scaled
    # ints, the default 0..n-1, dates; a label-dependent function (idxmax, .loc) tells them apart
    *[["series", "v", [[LABELS[f](i), ["float", x]] for i, x in enumerate([1.0, 5.0, 2.0])]] for f in ("abc", "xyz", "tens", "range", "shift", "ts", "ts7", "digits", "floats")],
    ["series", "v", [[["int", 0], ["int", 1]], [["int", 0], ["int", 2]]]], ["series", "v", [[["int", 0], ["int", 3]], [["int", 0], ["int", 2]]]],  # repeated label
    ["series", "v", [[["int", 0], ["int", 1]], [["int", 1], ["int", 2]]]], ["series", "v", [[["int", 0], ["float", 1.0]], [["int", 1], ["float", 2.0]]]],  # int64 / float64
    ["series", None, []], ["dict", []], ["series", "v", [[["str", "a"], ["list", [["int", 1]]]]]], ["series", "v", [[["str", "a"], ["tuple", [["int", 1]]]]]],
    ["dict", [[["str", "a"], ["float", 1.0]], [["str", "b"], ["float", 5.0]], [["str", "c"], ["float", 2.0]]]],
    # DataFrames: column labels, column order (lost), index (lost), cells, a repeated column label
    *[["df", [["int", 0], ["int", 1]], [[c1, [["int", 1], ["int", 2]]], [c2, [["float", 0.5], ["float", 1.0]]]]] for c1, c2 in (("a", "b"), ("b", "a"), ("x", "y"))],
    ["df", [["int", 0], ["int", 1]], [["b", [["float", 0.5], ["float", 1.0]]], ["a", [["int", 1], ["int", 2]]]]],
    ["df", [["str", "p"], ["str", "q"]], [["a", [["int", 1], ["int", 2]]], ["b", [["float", 0.5], ["float", 1.0]]]]],
    ["df", [["int", 0], ["int", 1]], [["a", [["int", 2], ["int", 1]]], ["b", [["float", 1.0], ["float", 0.5]]]]],
    ["df", [["int", 0]], [["a", [["int", 1]]], ["a", [["int", 2]]]]], ["df", [["int", 0]], [["a", [["int", 3]]], ["a", [["int", 2]]]]],
    ["df", [["int", 0]], [[["int", 0], [["int", 1]]], [["int", 1], [["int", 2]]]]], ["df", [], []], ["df", [["int", 0]], []],
    ["ts", 0], ["ts", 1],
    # round 9: subclass instances.  A namedtuple of hashable fields / the tuple (the known finding), bare and nested; unhashable
    # instances against their builtin copy and against another subclass (seeded C15-s4-A); float arrays that differ in the sign of a zero
    ["sub", "NT2", ["tuple", [["int", 1], ["int", 2]]]], ["tuple", [["int", 1], ["int", 2]]], ["sub", "NT2b", ["tuple", [["int", 1], ["int", 2]]]],
    ["sub", "SubTuple", ["tuple", [["int", 1], ["int", 2]]]], ["list", [["sub", "NT2", ["tuple", [["int", 1], ["int", 2]]]]]], ["list", [["tuple", [["int", 1], ["int", 2]]]]],
    ["sub", "NT2", ["tuple", [L1, ["int", 2]]]], ["tuple", [L1, ["int", 2]]], ["sub", "NT2b", ["tuple", [L1, ["int", 2]]]], ["sub", "SubTuple", ["tuple", [L1, ["int", 2]]]],
    ["sub", "SubList", L1], ["sub", "SubList2", L1], ["list", [["sub", "SubList", L1]]], ["list", [L1]], ["dict", [[["str", "k"], ["sub", "SubList", L1]]]],
    ["sub", "SubFset", ["fset", [["int", 1]]]], ["fset", [["int", 1]]], ["sub", "SubSet", ["set", [["int", 1]]]], ["set", [["int", 1]]],
    ["sub", "SubDict", ["dict", [[["str", "a"], ["int", 1]]]]], ["dict", [[["str", "a"], ["int", 1]]]], ["sub", "SubODict", ["odict", [[["str", "a"], ["int", 1]]]]],
    ["sub", "SubDeque", ["deque", None, [["int", 1]]]], ["sub", "SubTuple", FORGED_L1], ["sub", "NT3", FORGED_L1],
    ["list", [["set", [["npscalar", "float64", 1], ["bool", False], ["str", "ba"]]]]],       # DF-20 (a) with a numpy scalar: sorted raises numpy's TypeError subclass
    ["nd", [2], "<f8", [0, 1]], ["nd", [2], "<f8", [-0.0, 1]], ["nd", [2], "<f4", [-0.0, 1]], ["array", "d", [-0.0]], ["array", "d", [0]],
    *EMPTIES, *ONES, ["list", [["list", []]]], ["list", [["tuple", []]]], ["tuple", [["list", []]]], ["list", [["dict", []]]], ["list", [["set", []]]],
]


# the corpus of the state family: prepended to the first state batch (not to CORPUS, whose batch feeds the run's main RNG stream)
STATE_CORPUS = [
    # round s5 (seeded C15-s5-A / -B): Counters that differ only in counts <= 0 (bare, nested), what `+c` keeps; objects whose state is not
    # their __dict__ and that differ on the hidden side only / on the visible side only / in their class
    ["counter", [[["str", "a"], ["int", -1]]]], ["counter", [[["str", "a"], ["int", -2]]]], ["counter", [[["str", "a"], ["int", 0]]]],
    ["counter", [[["str", "x"], ["int", 3]], [["str", "y"], ["int", -1]]]], ["counter", [[["str", "x"], ["int", 3]], [["str", "y"], ["int", -5]]]],
    ["counter", [[["str", "x"], ["int", 3]]]], ["list", [["counter", [[["str", "a"], ["int", -1]]]]]], ["list", [["counter", [[["str", "a"], ["int", -2]]]]]],
    ["dict", [[["str", "k"], ["tuple", [["counter", [[["int", 1], ["int", -1]]]], L1]]]]], ["dict", [[["str", "k"], ["tuple", [["counter", [[["int", 1], ["int", -3]]]], L1]]]]],
    *[["fobj", c, [["float", h], ["float", 2.0]], [["str", v]]] for c in ("SlotDictObj", "SlotOnlyObj", "ArgsObj", "StateObj") for h, v in ((1.0, "p"), (5.0, "p"), (1.0, "q"))],
    ["list", [["fobj", "SlotDictObj", [["int", 1]], [["str", "p"]]]]], ["list", [["fobj", "SlotDictObj", [["int", 2]], [["str", "p"]]]]],
    ["dict", [[["str", "k"], ["tuple", [["fobj", "StateObj", [L1], [["str", "p"]]], ["list", [["int", 0]]]]]]]],
    ["dict", [[["str", "k"], ["tuple", [["fobj", "StateObj", [["list", [["int", 2]]]], [["str", "p"]]], ["list", [["int", 0]]]]]]]],
]


# ------------------------------------------------------------------------------------------------ one batch
def run_children(specs_by_batch, tmp):
    """Printed keys in two fresh interpreters with different hash seeds: per seed, a list (per batch) of lines."""
    code = f"import sys; sys.path.insert(0, {str(HARNESS)!r}); import c15_values as V, json\n" \
           "import pfimport\nfrom pipefunc.cache import to_hashable\n" \
           "for line in sys.stdin:\n" \
           "    B = V.Builder(); out = []\n" \
           "    for s in json.loads(line):\n" \
           "        try:\n" \
           "            st, k = V.describe(to_hashable, B.b(s))\n" \
           "            out.append('EXC ' + k if st == 'exc' else 'KEY ' + V.show(k))\n" \
           "        except Exception as e:\n" \
           "            out.append('CHILD-ERROR ' + type(e).__name__)\n" \
           "    print(json.dumps(out))\n"
    data = "".join(json.dumps(b) + "\n" for b in specs_by_batch)
    procs = []
    for seed in ("1", "4242"):
        env = dict(os.environ, PYTHONHASHSEED=seed)
        procs.append(subprocess.Popen([framework.PY, "-c", code], stdin=subprocess.PIPE, stdout=subprocess.PIPE, stderr=subprocess.PIPE,
                                      text=True, env=env, cwd=tmp))
    outs = []
    for p in procs:
        o, e = p.communicate(data, timeout=1200)
        if p.returncode != 0:
            raise framework.Infra(f"child interpreter failed: {e[-1500:]}")
        outs.append([json.loads(l) for l in o.splitlines() if l.startswith("[")])
    return outs


def in_process_line(st, k):
    if st == "exc":
        return "EXC " + k
    try:
        return "KEY " + V.show(k)
    except Exception as e:  # noqa: BLE001
        return "SHOW-ERROR " + type(e).__name__


class Batch:
    def __init__(self, ctx, specs, shuffle_rng):
        self.specs = specs
        B = V.Builder()
        self.vals = [B.b(s) for s in specs]
        self.keys = [V.describe(to_hashable, v) for v in self.vals]
        self.keys2 = [V.describe(to_hashable, v) for v in self.vals]
        self.enc = V.Encoder()
        self.pv, self.pv_shuf, self.kpv = [], [], []
        for v, (st, k) in zip(self.vals, self.keys):
            try:
                j = self.enc.enc(v)
                js = self.enc.enc(v, order=lambda l: shuffle_rng.sample(l, len(l)))
            except V.OutOfModel:
                j = js = None
            except Exception:  # noqa: BLE001
                j = js = None
            self.pv.append(j)
            self.pv_shuf.append(js)
            kj = None
            if j is not None and st == "ok":
                try:
                    kj = self.enc.enc(k)
                except Exception:  # noqa: BLE001
                    kj = None
            self.kpv.append(kj)
        self.model_idx = [i for i, j in enumerate(self.pv) if j is not None]
        # values holding an instance of a modelled user subclass (Model/HashableSub.lean), and every 5th plain value (wkey = key there)
        self.wenc = V.WideEncoder()
        self.wide_idx, self.wv, self.wkj = [], {}, {}
        for i, (v, (st, k)) in enumerate(zip(self.vals, self.keys)):
            before = self.wenc.marks
            try:
                j = self.wenc.enc(v)
            except Exception:  # noqa: BLE001   (OutOfModel and whatever a strange object raises)
                continue
            if self.wenc.marks == before and i % 5:
                continue
            self.wide_idx.append(i)
            self.wv[i] = (j, self.wenc.marks > before)
            if st == "ok":
                try:
                    self.wkj[i] = self.wenc.enc_key(k)
                except Exception:  # noqa: BLE001
                    pass
        # top-level Series / DataFrames inside the fragment of Model/HashablePandas.lean: (index into the batch, entry, request)
        self.pd_idx = []
        for i, v in enumerate(self.vals):
            if type(v).__module__.split(".")[0] == "pandas" and type(v).__name__ in ("Series", "DataFrame"):
                try:
                    entry, req = V.enc_pandas(self.enc, v)
                    self.pd_idx.append((i, entry, req))
                except V.OutOfModel:
                    pass
                except Exception:  # noqa: BLE001
                    pass

    def pandas_requests(self):
        return [{"m": e, "a": {"calls": [r for _, e2, r in self.pd_idx if e2 == e]}} for e in ("serieskeys", "framekeys")]

    def wide_request(self):
        return {"m": "wkeys", "a": {"values": [self.wv[i][0] for i in self.wide_idx], "bases": V.sub_bases()}}

    def requests(self):
        return [{"m": "keys", "a": {"values": [self.pv[i] for i in self.model_idx]}},
                {"m": "keys", "a": {"values": [self.pv_shuf[i] for i in self.model_idx]}}]


def kind_of(spec):
    return spec[0]


def check_batch(ctx, b: Batch, resp, resp_shuf, child_lines):  # noqa: C901, PLR0912, PLR0915
    n = len(b.specs)
    # ---- per value: a key, hashable, deterministic
    usable = []
    for i in range(n):
        spec, (st, k), (st2, k2) = b.specs[i], b.keys[i], b.keys2[i]
        ctx.count(f"value:{kind_of(spec)}")
        ctx.count("in-model" if b.pv[i] is not None else "outside-model")
        if st == "exc":
            ctx.count(f"raises:{k}")
            if k == "TypeError:UnhashableError":
                continue                                              # documented: not picklable
            ctx.violation({"kind": "raise", "a": spec, "exc": k}, f"to_hashable raised {k} for a value of the supported types", impl=k)
            continue
        try:
            hash(k)
        except Exception as e:  # noqa: BLE001
            ctx.violation({"kind": "unhashable-key", "a": spec}, f"to_hashable returned an unhashable key ({type(e).__name__})", impl=repr(k)[:300])
            continue
        usable.append(i)
        same_self = V.py_same(b.vals[i], b.vals[i])
        if st2 != "ok" or V.keq(k, k2) != same_self:
            ctx.violation({"kind": "nondeterministic", "a": spec}, "two calls of to_hashable on the same object give different keys "
                          f"(value equal to itself: {same_self})", impl=[repr(k)[:200], repr(k2)[:200]])
    # ---- all pairs: keys equal <=> same value
    reflexive = {i: V.py_same(b.vals[i], b.vals[i]) for i in usable}       # False: holds a NaN compared by `==` (ndarray data, Counter counts)
    fallback = {i: uses_fallback(b.vals[i]) for i in usable}               # holds a pickle-fallback object or a pandas object
    pickled = {i: uses_pickle(b.vals[i]) for i in usable}                  # holds an object keyed by its cloudpickle digest
    for x, i in enumerate(usable):
        vi, ki, si = b.vals[i], b.keys[i][1], b.specs[i]
        ci = si[0] not in ("int", "float", "bool", "str", "bytes", "none", "cls", "nan")
        for j in usable[x + 1:]:
            eqk = V.keq(ki, b.keys[j][1])
            same = V.py_same(vi, b.vals[j])
            case = {"kind": "pair", "a": si, "b": b.specs[j]}
            ctx.record(case, nontrivial=ci or b.specs[j][0] not in ("int", "float", "bool", "str", "bytes", "none", "cls", "nan"))
            if eqk:
                ctx.count("pairs:equal-keys")
            if eqk and not same and not (reflexive[i] and reflexive[j]):
                # a value holding a NaN that `==` compares (ndarray data, Counter counts) is not equal to itself.  Sound whatever the
                # NaNs are: if the two values differ even when every NaN is taken equal to every NaN, equal keys are a collision.
                if not same_nan_equal(vi, b.vals[j]):
                    ctx.violation({"kind": "collision", "a": si, "b": b.specs[j]}, "different values (also with all NaNs taken as equal) get "
                                  "equal keys", impl=[repr(ki)[:200], repr(b.keys[j][1])[:200]])
                else:
                    ctx.count("pairs:not-judged-differ-only-in-nan-identity")
            elif same and not eqk and (pickled[i] or pickled[j]):
                # the digest of a pickle is not a function of the value (sharing, insertion histories inside the object).  Judged
                # where it is: two objects built the same way (identical specs) in one process pickle identically.
                if V.dumps(si) == V.dumps(b.specs[j]):
                    ctx.violation({"kind": "split", "a": si, "b": b.specs[j]}, "two identically constructed objects get different keys "
                                  "(pickle fallback)", impl=[repr(ki)[:200], repr(b.keys[j][1])[:200]])
                else:
                    ctx.count("pairs:split-not-judged-pickle-fallback")
            elif eqk and not same and (fallback[i] or fallback[j]) and same_nan_equal(vi, b.vals[j]):
                ctx.count("pairs:fallback-objects-differing-only-in-nan-identity")      # a pickle cannot tell NaN objects apart
            elif eqk and not same and V.differ_only_in_zero_counts(vi, b.vals[j]):
                ctx.count("pairs:not-judged-differ-only-in-zero-counts")      # Counter(a=0) == Counter(): equal for Counter.__eq__, different mappings
            elif eqk and not same:
                ctx.violation({"kind": "collision", "a": si, "b": b.specs[j]}, "different values get equal keys (a cache returns the result "
                              "stored for the other value)", impl=[repr(ki)[:200], repr(b.keys[j][1])[:200]])
            elif same and not eqk:
                ctx.violation({"kind": "split", "a": si, "b": b.specs[j]}, "equal values of the same type get different keys",
                              impl=[repr(ki)[:200], repr(b.keys[j][1])[:200]])
            elif eqk and hash(ki) != hash(b.keys[j][1]):
                ctx.violation({"kind": "split", "a": si, "b": b.specs[j]}, "equal keys with different hashes", impl=[repr(ki)[:200]])
    # ---- processes
    for i in range(n):
        here = in_process_line(*b.keys[i])
        lines = [cl[i] for cl in child_lines]
        if any(l.startswith(("CHILD-ERROR", "SHOW-ERROR")) for l in lines + [here]):
            ctx.skip("child-could-not-print")
            continue
        native = (b.pv[i] is not None and not _has_opaque(b.pv[i])) or (i in b.wv and not _has_opaque(b.wv[i][0]))
        if len({here, *lines}) != 1:
            if native or b.specs[i][0] in ("df", "series") or has_partial_order(b.vals[i]) or has_unorderable(b.vals[i]):
                ctx.violation({"kind": "cross-process", "a": b.specs[i]}, "the key of a natively handled value differs between interpreters "
                              "(PYTHONHASHSEED)", impl=[here[:200]] + [l[:200] for l in lines])
            else:
                ctx.count("fallback-key-differs-between-processes")
        else:
            ctx.count("same-key-in-3-processes")
    # ---- model
    for pos, i in enumerate(b.model_idx):
        r, rs = resp[pos], resp_shuf[pos]
        st, k = b.keys[i]
        spec = b.specs[i]
        if r.get("wf"):                                    # C15_defined_iff / C15_undefined_iff: a key exists iff `comparable`
            ctx.count("model:comparable" if r["cmp"] else "model:not-comparable")
            if r["cmp"] != ("key" in r):
                ctx.violation({"kind": "model-defined", "a": spec}, "the model's key is defined but the value is not `comparable`, or the "
                              "reverse (theorem C15_defined_iff does not describe the driver)", found_input=False, item="correspondence:defined-iff", model=r)
            if st == "exc" and k != "TypeError:UnhashableError" and r["cmp"]:
                ctx.violation({"kind": "model-defined", "a": spec}, f"implementation raised {k} for a well-formed value whose sorted collections are all "
                              "strictly ordered (C15_defined_iff)", found_input=False, item="correspondence:defined-iff", impl=k, model=r)
        else:
            ctx.count("model:not-wf")
        if "unspec" in r:
            ctx.count("model:unspecified-partial-order")
            continue
        if V.norm_fresh(r) != V.norm_fresh(rs):
            ctx.violation({"kind": "model-order", "a": spec}, "the model's key depends on the listing order of a set/mapping (theorem "
                          "C15_iteration_order_irrelevant does not describe the driver)", found_input=False, item="correspondence:order", model=[r, rs])
        if "err" in r:
            ctx.count(f"model:err:{r['err']}")
            if not (st == "exc" and exc_matches(k, r["err"])):
                ctx.violation({"kind": "model-err", "a": spec}, f"model: {r['err']}, implementation: {st} {str(k)[:80]}", found_input=False,
                              item="correspondence:defined", impl=str(k)[:200], model=r)
            continue
        ctx.count("model:key")
        ctx.count("model:returned-as-is" if r["raw"] else "model:tagged")
        if st != "ok":
            ctx.violation({"kind": "model-err", "a": spec}, f"implementation raised {k}, the model returns a key", found_input=False,
                          item="correspondence:defined", impl=k, model=r)
            continue
        if not r["hashable"] and r["wf"]:
            ctx.violation({"kind": "model-hashable", "a": spec}, "model key not hashable (C15_hashable)", found_input=False, item="correspondence:hashable", model=r)
        if b.kpv[i] is None or V.dumps(V.norm_fresh(b.kpv[i])) != V.dumps(V.norm_fresh(r["key"])):
            ctx.violation({"kind": "model-key", "a": spec}, "implementation and model build different keys (no property clause fails on this input)",
                          found_input=False, item="correspondence:key", impl=repr(k)[:300], model=r["key"])
    # model keys equal <=> py_same, over the modelled values (a check of the encoder and of `Equiv` as the spec)
    groups = collections.defaultdict(list)
    for pos, i in enumerate(b.model_idx):
        if "key" in resp[pos] and b.keys[i][0] == "ok":
            groups[V.dumps(resp[pos]["key"])].append(i)
    reps = [g[0] for g in groups.values()]
    for g in groups.values():
        for j in g[1:]:
            if not V.py_same(b.vals[g[0]], b.vals[j]) and V.py_same(b.vals[j], b.vals[j]) and not (
                    (uses_fallback(b.vals[j]) or uses_fallback(b.vals[g[0]])) and same_nan_equal(b.vals[g[0]], b.vals[j])):
                ctx.violation({"kind": "model-collision", "a": b.specs[g[0]], "b": b.specs[j]}, "equal model keys for values that are not the same",
                              found_input=False, item="correspondence:injective")
    for x, i in enumerate(reps):
        for j in reps[x + 1:]:
            if V.py_same(b.vals[i], b.vals[j]) and not (uses_fallback(b.vals[i]) or uses_fallback(b.vals[j])):
                ctx.violation({"kind": "model-split", "a": b.specs[i], "b": b.specs[j]}, "different model keys for the same value",
                              found_input=False, item="correspondence:equal-values")


def check_wide(ctx, b: Batch, resp):
    """the key of every value that holds an instance of a user subclass against `wkey true` (Model/HashableSub.lean, the function the
    theorems of Props/C15Sub are about), and: equal model keys <=> the same value once HASHABLE subclass instances are replaced by
    their builtin copy (C15_sub_hashable_key_eq_iff / C15_sub_root_class)"""
    groups = collections.defaultdict(list)
    for pos, i in enumerate(b.wide_idx):
        r = resp[pos]
        st, k = b.keys[i]
        spec = b.specs[i]
        marked = b.wv[i][1]
        ctx.count("wide:with-subclass-instance" if marked else "wide:plain")
        if "unspec" in r:
            ctx.count("wide:unspecified-partial-order")
            continue
        if "err" in r:
            ctx.count(f"wide:err:{r['err']}")
            if not (st == "exc" and exc_matches(k, r["err"])):
                ctx.violation({"kind": "model-err", "a": spec}, f"wide model: {r['err']}, implementation: {st} {str(k)[:80]}", found_input=False,
                              item="correspondence:wide-defined", impl=str(k)[:200], model=r)
            continue
        if st != "ok":
            ctx.violation({"kind": "model-err", "a": spec}, f"implementation raised {k}, the wide model returns a key", found_input=False,
                          item="correspondence:wide-defined", impl=k, model=r)
            continue
        if not r["subok"]:                                 # the hypothesis of C15_sub_injective, evaluated for every generated value
            ctx.violation({"kind": "model-key", "a": spec}, "a generated value does not satisfy WV.subOk (one builtin base per user class): the "
                          "encoder's class table is wrong", found_input=False, item="correspondence:wide-subok", model=r)
        else:
            ctx.count("wide:subOk")
        if marked:
            ctx.count("wide:returned-as-is(base value)" if r["asis"] else "wide:tagged")
            ctx.count("wide:key-has-subclass-tag" if not r["core"] else "wide:key-is-core-key-of-base")
            if not r["basetag"]:
                ctx.count("wide:differs-from-base-tagged-key")        # (what the seeded change C15-s4-A would return)
        elif not r["core"] or not r["plain"]:
            ctx.violation({"kind": "model-key", "a": spec}, "wkey differs from key on a value without subclass instances (C15_sub_conservative "
                          "does not describe the driver)", found_input=False, item="correspondence:wide-conservative", model=r)
        if i not in b.wkj or V.dumps(V.norm_fresh(b.wkj[i])) != V.dumps(V.norm_fresh(r["key"])):
            ctx.violation({"kind": "model-key", "a": spec}, "implementation and wide model (wkey) build different keys (no property clause fails "
                          "on this input)", found_input=False, item="correspondence:wide-key", impl=repr(k)[:300], model=r["key"])
        if V.py_same(b.vals[i], b.vals[i]):
            groups[V.dumps(r["key"])].append(i)
    erased = {}
    for g in groups.values():
        for i in g:
            try:
                erased[i] = V.erase_hashable_sub(b.vals[i])
            except Exception:  # noqa: BLE001   (an object the eraser cannot rebuild: compared as it is)
                erased[i] = b.vals[i]
    reps = [g[0] for g in groups.values()]
    for g in groups.values():
        for j in g[1:]:
            if not V.py_same(erased[g[0]], erased[j]):
                ctx.violation({"kind": "model-collision", "a": b.specs[g[0]], "b": b.specs[j]}, "equal wide-model keys for values that differ after "
                              "replacing hashable subclass instances by their builtin copy", found_input=False, item="correspondence:wide-injective")
            elif not V.py_same(b.vals[g[0]], b.vals[j]):
                ctx.count("wide:model-collision-hashable-subclass(known finding)")
    for x, i in enumerate(reps):
        for j in reps[x + 1:]:
            if V.py_same(b.vals[i], b.vals[j]) and not (uses_fallback(b.vals[i]) or uses_fallback(b.vals[j])):
                ctx.violation({"kind": "model-split", "a": b.specs[i], "b": b.specs[j]}, "different wide-model keys for the same value",
                              found_input=False, item="correspondence:wide-equal-values")


def check_pandas_model(ctx, b: Batch, resp_series, resp_frames):
    """the key of a Series / DataFrame against `seriesKey` / `frameKey` (the functions the theorems of Props/C15Pandas are about)"""
    it = {"serieskeys": iter(resp_series), "framekeys": iter(resp_frames)}
    for i, entry, _req in b.pd_idx:
        r = next(it[entry])
        st, k = b.keys[i]
        spec = b.specs[i]
        ctx.count(f"pandas-model:{entry}")
        if "unspec" in r:
            ctx.count("pandas-model:unspecified-partial-order")
            continue
        if "err" in r:
            ctx.count(f"pandas-model:err:{r['err']}")
            if not (st == "exc" and exc_matches(k, r["err"])):
                ctx.violation({"kind": "model-err", "a": spec}, f"pandas model: {r['err']}, implementation: {st} {str(k)[:80]}", found_input=False,
                              item="correspondence:pandas-defined", impl=str(k)[:200], model=r)
            continue
        if st != "ok":
            ctx.violation({"kind": "model-err", "a": spec}, f"implementation raised {k}, the pandas model returns a key", found_input=False,
                          item="correspondence:pandas-defined", impl=k, model=r)
            continue
        try:
            kj = V.dumps(V.norm_fresh(b.enc.enc(k)))
        except Exception:  # noqa: BLE001
            kj = None
        if kj != V.dumps(V.norm_fresh(r["key"])):
            ctx.violation({"kind": "model-key", "a": spec}, "implementation and pandas model (seriesKey / frameKey) build different keys "
                          "(no property clause fails on this input)", found_input=False, item="correspondence:pandas-key",
                          impl=repr(k)[:300], model=r["key"])


def same_nan_equal(a, b):
    V.NAN_EQUAL = True
    try:
        return V.py_same(a, b)
    finally:
        V.NAN_EQUAL = False


def uses_fallback(obj):
    return any(isinstance(x, (V.Obj, *V.FOBJ_CLASSES)) or type(x).__module__.split(".")[0] == "pandas" for x in _walk(obj))


def uses_pickle(obj):
    return any(isinstance(x, (V.Obj, *V.FOBJ_CLASSES)) for x in _walk(obj))


def _has_opaque(j):
    if isinstance(j, dict):
        if j.get("k") == "opaque":
            return True
        return any(_has_opaque(x) for x in j.get("x", []))
    return False


# ------------------------------------------------------------------------------------------------ memoize
def check_memo(ctx, b: Batch, rng, tmp, n_calls):
    import numpy as np
    idx = [i for i in range(len(b.specs)) if b.keys[i][0] == "ok" and _is_hashable(b.keys[i][1])]
    # LRUCache/HybridCache `get` call `list.remove(key)`, which compares the key with unrelated keys element by element; a numpy
    # scalar argument compared with a tuple at the same position broadcasts (`np.float32(1) == (1, 2)` is an array) and raises
    # ValueError.  That is a defect of the cache containers (C14), not of the key: such arguments are left out here and counted.
    with_np = [i for i in idx if any(isinstance(x, np.generic) for x in _walk(b.vals[i]))]
    ctx.count("memo:left-out-numpy-scalar-argument", len(with_np))
    idx = [i for i in idx if i not in with_np and V.py_same(b.vals[i], b.vals[i])]
    if not idx:
        return None
    seq = [rng.choice(idx) for _ in range(n_calls)]
    caches = [("simple", SimpleCache()), ("lru", LRUCache(max_size=10_000, shared=False)), ("hybrid", HybridCache(max_size=10_000, shared=False)),
              ("disk", DiskCache(tempfile.mkdtemp(prefix="disk-", dir=tmp), with_lru_cache=False))]
    hits_by_cache = {}
    for name, cache in caches:
        origin = []                                       # call number -> index into seq of the argument that produced it

        @memoize(cache=cache)
        def f(x, _origin=origin):
            _origin.append(None)
            return ("res", len(_origin) - 1)

        hits = []
        for pos, i in enumerate(seq):
            before = len(origin)
            try:
                res = f(b.vals[i])
            except Exception as e:  # noqa: BLE001
                ctx.violation({"kind": "memo", "cache": name, "a": b.specs[i]}, f"memoized call raised {pfimport.exc_enum(e)}")
                hits.append(None)
                continue
            if len(origin) > before:
                origin[-1] = pos
                hits.append(False)
                continue
            hits.append(True)
            ctx.count(f"memo:{name}:hit")
            src = origin[res[1]] if isinstance(res, tuple) and len(res) == 2 and res[1] < len(origin) else None
            V.NAN_EQUAL = name == "disk"          # the disk cache is keyed by the pickled key: NaN objects are not told apart
            try:
                ok = src is not None and V.py_same(b.vals[seq[src]], b.vals[i])
            finally:
                V.NAN_EQUAL = False
            if not ok and src is not None and V.differ_only_in_zero_counts(b.vals[seq[src]], b.vals[i]):
                ctx.count("memo:not-judged-differ-only-in-zero-counts")
            elif not ok and src is not None and (uses_pickle(b.vals[i]) or uses_pickle(b.vals[seq[src]])) and same_nan_equal(b.vals[seq[src]], b.vals[i]):
                ctx.count("memo:not-judged-pickled-objects-differing-only-in-nan-identity")      # a pickle cannot tell NaN objects apart (as in check_batch)
            elif not ok:
                ctx.violation({"kind": "memo", "cache": name, "a": b.specs[i], "b": b.specs[seq[src]] if src is not None else None},
                              f"memoize({name}) returned the result stored for a different argument")
        hits_by_cache[name] = hits
        ctx.count(f"memo:{name}:calls", len(seq))
    # the in-memory caches against the model's memo table (only modelled arguments)
    if all(b.pv[i] is not None for i in seq):
        args = [{"k": "tuple", "x": [{"k": "tuple", "x": [b.pv[i]]}, {"k": "dict", "x": []}]} for i in seq]
        return {"m": "memo", "a": {"args": args}}, hits_by_cache, [b.specs[i] for i in seq]
    return None


def compare_memo(ctx, resp, hits_by_cache, specs):
    if any(not isinstance(r, list) for r in resp):
        ctx.skip("memo-sequence-with-unspecified-key")
        return
    model_hits = [r[1] for r in resp]
    for name in ("simple", "lru", "hybrid"):
        if hits_by_cache[name] != model_hits:
            ctx.violation({"kind": "memo-model", "cache": name, "seq": specs}, f"memoize({name}) hit pattern differs from the model's memo table",
                          found_input=False, item="correspondence:memoize", impl=hits_by_cache[name], model=model_hits)
    ctx.count("memo:sequences-compared-with-model")


# ------------------------------------------------------------------------------------------------ the keys around to_hashable
def has_zero_count(obj):
    return any(isinstance(x, collections.Counter) and any(isinstance(c, (int, float)) and c == 0 for c in x.values()) for x in _walk(obj))


def call_checks(ctx, b: Batch, rng, tmp, scale, leave_out=None):
    """The streams of c15_calls.py over the values of one batch that can be arguments of a cached call: a hashable key, equal to
    themselves, no numpy scalar inside (LRUCache/HybridCache.get compare keys with `list.remove`, see check_memo)."""
    import numpy as np
    idx = [i for i in range(len(b.specs)) if b.keys[i][0] == "ok" and _is_hashable(b.keys[i][1]) and V.py_same(b.vals[i], b.vals[i])
           and not any(isinstance(x, np.generic) or (isinstance(x, float) and x != x) for x in _walk(b.vals[i]))
           and not (leave_out is not None and leave_out(b.vals[i]))]
    # (a NaN is equal to itself only as the same object: shared / disk caches pickle their keys and lose that identity, and
    #  `_func_defaults` asserts `default == default` — neither is about the key; NaN-holding values are judged in check_batch)
    if len(idx) < 8:
        return None
    # neighbours in a batch are often look-alikes of each other (derived values follow their originals): keep the batch order,
    # and prefer values inside the modelled fragment so that most call sequences can be compared with the model
    idx = [i for i in idx if b.pv[i] is not None or rng.random() < 0.15][:200]
    cc = c15_calls.CallCheck(ctx, rng, [b.specs[i] for i in idx], [b.vals[i] for i in idx], [b.pv[i] for i in idx], tmp)
    cc.enc = b.enc
    cc.memoize_stream(4 * scale, 24).varcall_stream(2 * scale, 5).bind_stream(60 * scale).bindsig_stream(60 * scale).pipekey_stream(3 * scale, 10).pipeline_stream(4 * scale, 16).map_stream(3 * scale, 9)
    return cc


def sorted_with_ties(ctx, rng, n):
    """`sortW` (the stable sort over totally preordered keys) against Python's `sorted(pairs, key=first)`: the keys come from one
    comparable family and repeat — also as 1 / 1.0 / True, one model value, a tie for `<` — the second components tell the tied
    entries apart, so the comparison sees whether ties keep their input order."""
    enc = V.Encoder()
    lists, expect = [], []
    for _ in range(n):
        fam = g_family(rng, rng.randint(1, 3))
        if not fam:                                          # (every candidate of the family was a repeat or was skipped)
            continue
        ks = [rng.choice(fam) for _ in range(rng.randint(0, 6))]
        if fam and fam[0][0] in ("int", "float", "bool"):
            ks = [retype(rng, k) if k[0] in ("int", "bool") and k[1] in (0, 1, True, False) and rng.random() < 0.4 else k for k in ks]
            ks = [k for k in ks if k[0] in ("int", "float", "bool")]
        pairs = [(V.build(k), i) for i, k in enumerate(ks)]
        try:
            py = sorted(pairs, key=lambda p: p[0])
            lists.append([[enc.enc(k), enc.enc(i)] for k, i in pairs])
            expect.append([[enc.enc(k), enc.enc(i)] for k, i in py])
        except Exception:  # noqa: BLE001
            continue

    def cb(resp):
        for l, e, r in zip(lists, expect, resp):
            ctx.count("sortw:with-ties" if len({V.dumps(p[0]) for p in l}) < len(l) else "sortw:strict")
            if "sorted" not in r or V.dumps(r["sorted"]) != V.dumps(e):
                ctx.violation({"kind": "sortw-model", "pairs": l}, "the model's stable sort (sortW) differs from Python's sorted(key=first)",
                              found_input=False, item="correspondence:sorted-ties", impl=e, model=r)
    return {"m": "sortw", "a": {"lists": lists}}, cb


def pre_build(ctx):
    """Translator (secondary tie): regenerate lean/PfModel/Generated/C15Facts.lean from pipefunc/cache.py."""
    ok, detail = c15_extract.write()
    ctx.extra["translated_from_source"] = {"ok": ok, "detail": detail if not ok else {
        "branches": [[b["tests"], b["body"], b["attrs"]] for b in detail["branches"]], "prelude": detail["prelude"], "helpers": detail["helpers"]}}
    if not ok:
        ctx.notes.append(f"translator could not read to_hashable: {detail} (broken tie: C15_dispatch cannot check; the behavioural search decides)")


def run(ctx):
    tmp = tempfile.mkdtemp(prefix="verif-c15-")
    try:
        rng = ctx.rng
        size = 200 if ctx.tier == "quick" else 400
        n_batches = ctx.n(1, 26)
        batches_specs = [copy.deepcopy(CORPUS) + make_batch(rng, 60, outside=0.0)]
        for _ in range(n_batches):
            batches_specs.append(make_batch(rng, size))
        for _ in range(ctx.n(1, 8)):                           # the pandas family: Series / DataFrames and their look-alikes
            batches_specs.append(make_batch(rng, 150 if ctx.tier == "quick" else 300, outside=0.02, base=g_pandas, p_base=0.8))
        for _ in range(ctx.n(1, 6)):                           # the subclass family: instances of user subclasses and their look-alikes
            batches_specs.append(make_batch(rng, 110 if ctx.tier == "quick" else 250, outside=0.02, base=g_sub, p_base=0.75))
        batches = [Batch(ctx, s, rng) for s in batches_specs]
        # the state family (round s5): Counters with counts <= 0, objects whose state is not their __dict__, and their look-alikes.
        # Its own generator stream (derived from the run's seed), so that the streams above are the ones of the earlier rounds.
        srng = random.Random(f"C15:{ctx.seed}:{ctx.tier}:state")
        n_state = ctx.n(1, 6)
        for x in range(n_state):
            batches_specs.append((copy.deepcopy(STATE_CORPUS) if x == 0 else []) + make_state_batch(srng, 90 if ctx.tier == "quick" else 220))
            batches.append(Batch(ctx, batches_specs[-1], srng))
        reqs, memo_meta = [], []
        for b in batches:
            reqs += b.requests()
        for bi, b in enumerate(batches):
            m = check_memo(ctx, b, rng if bi < len(batches) - n_state else srng, tmp, 60 if ctx.tier == "quick" else 150)
            if m:
                memo_meta.append((len(reqs), m[1], m[2]))
                reqs.append(m[0])
        call_meta = []
        n_plain = 1 + n_batches                              # the corpus batch and the generated ones; the pandas batches follow
        for bi, b in enumerate(batches):
            if bi >= len(batches) - n_state:                 # (zero counts: Counter(a=0) == Counter() — which calls "pass the same values" is not judged)
                cc = call_checks(ctx, b, srng, tmp, 1 if ctx.tier == "quick" else 2, leave_out=has_zero_count)
            else:
                cc = call_checks(ctx, b, rng, tmp, (3 if ctx.tier == "quick" else 6) if bi < n_plain else (1 if ctx.tier == "quick" else 3))
            if cc:
                for req, cb in cc.reqs:
                    call_meta.append((len(reqs), cb))
                    reqs.append(req)
        sw_req, sw_cb = sorted_with_ties(ctx, rng, 200 if ctx.tier == "quick" else 2000)
        call_meta.append((len(reqs), sw_cb))
        reqs.append(sw_req)
        pd_pos = len(reqs)
        for b in batches:
            reqs += b.pandas_requests()
        wide_pos = len(reqs)
        for b in batches:
            reqs.append(b.wide_request())
        outs = ctx.lean(reqs)
        children = run_children(batches_specs, tmp)
        for bi, b in enumerate(batches):
            check_batch(ctx, b, outs[2 * bi]["r"], outs[2 * bi + 1]["r"], [c[bi] for c in children])
        for bi, b in enumerate(batches):
            check_pandas_model(ctx, b, outs[pd_pos + 2 * bi]["r"], outs[pd_pos + 2 * bi + 1]["r"])
        for bi, b in enumerate(batches):
            check_wide(ctx, b, outs[wide_pos + bi]["r"])
        for pos, hits, specs in memo_meta:
            compare_memo(ctx, outs[pos]["r"], hits, specs)
        for pos, cb in call_meta:
            cb(outs[pos]["r"])
        ctx.notes.append(f"batches={len(batches)} values={sum(len(b.specs) for b in batches)}")
    finally:
        shutil.rmtree(tmp, ignore_errors=True)


def replay_call(case):
    """the call kinds of c15_calls.py: print the key pipefunc builds for each of the two calls of the case"""
    from pipefunc._pipeline._cache import compute_cache_key
    B = V.Builder()
    kind = case["kind"]

    def show(label, fn):
        st, k = V.describe(lambda _: fn(), None)
        print(f"{label}: {st} {k!r}"[:700])
        return (st, k)

    if kind in ("memo-call", "memo-key-model"):
        # run the real `memoize` over a cache that records the keys it is asked for: first the stored / earlier call, then this one
        calls = [(n, case[n]) for n in ("stored_for", "earlier") if case.get(n)] + [("this call", case)]
        log = []
        if case.get("sig"):
            f = c15_calls.make_varfunc(case["sig"], B.b(case["default_b"]), log)
        elif case.get("params"):
            f = c15_calls.make_func(case["params"], {p: B.b(v) for p, v in case.get("defaults", {}).items()}, log)
        else:
            f = c15_calls.make_varfunc("var", None, log)
        cache = c15_calls.RecordingCache()
        g = memoize(cache=cache)(f)
        ks = []
        for n, c in calls:
            before, marks = len(log), (len(cache.asked), len(cache.stored))
            st, res = V.describe(lambda _, c=c: g(*[B.b(x) for x in c["args"]], **{k: B.b(v) for k, v in c["kwargs"].items()}), None)
            kst, key = cache.key_of_last_call(*marks)
            print(f"{n}: f(*{[B.b(x) for x in c['args']]!r}, **{ {k: B.b(v) for k, v in c['kwargs'].items()} !r})"[:500])
            print(f"   memoize's key: {key!r}"[:600])
            print(f"   {'raised ' + str(res) if st == 'exc' else 'computed' if len(log) > before else 'SERVED FROM THE CACHE: the result of call ' + str(getattr(res, 'n', '?')) + ', arguments ' + repr(log[res.n] if hasattr(res, 'n') and res.n < len(log) else None)}"[:600])
            ks.append((kst, key))
    elif kind in ("pipe-key", "pipe-key-model", "unhashable-key") and "roots" in case:
        calls = [("this call", case)] + ([("other", case["other"])] if case.get("other") else [])
        ks = [show(n, lambda c=c: compute_cache_key(tuple(c["out"]) if isinstance(c["out"], list) else c["out"],
                                                   {k: B.b(v) for k, v in c["kwargs"].items()}, tuple(c["roots"]))) for n, c in calls]
    elif kind == "pipeline-call":
        roots = ["a", "b", "c"] if case["two"] else ["a", "b"]
        calls = [("this call", case["kwargs"])] + [(n, case[n]) for n in ("stored_for", "earlier") if case.get(n)]
        ks = [show(n, lambda c=c: compute_cache_key(case["out"], {"b": B.b(case["default_b"]), **{k: B.b(v) for k, v in c.items()}}
                                                   if not case["two"] else {k: B.b(v) for k, v in c.items()}, tuple(roots))) for n, c in calls]
    elif kind == "map-cache" and "i" in case:
        ks = [show(f"element {x}", lambda x=x: ("y", to_hashable({"a": B.b(case["a"][x]), "b": B.b(case["b"])}))) for x in (case["i"], case["j"])]
        print("elements are the same value:", V.py_same(B.b(case["a"][case["i"]]), B.b(case["a"][case["j"]])))
    else:
        print("case:", json.dumps(case)[:2000])
        return
    if len(ks) == 2 and ks[0][0] == ks[1][0] == "ok":
        print("keys equal:", V.keq(ks[0][1], ks[1][1]))


def replay(ctx, case):
    if case.get("kind") in ("memo-call", "memo-key-model", "pipe-key", "pipe-key-model", "pipeline-call", "map-cache", "pipeline-model",
                            "memo-call-model", "bind-model", "sortw-model") or (case.get("kind") == "unhashable-key" and "roots" in case):
        return replay_call(case)
    B = V.Builder()
    enc = V.Encoder()
    for name in ("a", "b"):
        if case.get(name) is None:
            continue
        v = B.b(case[name])
        st, k = V.describe(to_hashable, v)
        print(f"{name}: value={v!r}\n   implementation: {st} {k!r}")
        try:
            print("   model:", json.dumps(ctx.lean([{"m": "keys", "a": {"values": [enc.enc(v)]}}])[0]["r"][0])[:600])
        except V.OutOfModel as e:
            try:                                           # a value holding instances of user subclasses: Model/HashableSub.lean
                wenc = V.WideEncoder()
                r = ctx.lean([{"m": "wkeys", "a": {"values": [wenc.enc(v)], "bases": V.sub_bases()}}])[0]["r"][0]
                same = st == "ok" and "key" in r and V.dumps(V.norm_fresh(wenc.enc_key(k))) == V.dumps(V.norm_fresh(r["key"]))
                print(f"   wide model (wkey): the same key as the implementation: {same}\n   ", json.dumps(r)[:600])
                continue
            except Exception:  # noqa: BLE001
                pass
            try:                                           # a top-level Series / DataFrame: Model/HashablePandas.lean
                entry, req = V.enc_pandas(enc, v)
                r = ctx.lean([{"m": entry, "a": {"calls": [req]}}])[0]["r"][0]
                same = st == "ok" and "key" in r and V.dumps(V.norm_fresh(enc.enc(k))) == V.dumps(V.norm_fresh(r["key"]))
                print(f"   pandas model ({entry}): the same key as the implementation: {same}\n   ", json.dumps(r)[:600])
            except Exception:  # noqa: BLE001
                print("   model: outside the modelled fragment:", e)
    if case.get("a") is not None and case.get("b") is not None:
        a, b2 = B.b(case["a"]), B.b(case["b"])
        ka, kb = V.describe(to_hashable, a), V.describe(to_hashable, b2)
        print("same value:", V.py_same(a, b2), "| keys equal:", ka[0] == "ok" and kb[0] == "ok" and V.keq(ka[1], kb[1]))
    if case.get("kind") == "cross-process":
        tmp = tempfile.mkdtemp(prefix="verif-c15-")
        try:
            print("children:", [c[0][0][:300] for c in run_children([[case["a"]]], tmp)])
        finally:
            shutil.rmtree(tmp, ignore_errors=True)
