import PfModel.DriverLib
import PfModel.Model.Resources
/-! Driver for C20 (`resources.ops`). Run: `lake env lean --run Driver/C20.lean < requests.jsonl`. -/
open Lean PF.Drv PF.Res

def getExtra (j : Json) : R (List (String × Int)) := asList (asPair asStr asInt) j

/-- `{"cpus": 1, "memory": "2GB", "extra_args": [["k", 1]], ...}`; absent / null = None -/
def getR (j : Json) : R PF.Res.R := do
  return { cpus := ← optF asInt j "cpus", cpusPerNode := ← optF asInt j "cpus_per_node", nodes := ← optF asInt j "nodes",
           memory := ← optF asStr j "memory", gpus := ← optF asInt j "gpus", time := ← optF asStr j "time",
           partition := ← optF asStr j "partition",
           extra := (← optF getExtra j "extra_args").getD [],
           mode := (← optF asStr j "parallelization_mode").getD "external" }

def putR (r : PF.Res.R) : Json :=
  jObj [("cpus", jOpt jInt r.cpus), ("cpus_per_node", jOpt jInt r.cpusPerNode), ("nodes", jOpt jInt r.nodes),
        ("memory", jOpt jStr r.memory), ("gpus", jOpt jInt r.gpus), ("time", jOpt jStr r.time),
        ("partition", jOpt jStr r.partition), ("extra_args", jList (jPair jStr jInt) r.extra),
        ("parallelization_mode", jStr r.mode)]

def putOptR : Option PF.Res.R → Json
  | none => jObj [("err", jStr "ValueError")]
  | some r => jObj [("ok", putR r)]

/-- update keywords: `[key, value]` with value an int, a string, null, or (for `extra_args`) a list of pairs -/
def getUpd (j : Json) : R Upd := do
  let (k, v) ← asPair asStr pure j
  match k, v with
  | "cpus", .null => return .clearCpus
  | "nodes", .null => return .clearNodes
  | "cpus_per_node", .null => return .clearCpusPerNode
  | "memory", .null => return .clearMemory
  | "gpus", .null => return .clearGpus
  | "time", .null => return .clearTime
  | "partition", .null => return .clearPartition
  | "cpus", v => return .field (.cpus (← asInt v))
  | "nodes", v => return .field (.nodes (← asInt v))
  | "cpus_per_node", v => return .field (.cpusPerNode (← asInt v))
  | "gpus", v => return .field (.gpus (← asInt v))
  | "memory", v => return .field (.memory (← asStr v))
  | "time", v => return .field (.time (← asStr v))
  | "partition", v => return .field (.partition (← asStr v))
  | "parallelization_mode", v => return .field (.mode (← asStr v))
  | "extra_args", v => return .field (.extra (← getExtra v))
  | k, v => return .unknown k (← asInt v)

def ratJ (q : Rat) : Json := jArr [jInt q.num, jNat q.den]

def handle (m : String) (a : Json) : R Json := do
  match m with
  | "make" => return putOptR (mk? (← getR a))
  | "mem" => return jOpt ratJ (memSize? (← asStr a))
  | "time" => return jOpt jNat (timeSecs? (← asStr a))
  | "combine_max" =>
    let l ← asList getR a
    if l.all Valid then return putR (combineMax l) else .error "combine_max: invalid operand"
  | "with_defaults" =>
    let self ← getR (← fld a "self")
    let d ← optF getR a "default"
    return putOptR (withDefaults? self d)
  | "update" =>
    let self ← getR (← fld a "self")
    let kw ← listF getUpd a "kw"
    let (res, after) := update self kw
    return jObj [("result", putOptR res), ("receiver_after", putR after)]
  | "dict_roundtrip" =>
    let r ← getR a
    return putOptR (fromDict? (toDict r))
  | "slurm" => return jStr (toSlurm (← getR a))
  | _ => .error s!"unknown entry {m}"

def main : IO Unit := loop handle
