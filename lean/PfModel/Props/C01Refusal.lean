import PfModel.Lemmas.MapRefusal
/-!
C01, clause "a valid request is never refused" — as an equivalence.  `Conforms = RequestOK && DescOK`
(`Lemmas/MapRefusal.lean`): `RequestOK` is what the request must satisfy (every check `run_map` performs before the first
function runs), `DescOK` says that the description is a realisable pipeline of well-behaved functions.  `C01_never_refused`
(`Props/C01Total.lean`) is `RequestOK ∧ DescOK → answered`; here the converse `answered → RequestOK`, hence for every
realisable description: **answered ⇔ RequestOK ⇔ Conforms**, refused ⇔ one of the five request checks fails.
The decide-witnesses at the end show that the converse cannot include `DescOK` (the code — and the model — answer some
requests whose description is not realisable) and that `C01_never_refused` cannot drop it.
-/
namespace PF.C01
open PF PF.Map

/-- `Conforms` is the conjunction of its request part and its description part -/
theorem C01_conforms_split (fs : List MFunc) (inputs : List (String × Val)) (ui : List (String × List Nat)) :
    Conforms fs inputs ui = (RequestOK fs inputs ui && DescOK fs inputs ui) :=
  conforms_split fs inputs ui

/-- **Whenever the model of `Pipeline.map` answers, the request passed every check** — complete inputs, no surplus input,
    acyclic, every root argument a MapSpec names given as an array, and `map_shapes` succeeded (ranks match, zipped sizes
    agree, internal sizes declared).  No hypothesis at all. -/
theorem C01_answered_request_ok (fs : List MFunc) (inputs : List (String × Val)) (ui : List (String × List Nat)) (r : MapResult)
    (h : runMap fs inputs ui = .ok r) : RequestOK fs inputs ui = true :=
  answered_requestOK opArray fs inputs ui r h

/-- **A request that fails a check is refused** — unconditionally (the contrapositive of `C01_answered_request_ok`). -/
theorem C01_refused_of_request_fault (fs : List MFunc) (inputs : List (String × Val)) (ui : List (String × List Nat))
    (h : RequestOK fs inputs ui = false) : ∃ e, runMap fs inputs ui = .error e := by
  cases hr : runMap fs inputs ui with
  | error e => exact ⟨e, rfl⟩
  | ok r => rw [answered_requestOK opArray fs inputs ui r hr] at h; cases h

/-- **"Never refused" as an equivalence**: for a realisable description — `DescOK` holds whenever the request checks pass
    (on a request that fails a check the declared shape table, which `DescOK` is stated against, need not make sense) — the
    request is answered iff it conforms. -/
theorem C01_never_refused_iff (fs : List MFunc) (inputs : List (String × Val)) (ui : List (String × List Nat))
    (hd : RequestOK fs inputs ui = true → DescOK fs inputs ui = true) :
    (∃ r, runMap fs inputs ui = .ok r) ↔ Conforms fs inputs ui = true := by
  constructor
  · rintro ⟨r, hr⟩
    have hq := answered_requestOK opArray fs inputs ui r hr
    rw [conforms_split, hq, hd hq]; rfl
  · intro hc
    exact never_refused_with opArray fs inputs ui hc

/-- **Exact refusal**: for a realisable description the request is refused iff one of the five request checks fails.
    (What a failing `shapesOK` means check by check — missing shape, rank mismatch, unequal zipped dimensions, missing
    internal size — is `C12_mapShapes_refused_iff` / `shapesOK_false_iff`.)  The direction ⇐ needs no hypothesis
    (`C01_refused_of_request_fault`). -/
theorem C01_refused_iff (fs : List MFunc) (inputs : List (String × Val)) (ui : List (String × List Nat))
    (hd : RequestOK fs inputs ui = true → DescOK fs inputs ui = true) :
    (∃ e, runMap fs inputs ui = .error e) ↔
      (inputsComplete fs inputs = false ∨ noSurplus fs inputs = false ∨ acyclic fs = false ∨ rootArrays fs inputs = false ∨
       shapesOK (constructInternal fs ui) (generations fs).flatten (rootTbl fs inputs) = false) := by
  have hq : RequestOK fs inputs ui = true ↔
      ¬ (inputsComplete fs inputs = false ∨ noSurplus fs inputs = false ∨ acyclic fs = false ∨ rootArrays fs inputs = false ∨
         shapesOK (constructInternal fs ui) (generations fs).flatten (rootTbl fs inputs) = false) := by
    unfold RequestOK
    simp only [Bool.and_eq_true, not_or, Bool.not_eq_false, and_assoc]
  constructor
  · rintro ⟨e, he⟩
    apply Classical.byContradiction
    intro hn
    have hr := hq.mpr hn
    obtain ⟨r, hr'⟩ := never_refused_with opArray fs inputs ui (by rw [conforms_split, hr, hd hr]; rfl)
    unfold runMap at he
    rw [he] at hr'; cases hr'
  · intro hf
    apply C01_refused_of_request_fault
    cases hr : RequestOK fs inputs ui with
    | false => rfl
    | true => exact absurd hf (hq.mp hr)

/-- the specification refuses exactly the same requests -/
theorem C01_answered_request_ok_spec (fs : List MFunc) (inputs : List (String × Val)) (ui : List (String × List Nat)) (r : MapResult)
    (h : specMap fs inputs ui = .ok r) : RequestOK fs inputs ui = true :=
  answered_requestOK denoteArray fs inputs ui r h

/-- **Error class of the early refusals**: incomplete inputs, surplus inputs and cycles are refused with a `ValueError`
    (before `map_shapes` is consulted), whatever the description. -/
theorem C01_refusal_class (fs : List MFunc) (inputs : List (String × Val)) (ui : List (String × List Nat))
    (h : (inputsComplete fs inputs && noSurplus fs inputs && acyclic fs) = false) :
    ∃ why, runMap fs inputs ui = .error (.value why) :=
  refused_value_of_inputs opArray fs inputs ui h

/-! ### non-vacuity and witnesses -/

section Examples

private def ints (n : Nat) : List Val := (List.range n).map fun i => .int (Int.ofNat i)
private def mf (name : String) (params outputs : List String) (ms : Option MSpec) (ret internal : Option (List Nat) := none) : MFunc :=
  { name := name, params := params.map fun p => (p, p), outputs := outputs, mapspec := ms, ret := ret, internal := internal,
    defaults := [], bound := [] }

/-- `x[i], w[j] -> y[i, j]` and a full reduction `y -> s` -/
private def fY : MFunc := mf "f" ["x", "w"] ["y"] (some ⟨[⟨"x", [some "i"]⟩, ⟨"w", [some "j"]⟩], [⟨"y", [some "i", some "j"]⟩]⟩)
private def fS : MFunc := mf "h" ["y"] ["s"] none
private def inOK : List (String × Val) := [("x", .arr [3] (ints 3)), ("w", .arr [2] (ints 2))]

example : DescOK [fS, fY] inOK [] = true := by decide
example : RequestOK [fS, fY] inOK [] = true := by decide
example : (∃ r, runMap [fS, fY] inOK [] = .ok r) := (C01_never_refused_iff _ _ _ (fun _ => by decide)).mpr (by decide)
/-- a rank mismatch on a realisable description: refused, and `C01_refused_iff` names the failing check -/
example : ∃ e, runMap [fS, fY] [("x", .arr [3, 1] (ints 3)), ("w", .arr [2] (ints 2))] [] = .error e :=
  (C01_refused_iff _ _ _ (fun h => absurd h (by decide))).mpr (Or.inr (Or.inr (Or.inr (Or.inr (by decide)))))
/-- a surplus input is a `ValueError` -/
example : ∃ why, runMap [fS, fY] (inOK ++ [("q", .int 0)]) [] = .error (.value why) := C01_refusal_class _ _ _ (by decide)

/-- `c -> v[j]` declared with 2 elements -/
private def gen (ret : List Nat) : MFunc := mf "gen" ["c"] ["v"] (some ⟨[], [⟨"v", [some "j"]⟩]⟩) (some ret) (some [2])
private def useV : MFunc := mf "u" ["v"] ["z"] (some ⟨[⟨"v", [some "j"]⟩], [⟨"z", [some "j"]⟩]⟩)

/-- **Witness 1 (why the converse stops at `RequestOK`)**: a generator that declares `internal_shape=(2,)` but returns 3
    elements.  Neither `run_map` nor the model checks the returned array of an un-mapped function against the declared shape;
    the consumer silently maps over the first two elements.  The request is answered, `RequestOK` holds, `DescOK` does not. -/
example : (runMap [useV, gen [3]] [("c", .int 7)] []).toOption.isSome = true ∧ RequestOK [useV, gen [3]] [("c", .int 7)] [] = true ∧
    DescOK [useV, gen [3]] [("c", .int 7)] [] = false ∧ Conforms [useV, gen [3]] [("c", .int 7)] [] = false := by decide

/-- **Witness 2**: two functions that share a name (`PipeFunc`s are identified by output name, the model's Kahn layering by
    function name): answered, `RequestOK`, not `DescOK`. -/
example : (runMap [mf "f" ["a"] ["p"] none, mf "f" ["b"] ["q"] none] [("a", .int 1), ("b", .int 2)] []).toOption.isSome = true ∧
    RequestOK [mf "f" ["a"] ["p"] none, mf "f" ["b"] ["q"] none] [("a", .int 1), ("b", .int 2)] [] = true ∧
    DescOK [mf "f" ["a"] ["p"] none, mf "f" ["b"] ["q"] none] [("a", .int 1), ("b", .int 2)] [] = false := by decide

/-- **Witness 3 (why `C01_never_refused` needs `DescOK`)**: an array value that claims shape `[3]` but holds two elements
    (no ndarray is like that) passes every request check and is refused when element 2 is selected. -/
example : RequestOK [fS, fY] [("x", .arr [3] (ints 2)), ("w", .arr [2] (ints 2))] [] = true ∧
    DescOK [fS, fY] [("x", .arr [3] (ints 2)), ("w", .arr [2] (ints 2))] [] = false ∧
    (runMap [fS, fY] [("x", .arr [3] (ints 2)), ("w", .arr [2] (ints 2))] []).toOption.isNone = true := by decide

/-- **Witness 4 (`Conforms` tightened in round 2)**: `x[i, j] -> a[i, j]` next to `x[j, i] -> b[j, i]` (a square `x`).  The model
    answers — each MapSpec alone denotes an array — but pipefunc refuses the pipeline at the start of `map`
    (`validate_consistent_axes`: one axis naming per array), by design; such a pipeline is not *valid*, so `Conforms` now excludes it
    (`consistentAxes`, part of `constructible`/`DescOK`). -/
example :
    let fA := mf "fa" ["x"] ["a"] (some ⟨[⟨"x", [some "i", some "j"]⟩], [⟨"a", [some "i", some "j"]⟩]⟩)
    let fB := mf "fb" ["x"] ["b"] (some ⟨[⟨"x", [some "j", some "i"]⟩], [⟨"b", [some "j", some "i"]⟩]⟩)
    let inp : List (String × Val) := [("x", .arr [2, 2] (ints 4))]
    (runMap [fA, fB] inp []).toOption.isSome = true ∧ RequestOK [fA, fB] inp [] = true ∧ consistentAxes [fA, fB] = false ∧
    Conforms [fA, fB] inp [] = false ∧ Conforms [fA] inp [] = true := by decide

end Examples

end PF.C01
