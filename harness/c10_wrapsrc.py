"""C10 (ext5): source-level tie between `PF.Rw.Wrap` (lean/PfModel/Model/RewriteNestWrap.lean) and the three pieces of pipefunc it mirrors.

The bodies of `_NestedFuncWrapper.__call__`, `_default_output_picker` and the tuple branch of `_PipelineAsFunc.call_full_output` are read
with `inspect` + `ast`, normalised (docstrings, comments, annotations and `assert`s dropped) and compared with the shapes the model was
written against.  A difference is NOT a failing input: it says the model functions `wrapperCall` / `defaultPicker` / `fullOutput` must be
re-validated against the new code (`correspondence:nest-wrapper-source`); the behavioural checks (`wrap_check`, the end-to-end comparison)
are what finds an input.
"""
from __future__ import annotations

import ast
import inspect
import textwrap

import pfimport  # noqa: F401

EXPECTED = {
    # def __call__(self, *args, **kwds): result_dict = self.func(*args, **kwds)
    #   if isinstance(self.output_name, str): return result_dict[self.output_name]
    #   return tuple(result_dict[name] for name in self.output_name)                      -> PF.Rw.Wrap.wrapperCall
    "_NestedFuncWrapper.__call__":
        "FunctionDef('__call__', arguments([], [arg('self')], arg('args'), [], [], arg('kwds'), []), [Assign([Name('result_dict', Store())], Call(Attribute(Name('self', Load()), 'func', Load()), [Starred(Name('args', Load()), Load())], [keyword(value=Name('kwds', Load()))])), If(Call(Name('isinstance', Load()), [Attribute(Name('self', Load()), 'output_name', Load()), Name('str', Load())], []), [Return(Subscript(Name('result_dict', Load()), Attribute(Name('self', Load()), 'output_name', Load()), Load()))], []), Return(Call(Name('tuple', Load()), [GeneratorExp(Subscript(Name('result_dict', Load()), Name('name', Load()), Load()), [comprehension(Name('name', Store()), Attribute(Name('self', Load()), 'output_name', Load()), [], 0)])], []))], [], type_params=[])",
    # def _default_output_picker(output, name, output_name): return output[output_name.index(name)]   -> PF.Rw.Wrap.defaultPicker
    "_default_output_picker":
        "FunctionDef('_default_output_picker', arguments([], [arg('output'), arg('name'), arg('output_name')], kwonlyargs=[], kw_defaults=[], defaults=[]), [Return(Subscript(Name('output', Load()), Call(Attribute(Name('output_name', Load()), 'index', Load()), [Name('name', Load())], []), Load()))], [], type_params=[])",
    # results = self.pipeline.run(self.output_name, full_output=True, kwargs=kwargs)
    #   if isinstance(self.output_name, tuple): func = ...output_to_func[self.output_name]
    #       for name in self.output_name: if name not in results: results[name] = func.output_picker(results[self.output_name], name)
    #   return results                                                                    -> PF.Rw.Wrap.fullOutput
    "_PipelineAsFunc.call_full_output":
        "FunctionDef('call_full_output', arguments([], [arg('self')], kwonlyargs=[], kw_defaults=[], kwarg=arg('kwargs'), defaults=[]), [Assign([Name('results', Store())], Call(Attribute(Attribute(Name('self', Load()), 'pipeline', Load()), 'run', Load()), [Attribute(Name('self', Load()), 'output_name', Load())], [keyword('full_output', Constant(True)), keyword('kwargs', Name('kwargs', Load()))])), If(Call(Name('isinstance', Load()), [Attribute(Name('self', Load()), 'output_name', Load()), Name('tuple', Load())], []), [Assign([Name('func', Store())], Subscript(Attribute(Attribute(Name('self', Load()), 'pipeline', Load()), 'output_to_func', Load()), Attribute(Name('self', Load()), 'output_name', Load()), Load())), For(Name('name', Store()), Attribute(Name('self', Load()), 'output_name', Load()), [If(Compare(Name('name', Load()), [NotIn()], [Name('results', Load())]), [Assign([Subscript(Name('results', Load()), Name('name', Load()), Store())], Call(Attribute(Name('func', Load()), 'output_picker', Load()), [Subscript(Name('results', Load()), Attribute(Name('self', Load()), 'output_name', Load()), Load()), Name('name', Load())], []))], [])], [])], []), Return(Name('results', Load()))], [], type_params=[])",
}


class _Strip(ast.NodeTransformer):
    def visit_FunctionDef(self, node):
        self.generic_visit(node)
        node.returns = None
        node.decorator_list = []
        for a in node.args.args + node.args.kwonlyargs + node.args.posonlyargs + [x for x in (node.args.vararg, node.args.kwarg) if x]:
            a.annotation = None
        if node.body and isinstance(node.body[0], ast.Expr) and isinstance(getattr(node.body[0], "value", None), ast.Constant) \
                and isinstance(node.body[0].value.value, str):
            node.body = node.body[1:]
        return node

    def visit_Assert(self, node):
        return None

    def visit_AnnAssign(self, node):
        self.generic_visit(node)
        return ast.Assign(targets=[node.target], value=node.value) if node.value is not None else None


def shape(obj):
    """The normalised AST dump of a function's source."""
    tree = ast.parse(textwrap.dedent(inspect.getsource(obj)))
    tree = ast.fix_missing_locations(_Strip().visit(tree))
    return ast.dump(tree.body[0], annotate_fields=False, include_attributes=False)


def current():
    from pipefunc import _pipefunc
    from pipefunc._pipeline import _base
    return {"_NestedFuncWrapper.__call__": shape(_pipefunc._NestedFuncWrapper.__call__),
            "_default_output_picker": shape(_pipefunc._default_output_picker),
            "_PipelineAsFunc.call_full_output": shape(_base._PipelineAsFunc.call_full_output)}


def differences():
    """[(piece, expected shape, shape found)] - empty when the code still has the shape the model mirrors."""
    out = []
    try:
        cur = current()
    except Exception as e:  # noqa: BLE001   (source not available, a piece renamed away, ...)
        return [("source-unreadable", "", f"{type(e).__name__}: {e}")]
    for k, want in EXPECTED.items():
        if want is not None and cur.get(k) != want:
            out.append((k, want, cur.get(k)))
    return out
