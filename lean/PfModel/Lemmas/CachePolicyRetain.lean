import PfModel.Lemmas.CachePolicyClear
import PfModel.Lemmas.CachePolicyShared
/-!
Helper lemmas for `Props/C14Retain.lean` — the direction of clause (c) that `Lawful.present_iff_get` does not give (a cache that
forgets everything satisfies "whatever is present is the value most recently put"):

* `Lawful.put_then_present` — for every lawful container: right after `put k v` the key is present and `get` returns `v`;
* `lru_run_keeps` — LRUCache keeps a key through any clear-free continuation that touches (puts or gets) fewer than `max_size`
  keys other than it: the invariant is "every key queued behind `k` is one of the touched keys".
-/
namespace PF.Cache

/-! ### every container: a key just put is present -/

theorem Lawful.put_then_present {σ : Type} {M : Sem σ} {Inv : σ → Prop} (L : Lawful M Inv) (s0 : σ) (h0 : Inv s0)
    (h : List Op) (hwf : ∀ op ∈ h, op.WF) (k : Key) (v : Val) (d : Nat) :
    ∃ s os, M.run s0 (h ++ [.put k v d]) = .ok (s, os) ∧ M.step s (.has k) = .ok (s, .bool true) ∧
      ∃ s2, M.step s (.get k) = .ok (s2, .val (some v)) := by
  obtain ⟨s1, os1, hr1, hi1, _⟩ := L.run_ok h s0 h0 hwf
  obtain ⟨s, o, hp, hi⟩ := L.total s1 (.put k v d) hi1 trivial
  have hv : M.view s k = some v := L.put_self s1 k v d s o hi1 hp
  obtain ⟨sa, oa, hh, _⟩ := L.total s (.has k) hi trivial
  obtain ⟨s2, o2, hg, _⟩ := L.total s (.get k) hi trivial
  obtain ⟨hoa, hsa⟩ := L.has_obs s k sa oa hi hh
  have ho2 := L.get_obs s k s2 o2 hi hg
  subst hsa hoa ho2
  refine ⟨sa, os1 ++ [o], ?_, ?_, s2, ?_⟩
  · rw [Shared.run_snoc, hr1]; simp only [hp]
  · rw [hh, hv]; rfl
  · rw [hg, hv]

theorem lastPut_snoc_put (h : List Op) (k : Key) (v : Val) (d : Nat) : lastPut (h ++ [.put k v d]) k = some v := by
  simp [lastPut, List.foldl_append, recent]

/-! ### LRUCache: who is queued behind a key -/

/-- the key whose recency an operation refreshes (`put`, `get`); `in`, `len`, `clear` touch no recency -/
def Op.touches : Op → Option Key
  | .put k _ _ => some k
  | .get k => some k
  | _ => none

/-- `op` is not `clear` -/
def Op.notClear : Op → Prop
  | .clear => False
  | _ => True

/-- `k` is queued and every key queued behind it (more recently used) is in `T` -/
def Behind (T : List Key) (k : Key) (q : List Key) : Prop :=
  ∃ pre post, q = pre ++ k :: post ∧ ∀ x ∈ post, x ∈ T

theorem Behind.mem {T : List Key} {k : Key} {q : List Key} (h : Behind T k q) : k ∈ q := by
  obtain ⟨pre, post, rfl, _⟩ := h; simp

/-- moving `k` itself to the back: nothing is behind it -/
theorem behind_touch_self (T : List Key) (k : Key) (q : List Key) : Behind T k (q.erase k ++ [k]) :=
  ⟨q.erase k, [], rfl, by simp⟩

/-- moving another key `k'` of `T` to the back -/
theorem behind_touch_other (T : List Key) (k k' : Key) (q : List Key) (h : Behind T k q) (hne : k' ≠ k) (hT : k' ∈ T) :
    Behind T k (q.erase k' ++ [k']) := by
  obtain ⟨pre, post, rfl, hpost⟩ := h
  by_cases hm : k' ∈ pre
  · refine ⟨pre.erase k', post ++ [k'], ?_, ?_⟩
    · rw [List.erase_append_left _ hm]; simp
    · intro x hx
      rcases List.mem_append.mp hx with hx | hx
      · exact hpost x hx
      · simp at hx; subst hx; exact hT
  · refine ⟨pre, post.erase k' ++ [k'], ?_, ?_⟩
    · rw [List.erase_append_right _ hm, List.erase_cons_tail (by simpa using Ne.symm hne)]; simp
    · intro x hx
      rcases List.mem_append.mp hx with hx | hx
      · exact hpost x (List.mem_of_mem_erase hx)
      · simp at hx; subst hx; exact hT

/-- one operation of a continuation that touches only `k` and keys of `T`, `T` shorter than `max_size`, keeps `k` queued -/
theorem lru_step_keeps (T : List Key) (k : Key) (s s' : LRU) (op : Op) (o : Obs) (hs : s.Inv) (hT : T.length < s.max)
    (hb : Behind T k s.queue) (hnc : op.notClear) (ht : ∀ x, op.touches = some x → x = k ∨ x ∈ T)
    (hstep : s.step op = .ok (s', o)) : Behind T k s'.queue ∧ s'.max = s.max := by
  cases op with
  | put k' v d =>
    obtain ⟨s1, hp, _, hmax, hc⟩ := LRU.put_spec s k' v hs
    simp only [LRU.step, hp] at hstep
    cases hstep
    refine ⟨?_, hmax⟩
    have hk' := ht k' rfl
    rcases hc with ⟨_, _, hq⟩ | ⟨hnot, _, _, hq⟩ | ⟨hnot, hfull, old, rest, hq0, _, _, hq⟩
    · rw [hq]
      rcases hk' with e | hin
      · subst e; exact behind_touch_self T k' s.queue
      · by_cases e : k' = k
        · subst e; exact behind_touch_self T k' s.queue
        · exact behind_touch_other T k k' s.queue hb e hin
    · have hne : k' ≠ k := by
        intro e; subst e
        have := (hs.same k').mp hb.mem
        rw [hnot] at this; cases this
      have hin : k' ∈ T := by rcases hk' with e | h; exact absurd e hne; exact h
      obtain ⟨pre, post, hq1, hpost⟩ := hb
      refine ⟨pre, post ++ [k'], by rw [hq, hq1]; simp, ?_⟩
      intro x hx
      rcases List.mem_append.mp hx with hx | hx
      · exact hpost x hx
      · simp at hx; subst hx; exact hin
    · have hkq : k' ∉ s.queue := by
        intro hm
        have := (hs.same k').mp hm
        rw [hnot] at this; cases this
      have hne : k' ≠ k := fun e => hkq (e ▸ hb.mem)
      have hin : k' ∈ T := by rcases hk' with e | h; exact absurd e hne; exact h
      obtain ⟨pre, post, hq1, hpost⟩ := hb
      cases pre with
      | nil =>
        -- `k` is the front of a full queue: the `max_size - 1` keys behind it and `k'` are `max_size` distinct keys of `T`
        exfalso
        have hnd : (k :: post).Nodup := by have := hs.qnodup; rw [hq1] at this; simpa using this
        have hk'post : k' ∉ post := fun hm => hkq (by rw [hq1]; simp [hm])
        have hnd2 : (k' :: post).Nodup := List.nodup_cons.mpr ⟨hk'post, (List.nodup_cons.mp hnd).2⟩
        have hle := length_le_of_subset_nodup (k' :: post) T hnd2 (by
          intro x hx
          rcases List.mem_cons.mp hx with e | hx
          · subst e; exact hin
          · exact hpost x hx)
        have hlen : s.queue.length = post.length + 1 := by rw [hq1]; simp
        simp only [List.length_cons] at hle
        omega
      | cons p pre' =>
        rw [hq1] at hq0
        simp only [List.cons_append, List.cons.injEq] at hq0
        obtain ⟨_, hrest⟩ := hq0
        refine ⟨pre', post ++ [k'], by rw [hq, ← hrest]; simp, ?_⟩
        intro x hx
        rcases List.mem_append.mp hx with hx | hx
        · exact hpost x hx
        · simp at hx; subst hx; exact hin
  | get k' =>
    obtain ⟨s1, hg, _, _, hmax, hq⟩ := LRU.get_spec s k' hs
    simp only [LRU.step, hg] at hstep
    cases hstep
    refine ⟨?_, hmax⟩
    rw [hq]
    split
    · by_cases e : k' = k
      · subst e; exact behind_touch_self T k' s.queue
      · rcases ht k' rfl with e' | hin
        · exact absurd e' e
        · exact behind_touch_other T k k' s.queue hb e hin
    · exact hb
  | has _ => simp only [LRU.step] at hstep; cases hstep; exact ⟨hb, rfl⟩
  | len => simp only [LRU.step] at hstep; cases hstep; exact ⟨hb, rfl⟩
  | clear => exact hnc.elim
  | reopen _ _ => simp only [LRU.step] at hstep; cases hstep; exact ⟨hb, rfl⟩

/-- … and so does a whole continuation -/
theorem lru_run_keeps (T : List Key) (k : Key) (h : List Op) :
    ∀ (s s' : LRU) (os : List Obs), s.Inv → T.length < s.max → Behind T k s.queue → (∀ op ∈ h, op.WF) →
      (∀ op ∈ h, op.notClear) → (∀ op ∈ h, ∀ x, op.touches = some x → x = k ∨ x ∈ T) →
      lruSem.run s h = .ok (s', os) → s'.Inv ∧ has s'.dict k = true := by
  induction h with
  | nil =>
    intro s s' os hs _ hb _ _ _ hr
    simp only [Sem.run] at hr
    cases hr
    exact ⟨hs, (hs.same k).mp hb.mem⟩
  | cons op h ih =>
    intro s s' os hs hT hb hwf hnc ht hr
    obtain ⟨s1, o, h1, hi1⟩ := lru_lawful.total s op hs (hwf op (by simp))
    simp only [Sem.run, h1] at hr
    cases h2 : lruSem.run s1 h with
    | error e => simp [h2] at hr
    | ok p =>
      obtain ⟨s2, os2⟩ := p
      simp only [h2] at hr
      cases hr
      obtain ⟨hb1, hm1⟩ := lru_step_keeps T k s s1 op o hs hT hb (hnc op (by simp)) (ht op (by simp)) h1
      exact ih s1 _ _ hi1 (by rw [hm1]; exact hT) hb1 (fun op' hm => hwf op' (List.mem_cons_of_mem _ hm))
        (fun op' hm => hnc op' (List.mem_cons_of_mem _ hm)) (fun op' hm => ht op' (List.mem_cons_of_mem _ hm)) h2

/-- the key put last sits at the back of the queue -/
theorem lru_put_behind (T : List Key) (s : LRU) (k : Key) (v : Val) (hs : s.Inv) :
    ∃ s', s.put k v = .ok s' ∧ s'.Inv ∧ s'.max = s.max ∧ Behind T k s'.queue := by
  obtain ⟨s', hp, hi, hmax, hc⟩ := LRU.put_spec s k v hs
  refine ⟨s', hp, hi, hmax, ?_⟩
  rcases hc with ⟨_, _, hq⟩ | ⟨_, _, _, hq⟩ | ⟨_, _, old, rest, _, _, _, hq⟩
  · rw [hq]; exact behind_touch_self T k s.queue
  · rw [hq]; exact ⟨s.queue, [], rfl, by simp⟩
  · rw [hq]; exact ⟨rest, [], rfl, by simp⟩

/-- LRUCache keeps what was put: after `put k v`, any clear-free continuation whose `put`s and `get`s concern `k` and fewer than
    `max_size` other keys leaves `k` present, with the value most recently put for it -/
theorem lru_survives (max : Nat) (h1 h2 : List Op) (k : Key) (v : Val) (d : Nat) (T : List Key)
    (hT : T.length < max) (hwf1 : ∀ op ∈ h1, op.WF) (hwf2 : ∀ op ∈ h2, op.WF) (hnc : ∀ op ∈ h2, op.notClear)
    (ht : ∀ op ∈ h2, ∀ x, op.touches = some x → x = k ∨ x ∈ T) :
    ∃ s os, lruSem.run (LRU.empty max) (h1 ++ .put k v d :: h2) = .ok (s, os) ∧
      s.step (.has k) = .ok (s, .bool true) ∧
      ∃ s2 y, s.step (.get k) = .ok (s2, .val (some y)) ∧ lastPut (h1 ++ .put k v d :: h2) k = some y := by
  have hmax : 0 < max := by omega
  have h0 := LRU.inv_empty max hmax
  obtain ⟨s1, os1, hr1, hi1, _⟩ := lru_lawful.run_ok h1 (LRU.empty max) h0 hwf1
  have hm1 : s1.max = max := lru_run_max h1 (LRU.empty max) s1 os1 h0 hwf1 hr1
  obtain ⟨s2, hp, hi2, hm2, hb2⟩ := lru_put_behind T s1 k v hi1
  obtain ⟨s3, os3, hr3, hi3, _⟩ := lru_lawful.run_ok h2 s2 hi2 hwf2
  obtain ⟨_, hk⟩ := lru_run_keeps T k h2 s2 s3 os3 hi2 (by rw [hm2, hm1]; exact hT) hb2 hwf2 hnc ht hr3
  have hrun : lruSem.run (LRU.empty max) (h1 ++ .put k v d :: h2) = .ok (s3, os1 ++ (.unit :: os3)) := by
    rw [run_append, hr1]
    have hstep : lruSem.step s1 (.put k v d) = .ok (s2, .unit) := by simp [lruSem, LRU.step, hp]
    simp only [Sem.run, hstep, hr3]
  obtain ⟨s4, hg, _⟩ := LRU.get_spec s3 k hi3
  cases hl : lookup s3.dict k with
  | none => simp [has, hl] at hk
  | some y =>
    refine ⟨s3, _, hrun, ?_, s4, y, ?_, ?_⟩
    · simp only [LRU.step, hk]
    · simp only [LRU.step, hg, hl]
    · have hwf : ∀ op ∈ h1 ++ .put k v d :: h2, op.WF := by
        intro op hm
        rcases List.mem_append.mp hm with hm | hm
        · exact hwf1 op hm
        · rcases List.mem_cons.mp hm with e | hm
          · subst e; trivial
          · exact hwf2 op hm
      exact lru_lawful.view_recent _ (LRU.empty max) (fun _ => none) s3 _ h0 hwf
        (by intro k' x hv; simp [lruSem, LRU.view, LRU.empty, lookup] at hv) hrun k y hl

end PF.Cache
