/-
What the caller sees of an `Outcome` (previously re-shaped on the Python side of the harness, `model_obs`):
the dictionary returned by `Pipeline.run(full_output=True)` (`pipefunc/_pipeline/_base.py:656`, filled by `_update_all_results`
`:2058-2075`) and by `_PipelineAsFunc.call_full_output` (`:1982-2005`), and `PipeFunc.__call__` with positional arguments
(`pipefunc/_pipefunc.py:642-674`: `self.func(*args, **kwargs)` after `defaults | kwargs | bound`).  Core Lean only.
-/
import PfModel.Model.PipelineEntries
namespace PF.Pipe
open PF

/-- an association list as the dict it stands for: each name once, with its first (live) entry, in first-occurrence order -/
def adedup : List (String × Val) → List (String × Val)
  | [] => []
  | (k, v) :: r => (k, v) :: (adedup r).filter (fun kv => kv.1 ≠ k)

/-- `d.setdefault(k, v)` on an association list -/
def asetDefault (l : List (String × Val)) (k : String) (v : Val) : List (String × Val) :=
  if (alookup l k).isSome then l else l ++ [(k, v)]

/-- the dictionary of `full_output=True`.  A single name requested: the memo.  A whole (tuple) output requested:
    `_update_all_results` stores the function's result under the tuple name only (key `a,b` here); `call_full_output`
    (`callFull`) then adds every individual name that is not yet present, picked from that result. -/
def fullView (req : Req) (o : Outcome) (callFull : Bool) : List (String × Val) :=
  let base := adedup o.full
  match req with
  | .name _ => base
  | .whole os =>
    let base := asetDefault base (",".intercalate os) o.value
    if callFull then
      match o.value with
      | .tup vs => (os.zip vs).foldl (fun acc nv => asetDefault acc nv.1 nv.2) base
      | _ => base
    else base

/-- `PipeFunc.__call__(*pos, **kw)`: the keywords are completed to `defaults | kw | bound` and handed over *together with* the
    positional arguments, so a positional argument for a parameter that has a default, a bound value or a keyword arrives
    twice (`TypeError: multiple values`) -/
def pfCallPos (f : Func) (pos : List Val) (kw : List (String × Val)) : Except EErr Val :=
  match (akeys kw).find? (fun k => !(f.params.any (·.1 = k))) with
  | some k => .error (.extraKw k)
  | none =>
    if pos.length > f.params.length then .error .tooMany else
    match (f.params.take pos.length).find? (fun po => (pfArg f kw po.1).isSome) with
    | some po => .error (.multiple po.1)
    | none =>
      match pfArgs f kw (f.params.drop pos.length) with
      | .error e => .error e
      | .ok rest => .ok (result f (((f.params.take pos.length).map (·.2)).zip pos ++ rest))

end PF.Pipe
