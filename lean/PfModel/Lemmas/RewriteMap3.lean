import PfModel.Lemmas.RewriteMap2
/-! Renaming under `Pipeline.map`, part 3: the run (`argWhole` … `runMapWith`) with inputs, store and results re-keyed and relabelled. -/
namespace PF.Rw
open PF PF.Map

/-! ### values -/

theorem relabel_arr (ρ : String → String) (sh : List Nat) (es : List Val) :
    relabel ρ (.arr sh es) = .arr sh (es.map (relabel ρ)) := by
  simp only [relabel, relabelList_eq]

theorem getD_map_relabel (ρ : String → String) (es : List Val) (i : Nat) :
    (es.map (relabel ρ)).getD i .none = relabel ρ (es.getD i .none) := by
  simp only [List.getD_eq_getElem?_getD, List.getElem?_map]
  cases es[i]? <;> simp [relabel]

theorem getD_map_relabelArgs (ρ : String → String) (l : List (List (String × Val))) (i : Nat) :
    (l.map (relabelArgs ρ)).getD i [] = relabelArgs ρ (l.getD i []) := by
  simp only [List.getD_eq_getElem?_getD, List.getElem?_map]
  cases l[i]? <;> first | rfl | simp [relabelArgs]

theorem indexVal_relabel (ρ : String → String) (v : Val) (key : List (Option Nat)) :
    indexVal (relabel ρ v) key = (indexVal v key).map (relabel ρ) := by
  cases v with
  | arr sh elems =>
    rw [relabel_arr]
    simp only [indexVal]
    by_cases h1 : key.length = sh.length
    · simp only [h1, ne_eq, not_true_eq_false, ↓reduceIte]
      by_cases h2 : key.all Option.isSome = true
      · simp only [h2, ↓reduceIte, List.getElem?_map]
      · simp only [h2, Bool.false_eq_true, ↓reduceIte, Option.map_some, relabel_arr, List.map_map]
        congr 2
        apply List.map_congr_left
        intro s _
        simp only [Function.comp, getD_map_relabel]
    · simp only [h1, ne_eq, not_false_eq_true, ↓reduceIte, Option.map_none]
  | _ => simp [relabel, indexVal]

theorem elemAt_relabel (ρ : String → String) (mask : List Bool) (v : Val) (I : List Nat) :
    elemAt mask (relabel ρ v) I = relabel ρ (elemAt mask v I) := by
  unfold elemAt
  by_cases h : mask.all id = true
  · simp only [h, ↓reduceIte]
  · simp only [h, Bool.false_eq_true, ↓reduceIte, indexVal_relabel]
    cases indexVal v (I.map some) <;> simp [relabel]

theorem cellLookup_map (ρ : String → String) (cells : List (Nat × Val)) (i : Nat) :
    cellLookup (cells.map fun c => (c.1, relabel ρ c.2)) i = (cellLookup cells i).map (relabel ρ) := by
  induction cells with
  | nil => rfl
  | cons c cs ih =>
    obtain ⟨k, v⟩ := c
    simp only [List.map_cons, cellLookup]
    split
    · rfl
    · exact ih

theorem toVal_relabelSlot (ρ : String → String) (s : Slot) : (relabelSlot ρ s).toVal = relabel ρ s.toVal := by
  cases s with
  | single v => rfl
  | array shape mask cells =>
    simp only [relabelSlot, Slot.toVal, relabel_arr, List.map_map]
    congr 1
    apply List.map_congr_left
    intro F _
    simp only [Function.comp, cellLookup_map]
    cases cellLookup cells (ravel (extOf mask shape) (extOf mask F)) with
    | none => simp [relabel]
    | some v => exact elemAt_relabel ρ mask v (intOf mask F)

/-! ### MapSpec accessors -/

theorem externalIndices_renameSpec (ρ : String → String) (ms : MSpec) : (renameSpec ρ ms).externalIndices = ms.externalIndices := by
  unfold MSpec.externalIndices
  rw [outputIndices_renameSpec]
  have : (renameSpec ρ ms).inputIndices = ms.inputIndices := by
    unfold MSpec.inputIndices renameSpec
    induction ms.inputs with
    | nil => rfl
    | cons a as ih => simp only [List.map_cons, List.flatMap_cons, ih]
  rw [this]

theorem inputKey_renameSpec (ρ : String → String) (ms : MSpec) (a : ASpec) (E : List Nat) :
    inputKey (renameSpec ρ ms) (renameA ρ a) E = inputKey ms a E := by
  unfold inputKey
  rw [externalIndices_renameSpec]
  rfl

/-! ### the environment -/

/-- re-keying and relabelling one store entry -/
def rkvS (ρ lam : String → String) (ks : String × Slot) : String × Slot := (ρ ks.1, relabelSlot lam ks.2)

/-- the renamed run's environment is the original one re-keyed and relabelled; all keys lie in `N` -/
structure EnvRel (ρ lam : String → String) (N : String → Prop) (env env' : Map.Env) : Prop where
  inputs : env'.inputs = env.inputs.map (rkvL ρ lam)
  store : env'.store = env.store.map (rkvS ρ lam)
  inN : ∀ kv ∈ env.inputs, N kv.1
  stN : ∀ ks ∈ env.store, N ks.1

/-- what one function produced, re-keyed and relabelled -/
structure FRel (ρ lam : String → String) (N : String → Prop) (r r' : FuncResult) : Prop where
  outputs : r'.outputs = r.outputs.map (rkvL ρ lam)
  slots : r'.slots = r.slots.map (rkvS ρ lam)
  calls : r'.calls = r.calls.map (relabelCall lam)
  slN : ∀ ks ∈ r.slots, N ks.1

def relabelFR (ρ lam : String → String) (r : FuncResult) : FuncResult :=
  { outputs := r.outputs.map (rkvL ρ lam), slots := r.slots.map (rkvS ρ lam), calls := r.calls.map (relabelCall lam) }

theorem FRel.eq {ρ lam : String → String} {N : String → Prop} {r r' : FuncResult} (h : FRel ρ lam N r r') : r' = relabelFR ρ lam r := by
  obtain ⟨h1, h2, h3, _⟩ := h
  cases r'
  simp only at h1 h2 h3
  subst h1 h2 h3
  rfl

/-- the list of function results, re-keyed and relabelled -/
def FsRel (ρ lam : String → String) (N : String → Prop) (rs rs' : List FuncResult) : Prop :=
  rs' = rs.map (relabelFR ρ lam) ∧ ∀ r ∈ rs, ∀ ks ∈ r.slots, N ks.1

theorem FsRel.append {ρ lam : String → String} {N : String → Prop} {a a' b b' : List FuncResult}
    (h2 : FsRel ρ lam N b b') (h1 : FsRel ρ lam N a a') : FsRel ρ lam N (a ++ b) (a' ++ b') := by
  refine ⟨by rw [h1.1, h2.1, List.map_append], ?_⟩
  intro r hr
  rcases List.mem_append.mp hr with h | h
  · exact h1.2 r h
  · exact h2.2 r h

section
variable (ρ : String → String) (N : String → Prop) (hinj : ∀ a b, N a → N b → ρ a = ρ b → a = b) (lam : String → String)
include hinj

theorem alookup_rkvS (l : List (String × Slot)) (p : String) (hl : ∀ kv ∈ l, N kv.1) (hp : N p) :
    alookup (l.map (rkvS ρ lam)) (ρ p) = (alookup l p).map (relabelSlot lam) := by
  induction l with
  | nil => rfl
  | cons e es ih =>
    obtain ⟨k, v⟩ := e
    have hk : N k := hl (k, v) (by simp)
    have ih' := ih (fun kv h => hl kv (List.mem_cons_of_mem _ h))
    simp only [List.map_cons, rkvS, alookup]
    by_cases h : k = p
    · simp [h]
    · have : ¬ ρ k = ρ p := fun e => h (hinj k p hk hp e)
      simp only [h, this, ↓reduceIte]; exact ih'

theorem inputSpec_renameSpec (ms : MSpec) (p : String) (hms : ∀ a ∈ ms.inputs, N a.name) (hp : N p) :
    (renameSpec ρ ms).inputSpec (ρ p) = (ms.inputSpec p).map (renameA ρ) := by
  unfold MSpec.inputSpec
  have : (renameSpec ρ ms).inputs = ms.inputs.map (renameA ρ) := rfl
  rw [this]
  have key : ∀ l : List ASpec, (∀ a ∈ l, N a.name) →
      (l.map (renameA ρ)).find? (fun x => decide (x.name = ρ p)) = (l.find? (fun x => decide (x.name = p))).map (renameA ρ) := by
    intro l
    induction l with
    | nil => intro _; rfl
    | cons a as ih =>
      intro hl
      have ha : N a.name := hl a (by simp)
      have ih' := ih (fun x hx => hl x (List.mem_cons_of_mem _ hx))
      simp only [List.map_cons, List.find?_cons]
      have e : decide ((renameA ρ a).name = ρ p) = decide (a.name = p) := decide_rename_eq ρ N hinj a.name p ha hp
      rw [e]
      by_cases h : a.name = p
      · simp only [h, decide_true, Option.map_some]
      · simp only [h, decide_false]; exact ih'
  exact key ms.inputs hms

theorem argWhole_rename (fs : List MFunc) (env env' : Map.Env) (f : MFunc) (p : String)
    (hfs : ∀ f ∈ fs, MNamesIn N f) (hfx : ∀ f ∈ fs, ValsFixed lam f) (hf : MNamesIn N f) (hffx : ValsFixed lam f)
    (henv : EnvRel ρ lam N env env') (hp : N p) :
    Sim (fun x y => y = relabel lam x) (argWhole fs env f p) (argWhole (fs.map (renameM ρ)) env' (renameM ρ f) (ρ p)) := by
  unfold argWhole
  have hb : (renameM ρ f).bound = f.bound.map (rkv ρ) := rfl
  rw [hb, alookup_rename ρ N hinj f.bound p hf.bound hp]
  cases hbv : alookup f.bound p with
  | some v =>
    apply Sim.pure
    exact (hffx.bound (p, v) (alookup_some_mem _ _ _ hbv)).symm
  | none =>
    simp only []
    rw [henv.inputs, alookup_rkvL ρ N hinj lam env.inputs p henv.inN hp]
    cases alookup env.inputs p with
    | some v => exact Sim.pure rfl
    | none =>
      simp only [Option.map_none]
      rw [henv.store, alookup_rkvS ρ N hinj lam env.store p henv.stN hp]
      cases alookup env.store p with
      | some s => exact Sim.pure (toVal_relabelSlot lam s)
      | none =>
        simp only [Option.map_none]
        rw [mpdefault_rename ρ N hinj fs p hfs hp]
        cases hd : pdefault fs p with
        | none => exact trivial
        | some v =>
          apply Sim.pure
          have hm := alookup_some_mem _ _ _ hd
          exact (mpdefaults_fixed lam fs hfx (p, v) (List.mem_reverse.mp hm)).symm

theorem selectArgs_rename (fs : List MFunc) (env env' : Map.Env) (f : MFunc) (ms : MSpec) (E : List Nat)
    (hfs : ∀ f ∈ fs, MNamesIn N f) (hfx : ∀ f ∈ fs, ValsFixed lam f) (hf : MNamesIn N f) (hffx : ValsFixed lam f)
    (hms : ∀ a ∈ ms.inputs, N a.name) (henv : EnvRel ρ lam N env env') :
    Sim (fun x y => y = relabelArgs lam x) (selectArgs fs env f ms E)
      (selectArgs (fs.map (renameM ρ)) env' (renameM ρ f) (renameSpec ρ ms) E) := by
  unfold selectArgs
  have hp : (renameM ρ f).params = f.params.map (rkv ρ) := rfl
  rw [hp]
  refine Sim.mono (mapM_Sim (fun x y => y = (x.1, relabel lam x.2)) (fun x => (x.1, relabel lam x.2)) (fun _ _ => Iff.rfl)
    (rkv ρ) _ _ f.params _ rfl ?_) ?_
  · intro pq hpq
    obtain ⟨p, orig⟩ := pq
    have hpN : N p := hf.params (p, orig) hpq
    simp only [rkv]
    apply Sim.bind (argWhole_rename ρ N hinj lam fs env env' f p hfs hfx hf hffx henv hpN)
    intro x y hxy
    subst hxy
    rw [inputSpec_renameSpec ρ N hinj ms p hms hpN]
    cases ms.inputSpec p with
    | none => exact Sim.pure rfl
    | some a =>
      simp only [Option.map_some]
      rw [inputKey_renameSpec, indexVal_relabel]
      cases indexVal x (inputKey ms a E) with
      | none => exact trivial
      | some v => exact Sim.pure rfl
  · intro xs ys h
    rw [h, relabelArgs_eq]

omit hinj in
theorem moutBase_rename (f : MFunc) (args : List (String × Val)) (o : String) (hl : LabOK ρ lam f) (ho : o ∈ f.outputs) :
    outBase (renameM ρ f) (relabelArgs lam args) (ρ o) = relabel lam (outBase f args o) := by
  unfold outBase
  have ho' : (renameM ρ f).outputs = f.outputs.map ρ := rfl
  have hn : (renameM ρ f).name = f.name := rfl
  rw [ho', hn]
  unfold LabOK at hl
  match hf : f.outputs with
  | [] => rw [hf] at ho; cases ho
  | [_] => simp [relabel]
  | a :: b :: r =>
    rw [hf] at hl ho
    have : lam o = ρ o := by
      rcases hl with h | h
      · simp at h
      · exact h o ho
    simp [relabel, this]

omit hinj in
theorem moutVal_rename (f : MFunc) (args : List (String × Val)) (o : String) (hl : LabOK ρ lam f) (ho : o ∈ f.outputs) :
    Map.outVal (renameM ρ f) (relabelArgs lam args) (ρ o) = relabel lam (Map.outVal f args o) := by
  unfold Map.outVal
  have hr : (renameM ρ f).ret = f.ret := rfl
  rw [hr]
  cases f.ret with
  | none => exact moutBase_rename ρ lam f args o hl ho
  | some sh =>
    simp only [relabel_arr, List.map_map]
    congr 1
    apply List.map_congr_left
    intro I _
    simp only [Function.comp, moutBase_rename ρ lam f args o hl ho, relabel]

omit hinj in
theorem denoteArray_rename (f : MFunc) (shape : List Nat) (mask : List Bool) (args : Nat → List (String × Val)) (o : String)
    (hl : LabOK ρ lam f) (ho : o ∈ f.outputs) :
    denoteArray (renameM ρ f) shape mask (fun li => relabelArgs lam (args li)) (ρ o) = relabel lam (denoteArray f shape mask args o) := by
  unfold denoteArray
  simp only [relabel_arr, List.map_map]
  congr 1
  apply List.map_congr_left
  intro F _
  simp only [Function.comp, moutVal_rename ρ lam f _ o hl ho, elemAt_relabel]

omit hinj in
theorem cellsOf_rename (f : MFunc) (n : Nat) (args : Nat → List (String × Val)) (o : String) (hl : LabOK ρ lam f) (ho : o ∈ f.outputs) :
    cellsOf (renameM ρ f) n (fun li => relabelArgs lam (args li)) (ρ o) = (cellsOf f n args o).map fun c => (c.1, relabel lam c.2) := by
  unfold cellsOf
  simp only [List.map_map]
  apply List.map_congr_left
  intro li _
  simp only [Function.comp, moutVal_rename ρ lam f _ o hl ho]

theorem runMapped_rename (fs : List MFunc) (env env' : Map.Env) (f : MFunc) (ms : MSpec) (shape : List Nat) (mask : List Bool)
    (hfs : ∀ f ∈ fs, MNamesIn N f) (hfx : ∀ f ∈ fs, ValsFixed lam f) (hf : MNamesIn N f) (hffx : ValsFixed lam f) (hl : LabOK ρ lam f)
    (hms : ∀ a ∈ ms.inputs, N a.name) (henv : EnvRel ρ lam N env env') :
    Sim (FRel ρ lam N) (runMappedWith denoteArray fs env f ms shape mask)
      (runMappedWith denoteArray (fs.map (renameM ρ)) env' (renameM ρ f) (renameSpec ρ ms) shape mask) := by
  unfold runMappedWith
  simp only []
  apply Sim.bind (mapM_Sim (fun x y => y = relabelArgs lam x) (relabelArgs lam) (fun _ _ => Iff.rfl) id _ _
    (List.range (prod (extOf mask shape))) _ (by simp) ?_)
  · intro argsAt argsAt' h
    subst h
    apply Sim.pure
    have hargs : (fun li => (argsAt.map (relabelArgs lam)).getD li []) = fun li => relabelArgs lam (argsAt.getD li []) := by
      funext li; exact getD_map_relabelArgs lam argsAt li
    have ho : (renameM ρ f).outputs = f.outputs.map ρ := rfl
    have hn : (renameM ρ f).name = f.name := rfl
    constructor
    · simp only [ho, hargs, List.map_map]
      apply List.map_congr_left
      intro o ho'
      simp only [Function.comp, rkvL, denoteArray_rename ρ lam f _ _ _ o hl ho']
    · simp only [ho, hargs, List.map_map]
      apply List.map_congr_left
      intro o ho'
      simp only [Function.comp, rkvS, relabelSlot, cellsOf_rename ρ lam f _ _ o hl ho']
    · simp only [hn, List.map_map]
      apply List.map_congr_left
      intro a _
      simp only [Function.comp, relabelCall]
    · intro ks hks
      simp only [List.mem_map] at hks
      obtain ⟨o, ho', rfl⟩ := hks
      exact hf.outputs o ho'
  · intro li _
    exact selectArgs_rename ρ N hinj lam fs env env' f ms _ hfs hfx hf hffx hms henv

theorem runSingle_rename (fs : List MFunc) (env env' : Map.Env) (f : MFunc)
    (hfs : ∀ f ∈ fs, MNamesIn N f) (hfx : ∀ f ∈ fs, ValsFixed lam f) (hf : MNamesIn N f) (hffx : ValsFixed lam f) (hl : LabOK ρ lam f)
    (henv : EnvRel ρ lam N env env') :
    Sim (FRel ρ lam N) (runSingle fs env f) (runSingle (fs.map (renameM ρ)) env' (renameM ρ f)) := by
  unfold runSingle
  have hp : (renameM ρ f).params = f.params.map (rkv ρ) := rfl
  rw [hp]
  apply Sim.bind (mapM_Sim (fun x y => y = (x.1, relabel lam x.2)) (fun x => (x.1, relabel lam x.2)) (fun _ _ => Iff.rfl)
    (rkv ρ) _ _ f.params _ rfl ?_)
  · intro args args' h
    rw [← relabelArgs_eq] at h
    subst h
    apply Sim.pure
    have ho : (renameM ρ f).outputs = f.outputs.map ρ := rfl
    have hn : (renameM ρ f).name = f.name := rfl
    constructor
    · simp only [ho, List.map_map]
      apply List.map_congr_left
      intro o ho'
      simp only [Function.comp, rkvL, moutVal_rename ρ lam f _ o hl ho']
    · simp only [ho, List.map_map]
      apply List.map_congr_left
      intro o ho'
      simp only [Function.comp, rkvS, relabelSlot, moutVal_rename ρ lam f _ o hl ho']
    · simp only [hn, List.map_cons, List.map_nil, relabelCall]
    · intro ks hks
      simp only [List.map_map, List.mem_map] at hks
      obtain ⟨o, ho', rfl⟩ := hks
      exact hf.outputs o ho'
  · intro pq hpq
    obtain ⟨p, orig⟩ := pq
    have hpN : N p := hf.params (p, orig) hpq
    simp only [rkv]
    apply Sim.bind (argWhole_rename ρ N hinj lam fs env env' f p hfs hfx hf hffx henv hpN)
    intro x y hxy
    subst hxy
    exact Sim.pure rfl

theorem runFunc_rename (fs : List MFunc) (shapes : List (String × List Nat)) (masks : List (String × List Bool))
    (env env' : Map.Env) (f : MFunc)
    (hfs : ∀ f ∈ fs, MNamesIn N f) (hfx : ∀ f ∈ fs, ValsFixed lam f) (hf : MNamesIn N f) (hffx : ValsFixed lam f) (hl : LabOK ρ lam f)
    (hsh : ∀ kv ∈ shapes, N kv.1) (hmk : ∀ kv ∈ masks, N kv.1) (henv : EnvRel ρ lam N env env') :
    Sim (FRel ρ lam N) (runFuncWith denoteArray fs shapes masks env f)
      (runFuncWith denoteArray (fs.map (renameM ρ)) (shapes.map (rkv ρ)) (masks.map (rkv ρ)) env' (renameM ρ f)) := by
  unfold runFuncWith
  have hm : (renameM ρ f).mapspec = f.mapspec.map (renameSpec ρ) := rfl
  have ho : (renameM ρ f).outputs = f.outputs.map ρ := rfl
  rw [hm, ho]
  cases hms : f.mapspec with
  | none => exact runSingle_rename ρ N hinj lam fs env env' f hfs hfx hf hffx hl henv
  | some ms =>
    simp only [Option.map_some]
    have hi : (renameSpec ρ ms).inputs.isEmpty = ms.inputs.isEmpty := by
      simp only [renameSpec, List.isEmpty_map]
    rw [hi]
    by_cases he : ms.inputs.isEmpty = true
    · simp only [he, ↓reduceIte]
      exact runSingle_rename ρ N hinj lam fs env env' f hfs hfx hf hffx hl henv
    · simp only [he, Bool.false_eq_true, ↓reduceIte, List.head?_map]
      cases hh : f.outputs.head? with
      | none => exact trivial
      | some o =>
        have hoN : N o := hf.outputs o (List.mem_of_head? hh)
        simp only [Option.map_some]
        rw [alookup_rename ρ N hinj shapes o hsh hoN, alookup_rename ρ N hinj masks o hmk hoN]
        cases alookup shapes o with
        | none => exact trivial
        | some sh =>
          cases alookup masks o with
          | none => exact trivial
          | some mk =>
            simp only []
            apply Sim.ite
            · exact trivial
            · exact runMapped_rename ρ N hinj lam fs env env' f ms sh mk hfs hfx hf hffx hl (hf.specIn ms hms) henv

omit hinj in
theorem runGen_rename (R : Map.Env → MFunc → M FuncResult) (R' : Map.Env → MFunc → M FuncResult) (env env' : Map.Env)
    (gen : List MFunc) (hR : ∀ f ∈ gen, Sim (FRel ρ lam N) (R env f) (R' env' (renameM ρ f))) :
    Sim (FsRel ρ lam N) (runGenWith R env gen) (runGenWith R' env' (gen.map (renameM ρ))) := by
  induction gen with
  | nil => exact Sim.pure ⟨rfl, by simp⟩
  | cons f rest ih =>
    simp only [List.map_cons, runGenWith]
    apply Sim.bind (hR f List.mem_cons_self)
    intro r r' hr
    apply Sim.bind (ih (fun g hg => hR g (List.mem_cons_of_mem _ hg)))
    intro rs rs' hrs
    apply Sim.pure
    refine ⟨by rw [hrs.1, hr.eq]; rfl, ?_⟩
    intro x hx
    rcases List.mem_cons.mp hx with e | e
    · subst e; exact hr.slN
    · exact hrs.2 x e

omit hinj in
theorem runGens_rename (P : MFunc → Prop) (R : Map.Env → MFunc → M FuncResult) (R' : Map.Env → MFunc → M FuncResult)
    (hR : ∀ f, P f → ∀ env env', EnvRel ρ lam N env env' → Sim (FRel ρ lam N) (R env f) (R' env' (renameM ρ f))) :
    ∀ (gens : List (List MFunc)), (∀ g ∈ gens, ∀ f ∈ g, P f) → ∀ env env', EnvRel ρ lam N env env' →
      Sim (fun x y => FsRel ρ lam N x.1 y.1 ∧ EnvRel ρ lam N x.2 y.2) (runGensWith R gens env)
        (runGensWith R' (gens.map (List.map (renameM ρ))) env') := by
  intro gens
  induction gens with
  | nil => intro _ env env' henv; exact Sim.pure ⟨⟨rfl, by simp⟩, henv⟩
  | cons gen rest ih =>
    intro hP env env' henv
    simp only [List.map_cons, runGensWith]
    apply Sim.bind (runGen_rename ρ N lam R R' env env' gen (fun f hf => hR f (hP gen List.mem_cons_self f hf) env env' henv))
    intro rs rs' hrs
    have henv2 : EnvRel ρ lam N { env with store := env.store ++ rs.flatMap (·.slots) }
        { env' with store := env'.store ++ rs'.flatMap (·.slots) } := by
      constructor
      · exact henv.inputs
      · simp only [henv.store, hrs.1, List.map_append, List.flatMap_map, List.map_flatMap]
        rfl
      · exact henv.inN
      · intro ks hks
        rcases List.mem_append.mp hks with h | h
        · exact henv.stN ks h
        · obtain ⟨r, hr, hk⟩ := List.mem_flatMap.mp h
          exact hrs.2 r hr ks hk
    apply Sim.bind (ih (fun g hg => hP g (List.mem_cons_of_mem _ hg)) _ _ henv2)
    intro x y hxy
    obtain ⟨more, envF⟩ := x
    obtain ⟨more', envF'⟩ := y
    exact Sim.pure ⟨FsRel.append hxy.1 |> fun k => k hrs, hxy.2⟩

/-- the result of the renamed run: everything re-keyed by `ρ`, values relabelled, function names unchanged -/
structure MRel (ρ lam : String → String) (R R' : MapResult) : Prop where
  outputs : R'.outputs = R.outputs.map (rkvL ρ lam)
  stored : R'.stored = R.stored.map (rkvL ρ lam)
  shapes : R'.shapes = R.shapes.map (rkv ρ)
  masks : R'.masks = R.masks.map (rkv ρ)
  calls : R'.calls = R.calls.map (relabelCall lam)
  gens : R'.gens = R.gens

/-- **`run_map` commutes with renaming** (specification form: result arrays by denotation) -/
theorem specMap_rename (fs : List MFunc) (inputs : List (String × Val)) (ui : List (String × List Nat))
    (hfs : ∀ f ∈ fs, MNamesIn N f) (hfx : ∀ f ∈ fs, ValsFixed lam f) (hlab : ∀ f ∈ fs, LabOK ρ lam f)
    (hin : ∀ kv ∈ inputs, N kv.1) (hui : ∀ kv ∈ ui, N kv.1) :
    Sim (MRel ρ lam) (specMap fs inputs ui) (specMap (fs.map (renameM ρ)) (inputs.map (rkvL ρ lam)) (ui.map (rkv ρ))) := by
  unfold specMap runMapWith
  apply Sim.bind (validateInputs_rename ρ N hinj fs inputs _ hfs hin (by simp [akeys, rkvL, List.map_map, Function.comp_def]))
  intro _ _ _
  simp only []
  have hgen := generations_rename ρ N hinj fs hfs
  have hlen : (generations (fs.map (renameM ρ))).flatten.length = (generations fs).flatten.length := by
    rw [hgen, ← List.map_flatten, List.length_map]
  rw [hlen, List.length_map]
  apply Sim.ite
  · exact trivial
  · rw [constructInternal_rename ρ N hinj fs ui hfs hui]
    apply Sim.bind (mapShapes_rename ρ N hinj lam fs inputs _ _ hfs hfx hin (constructInternal_keys N fs ui hfs hui) rfl)
    intro x y hxy
    obtain ⟨shapes, masks⟩ := x
    obtain ⟨rfl, hsN, hmN⟩ := hxy
    simp only []
    rw [hgen]
    apply Sim.bind (runGens_rename ρ N lam (fun f => f ∈ fs) _ _ ?hR (generations fs) ?hP _ _ ?henv)
    case hR =>
      intro f hf env env' henv
      exact runFunc_rename ρ N hinj lam fs shapes masks env env' f hfs hfx (hfs f hf) (hfx f hf) (hlab f hf) hsN hmN henv
    case hP =>
      intro g hg f hf
      exact generations_mem fs _ _ _ g hg f hf
    case henv => exact ⟨rfl, rfl, hin, by simp⟩
    intro x y hxy
    obtain ⟨rs, env⟩ := x
    obtain ⟨rs', env'⟩ := y
    obtain ⟨hrs, henv⟩ := hxy
    have hrs1 : rs' = rs.map (relabelFR ρ lam) := hrs.1
    have hst : env'.store = env.store.map (rkvS ρ lam) := henv.store
    apply Sim.pure
    constructor
    · simp only [hrs1, List.flatMap_map, List.map_flatMap, relabelFR]
    · simp only [hst, List.map_map]
      apply List.map_congr_left
      intro ks _
      obtain ⟨o, s⟩ := ks
      simp only [Function.comp, rkvS, rkvL, toVal_relabelSlot]
    · rfl
    · rfl
    · simp only [hrs1, List.flatMap_map, List.map_flatMap, relabelFR]
    · simp only [List.map_map]
      apply List.map_congr_left
      intro g _
      simp only [Function.comp, List.map_map]
      apply List.map_congr_left
      intro f _
      rfl

end
/-! ### the hypotheses in terms of `RFunc` -/

/-- every name of `f` — parameters, outputs, default and bound keys, MapSpec array names — lies in `N` -/
def RNamesIn (N : String → Prop) (f : RFunc) : Prop :=
  NamesIn N f.core ∧ ∀ a ∈ (match f.mapspec with | some ms => ms.inputs ++ ms.outputs | none => []), N a.name

/-- no default or bound value of `f` contains a `pick` -/
def RNoPick (f : RFunc) : Prop :=
  (∀ kv ∈ f.core.defaults, noPick kv.2 = true) ∧ ∀ kv ∈ f.core.bound, noPick kv.2 = true

theorem mnamesIn_toMFunc {N : String → Prop} {f : RFunc} (h : RNamesIn N f) : MNamesIn N (toMFunc f) := by
  obtain ⟨⟨h1, h2, h3, h4⟩, h5⟩ := h
  refine ⟨h1, h2, h3, h4, ?_, ?_⟩
  · intro ms hms a ha
    have hm : f.mapspec = some ms := hms
    rw [hm] at h5
    exact h5 a (List.mem_append_left _ ha)
  · intro ms hms a ha
    have hm : f.mapspec = some ms := hms
    rw [hm] at h5
    exact h5 a (List.mem_append_right _ ha)

theorem valsFixed_of_noPick (lam : String → String) {f : RFunc} (h : RNoPick f) : ValsFixed lam (toMFunc f) :=
  ⟨fun kv hkv => relabel_noPick lam kv.2 (h.1 kv hkv), fun kv hkv => relabel_noPick lam kv.2 (h.2 kv hkv)⟩

theorem valsFixed_id (f : MFunc) : ValsFixed (fun x => x) f :=
  ⟨fun kv _ => relabel_id kv.2, fun kv _ => relabel_id kv.2⟩

theorem labOK_self (ρ : String → String) (f : MFunc) : LabOK ρ ρ f := Or.inr fun _ _ => rfl

theorem rkvL_id (ρ : String → String) : rkvL ρ (fun x => x) = rkv ρ := by
  funext kv; simp only [rkvL, rkv, relabel_id]

theorem relabelCall_id (c : Call) : relabelCall (fun x => x) c = c := by
  cases c with
  | mk n a =>
    simp only [relabelCall, relabelArgs_eq, relabel_id]
    congr 1
    exact List.map_id' a

theorem map_rkvL_noPick (ρ lam : String → String) (l : List (String × Val)) (h : ∀ kv ∈ l, noPick kv.2 = true) :
    l.map (rkvL ρ lam) = l.map (rkv ρ) :=
  (map_rkv_fixed ρ lam l fun kv hkv => relabel_noPick lam kv.2 (h kv hkv)).symm

/-- executable form of `RNamesIn (· ∈ names)` -/
def namesCheck (names : List String) (f : RFunc) : Bool :=
  f.core.params.all (fun p => names.contains p.1) && f.core.outputs.all (fun o => names.contains o)
  && f.core.defaults.all (fun kv => names.contains kv.1) && f.core.bound.all (fun kv => names.contains kv.1)
  && (match f.mapspec with
      | some ms => (ms.inputs ++ ms.outputs).all fun a => names.contains a.name
      | none => true)

/-- executable form of `RNoPick` -/
def noPickCheck (f : RFunc) : Bool := f.core.defaults.all (fun kv => noPick kv.2) && f.core.bound.all (fun kv => noPick kv.2)

theorem rnamesIn_of_check {names : List String} {f : RFunc} (h : namesCheck names f = true) : RNamesIn (fun a => a ∈ names) f := by
  simp only [namesCheck, Bool.and_eq_true, List.all_eq_true, List.contains_iff_mem] at h
  obtain ⟨⟨⟨⟨h1, h2⟩, h3⟩, h4⟩, h5⟩ := h
  refine ⟨⟨h1, h2, h3, h4⟩, ?_⟩
  cases hm : f.mapspec with
  | none => intro a ha; cases ha
  | some ms =>
    rw [hm] at h5
    simp only [List.all_eq_true, List.contains_iff_mem] at h5
    exact h5

theorem rnoPick_of_check {f : RFunc} (h : noPickCheck f = true) : RNoPick f := by
  simp only [noPickCheck, Bool.and_eq_true, List.all_eq_true] at h
  exact h

end PF.Rw
