/-
Lemmas for `C08_consistent_loop_eq` (round 9): the loop of `validate_consistent_axes` (`consistentAxesLoop`, the `axes: dict[int, str]`
filled spec by spec) accepts exactly what the pairwise reading `consistentAxes` accepts.
-/
import PfModel.Lemmas.MapSpecAxes
namespace PF.MS

/-- the `axes` dict as a list of writes is functional: one position never gets two names -/
def FunRel (d : List (Nat × String)) : Prop := ∀ i a b, (i, a) ∈ d → (i, b) ∈ d → a = b

theorem funRel_snoc (dct : List (Nat × String)) (i : Nat) (a : String) (h : FunRel dct)
    (hi : ∀ b, (i, b) ∈ dct → b = a) : FunRel (dct ++ [(i, a)]) := by
  intro j x y hx hy
  simp only [List.mem_append, List.mem_singleton, Prod.mk.injEq] at hx hy
  rcases hx with hx | ⟨e1, e2⟩ <;> rcases hy with hy | ⟨e3, e4⟩
  · exact h j x y hx hy
  · subst e3; subst e4; exact hi x hx
  · subst e1; subst e2; exact (hi y hy).symm
  · rw [e2, e4]

/-- the writes succeed exactly when they keep the dict functional -/
theorem fillAxes_isSome_iff : ∀ (l dct : List (Nat × String)), FunRel dct →
    ((fillAxes dct l).isSome = true ↔ FunRel (dct ++ l))
  | [], dct, h => by simp [fillAxes, h]
  | (i, a) :: r, dct, h => by
    have step : FunRel (dct ++ [(i, a)]) →
        ((fillAxes (dct ++ [(i, a)]) r).isSome = true ↔ FunRel (dct ++ (i, a) :: r)) := by
      intro hf
      have := fillAxes_isSome_iff r (dct ++ [(i, a)]) hf
      simpa [List.append_assoc] using this
    simp only [fillAxes]
    cases hl : natLookupLast i dct with
    | some b =>
      have hb := natLookupLast_mem i dct b hl
      simp only []
      by_cases hab : b = a
      · subst hab
        simp only [bne_self_eq_false, Bool.false_eq_true, ↓reduceIte]
        exact step (funRel_snoc dct i b h (fun c hc => h i c b hc hb))
      · have hne : (b != a) = true := by simpa using hab
        simp only [hne, ↓reduceIte, Option.isSome_none, Bool.false_eq_true, false_iff]
        intro hf
        exact hab (hf i b a (by simp [hb]) (by simp))
    | none =>
      simp only []
      apply step
      apply funRel_snoc dct i a h
      intro b hb
      obtain ⟨w, hw⟩ := natLookupLast_of_mem i b dct hb
      rw [hl] at hw; cases hw

theorem funRel_flatMap (L : List ArraySpec) :
    FunRel (L.flatMap fun s => namedAt 0 s.axes) ↔ ∀ s ∈ L, ∀ t ∈ L, AgreeAt s.axes t.axes := by
  constructor
  · intro h s hs t ht i x y e1 e2
    apply h i x y
    · exact List.mem_flatMap.mpr ⟨s, hs, (mem_namedAt s.axes 0 i x).mpr ⟨Nat.zero_le _, by simpa using e1⟩⟩
    · exact List.mem_flatMap.mpr ⟨t, ht, (mem_namedAt t.axes 0 i y).mpr ⟨Nat.zero_le _, by simpa using e2⟩⟩
  · intro h i a b ha hb
    obtain ⟨s, hs, ha⟩ := List.mem_flatMap.mp ha
    obtain ⟨t, ht, hb⟩ := List.mem_flatMap.mp hb
    have e1 := ((mem_namedAt s.axes 0 i a).mp ha).2
    have e2 := ((mem_namedAt t.axes 0 i b).mp hb).2
    exact h s hs t ht i a b (by simpa using e1) (by simpa using e2)

/-- one array name: the rank test against the first spec and the dict loop = all pairs agree -/
theorem consistentOne_iff (L : List ArraySpec) :
    consistentOne L = true ↔ ∀ s ∈ L, ∀ t ∈ L, s.axes.length = t.axes.length ∧ AgreeAt s.axes t.axes := by
  cases L with
  | nil => simp [consistentOne]
  | cons a r =>
    simp only [consistentOne, Bool.and_eq_true, List.all_eq_true, beq_iff_eq]
    have hf := fillAxes_isSome_iff ((a :: r).flatMap fun s => namedAt 0 s.axes) [] (by intro i x y hx; cases hx)
    rw [List.nil_append] at hf
    rw [hf, funRel_flatMap]
    constructor
    · intro ⟨hlen, hag⟩ s hs t ht
      have len : ∀ u ∈ a :: r, u.axes.length = a.axes.length := by
        intro u hu
        rcases List.mem_cons.mp hu with e | e
        · rw [e]
        · exact hlen u e
      exact ⟨by rw [len s hs, len t ht], hag s hs t ht⟩
    · intro h
      exact ⟨fun b hb => (h b (List.mem_cons_of_mem _ hb) a List.mem_cons_self).1, fun s hs t ht => (h s hs t ht).2⟩

theorem consistentAxes_iff (ms : List MapSpec) :
    consistentAxes ms = true ↔
      ∀ a ∈ allSpecs ms, ∀ b ∈ allSpecs ms, a.name = b.name → a.axes.length = b.axes.length ∧ AgreeAt a.axes b.axes := by
  unfold consistentAxes
  simp only [List.all_eq_true]
  constructor
  · intro h a ha b hb hn
    have := h a ha b hb
    simp only [hn, beq_self_eq_true, Bool.true_and, Bool.not_eq_true'] at this
    exact (axesClash_false_iff _ _).1 this
  · intro h a ha b hb
    by_cases hn : a.name = b.name
    · have := (axesClash_false_iff _ _).2 (h a ha b hb hn)
      simp [hn, this]
    · simp [hn]

theorem consistentAxesLoop_iff (ms : List MapSpec) :
    consistentAxesLoop ms = true ↔
      ∀ a ∈ allSpecs ms, ∀ b ∈ allSpecs ms, a.name = b.name → a.axes.length = b.axes.length ∧ AgreeAt a.axes b.axes := by
  unfold consistentAxesLoop
  simp only [List.all_eq_true, mem_firstOcc, consistentOne_iff, List.mem_filter, beq_iff_eq]
  constructor
  · intro h a ha b hb hn
    exact h a.name (List.mem_map.mpr ⟨a, ha, rfl⟩) a ⟨ha, rfl⟩ b ⟨hb, hn.symm⟩
  · intro h n _ s hs t ht
    exact h s hs.1 t ht.1 (hs.2.trans ht.2.symm)

theorem consistentAxesLoop_eq (ms : List MapSpec) : consistentAxesLoop ms = consistentAxes ms := by
  rw [Bool.eq_iff_iff, consistentAxesLoop_iff, consistentAxes_iff]

end PF.MS
