import PfModel.Props.C12Edit
import PfModel.Lemmas.ValidateCall
/-!
C12, round 9: the CALL path.  `Pipeline.run(out, kwargs=…)`, `Pipeline.__call__(out, **kw)` and `Pipeline.func(out)(**kw)` have no
validation of their own for the pipeline-level clauses of the property (duplicate output names, inconsistent defaults, CYCLIC
DEPENDENCIES): what refuses them before the first user function is the recomputation of the cached properties that the first
statement of `run` triggers (`self.mapspec_names` → `mapspecs()` → `sorted_functions` → `topological_generations` → `graph`), and
the gate that follows (`func_dependencies`: unknown name; a MapSpec upstream; the output among the keywords).  `startCall` /
`startFunc` (`Model/ValidateCall.lean`) are that path in the code's order, parametric in the calls the (lazy, C02) evaluation makes.

* `C12_call_iff`, `C12_call_complete`, `C12_call_no_effects`: reject / complete / before any user function, for EVERY pipeline
  (constructed or edited), every requested output, every keyword set, every evaluation;
* `C12_call_reject_cycle` (+ `_duplicate_output`, `_inconsistent_defaults`): a cyclic pipeline is refused on the call path whatever
  output is asked for — also an output UPSTREAM of the cycle, whose evaluation would never meet it — and nothing has run;
  `C12_call_cycle_class`: the refusal is networkx's `NetworkXUnfeasible` when nothing else is wrong;
* `C12_func_iff`, `C12_func_no_effects`: the same through `pipeline.func(out)(**kw)`;
* `C12_build_call_iff`, `C12_build_call_no_effects`, `C12_build_call_reject_cycle`: build-then-call in one statement: refused iff
  the construction refuses (`IllFormed`) or the gate refuses (`CallFault`); a cyclic list of functions never reaches a user call;
* `C12_session_call_iff`, `C12_session_call_no_effects`, `C12_session_call_reject_lazy`: the same after in-place edits;
* `C12_call_reject_mapped_upstream_partial`: the `RuntimeError` for a directly upstream mapped function.
-/
namespace PF.C12
open PF PF.Map PF.Validate

/-! ### `run` / `__call__` -/

/-- **Reject and complete on the call path**: `run` / `__call__` refuse exactly when a recomputed cached property refuses
    (duplicate output names, inconsistent defaults, cycle) or the gate refuses (`CallFault`). -/
theorem C12_call_iff (fs : List MFunc) (q : CallReq) (calls : List String) :
    Refused (startCall fs q calls).2 ↔ LazyFault fs ∨ CallFault fs q :=
  refused_callSteps_iff fs q calls

/-- **Before any user function**: a refusal on the call path comes with an EMPTY effect list, whatever the evaluation would
    have invoked. -/
theorem C12_call_no_effects (fs : List MFunc) (q : CallReq) (calls : List String) (e : VErr)
    (h : (startCall fs q calls).2 = .error e) : (startCall fs q calls).1 = [] := by
  unfold startCall at h ⊢
  rcases callSteps_cases fs q calls with heq | ⟨e2, heq⟩
  · rw [heq] at h; cases h
  · rw [heq]

/-- **Complete**: nothing else is refused, and then exactly the calls of the evaluation happen. -/
theorem C12_call_complete (fs : List MFunc) (q : CallReq) (calls : List String) (hl : ¬ LazyFault fs) (hc : ¬ CallFault fs q) :
    startCall fs q calls = (calls.map Effect.call, .ok ()) := by
  unfold startCall
  rcases callSteps_cases fs q calls with heq | ⟨e, heq⟩
  · exact heq
  · exfalso
    have : Refused (startCall fs q calls).2 := ⟨e, by unfold startCall; rw [heq]⟩
    rcases (C12_call_iff fs q calls).mp this with h | h
    · exact hl h
    · exact hc h

/-- consistency with round 3: when the gate has nothing to refuse, `startCall` is `startRun` (what the session stream of round 3
    compares `run` / `__call__` with): the new model only ADDS the gate. -/
theorem C12_call_plain (fs : List MFunc) (q : CallReq) (calls : List String) (hc : ¬ CallFault fs q) :
    startCall fs q calls = startRun fs calls :=
  startCall_eq_startRun fs q calls hc

/-- **Cyclic dependencies on the call path**: a non-empty dependency-closed set of functions (every cycle is one) ⇒ `run` /
    `__call__` refuse for EVERY requested output (also one upstream of the cycle, e.g. `run("c")` in `h(x)→c, f(c,b)→a, g(a)→b`),
    every keyword set and every evaluation order, and no user function has been invoked. -/
theorem C12_call_reject_cycle (fs : List MFunc) (S : List String) (hS : DependencyClosed fs S) (f : MFunc) (hf : f ∈ fs)
    (hfS : f.name ∈ S) (q : CallReq) (calls : List String) :
    Refused (startCall fs q calls).2 ∧ (startCall fs q calls).1 = [] := by
  have href : Refused (startCall fs q calls).2 :=
    (C12_call_iff fs q calls).mpr (Or.inl (Or.inr (Or.inr (acyclic_false_of_closed fs S hS f hf hfS))))
  obtain ⟨e, he⟩ := href
  exact ⟨⟨e, he⟩, C12_call_no_effects fs q calls e he⟩

/-- …and the refusal is the cycle's own (`NetworkXUnfeasible`) when output names are unique and defaults consistent. -/
theorem C12_call_cycle_class (fs : List MFunc) (hu : uniqueOutputs fs = true) (hd : defaultsConsistent fs = true)
    (hc : acyclic fs = false) (q : CallReq) (calls : List String) :
    startCall fs q calls = ([], .error ⟨.unfeasible, "cycle"⟩) := by
  simp [startCall, callSteps, lazySteps, boolStep, hu, hd, hc, exec]

/-- **Duplicate output names** in the pipeline as it is now ⇒ refused on the call path, nothing has run. -/
theorem C12_call_reject_duplicate_output (pre post : List MFunc) (f : MFunc) (o : String) (ho : o ∈ f.outputs)
    (hdup : o ∈ allOutputs post) (q : CallReq) (calls : List String) :
    Refused (startCall (pre ++ f :: post) q calls).2 ∧ (startCall (pre ++ f :: post) q calls).1 = [] := by
  have href : Refused (startCall (pre ++ f :: post) q calls).2 :=
    (C12_call_iff _ q calls).mpr (Or.inl (Or.inl (uniqueOutputs_false_of_dup pre post f o ho hdup)))
  obtain ⟨e, he⟩ := href
  exact ⟨⟨e, he⟩, C12_call_no_effects _ q calls e he⟩

/-- **Inconsistent defaults** in the pipeline as it is now ⇒ refused on the call path, nothing has run. -/
theorem C12_call_reject_inconsistent_defaults (fs : List MFunc) (p : String) (v w : Val) (hv : (p, v) ∈ pdefaults fs)
    (hw : alookup (pdefaults fs) p = some w) (hne : valEq v w = false) (q : CallReq) (calls : List String) :
    Refused (startCall fs q calls).2 ∧ (startCall fs q calls).1 = [] := by
  have hdc : defaultsConsistent fs = false := by
    simp only [defaultsConsistent, List.all_eq_false]
    exact ⟨(p, v), hv, by simp [hw, hne]⟩
  have href : Refused (startCall fs q calls).2 := (C12_call_iff fs q calls).mpr (Or.inl (Or.inr (Or.inl hdc)))
  obtain ⟨e, he⟩ := href
  exact ⟨⟨e, he⟩, C12_call_no_effects fs q calls e he⟩

/-- **A MapSpec directly upstream** ⇒ `RuntimeError` ("use `Pipeline.map`") before any user function.  PARTIAL: stated for a DIRECT
    upstream function `g` (a parameter of the producer of the requested output); for transitive dependencies `mapspecInDeps` is
    evaluated (witness below, correspondence), the fuel-sufficiency of `depsFrom` is not proved. -/
theorem C12_call_reject_mapped_upstream_partial (fs : List MFunc) (q : CallReq) (f g : MFunc)
    (hp : producer fs q.output = some f) (hg : g ∈ fs) (hup : g.name ∈ upstream fs f) (o : String) (ho : g.outputs = [o])
    (hm : o ∈ mapspecNames fs) (calls : List String) :
    Refused (startCall fs q calls).2 ∧ (startCall fs q calls).1 = [] := by
  have hmd : mapspecInDeps fs q.output = true := by
    unfold mapspecInDeps
    rw [List.any_eq_true]
    refine ⟨g, hg, ?_⟩
    have h1 : (funcDeps fs q.output).contains g.name = true := by
      simpa using upstream_mem_funcDeps fs q.output f hp g.name hup
    rw [h1, ho]
    simpa using hm
  have href : Refused (startCall fs q calls).2 := (C12_call_iff fs q calls).mpr (Or.inr (Or.inr (Or.inl hmd)))
  obtain ⟨e, he⟩ := href
  exact ⟨⟨e, he⟩, C12_call_no_effects fs q calls e he⟩

/-! ### `pipeline.func(out)(**kw)` -/

/-- `func` recomputes `graph` only (no cycle test of its own), the call of the returned object is `run`: together they refuse
    exactly what `run` refuses. -/
theorem C12_func_iff (fs : List MFunc) (q : CallReq) (calls : List String) :
    Refused (startFunc fs q calls).2 ↔ LazyFault fs ∨ CallFault fs q := by
  unfold startFunc
  rw [refused_exec_append]
  constructor
  · rintro (h | h)
    · exact refused_funcChecks fs q h
    · exact (refused_callSteps_iff fs q calls).mp ((refused_exec_iff _).mpr h)
  · intro h
    exact Or.inr ((refused_exec_iff _).mp ((refused_callSteps_iff fs q calls).mpr h))

theorem C12_func_no_effects (fs : List MFunc) (q : CallReq) (calls : List String) (e : VErr)
    (h : (startFunc fs q calls).2 = .error e) : (startFunc fs q calls).1 = [] := by
  unfold startFunc at h ⊢
  rcases funcSteps_cases fs q calls with heq | ⟨e2, heq⟩
  · rw [heq] at h; cases h
  · rw [heq]

/-! ### build, then call -/

/-- **Construction or the gate**: `Pipeline([...])` followed by `run` / `__call__` / `func(out)(**kw)` is refused exactly when the
    construction refuses (`IllFormed`, `C12_construct_iff`) or — the lazy checks never fire on a fresh pipeline — the gate does. -/
theorem C12_build_call_iff (fs : List MFunc) (q : CallReq) (calls : List String) (viaFunc : Bool) :
    Refused (constructThenCall fs q calls viaFunc).2 ↔ IllFormed fs ∨ CallFault fs q := by
  unfold constructThenCall
  cases hc : construct fs with
  | error e =>
    have : IllFormed fs := (C12_construct_iff fs).mp ⟨e, hc⟩
    simp [Refused, this]
  | ok u =>
    cases u
    have hnl : ¬ LazyFault fs := C12_constructed_no_lazy_fault fs hc
    have hni : ¬ IllFormed fs := fun h => by
      obtain ⟨e, he⟩ := (C12_construct_iff fs).mpr h
      rw [hc] at he; cases he
    cases viaFunc
    · simp only [Bool.false_eq_true, if_false, C12_call_iff]
      constructor
      · rintro (h | h); exact absurd h hnl; exact Or.inr h
      · rintro (h | h); exact absurd h hni; exact Or.inr h
    · simp only [if_true, C12_func_iff]
      constructor
      · rintro (h | h); exact absurd h hnl; exact Or.inr h
      · rintro (h | h); exact absurd h hni; exact Or.inr h

theorem C12_build_call_no_effects (fs : List MFunc) (q : CallReq) (calls : List String) (viaFunc : Bool) (e : VErr)
    (h : (constructThenCall fs q calls viaFunc).2 = .error e) : (constructThenCall fs q calls viaFunc).1 = [] := by
  unfold constructThenCall at h ⊢
  cases hc : construct fs with
  | error x => rfl
  | ok u =>
    simp only [hc] at h ⊢
    cases viaFunc
    · simp only [Bool.false_eq_true, if_false] at h ⊢; exact C12_call_no_effects fs q calls e h
    · simp only [if_true] at h ⊢; exact C12_func_no_effects fs q calls e h

/-- **The cyclic-dependencies clause on the call path, in one statement**: a list of functions with a dependency cycle, built and
    then executed through `run` / `__call__` / `func`, for whatever output and keywords: an exception, and no user function. -/
theorem C12_build_call_reject_cycle (fs : List MFunc) (S : List String) (hS : DependencyClosed fs S) (f : MFunc) (hf : f ∈ fs)
    (hfS : f.name ∈ S) (q : CallReq) (calls : List String) (viaFunc : Bool) :
    Refused (constructThenCall fs q calls viaFunc).2 ∧ (constructThenCall fs q calls viaFunc).1 = [] := by
  have href : Refused (constructThenCall fs q calls viaFunc).2 :=
    (C12_build_call_iff fs q calls viaFunc).mpr (Or.inl ((C12_construct_iff fs).mp (C12_reject_cycle fs S hS f hf hfS)))
  obtain ⟨e, he⟩ := href
  exact ⟨⟨e, he⟩, C12_build_call_no_effects fs q calls viaFunc e he⟩

/-! ### build, edit in place, then call -/

theorem C12_session_call_iff (base : List MFunc) (edits : List Edit) (q : CallReq) (calls : List String) (viaFunc : Bool) :
    Refused (sessionCall base edits q calls viaFunc).2 ↔
      Refused (applyEdits (base.map EFunc.ofMFunc) edits) ∨
      ∃ es, applyEdits (base.map EFunc.ofMFunc) edits = .ok es ∧ (LazyFault (funcsOf es) ∨ CallFault (funcsOf es) q) := by
  unfold sessionCall
  cases h : applyEdits (base.map EFunc.ofMFunc) edits with
  | error x => simp [Refused]
  | ok es =>
    have hnr : ¬ Refused (Except.ok es : V (List EFunc)) := by rintro ⟨x, hx⟩; cases hx
    cases viaFunc
    · simp only [Bool.false_eq_true, if_false, C12_call_iff, Except.ok.injEq, exists_eq_left']
      constructor
      · exact Or.inr
      · rintro (h' | h'); exact absurd h' hnr; exact h'
    · simp only [if_true, C12_func_iff, Except.ok.injEq, exists_eq_left']
      constructor
      · exact Or.inr
      · rintro (h' | h'); exact absurd h' hnr; exact h'

theorem C12_session_call_no_effects (base : List MFunc) (edits : List Edit) (q : CallReq) (calls : List String) (viaFunc : Bool)
    (e : VErr) (h : (sessionCall base edits q calls viaFunc).2 = .error e) : (sessionCall base edits q calls viaFunc).1 = [] := by
  unfold sessionCall at h ⊢
  cases h' : applyEdits (base.map EFunc.ofMFunc) edits with
  | error x => rfl
  | ok es =>
    simp only [h'] at h ⊢
    cases viaFunc
    · simp only [Bool.false_eq_true, if_false] at h ⊢; exact C12_call_no_effects _ q calls e h
    · simp only [if_true] at h ⊢; exact C12_func_no_effects _ q calls e h

/-- whatever in-place edits were accepted: if they leave duplicate output names, inconsistent defaults or a cycle behind, then
    `run` / `__call__` / `func(out)(**kw)` raise for every output and keyword set, and no user function has been invoked. -/
theorem C12_session_call_reject_lazy (base : List MFunc) (edits : List Edit) (es : List EFunc)
    (hed : applyEdits (base.map EFunc.ofMFunc) edits = .ok es) (hl : LazyFault (funcsOf es)) (q : CallReq) (calls : List String)
    (viaFunc : Bool) :
    Refused (sessionCall base edits q calls viaFunc).2 ∧ (sessionCall base edits q calls viaFunc).1 = [] := by
  have href : Refused (sessionCall base edits q calls viaFunc).2 :=
    (C12_session_call_iff base edits q calls viaFunc).mpr (Or.inr ⟨es, hed, Or.inl hl⟩)
  obtain ⟨e, he⟩ := href
  exact ⟨⟨e, he⟩, C12_session_call_no_effects base edits q calls viaFunc e he⟩

/-! ### non-vacuity and witnesses -/

private def fn (n : String) (ps : List String) (o : String) : MFunc :=
  { name := n, params := ps.map fun p => (p, p), outputs := [o], mapspec := none, ret := none, internal := none, defaults := [], bound := [] }

private def mp (n a o : String) : MFunc :=
  { fn n [a] o with mapspec := some { inputs := [{ name := a, axes := [some "i"] }], outputs := [{ name := o, axes := [some "i"] }] } }

/-- seeded change C12-s4-A: `h(x) → c`, `f(c, b) → a`, `g(a) → b` — the cycle a → b → a behind the acyclic `h` -/
private def demoCyc : List MFunc := [fn "h" ["x"] "c", fn "f" ["c", "b"] "a", fn "g" ["a"] "b"]

example : DependencyClosed demoCyc ["f", "g"] := by
  intro k hk hkS
  simp only [demoCyc, List.mem_cons, List.not_mem_nil, or_false] at hk
  rcases hk with rfl | rfl | rfl
  · revert hkS; decide
  · exact ⟨"g", by decide, by decide⟩
  · exact ⟨"f", by decide, by decide⟩
/-- the construction refuses it; and even if it did not, `run("a")` (would call `h` first) and `run("c")` (would succeed) are refused
    with no call -/
example : constructThenCall demoCyc ⟨"a", ["x"]⟩ ["h"] false = ([], .error ⟨.unfeasible, "cycle"⟩) := by decide
example : startCall demoCyc ⟨"a", ["x"]⟩ ["h"] = ([], .error ⟨.unfeasible, "cycle"⟩) := by decide
example : startCall demoCyc ⟨"c", ["x"]⟩ ["h"] = ([], .error ⟨.unfeasible, "cycle"⟩) := by decide
example : startFunc demoCyc ⟨"c", ["x"]⟩ ["h"] = ([], .error ⟨.unfeasible, "cycle"⟩) := by decide
/-- `func` on an unknown name is a `KeyError` of `func` itself, `run` meets the cycle first -/
example : startFunc demoCyc ⟨"zz", []⟩ [] = ([], .error ⟨.key, "unknown-output"⟩) := by decide
example : uniqueOutputs demoCyc = true ∧ defaultsConsistent demoCyc = true ∧ acyclic demoCyc = false := by decide

/-- the same cycle created in place: `f(c, q) → a` with `q` renamed to `b` -/
private def demoAcyc : List MFunc := [fn "h" ["x"] "c", fn "f" ["c", "q"] "a", fn "g" ["a"] "b"]
example : construct demoAcyc = .ok () := by decide
example : sessionCall demoAcyc [.memberRename "f" "q" "b"] ⟨"c", ["x"]⟩ ["h"] false = ([], .error ⟨.unfeasible, "cycle"⟩) := by decide
example : sessionCall demoAcyc [.memberRename "f" "q" "b"] ⟨"a", ["x"]⟩ ["h", "f"] true = ([], .error ⟨.unfeasible, "cycle"⟩) := by decide
example : (applyEdits (demoAcyc.map EFunc.ofMFunc) [.memberRename "f" "q" "b"]).toBool = true := by decide
example : ¬ LazyFault demoAcyc ∧ ¬ CallFault demoAcyc ⟨"a", ["x", "q"]⟩ := by
  refine ⟨C12_constructed_no_lazy_fault _ (by decide), ?_⟩
  unfold CallFault; decide
/-- accepted: the evaluation's calls happen -/
example : startCall demoAcyc ⟨"a", ["x", "q"]⟩ ["h", "f"] = ([.call "h", .call "f"], .ok ()) := by decide
example : constructThenCall demoAcyc ⟨"a", ["x", "q"]⟩ ["h", "f"] true = ([.call "h", .call "f"], .ok ()) := by decide

/-- the gate: unknown name, the output among the keywords, a root argument as output -/
example : startCall demoAcyc ⟨"zz", ["x"]⟩ [] = ([], .error ⟨.key, "unknown-output"⟩) := by decide
example : startCall demoAcyc ⟨"c", ["x", "c"]⟩ ["h"] = ([], .error ⟨.value, "output-in-kwargs"⟩) := by decide
example : startCall demoAcyc ⟨"x", []⟩ [] = ([], .error ⟨.key, "output-is-no-function"⟩) := by decide
/-- `x[i] → c[i]` (mapped) upstream of `a` — directly, and transitively for `b`: `RuntimeError` (`.other`); `c` itself runs -/
private def demoMapped : List MFunc := [mp "h" "x" "c", fn "f" ["c"] "a", fn "g" ["a"] "b", fn "k" ["z"] "w"]
example : construct demoMapped = .ok () := by decide
example : startCall demoMapped ⟨"a", ["x"]⟩ ["h", "f"] = ([], .error ⟨.other, "mapspec-in-dependencies"⟩) := by decide
example : startCall demoMapped ⟨"b", ["x"]⟩ ["h", "f", "g"] = ([], .error ⟨.other, "mapspec-in-dependencies"⟩) := by decide
example : startCall demoMapped ⟨"c", ["x"]⟩ ["h"] = ([.call "h"], .ok ()) := by decide
example : startCall demoMapped ⟨"w", ["z"]⟩ ["k"] = ([.call "k"], .ok ()) := by decide
example : Refused (startCall demoMapped ⟨"a", ["x"]⟩ ["h", "f"]).2 ∧ (startCall demoMapped ⟨"a", ["x"]⟩ ["h", "f"]).1 = [] :=
  C12_call_reject_mapped_upstream_partial demoMapped ⟨"a", ["x"]⟩ (fn "f" ["c"] "a") (mp "h" "x" "c") rfl (by simp [demoMapped])
    (by decide) "c" rfl (by decide) _
/-- duplicate output names / inconsistent defaults met on the call path -/
example : startCall [fn "f" ["x"] "a", fn "g" ["y"] "a"] ⟨"a", ["y"]⟩ ["g"] = ([], .error ⟨.value, "duplicate-output"⟩) := by decide
example : startCall [{ fn "f" ["p"] "a" with defaults := [("p", .int 1)] }, { fn "g" ["p"] "b" with defaults := [("p", .int 2)] }]
    ⟨"a", []⟩ ["f"] = ([], .error ⟨.value, "inconsistent-defaults"⟩) := by decide
example : ("p", Val.int 2) ∈ pdefaults [{ fn "f" ["p"] "a" with defaults := [("p", .int 1)] }, { fn "g" ["p"] "b" with defaults := [("p", .int 2)] }] := by
  rw [show pdefaults [{ fn "f" ["p"] "a" with defaults := [("p", .int 1)] }, { fn "g" ["p"] "b" with defaults := [("p", .int 2)] }]
        = [("p", .int 1), ("p", .int 2)] from rfl]
  simp

end PF.C12
