import PfModel.Model.HashableSub
/-!
The relation that equal keys establish between two wide values (`Model/HashableSub.lean`): "the same value of the same type,
subclasses included, except that subclass marks inside a part that `to_hashable` returns as it is are not seen".
-/
namespace PF.Hashable

mutual
/-- `WRel a b`: either both are returned as they are and are `==` as Python values (same base value: the known finding
    KF-C15-hashable-subclass-as-is lives here and only here), or both are tagged containers of the SAME kind and the SAME
    class (`sub`), whose children — up to the iteration order of sets and mappings — are related the way the branch of the kind
    converts them. -/
inductive WRel : WV → WV → Prop
  | asis (a b : WV) : a.asIs = true → b.asIs = true → a.base = b.base → WRel a b
  | node (k : Kind) (s : Option Nat) (xs xs' ys' ys : List WV) :
      (WV.node k s xs).asIs = false → (WV.node k s ys).asIs = false →
      (if k.ordered then xs = xs' else xs.Perm xs') → WRelL k.mode xs' ys' → (if k.ordered then ys' = ys else ys'.Perm ys) →
      WRel (.node k s xs) (.node k s ys)
inductive WRelL : Mode → List WV → List WV → Prop
  | nil (m : Mode) : WRelL m [] []
  | cons (m : Mode) (x y : WV) (xs ys : List WV) : WRel1 m x y → WRelL m xs ys → WRelL m (x :: xs) (y :: ys)
/-- children: elements are converted (`elem`); of an item the dict key is used as it is (hashable: its base value) and the value
    is converted; Counter items and the data of bytearray / array / ndarray are copied as they are -/
inductive WRel1 : Mode → WV → WV → Prop
  | elem (x y : WV) : WRel x y → WRel1 .elem x y
  | item (sx sy : Option Nat) (kx ky vx vy : WV) : kx.base = ky.base → WRel vx vy →
      WRel1 .item (.node .tuple sx [kx, vx]) (.node .tuple sy [ky, vy])
  | rawItem (x y : WV) : x.base = y.base → WRel1 .rawItem x y
  | rawAtom (x y : WV) : x.base = y.base → WRel1 .rawAtom x y
end

/-- what Python guarantees about classes: a user class `n` has ONE builtin base `f n` (instance layouts conflict otherwise) and is
    not the class of an object that reaches the pickle fallback -/
def nodeOk (f : Nat → Cls) (k : Kind) : Option Nat → Bool
  | some n => decide (k.cls = f n) && decide (k.mode ≠ .leaf)
  | none => match k with
    | .opaque c _ => decide (f c = .other c)
    | _ => true

mutual
def WV.subOk (f : Nat → Cls) : WV → Bool
  | .atom _ => true
  | .node k s xs => nodeOk f k s && WV.subOkL f xs
def WV.subOkL (f : Nat → Cls) : List WV → Bool
  | [] => true
  | x :: xs => x.subOk f && WV.subOkL f xs
end

end PF.Hashable
