import PfModel.Lemmas.SubPipeComputable
/-!
C11, proof round 6 — helper lemmas for "`Conforms` of the full pipeline gives `Conforms` of the partial pipeline".

* sub-list facts: `keepFrom K i l` is a sub-list; `nodupB` (function names, output names) and "every function has an output"
  pass to sub-lists;
* un-mapped pipelines (`Plain`: no function carries a MapSpec): the declared shape table is empty and `Conforms` reduces to
  its graph clauses (`conforms_plain`).
-/
namespace PF.C01
open PF PF.Map

/-! ### sub-lists -/

theorem keepFrom_sublist {α} (K : List Nat) : ∀ (l : List α) (i : Nat), (Sub.keepFrom K i l).Sublist l
  | [], _ => List.Sublist.slnil
  | f :: r, i => by
    simp only [Sub.keepFrom]
    split
    · exact List.Sublist.cons_cons _ (keepFrom_sublist K r (i+1))
    · exact List.Sublist.cons _ (keepFrom_sublist K r (i+1))

theorem nodupB_sublist {l₁ l₂ : List String} (hs : l₁.Sublist l₂) : nodupB l₂ = true → nodupB l₁ = true := by
  induction hs with
  | slnil => intro h; exact h
  | cons a _ ih =>
    intro h
    simp only [nodupB, Bool.and_eq_true] at h
    exact ih h.2
  | @cons_cons l₁ l₂ a hs ih =>
    intro h
    simp only [nodupB, Bool.and_eq_true, Bool.not_eq_eq_eq_not, Bool.not_true, List.contains_eq_mem,
      decide_eq_false_iff_not] at h ⊢
    exact ⟨fun hm => h.1 (hs.subset hm), ih h.2⟩

theorem allOutputs_sublist {sub fs : List MFunc} (hs : sub.Sublist fs) : (allOutputs sub).Sublist (allOutputs fs) := by
  unfold allOutputs
  induction hs with
  | slnil => exact List.Sublist.slnil
  | cons a _ ih =>
    rw [List.flatMap_cons]
    exact ih.trans (List.sublist_append_right _ _)
  | cons_cons a _ ih =>
    rw [List.flatMap_cons, List.flatMap_cons]
    exact List.Sublist.append (List.Sublist.refl _) ih

/-! ### un-mapped pipelines -/

/-- no function carries a MapSpec (nothing is mapped, nothing has a declared array shape) -/
def Plain (fs : List MFunc) : Prop := ∀ f ∈ fs, f.mapspec = none

theorem Plain.sublist {sub fs : List MFunc} (hs : sub.Sublist fs) (h : Plain fs) : Plain sub :=
  fun f hf => h f (hs.subset hf)

theorem mapspecNames_plain : ∀ fs : List MFunc, Plain fs → mapspecNames fs = []
  | [], _ => rfl
  | f :: r, h => by
    unfold mapspecNames
    rw [List.flatMap_cons, h f (List.mem_cons_self ..)]
    exact mapspecNames_plain r (fun g hg => h g (List.mem_cons_of_mem _ hg))

theorem allSpecs_plain : ∀ fs : List MFunc, Plain fs → allSpecs fs = []
  | [], _ => rfl
  | f :: r, h => by
    unfold allSpecs
    rw [List.flatMap_cons, h f (List.mem_cons_self ..)]
    exact allSpecs_plain r (fun g hg => h g (List.mem_cons_of_mem _ hg))

theorem rootTbl_plain (fs : List MFunc) (inputs : List (String × Val)) (h : Plain fs) : rootTbl fs inputs = [] := by
  unfold rootTbl
  have : ∀ (l : List String) (t : Tbl), l.foldl (rootStep fs inputs) t = t := by
    intro l
    induction l with
    | nil => intro t; rfl
    | cons p r ih =>
      intro t
      rw [List.foldl_cons]
      have : rootStep fs inputs t p = t := by
        unfold rootStep
        rw [mapspecNames_plain fs h]
        simp
      rw [this]; exact ih t
  exact this _ _

theorem tblFrom_plain (internal : List (String × List Nat)) : ∀ (l : List MFunc) (t : Tbl), Plain l → tblFrom internal l t = t
  | [], _, _ => rfl
  | f :: r, t, h => by
    unfold tblFrom
    rw [List.foldl_cons]
    have : stepTbl internal t f = t := by
      unfold stepTbl; rw [h f (List.mem_cons_self ..)]
    rw [this]
    exact tblFrom_plain internal r t (fun g hg => h g (List.mem_cons_of_mem _ hg))

theorem shapesOK_plain (internal : List (String × List Nat)) : ∀ (l : List MFunc) (t : Tbl), Plain l → shapesOK internal l t = true
  | [], _, _ => rfl
  | f :: r, t, h => by
    have h1 : stepOK internal t f = true := by
      unfold stepOK; rw [h f (List.mem_cons_self ..)]
    have h2 : stepTbl internal t f = t := by
      unfold stepTbl; rw [h f (List.mem_cons_self ..)]
    simp only [shapesOK, h1, h2, Bool.true_and]
    exact shapesOK_plain internal r t (fun g hg => h g (List.mem_cons_of_mem _ hg))

theorem plain_generations (fs : List MFunc) (h : Plain fs) : Plain (generations fs).flatten := by
  intro f hf
  obtain ⟨g, hg, hfg⟩ := List.mem_flatten.mp hf
  exact h f (Sub.layers_mem fs _ _ _ g hg f hfg)

theorem declTbl_plain (fs : List MFunc) (inputs : List (String × Val)) (ui : List (String × List Nat)) (h : Plain fs) :
    declTbl fs inputs ui = [] := by
  unfold declTbl
  rw [tblFrom_plain _ _ _ (plain_generations fs h), rootTbl_plain fs inputs h]

theorem valuesTyped_nil (kvs : List (String × Val)) : valuesTyped [] kvs = true := by
  unfold valuesTyped
  rw [List.all_eq_true]
  intro kv _
  simp [alookup]

/-- **`Conforms` of an un-mapped pipeline is its graph clauses**: complete inputs without surplus, acyclic, distinct function
    names, distinct output names, every function has an output. -/
theorem conforms_plain (fs : List MFunc) (inputs : List (String × Val)) (ui : List (String × List Nat)) (hp : Plain fs)
    (h1 : inputsComplete fs inputs = true) (h2 : noSurplus fs inputs = true) (h3 : acyclic fs = true)
    (h4 : nodupB (fs.map (·.name)) = true) (h5 : nodupB (allOutputs fs) = true)
    (h6 : ∀ f ∈ fs, f.outputs.isEmpty = false) : Conforms fs inputs ui = true := by
  have c5 : rootArrays fs inputs = true := by
    unfold rootArrays
    rw [List.all_eq_true]
    intro p _
    rw [mapspecNames_plain fs hp]; simp
  have c6 := shapesOK_plain (constructInternal fs ui) _ (rootTbl fs inputs) (plain_generations fs hp)
  have c8 : fs.all (funcTyped []) = true := by
    rw [List.all_eq_true]
    intro f hf
    unfold funcTyped runsMapped
    rw [hp f hf]
    simp only [singleTyped]
    rw [List.all_eq_true]
    intro o _
    simp [alookup]
  have c9 : constructible [] fs = true := by
    unfold constructible consistentAxes
    rw [allSpecs_plain fs hp]
    simp only [h5, List.all_nil, Bool.true_and, List.all_eq_true]
    intro f hf
    rw [hp f hf, h6 f hf]; rfl
  unfold Conforms
  simp only [declTbl_plain fs inputs ui hp, h1, h2, h3, h4, c5, c6, c8, c9, valuesTyped_nil, Bool.and_self]

/-- the converse for the clauses that do not mention the inputs: what a conforming pipeline passes to its sub-lists -/
theorem conforms_graph (fs : List MFunc) (inputs : List (String × Val)) (ui : List (String × List Nat))
    (h : Conforms fs inputs ui = true) :
    acyclic fs = true ∧ nodupB (fs.map (·.name)) = true ∧ nodupB (allOutputs fs) = true ∧
    ∀ f ∈ fs, f.outputs.isEmpty = false := by
  unfold Conforms constructible at h
  simp only [Bool.and_eq_true, List.all_eq_true] at h
  obtain ⟨⟨⟨⟨⟨⟨⟨⟨⟨_, _⟩, h3⟩, h4⟩, _⟩, _⟩, _⟩, _⟩, _⟩, ⟨h5, _⟩, h6⟩ := h
  refine ⟨h3, h4, h5, fun f hf => ?_⟩
  have := (h6 f hf).1
  simpa using this

/-- a sub-list that still contains every element of a list with distinct keys is the whole list -/
theorem sublist_eq_of_all_mem {α β} (g : α → β) {sub l : List α} (hs : sub.Sublist l) :
    (l.map g).Nodup → (∀ x ∈ l, x ∈ sub) → sub = l := by
  induction hs with
  | slnil => intro _ _; rfl
  | @cons s l' a hs' _ =>
    intro hn hall
    rw [List.map_cons, List.nodup_cons] at hn
    exact absurd (List.mem_map_of_mem (hs'.subset (hall a (List.mem_cons_self ..)))) hn.1
  | @cons_cons s l' a hs' ih =>
    intro hn hall
    rw [List.map_cons, List.nodup_cons] at hn
    rw [ih hn.2 (fun x hx => by
      rcases List.mem_cons.mp (hall x (List.mem_cons_of_mem _ hx)) with rfl | h
      · exact absurd (List.mem_map_of_mem hx) hn.1
      · exact h)]

end PF.C01
