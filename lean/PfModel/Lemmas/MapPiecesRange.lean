/-
C06, round 2: the fuel of `pyRange` (`Model/MapPieces.lean`) is sufficient.  `pyRange fuel a b st` stops by itself — its guard
`(0 < st ∧ a < b) ∨ (st < 0 ∧ b < a)` fails — after at most `|b - a|` elements when `st ≠ 0`, and `slice.indices(n)` only
produces bounds within `[-1, n]`, so the `n + 1` that `sliceRange` passes never cuts a range short.  Core Lean only.
-/
import PfModel.Model.MapPieces
namespace PF.Pieces

/-- the measure that decreases along `range(a, b, st)`: the distance still to go -/
def rangeDist (a b st : Int) : Nat := if 0 < st then (b - a).toNat else (a - b).toNat

/-- **Fuel sufficiency**: with at least `rangeDist a b st` fuel, more fuel changes nothing -/
theorem pyRange_stable (st : Int) (hst : st ≠ 0) : ∀ (fuel : Nat) (a b : Int) (k : Nat), rangeDist a b st ≤ fuel →
    pyRange (fuel + k) a b st = pyRange fuel a b st := by
  intro fuel
  induction fuel with
  | zero =>
    intro a b k h
    cases k with
    | zero => rfl
    | succ k =>
      simp only [rangeDist] at h
      have hg : ¬ ((0 < st ∧ a < b) ∨ (st < 0 ∧ b < a)) := by
        split at h <;> omega
      simp only [Nat.zero_add, pyRange, hg, if_false]
  | succ n ih =>
    intro a b k h
    have e : n + 1 + k = (n + k) + 1 := by omega
    rw [e]
    simp only [pyRange]
    split
    · next hg =>
      congr 1
      apply ih
      simp only [rangeDist] at h ⊢
      split at h <;> split <;> omega
    · rfl

/-- with enough fuel the range ends because its guard fails, never because the fuel ran out: one more step yields nothing -/
theorem pyRange_complete (st : Int) (hst : st ≠ 0) (fuel : Nat) (a b : Int) (h : rangeDist a b st ≤ fuel) :
    pyRange (fuel + 1) a b st = pyRange fuel a b st := pyRange_stable st hst fuel a b 1 h

/-- every element of a range is `a + i * st`, in order -/
theorem pyRange_getElem (st : Int) : ∀ (fuel : Nat) (a b : Int) (i : Nat), i < (pyRange fuel a b st).length →
    (pyRange fuel a b st)[i]? = some (a + i * st) := by
  intro fuel
  induction fuel with
  | zero => intro a b i h; simp [pyRange] at h
  | succ n ih =>
    intro a b i h
    simp only [pyRange] at h ⊢
    split
    · next hg =>
      simp only [hg, if_true, List.length_cons] at h
      cases i with
      | zero => simp
      | succ j =>
        simp only [List.getElem?_cons_succ]
        rw [ih (a + st) b j (by omega)]
        congr 1
        push_cast
        rw [Int.add_mul]; omega
    · next hg => simp [hg] at h

/-- `PySlice_AdjustIndices` clamps into `[-1, n]` -/
theorem adjust_clamped (n : Nat) (neg : Bool) (v : Int) : -1 ≤ adjust n neg v ∧ adjust n neg v ≤ n := by
  cases neg <;> simp only [adjust, Bool.false_eq_true, if_false, if_true] <;> (split <;> split <;> omega)

theorem sliceStart_clamped (n : Nat) (st : Int) (start : Option Int) : -1 ≤ sliceStart n st start ∧ sliceStart n st start ≤ n := by
  cases start with
  | none => simp only [sliceStart]; split <;> omega
  | some v => exact adjust_clamped n _ v

theorem sliceStop_clamped (n : Nat) (st : Int) (stop : Option Int) : -1 ≤ sliceStop n st stop ∧ sliceStop n st stop ≤ n := by
  cases stop with
  | none => simp only [sliceStop]; split <;> omega
  | some v => exact adjust_clamped n _ v

/-- **The fuel `sliceRange` passes is enough**: `n + 1` bounds the distance between any two bounds `slice.indices(n)` yields -/
theorem sliceRange_fuel (n : Nat) (st : Int) (hst : st ≠ 0) (start stop : Option Int) (k : Nat) :
    pyRange (n + 1 + k) (sliceStart n st start) (sliceStop n st stop) st =
    pyRange (n + 1) (sliceStart n st start) (sliceStop n st stop) st := by
  apply pyRange_stable st hst
  have h1 := sliceStart_clamped n st start
  have h2 := sliceStop_clamped n st stop
  simp only [rangeDist]
  split <;> omega

end PF.Pieces
