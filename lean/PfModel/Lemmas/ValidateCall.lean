import PfModel.Lemmas.ValidateEdit
import PfModel.Model.ValidateCall
/-! Helper lemmas for the round-9 part of C12: the call path (`run` / `__call__` / `func(out)(**kw)`). -/
namespace PF.Validate
open PF PF.Map

/-- what the gate of `Pipeline.run` refuses once the cached properties are recomputed: the requested name is no node of the graph,
    a function upstream of it carries a MapSpec name, it is among the keyword arguments, or it is a root argument -/
def CallFault (fs : List MFunc) (q : CallReq) : Prop :=
  (nodeNames fs).contains q.output = false ∨ mapspecInDeps fs q.output = true ∨ q.kwargs.contains q.output = true ∨
  (allOutputs fs).contains q.output = false

theorem callChecks_isCheck (fs : List MFunc) (q : CallReq) : ∀ s ∈ callChecks fs q, isCheck s = true := by
  intro s hs
  simp only [callChecks, boolStep, List.mem_cons, List.not_mem_nil, or_false] at hs
  rcases hs with rfl | rfl | rfl | rfl <;> rfl

theorem funcChecks_isCheck (fs : List MFunc) (q : CallReq) : ∀ s ∈ funcChecks fs q, isCheck s = true := by
  intro s hs
  simp only [funcChecks, boolStep, List.mem_cons, List.not_mem_nil, or_false] at hs
  rcases hs with rfl | rfl | rfl <;> rfl

theorem refused_callChecks_iff (fs : List MFunc) (q : CallReq) :
    (∃ n res, Step.check n res ∈ callChecks fs q ∧ Refused res) ↔ CallFault fs q := by
  unfold callChecks boolStep CallFault
  constructor
  · rintro ⟨n, res, hm, hr⟩
    simp only [List.mem_cons, Step.check.injEq, List.not_mem_nil, or_false] at hm
    rcases hm with ⟨_, rfl⟩ | ⟨_, rfl⟩ | ⟨_, rfl⟩ | ⟨_, rfl⟩
    · exact Or.inl ((boolRes_refused _ _ _).mp hr)
    · have := (boolRes_refused _ _ _).mp hr
      exact Or.inr (Or.inl (by simpa using this))
    · have := (boolRes_refused _ _ _).mp hr
      exact Or.inr (Or.inr (Or.inl (by simpa using this)))
    · exact Or.inr (Or.inr (Or.inr ((boolRes_refused _ _ _).mp hr)))
  · rintro (h | h | h | h)
    · exact ⟨_, _, List.mem_cons_self, (boolRes_refused _ _ _).mpr h⟩
    · exact ⟨_, _, List.mem_cons_of_mem _ List.mem_cons_self, (boolRes_refused _ _ _).mpr (by rw [h]; rfl)⟩
    · exact ⟨_, _, List.mem_cons_of_mem _ (List.mem_cons_of_mem _ List.mem_cons_self), (boolRes_refused _ _ _).mpr (by rw [h]; rfl)⟩
    · exact ⟨_, _, List.mem_cons_of_mem _ (List.mem_cons_of_mem _ (List.mem_cons_of_mem _ List.mem_cons_self)),
        (boolRes_refused _ _ _).mpr h⟩

/-- the checks of `func` repeat two lazy checks and the first gate check: they refuse nothing that `run` would not refuse -/
theorem refused_funcChecks (fs : List MFunc) (q : CallReq) :
    (∃ n res, Step.check n res ∈ funcChecks fs q ∧ Refused res) → LazyFault fs ∨ CallFault fs q := by
  unfold funcChecks boolStep
  rintro ⟨n, res, hm, hr⟩
  simp only [List.mem_cons, Step.check.injEq, List.not_mem_nil, or_false] at hm
  rcases hm with ⟨_, rfl⟩ | ⟨_, rfl⟩ | ⟨_, rfl⟩
  · exact Or.inl (Or.inl ((boolRes_refused _ _ _).mp hr))
  · exact Or.inl (Or.inr (Or.inl ((boolRes_refused _ _ _).mp hr)))
  · exact Or.inr (Or.inl ((boolRes_refused _ _ _).mp hr))

theorem no_check_in_effs (calls : List String) :
    ¬ ∃ n res, Step.check n res ∈ (calls.map Effect.call).map Step.eff ∧ Refused res := by
  rintro ⟨n, res, hm, _⟩
  simp at hm

theorem refused_callSteps_iff (fs : List MFunc) (q : CallReq) (calls : List String) :
    Refused (exec (callSteps fs q calls)).2 ↔ LazyFault fs ∨ CallFault fs q := by
  unfold callSteps
  rw [refused_exec_append]
  constructor
  · rintro (⟨n, res, hm, hr⟩ | h)
    · rcases List.mem_append.mp hm with h | h
      · exact Or.inl ((refused_lazy_iff fs).mp ⟨n, res, h, hr⟩)
      · exact Or.inr ((refused_callChecks_iff fs q).mp ⟨n, res, h, hr⟩)
    · exact absurd h (no_check_in_effs calls)
  · rintro (h | h)
    · obtain ⟨n, res, hm, hr⟩ := (refused_lazy_iff fs).mpr h
      exact Or.inl ⟨n, res, List.mem_append.mpr (Or.inl hm), hr⟩
    · obtain ⟨n, res, hm, hr⟩ := (refused_callChecks_iff fs q).mpr h
      exact Or.inl ⟨n, res, List.mem_append.mpr (Or.inr hm), hr⟩

theorem gate_isCheck (fs : List MFunc) (q : CallReq) : ∀ s ∈ lazySteps fs ++ callChecks fs q, isCheck s = true := by
  intro s hs
  rcases List.mem_append.mp hs with h | h
  · exact lazySteps_isCheck fs s h
  · exact callChecks_isCheck fs q s h

/-- the call path either refuses with no effect at all, or performs exactly the calls of the evaluation -/
theorem callSteps_cases (fs : List MFunc) (q : CallReq) (calls : List String) :
    exec (callSteps fs q calls) = (calls.map Effect.call, .ok ()) ∨ ∃ e, exec (callSteps fs q calls) = ([], .error e) := by
  unfold callSteps
  rcases exec_checks _ (gate_isCheck fs q) ((calls.map Effect.call).map Step.eff) with h | h
  · rw [h, exec_effs]; exact Or.inl rfl
  · exact Or.inr h

theorem funcSteps_cases (fs : List MFunc) (q : CallReq) (calls : List String) :
    exec (funcChecks fs q ++ callSteps fs q calls) = (calls.map Effect.call, .ok ()) ∨
    ∃ e, exec (funcChecks fs q ++ callSteps fs q calls) = ([], .error e) := by
  rcases exec_checks _ (funcChecks_isCheck fs q) (callSteps fs q calls) with h | h
  · rw [h]; exact callSteps_cases fs q calls
  · exact Or.inr h

/-- a block of checks in front of anything: transparent when it passes, and its own refusal otherwise (whatever follows) -/
theorem exec_checks_append (C : List Step) (hC : ∀ s ∈ C, isCheck s = true) (rest : List Step) :
    ((exec C).2 = .ok () ∧ exec (C ++ rest) = exec rest) ∨ ∃ e, (exec C).2 = .error e ∧ exec (C ++ rest) = ([], .error e) := by
  induction C with
  | nil => exact Or.inl ⟨rfl, rfl⟩
  | cons s C ih =>
    have hs := hC s (List.mem_cons_self ..)
    have ih' := ih (fun t ht => hC t (List.mem_cons_of_mem _ ht))
    cases s with
    | eff x => simp [isCheck] at hs
    | check n r =>
      rw [List.cons_append, exec_check, exec_check]
      cases r with
      | error e => exact Or.inr ⟨e, rfl, rfl⟩
      | ok u => exact ih'

/-- when the gate has nothing to refuse, the call path IS round 3's `startRun` (lazy checks, then the calls) -/
theorem startCall_eq_startRun (fs : List MFunc) (q : CallReq) (calls : List String) (hc : ¬ CallFault fs q) :
    startCall fs q calls = startRun fs calls := by
  unfold startCall startRun callSteps
  rw [List.append_assoc]
  have hgate : exec (callChecks fs q ++ (calls.map Effect.call).map Step.eff) = exec ((calls.map Effect.call).map Step.eff) := by
    rcases exec_checks_append _ (callChecks_isCheck fs q) ((calls.map Effect.call).map Step.eff) with ⟨_, h⟩ | ⟨e, he, _⟩
    · exact h
    · exfalso
      apply hc
      have : Refused (exec (callChecks fs q)).2 := ⟨e, he⟩
      exact (refused_callChecks_iff fs q).mp ((refused_exec_iff _).mp this)
  rcases exec_checks_append _ (lazySteps_isCheck fs) (callChecks fs q ++ (calls.map Effect.call).map Step.eff) with ⟨hok1, h1⟩ | ⟨e, he, h1⟩
  · rcases exec_checks_append _ (lazySteps_isCheck fs) ((calls.map Effect.call).map Step.eff) with ⟨_, h2⟩ | ⟨e2, he2, _⟩
    · rw [h1, h2, hgate]
    · rw [hok1] at he2; cases he2
  · rcases exec_checks_append _ (lazySteps_isCheck fs) ((calls.map Effect.call).map Step.eff) with ⟨hok, _⟩ | ⟨e2, he2, h2⟩
    · rw [hok] at he; cases he
    · rw [h1, h2]; rw [he] at he2; cases he2; rfl

/-! ### `func_dependencies`: the direct upstream functions are among the dependencies -/

theorem seen_subset_depsFrom (fs : List MFunc) : ∀ (fuel : Nat) (frontier seen : List String) (n : String), n ∈ seen →
    n ∈ depsFrom fs fuel frontier seen := by
  intro fuel
  induction fuel with
  | zero => intro _ _ n h; exact h
  | succ k ih =>
    intro frontier seen n h
    simp only [depsFrom]
    split
    · exact h
    · exact ih _ _ n (List.mem_append.mpr (Or.inl h))

theorem upstream_mem_funcDeps (fs : List MFunc) (out : String) (f : MFunc) (hp : producer fs out = some f) (g : String)
    (hg : g ∈ upstream fs f) : g ∈ funcDeps fs out := by
  have hf : f ∈ fs := List.mem_of_find?_eq_some hp
  unfold funcDeps
  rw [hp]
  simp only [depsFrom]
  have hstep : g ∈ depsStep fs [f.name] [] := by
    unfold depsStep
    refine List.mem_filter.mpr ⟨?_, by simp⟩
    rw [List.mem_eraseDups]
    exact List.mem_flatMap.mpr ⟨f, List.mem_filter.mpr ⟨hf, by simp⟩, hg⟩
  split
  · rename_i hemp
    have : depsStep fs [f.name] [] = [] := List.isEmpty_iff.mp hemp
    rw [this] at hstep; cases hstep
  · exact seen_subset_depsFrom fs _ _ _ g (by simpa using hstep)

end PF.Validate
