import PfModel.Lemmas.LazySimTop
import PfModel.Props.C18
/-! Helper lemmas for `Props/C18Calls.lean`, part 4: from the simulation of a request to the calls `evaluate()` makes
(uses `C18_evaluate`, `C18_exact`, `C18_once` of `Props/C18.lean`). -/
namespace PF.Lazy
open PF PF.Pipe PF.C18

/-- what the simulation of a request says about its result: `ext` are the nodes the request created, `calls` the eager call log -/
structure SimOut (s s' : LSt) (a : LArg) (ext : List Lazy.Node) (calls : List String) (value : Val) : Prop where
  hext : s'.nodes = s.nodes ++ ext
  hcalls : calls = cnames ext
  hden : den s'.nodes a = some value
  needed : ∀ i nd, s.nodes.length ≤ i → s'.nodes[i]? = some nd → nd.isCall = true → Needs s'.nodes a i
  fresh : ∀ i, Needs s'.nodes a i → s.nodes.length ≤ i

theorem calls_now {fs : List Func} {s s' : LSt} {a : LArg} {ext : List Lazy.Node} {calls : List String} {value : Val}
    (hs : Sess fs s) (hev : s'.ev = s.ev) (hs' : Sess fs s') (so : SimOut s s' a ext calls value)
    {v : Val} {s'' : LSt} (he : evaluate a s' = .ok (v, s'')) :
    ∃ new, v = value ∧ s''.ev.log = s'.ev.log ++ new ∧ (callNames s''.nodes new).Perm calls ∧ (∀ i ∈ new, s.nodes.length ≤ i) := by
  obtain ⟨hext, hcalls, hden, hneeded, hfreshN⟩ := so
  obtain ⟨hdv, hs'', hnodes, _, new, hnew⟩ := C18_evaluate fs s' hs' a v s'' he
  obtain ⟨hexact, _⟩ := C18_exact fs s' hs' a v s'' he
  have hnd : (s'.ev.log ++ new).Nodup := by rw [← hnew]; exact C18_once fs s'' hs''
  obtain ⟨_, hndnew, hdisj⟩ := List.nodup_append.mp hnd
  have hold : ∀ i ∈ s'.ev.log, i < s.nodes.length := by
    intro i hi
    rw [hev] at hi
    obtain ⟨w, hw⟩ := Option.isSome_iff_exists.mp (hs.log.2 i hi)
    exact den_some_lt (hs.done i w hw)
  have hnewNeeds : ∀ i ∈ new, Needs s'.nodes a i := by
    intro i hi
    rcases (hexact i).mp (by rw [hnew]; exact List.mem_append_right _ hi) with h1 | h1
    · exact absurd rfl (hdisj i h1 i hi)
    · exact h1
  refine ⟨new, ?_, hnew, ?_, fun i hi => hfreshN i (hnewNeeds i hi)⟩
  · rw [hden] at hdv; injection hdv with e; exact e.symm
  · rw [hnodes, callNames_eq, hcalls, ← cnames_range ext s.nodes, ← hext]
    refine calls_perm hndnew ?_ ?_
    · intro i hi hp
      obtain ⟨nd, hn, _⟩ := cname_isSome hp
      have := getElem?_lt hn
      rw [hext, List.length_append] at this
      exact ⟨hfreshN i (hnewNeeds i hi), this⟩
    · intro i nd hb _ hn hc
      have hneed := hneeded i nd hb hn hc
      have : i ∈ s''.ev.log := (hexact i).mpr (Or.inr hneed)
      rw [hnew] at this
      rcases List.mem_append.mp this with h1 | h1
      · have := hold i h1; omega
      · exact h1

theorem calls_later {fs : List Func} {s s' : LSt} {a : LArg} {ext : List Lazy.Node} {calls : List String} {value : Val}
    (so : SimOut s s' a ext calls value)
    {sL : LSt} {more : List Lazy.Node} (hL : Sess fs sL) (hmore : sL.nodes = s'.nodes ++ more)
    {v : Val} {sL' : LSt} (he : evaluate a sL = .ok (v, sL')) :
    v = value ∧
      (callNames sL'.nodes (sL'.ev.log.filter fun i => s.nodes.length ≤ i && i < s'.nodes.length)).Perm calls := by
  obtain ⟨hext, hcalls, hden, hneeded, _⟩ := so
  obtain ⟨hdv, hsL', hnodes, _, _⟩ := C18_evaluate fs sL hL a v sL' he
  obtain ⟨hexact, _⟩ := C18_exact fs sL hL a v sL' he
  refine ⟨?_, ?_⟩
  · have : den sL.nodes a = some value := by rw [hmore]; exact den_ext more hden
    rw [this] at hdv; injection hdv with e; exact e.symm
  · have hlen : s'.nodes.length = s.nodes.length + ext.length := by rw [hext, List.length_append]
    have hrange : (List.range' s.nodes.length ext.length).filterMap (cname sL'.nodes) = cnames ext := by
      rw [← cnames_range ext s.nodes, ← hext]
      apply filterMap_congr_mem
      intro i hi
      have := (List.mem_range'_1.mp hi).2
      rw [hnodes, hmore]; exact cname_prefix _ _ (by omega)
    rw [callNames_eq, hcalls, ← hrange]
    refine calls_perm ((C18_once fs sL' hsL').sublist List.filter_sublist) ?_ ?_
    · intro i hi _
      have := (List.mem_filter.mp hi).2
      simp only [Bool.and_eq_true, decide_eq_true_eq] at this
      omega
    · intro i nd hb hk hn hc
      have hlt : i < s'.nodes.length := by omega
      rw [hnodes, hmore, List.getElem?_append_left hlt] at hn
      have hneed : Needs sL.nodes a i := by rw [hmore]; exact needs_ext more (hneeded i nd hb hn hc)
      refine List.mem_filter.mpr ⟨(hexact i).mpr (Or.inr hneed), ?_⟩
      simp only [Bool.and_eq_true, decide_eq_true_eq]; omega

end PF.Lazy
