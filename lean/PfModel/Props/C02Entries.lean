import PfModel.Lemmas.PipelineEntries
import PfModel.Props.C02
/-!
C02, continued — every public way of calling a pipeline is `Pipeline.run` (hence, by `C02_run_eq_compose`, the composition
along the DAG): `Pipeline.func(o)(**kw)`, `call_with_dict`, `call_with_root_args(*pos, **kw)` (the only entry point that
takes positional arguments: `Pipeline.__call__` takes the output name alone positionally), `pipeline(**kw)` on the unique
leaf, and `pipeline[o](**kw)` (`PipeFunc.__call__`).  The models are in `Model/PipelineEntries.lean`.
-/
namespace PF.C02
open PF PF.Pipe

/-- **`Pipeline.func(o)(**kw)` is `Pipeline.run(o, kwargs=kw)`**: it answers exactly when `root_args(o)` exists and `run`
    answers, with the same outcome (value, memo, call log). -/
theorem C02_func_eq_run (fs : List Func) (kw : List (String × Val)) (req : Req) (out : Outcome) :
    funcCall fs kw req = .ok out ↔ (reqRootArgs fs req).isSome ∧ runTop fs kw req = .ok out := by
  unfold funcCall
  cases reqRootArgs fs req <;> simp

/-- … and refuses like `run` otherwise: whenever `root_args(o)` exists the two calls are the same call. -/
theorem C02_func_eq_run_all (fs : List Func) (kw : List (String × Val)) (req : Req)
    (h : (reqRootArgs fs req).isSome) : funcCall fs kw req = runTop fs kw req := by
  unfold funcCall
  cases hr : reqRootArgs fs req with
  | none => simp [hr] at h
  | some _ => rfl

/-- an unknown output name is refused by `func` (a `KeyError` of `node_mapping`) -/
theorem C02_func_unknown (fs : List Func) (kw : List (String × Val)) (o : String) (h : producerIdx fs o = none) :
    funcCall fs kw (.name o) = .error (.noFunc o) := by
  simp [funcCall, reqRootArgs, rootArgs, argCombinations, h, Req.label]

/-! ### `call_with_root_args`: positional arguments -/

/-- **What `call_with_root_args(*pos, **kw)` binds**: when the binding succeeds the keyword dictionary handed to `run` has
    exactly the root arguments as keys, in signature order; the first `|pos|` carry the positional values in order, every
    other one the value of the keyword of that name; and every keyword given is one of those remaining root arguments. -/
theorem C02_bind_ok (roots : List String) (pos : List Val) (kw kw' : List (String × Val))
    (h : bindRoot roots pos kw = .ok kw') :
    pos.length ≤ roots.length ∧ akeys kw' = roots ∧
    (∃ l, kw' = roots.zip pos ++ l ∧ akeys l = roots.drop pos.length ∧ ∀ e ∈ l, alookup kw e.1 = some e.2) ∧
    (∀ k ∈ akeys kw, k ∈ roots ∧ k ∉ roots.take pos.length) := by
  unfold bindRoot at h
  split at h
  · cases h
  · next hlen =>
    have hle : pos.length ≤ roots.length := Nat.le_of_not_gt hlen
    split at h
    · cases h
    · next hmul =>
      split at h
      · cases h
      · next hunx =>
        split at h
        · cases h
        · next l hl =>
          cases h
          obtain ⟨h1, h2⟩ := bindRest_ok kw _ l hl
          refine ⟨hle, ?_, ⟨l, rfl, h1, h2⟩, ?_⟩
          · have := map_fst_zip_take roots pos hle
            simp only [akeys] at this h1
            simp only [akeys, List.map_append, this, h1, List.take_append_drop]
          · intro k hk
            have a := List.find?_eq_none.mp hmul k hk
            have b := List.find?_eq_none.mp hunx k hk
            simp only [List.contains_eq_mem, decide_eq_true_eq, decide_eq_false_iff_not,
              Bool.not_eq_eq_eq_not, Bool.not_true] at a b
            exact ⟨by simpa using b, by simpa using a⟩

/-- **Exact refusal of the binding** (`TypeError` of `Signature.bind`): too many positional values, a keyword that repeats a
    positionally given root argument, a keyword that is no root argument, or a root argument given neither way — a
    pipeline-wide default does *not* count (the generated signature has no defaults). -/
theorem C02_bind_refused_iff (roots : List String) (pos : List Val) (kw : List (String × Val)) :
    (∃ e, bindRoot roots pos kw = .error e) ↔
      roots.length < pos.length ∨ (∃ k ∈ akeys kw, k ∈ roots.take pos.length) ∨ (∃ k ∈ akeys kw, k ∉ roots) ∨
      (∃ r ∈ roots.drop pos.length, alookup kw r = none) := by
  unfold bindRoot
  by_cases hlen : pos.length > roots.length
  · simp [hlen]
  · simp only [hlen, ↓reduceIte]
    have hlen' : ¬ roots.length < pos.length := hlen
    cases hmul : (akeys kw).find? (fun k => (roots.take pos.length).contains k) with
    | some k =>
      have hk := List.mem_of_find?_eq_some hmul
      have hp := List.find?_some hmul
      simp only [List.contains_eq_mem, decide_eq_true_eq] at hp
      constructor
      · intro _; exact Or.inr (Or.inl ⟨k, hk, hp⟩)
      · intro _; exact ⟨_, rfl⟩
    | none =>
      have hno : ¬ ∃ k ∈ akeys kw, k ∈ roots.take pos.length := by
        rintro ⟨k, hk, hp⟩
        have := List.find?_eq_none.mp hmul k hk
        simp [hp] at this
      cases hunx : (akeys kw).find? (fun k => !(roots.contains k)) with
      | some k =>
        have hk := List.mem_of_find?_eq_some hunx
        have hp := List.find?_some hunx
        simp only [Bool.not_eq_eq_eq_not, Bool.not_true, List.contains_eq_mem, decide_eq_false_iff_not] at hp
        constructor
        · intro _; exact Or.inr (Or.inr (Or.inl ⟨k, hk, hp⟩))
        · intro _; exact ⟨_, rfl⟩
      | none =>
        have hno2 : ¬ ∃ k ∈ akeys kw, k ∉ roots := by
          rintro ⟨k, hk, hp⟩
          have := List.find?_eq_none.mp hunx k hk
          simp [hp] at this
        have hr := bindRest_err_iff kw (roots.drop pos.length)
        simp only []
        constructor
        · rintro ⟨e, he⟩
          refine Or.inr (Or.inr (Or.inr (hr.mp ?_)))
          cases hb : bindRest kw (roots.drop pos.length) with
          | error e' => exact ⟨e', rfl⟩
          | ok l => rw [hb] at he; cases he
        · intro h
          rcases h with h | h | h | h
          · first | exact absurd h hlen' | exact h.elim
          · exact absurd h hno
          · exact absurd h hno2
          · obtain ⟨e, he⟩ := hr.mpr h
            exact ⟨e, by rw [he]⟩

/-- **`call_with_root_args(*pos, **kw)` is `run` on the bound dictionary.** -/
theorem C02_call_with_root_args (fs : List Func) (req : Req) (pos : List Val) (kw : List (String × Val)) (out : Outcome) :
    callRoot fs req pos kw = .ok out ↔
      ∃ roots kw', reqRootArgs fs req = some roots ∧ bindRoot roots pos kw = .ok kw' ∧ runTop fs kw' req = .ok out := by
  unfold callRoot
  cases reqRootArgs fs req with
  | none => simp
  | some roots =>
    cases hb : bindRoot roots pos kw with
    | error e => simp [hb]
    | ok kw' =>
      cases hr : runTop fs kw' req with
      | error e => simp [liftE, hr, hb]
      | ok o => simp [liftE, hr, hb]

/-- all root arguments given positionally: the call is `run` with the root arguments zipped with the values -/
theorem C02_call_positional (fs : List Func) (req : Req) (roots : List String) (pos : List Val)
    (hr : reqRootArgs fs req = some roots) (hl : pos.length = roots.length) :
    callRoot fs req pos [] = liftE (runTop fs (roots.zip pos) req) := by
  unfold callRoot bindRoot
  simp [hr, hl, akeys, bindRest]

/-! ### `pipeline(**kw)` on the unique leaf, `pipeline[o](**kw)` -/

/-- **`pipeline(**kw)` without an output name** is `run` on the `output_name` of the unique leaf function, and is refused
    (`ValueError`) exactly when the number of leaf functions is not one. -/
theorem C02_call_leaf (fs : List Func) (kw : List (String × Val)) (out : Outcome) :
    callLeaf fs kw = .ok out ↔ ∃ f, leafFuncs fs = [f] ∧ runTop fs kw (reqOf f) = .ok out := by
  unfold callLeaf
  split
  · next f hf =>
    cases hr : runTop fs kw (reqOf f) with
    | error e => simp [liftE, hr, hf]
    | ok o => simp [liftE, hr, hf]
  · next l hne =>
    constructor
    · intro h; cases h
    · rintro ⟨f, hf, _⟩; exact absurd hf (hne f)

/-- **`PipeFunc.__call__` precedence** (`defaults | kwargs | bound`): a bound value wins, else the keyword, else the function's
    own default. -/
theorem C02_pipefunc_precedence (f : Func) (kw : List (String × Val)) (p : String) :
    (∀ v, alookup f.bound p = some v → pfArg f kw p = some v) ∧
    (alookup f.bound p = none → ∀ v, alookup kw p = some v → pfArg f kw p = some v) ∧
    (alookup f.bound p = none → alookup kw p = none → pfArg f kw p = alookup f.defaults p) := by
  refine ⟨?_, ?_, ?_⟩
  · intro v h; simp [pfArg, h]
  · intro hb v h; simp [pfArg, hb, h]
  · intro hb hk; simp [pfArg, hb, hk]

/-- **`pipeline[o](**kw)`**: when the direct call of a `PipeFunc` answers, every keyword is one of its parameters and the
    wrapped function was applied to one argument per parameter — keyed by the wrapped function's own name (inverse rename),
    carrying the value `defaults | kwargs | bound` delivers. -/
theorem C02_pipefunc_call (f : Func) (kw : List (String × Val)) (v : Val) (h : pfCall f kw = .ok v) :
    (∀ k ∈ akeys kw, ∃ orig, (k, orig) ∈ f.params) ∧
    ∃ a, v = result f a ∧ a.length = f.params.length ∧
      ∀ i (hi : i < f.params.length) (ha : i < a.length),
        (a[i]).1 = (f.params[i]).2 ∧ pfArg f kw (f.params[i]).1 = some (a[i]).2 := by
  unfold pfCall at h
  split at h
  · cases h
  · next hno =>
    split at h
    · cases h
    · next a ha =>
      cases h
      refine ⟨?_, a, rfl, pfArgs_ok f kw f.params a ha⟩
      intro k hk
      have := List.find?_eq_none.mp hno k hk
      have h2 : f.params.any (fun x => decide (x.1 = k)) = true := by
        cases hc : f.params.any (fun x => decide (x.1 = k)) with
        | true => rfl
        | false => simp [hc] at this
      obtain ⟨⟨p, orig⟩, hm, he⟩ := List.any_eq_true.mp h2
      simp only [decide_eq_true_eq] at he
      exact ⟨orig, by rw [← he]; exact hm⟩

/-! ### non-vacuity (the diamond of `Props/C02.lean`: `x → a`, `(a, y=7) → (b, c)`, `(a, b, c) → d`) -/

example : reqRootArgs [fD, fB, fA] (.name "d") = some ["x", "y"] := by decide
example : (funcCall [fD, fB, fA] [("x", .int 1)] (.name "d")).toOption.map (·.calls) = some ["fa", "fb", "fd"] := by decide
example : ∃ out, funcCall [fD, fB, fA] [("x", .int 1)] (.name "d") = .ok out :=
  ⟨_, (C02_func_eq_run _ _ _ _).mpr ⟨by decide, rfl⟩⟩
/-- positional: `call_with_root_args(1, 2)` is `run(d, kwargs={x: 1, y: 2})` -/
example : bindRoot ["x", "y"] [.int 1, .int 2] [] = .ok [("x", .int 1), ("y", .int 2)] := by rfl
example : bindRoot ["x", "y"] [.int 1] [("y", .int 2)] = .ok [("x", .int 1), ("y", .int 2)] := by rfl
/-- the pipeline default `y = 7` does not help: `call_with_root_args(1)` is a `TypeError` -/
example : bindRoot ["x", "y"] [.int 1] [] = .error (.missingRoot "y") := by rfl
example : bindRoot ["x", "y"] [.int 1] [("x", .int 2), ("y", .int 2)] = .error (.multiple "x") := by rfl
example : bindRoot ["x", "y"] [.int 1, .int 2, .int 3] [] = .error .tooMany := by rfl
example : bindRoot ["x", "y"] [.int 1] [("y", .int 2), ("a", .int 0)] = .error (.unexpected "a") := by rfl
example : (callRoot [fD, fB, fA] (.name "d") [.int 1, .int 2] []).toOption.map (·.calls) = some ["fa", "fb", "fd"] := by decide
example : callRoot [fD, fB, fA] (.name "d") [.int 1, .int 2] [] = liftE (runTop [fD, fB, fA] [("x", .int 1), ("y", .int 2)] (.name "d")) :=
  C02_call_positional _ _ ["x", "y"] _ (by decide) rfl
/-- unique leaf `fd`; with `fb` alone there are two leaves… no: `fb` is one function with a tuple output, one leaf -/
example : (leafFuncs [fD, fB, fA]).map (·.name) = ["fd"] := by decide
example : (callLeaf [fD, fB, fA] [("x", .int 1)]).toOption.map (·.calls) = some ["fa", "fb", "fd"] := by decide
example : (callLeaf [fB, fA] [("x", .int 1)]).toOption.map (·.value) =
    some (.tup [.pick (.app "fb" [("a", .app "fa" [("x", .int 1)]), ("y", .int 7)]) "b",
                .pick (.app "fb" [("a", .app "fa" [("x", .int 1)]), ("y", .int 7)]) "c"]) := by rfl
example : callLeaf [fA, ⟨"g", [("x", "x")], ["z"], [], []⟩] [("x", .int 1)] = .error (.leaves 2) := by rfl
/-- `pipeline["d"](a=1, b=2, c=3)`: inverse renames `a→p, b→q, c→r`; a keyword wins over the default, an unknown keyword is refused -/
example : pfCall fD [("a", .int 1), ("b", .int 2), ("c", .int 3)] = .ok (.app "fd" [("p", .int 1), ("q", .int 2), ("r", .int 3)]) := by rfl
example : pfCall fB [("a", .int 1)] = .ok (.tup [.pick (.app "fb" [("a", .int 1), ("y", .int 7)]) "b", .pick (.app "fb" [("a", .int 1), ("y", .int 7)]) "c"]) := by
  rfl
example : pfCall fB [("a", .int 1), ("y", .int 0)] = .ok (.tup [.pick (.app "fb" [("a", .int 1), ("y", .int 0)]) "b", .pick (.app "fb" [("a", .int 1), ("y", .int 0)]) "c"]) := by
  rfl
example : pfCall fB [("a", .int 1), ("zz", .int 0)] = .error (.extraKw "zz") := by rfl

end PF.C02
