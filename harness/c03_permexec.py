"""Controllable executors and run helpers for the C03 check.

`PermCore` + `PermExecutor`: a `concurrent.futures.Executor` that *queues* submissions and runs the queued task bodies in
a harness-chosen permutation — either when the parent first asks a future for its result (`Pipeline.map`) or, for
`Pipeline.map_async` (which never blocks on a future), from a debounce timer after the last submission.  Several
`PermExecutor`s (one per output, say) may share one core, so that the bodies submitted to *different* executors are
interleaved in one schedule.  Everything goes through the public `executor=` argument.

A hang (a future that is never resolved, a map call that does not return) is turned into `Hang`, never into a blocked
harness.
"""
from __future__ import annotations

import functools
import hashlib
import os
import threading
import time
from concurrent.futures import Executor, Future

import terms

BODY = threading.local()          # BODY.depth > 0 while a task body runs under a PermExecutor


class Hang(Exception):
    """The run did not finish: the schedule that was being played is the replay."""


def in_body() -> bool:
    return getattr(BODY, "depth", 0) > 0


def label_of(fn, args):
    """(output_name, external linear index | None) of a submitted task — used only to *name* tasks in schedules/replays."""
    try:
        if isinstance(fn, functools.partial) and "func" in fn.keywords:
            on = fn.keywords["func"].output_name
            return ["+".join(on) if isinstance(on, tuple) else on, int(args[0])]
        if getattr(fn, "__name__", "") == "_execute_single":
            on = args[0].output_name
            return ["+".join(on) if isinstance(on, tuple) else on, None]
    except Exception:  # noqa: BLE001
        pass
    return ["?", None]


class PermFuture(Future):
    def __init__(self, core):
        super().__init__()
        self._core = core

    def result(self, timeout=None):
        self._core.flush()
        try:
            return super().result(self._core.wait if timeout is None else timeout)
        except TimeoutError as e:
            raise Hang("future never resolved") from e

    def exception(self, timeout=None):
        self._core.flush()
        return super().exception(self._core.wait if timeout is None else timeout)


class PermCore:
    """The shared queue.  `choose(n, batch_no)` returns the order (a permutation of range(n)) in which the n queued bodies run."""

    def __init__(self, choose, debounce: float | None = 0.5, wait: float = 20.0):
        self.choose = choose
        self.debounce = debounce
        self.wait = wait
        self.pending: list = []
        self.batches: list = []       # per flush: {"labels": [...], "tags": [...], "order": [...]}
        self.lock = threading.RLock()
        self.timer = None
        self.flushing = False
        self.submitted_during_flush = 0
        self.timer_flushes = 0        # batches released by the timer rather than by the parent asking for a result

    def submit(self, tag, fn, args, kwargs):
        f = PermFuture(self)
        with self.lock:
            if self.flushing:
                self.submitted_during_flush += 1
            self.pending.append((f, fn, args, kwargs, tag))
            if self.debounce is not None:
                if self.timer is not None:
                    self.timer.cancel()
                self.timer = threading.Timer(self.debounce, self.flush, args=(True,))
                self.timer.daemon = True
                self.timer.start()
        return f

    def flush(self, from_timer=False):
        with self.lock:
            if self.flushing:
                return
            batch, self.pending = self.pending, []
            if not batch:
                return
            self.flushing = True
            self.timer_flushes += bool(from_timer)
        try:
            order = list(self.choose(len(batch), len(self.batches)))
            assert sorted(order) == list(range(len(batch))), order
            self.batches.append({"labels": [label_of(fn, a) for _, fn, a, _, _ in batch], "tags": [t for *_, t in batch], "order": order})
            for i in order:
                f, fn, a, k, _ = batch[i]
                if not f.set_running_or_notify_cancel():
                    continue
                BODY.depth = getattr(BODY, "depth", 0) + 1
                try:
                    r = fn(*a, **k)
                except BaseException as e:  # noqa: BLE001
                    f.set_exception(e)
                else:
                    f.set_result(r)
                finally:
                    BODY.depth -= 1
        finally:
            with self.lock:
                self.flushing = False


def close_core(core: "PermCore", wait: float = 2.0):
    """End of a run: no queued body may start afterwards, and a flush in progress (timer thread) is waited for — bodies of a
    finished (failed) run must not write into the next run's logs or print after the streams have been restored."""
    with core.lock:
        if core.timer is not None:
            core.timer.cancel()
        for f, *_ in core.pending:
            f.cancel()
        core.pending = []
        core.debounce = None
    t0 = time.time()
    while core.flushing and time.time() - t0 < wait:
        time.sleep(0.002)


class PermExecutor(Executor):
    def __init__(self, core: PermCore, tag: str = ""):
        self.core, self.tag = core, tag

    def submit(self, fn, /, *args, **kwargs):
        return self.core.submit(self.tag, fn, args, kwargs)

    def shutdown(self, wait=True, *, cancel_futures=False):  # noqa: FBT002
        self.core.flush()


class TagExecutor(Executor):
    """A real executor that remembers which tasks it was given (to observe the executor selection per output)."""

    def __init__(self, inner: Executor, tag: str, record: list):
        self.inner, self.tag, self.record = inner, tag, record

    def submit(self, fn, /, *args, **kwargs):
        self.record.append((self.tag, label_of(fn, args)))
        return self.inner.submit(fn, *args, **kwargs)

    def shutdown(self, wait=True, *, cancel_futures=False):  # noqa: FBT002
        self.inner.shutdown(wait=wait, cancel_futures=cancel_futures)


class PLog(terms.CallLog):
    """File-backed call log that survives pickling into pool workers (the base class holds a lock)."""

    def __reduce__(self):
        return (PLog, (self.path,))


class SeededDelay:
    """Deterministic per-call delay in [0, max_s): a function of (seed, function arguments) only — picklable."""

    def __init__(self, seed: int, max_s: float):
        self.seed, self.max_s = seed, max_s

    def __call__(self, kw_enc):
        h = hashlib.sha1(f"{self.seed}:{kw_enc!r}".encode()).digest()
        return (h[0] * 256 + h[1]) / 65536.0 * self.max_s


class FailAt:
    """`fail=` hook of a generated function: raises `exc` at the call whose encoded keyword arguments equal `target`.
    The target is (re)set per run; picklable (process pools)."""

    def __init__(self):
        self.target = None
        self.cls = "Fail"

    def __call__(self, kw_enc, idx):
        if self.target is not None and kw_enc == self.target:
            return {"Fail": terms.Fail, "KeyError": KeyError, "ValueError": ValueError}[self.cls]("injected failure")
        return None


def run_with_watchdog(fn, timeout: float):
    """Run `fn()` in the calling (main) thread under an interval timer; ("ok", value) | ("exc", exception) | ("hang", None).

    SIGALRM interrupts blocking lock waits and socket reads, so a parent stuck in `Future.result()` or in a Manager proxy
    call is released.  No helper thread: the pipeline code forks (process pools, `multiprocessing.Manager`) and a fork
    taken while other threads hold locks is itself a source of hangs."""
    import signal

    if threading.current_thread() is not threading.main_thread():
        try:
            return "ok", fn()
        except BaseException as e:  # noqa: BLE001
            return "exc", e

    def on_alarm(signum, frame):
        raise Hang(f"no result after {timeout} s")

    old = signal.signal(signal.SIGALRM, on_alarm)
    signal.setitimer(signal.ITIMER_REAL, timeout)
    try:
        return "ok", fn()
    except Hang:
        return "hang", None
    except BaseException as e:  # noqa: BLE001
        return "exc", e
    finally:
        signal.setitimer(signal.ITIMER_REAL, 0)
        signal.signal(signal.SIGALRM, old)


def kill_pool(ex):
    """Best effort: stop a (possibly hung) real pool."""
    try:
        procs = list(getattr(ex, "_processes", {}).values()) if getattr(ex, "_processes", None) else []
        ex.shutdown(wait=False, cancel_futures=True)
        for p in procs:
            try:
                p.kill()
            except Exception:  # noqa: BLE001
                pass
    except Exception:  # noqa: BLE001
        pass


# ------------------------------------------------------------------------------------------------ write gate (fault operator)
GATE = {"gate": None}


class DumpGate:
    """Lines up the worker THREADS of one process that are inside the write step of a storage dump (`cloudpickle.dump(obj, file)`:
    the scratch file is open, nothing is published yet).  Every arriving writer is held — once before it writes ("pre": all scratch
    files open, none written) and once after ("post": all written, none renamed into place) — until `parties` writers are held or
    no further writer has arrived for `quiet` seconds (never longer than `max_hold`).  The held interleaving is one the OS scheduler
    may produce by itself: k tasks of a generation complete at the same moment.  The parent thread and bodies run by the permuting
    executor are never held.  `waves` records, per released group, the phase and the names of the files the writers had open."""

    def __init__(self, parties: int, quiet: float = 0.02, max_hold: float = 0.5):
        self.parties, self.quiet, self.max_hold = max(2, int(parties)), quiet, max_hold
        self.cond = threading.Condition()
        self.wave = {"pre": 0, "post": 0}
        self.waiting = {"pre": [], "post": []}
        self.last = {"pre": 0.0, "post": 0.0}
        self.waves: list = []
        self.owner = threading.get_ident()
        self.closed = False

    def _release(self, phase):
        self.waves.append([phase, list(self.waiting[phase])])
        self.waiting[phase] = []
        self.wave[phase] += 1
        self.cond.notify_all()

    def hold(self, phase, name):
        if self.closed or threading.get_ident() == self.owner or in_body():
            return
        with self.cond:
            w = self.wave[phase]
            self.waiting[phase].append(name)
            self.last[phase] = t0 = time.monotonic()
            if len(self.waiting[phase]) >= self.parties:
                self._release(phase)
                return
            self.cond.notify_all()            # the others re-compute their quiet period
            while self.wave[phase] == w and not self.closed:
                now = time.monotonic()
                until = min(self.last[phase] + self.quiet, t0 + self.max_hold)
                if now >= until:
                    self._release(phase)
                    break
                self.cond.wait(until - now)

    def close(self):
        with self.cond:
            self.closed = True
            self.cond.notify_all()

    def summary(self):
        """{"waves": number of released groups, "max": largest group, "shared": scratch files two writers of one group had open}."""
        shared = sorted({os.path.basename(str(n)) for _, names in self.waves for n in names if n is not None and names.count(n) > 1})
        return {"waves": len(self.waves), "max": max([len(n) for _, n in self.waves] or [0]), "shared": shared}


def install_gate_hook():
    """Wrap `cloudpickle.dump` (the file-writing entry; `dumps` is untouched) once per process.  Without an active gate it is the original."""
    import cloudpickle

    if getattr(cloudpickle.dump, "_c03gate", False):
        return
    orig = cloudpickle.dump

    def dump(obj, file, *a, **k):
        g = GATE["gate"]
        if g is None:
            return orig(obj, file, *a, **k)
        name = getattr(file, "name", None)
        g.hold("pre", name)
        r = orig(obj, file, *a, **k)
        try:
            file.flush()
        except Exception:  # noqa: BLE001
            pass
        g.hold("post", name)
        return r

    dump._c03gate = True
    cloudpickle.dump = dump


def now_ms() -> int:
    return int(time.time() * 1000)


def pid() -> int:
    return os.getpid()
