"""C02 — Calling a pipeline equals composing its functions along the DAG.

Correspondence: every public way of calling — `pipeline(o, **kw)`, `pipeline()` (unique leaf), `Pipeline.run(full_output=…)`,
`Pipeline.func(o)(**kw)`, `.call_full_output`, `.call_with_dict`, `.call_with_root_args(*pos, **kw)`, `pipeline[o]` and
`pipeline[o](**direct)` / `pipeline[o](*pos)` — plus `arg_combinations`, `root_args`, `func_dependencies` on generated DAGs (tuple
outputs, shared parameters, defaults, bound values, renames, nullary functions) under several listing orders, against `PF.Pipe`
(lean/PfModel/Model/Pipeline.lean, PipelineEntries.lean).  User functions build terms, so the value *is* the composition that was
evaluated.  A second stream wraps the same descriptions in many callable styles (props_extra/c02_sig.py: class, callable instance,
partial, method, lambda, keyword-only, custom output_picker, None / falsy / mutable defaults), ties what `PipeFunc` reports from
`inspect.signature` to the description, and runs them through the same comparison, also with `profile=True`, `debug=True` and a cache.
"""
from __future__ import annotations

import copy

import pfimport  # noqa: F401
from pfimport import exc_enum

import pipegen
import terms
from props_extra import c02_sig, c02_session

PID = "C02"
PROPS = ["PfModel.Props.C02", "PfModel.Props.C02Needed", "PfModel.Props.C02Entries", "PfModel.Props.C02Session", "PfModel.Props.C02View",
         "PfModel.Props.C02Order", "PfModel.Props.C02WF"]
DRIVER = "C02"
RULE = ("random DAGs of 1-6 term-building functions (nullary, tuple outputs, shared parameters, defaults, bound values incl. over an "
        "upstream output, renames); for every output every listed argument combination (all when <= 16, else 16 sampled) plus "
        "surplus-keyword and missing-keyword variants, through the entry points call/run/full_output/func(o)/call_full_output/"
        "call_with_dict/call_with_root_args (valid and ill-bound positional splits)/pipeline() without a name/pipeline[o](**direct)/"
        "pipeline[o](*positional), 2 extra listing orders; a second stream wraps every function in a random callable style (def, lambda, "
        "class, callable instance, method, classmethod, functools.partial x2, keyword-only, dict + output_picker) with None/falsy/mutable "
        "defaults and falsy keyword values, ties PipeFunc.parameters/defaults/bound/renames/output_name to the description and runs the "
        "same comparison on 4 builds (plain, PipeFunc(defaults=)+profile, debug, cache twice); a third stream runs SESSIONS on one "
        "pipeline object (built with signature or PipeFunc(defaults=) defaults, listed or permuted): 2-4 rounds of in-place edits "
        "(update_defaults/update_bound/update_renames on a member, update_defaults/update_renames on the pipeline, unknown keys) each "
        "followed by ~5 calls through the same entry points (defaulted root arguments omitted at random), arg_combinations/root_args and "
        "Pipeline.defaults, every answer compared with the model of the edited description; a case is non-trivial when the requested "
        "output's producer has at least one upstream function (a session step: when at least one edit precedes it); distinct by "
        "(pipeline, output, keywords, entry) / (session prefix)")
ASSUMPTIONS = ["inspect.signature is outside the model: the model is fed the parameter lists of the generated functions; the signature "
               "tie checks PipeFunc.parameters/defaults/bound/renames/output_name against the description for ten callable styles",
               "networkx graph construction is mirrored by the model's `preds`/`leafFuncs`; only sets of combinations are compared",
               "values are uninterpreted terms (a function is identified by the term it builds)",
               "positional-only parameters, *args/**kwargs and callables without __name__ are outside the property: probed and counted as observations",
               "with a cache only values (second identical call) are compared; lazy=True is not exercised",
               "sessions: what an edit does to the description (PF.Pipe.applyEdit) is compared, not proved against the update_* code; edits "
               "stay inside the class of accepted edits that keep the pipeline valid (refusals are C12's subject); output renames only on "
               "single-output functions; sessions use the two plain builds (no cache, no styled callables)"]

enc = c02_sig.enc
FALSY = [None, 0, {"s": ""}, {"s": "$False"}]
PIPELINE_ENTRIES = ("call", "run", "full", "func", "func_full", "func_dict", "callroot", "noout")
MODEL_ENTRY = {"call": "run", "run": "run", "full": "run", "func": "func", "func_full": "func", "func_dict": "func",
               "callroot": "callroot", "noout": "callleaf", "pfcall": "pfcall", "pfpos": "pfpos", "getitem": "getitem"}
OK_KINDS = ("listed", "tuple-request", "func-each-output", "root-pos", "pf-direct")      # must be accepted


def canon(j):
    return c02_sig.norm(terms.canon(j))


def kwval(k):
    return {"s": f"kw:{k}"}


def _key(k):
    return k if isinstance(k, str) else ",".join(k)


def _full(d):
    return sorted([[_key(k), enc(v)] for k, v in d.items()], key=lambda kv: kv[0])


def call_impl(p, log, entry, out, kw, pos=None):
    """Returns the canonical observation of one call of the real pipeline."""
    log.clear()
    pykw = {k: terms.dec(v) for k, v in kw}
    pypos = [terms.dec(v) for v in (pos or [])]
    o = out if isinstance(out, str) or out is None else tuple(out)
    try:
        if entry == "call":
            obs = {"value": enc(pipegen.quiet(p, o, **pykw))}
        elif entry == "noout":
            obs = {"value": enc(pipegen.quiet(p, **pykw))}
        elif entry == "run":
            obs = {"value": enc(pipegen.quiet(p.run, o, kwargs=pykw))}
        elif entry == "full":
            d = pipegen.quiet(p.run, o, full_output=True, kwargs=pykw)
            obs = {"value": enc(d[o]), "full": _full(d)}
        elif entry == "func":
            obs = {"value": enc(pipegen.quiet(p.func(o), **pykw))}
        elif entry == "func_full":
            d = pipegen.quiet(p.func(o).call_full_output, **pykw)
            obs = {"value": enc(d[o]), "full": _full(d)}
        elif entry == "func_dict":
            obs = {"value": enc(pipegen.quiet(p.func(o).call_with_dict, pykw))}
        elif entry == "callroot":
            obs = {"value": enc(pipegen.quiet(p.func(o).call_with_root_args, *pypos, **pykw))}
        elif entry in ("pfcall", "pfpos"):
            obs = {"value": enc(pipegen.quiet(p[o], *pypos, **pykw))}
        elif entry == "getitem":
            pf = p[o]
            on = pf.output_name
            obs = {"name": pf.__name__, "outputs": [on] if isinstance(on, str) else list(on)}
        else:
            raise AssertionError(entry)
    except Exception as e:  # noqa: BLE001
        obs = {"err": exc_enum(e)}
    obs["calls"] = log.names()
    return obs


def _producer(desc, out):
    if out is None:
        return None
    return next((f for f in desc["funcs"] if (out in f["outputs"] if isinstance(out, str) else f["outputs"] == list(out))), None)


def model_obs(r, entry, out, desc):
    """canonical form of the model's answer for one entry point"""
    if "err" in r:
        return {"err": r["err"]}
    if entry == "getitem":
        return {"name": r["name"], "outputs": r["outputs"], "calls": []}
    whole = None                                 # the output names when the answer is a function's whole (tuple) output
    if entry == "noout":
        whole = r["leaf"][0] if len(r["leaf"][0]) > 1 else None
    elif entry in ("pfcall", "pfpos"):
        f = _producer(desc, out)
        whole = f["outputs"] if f is not None and len(f["outputs"]) > 1 else None
    elif not isinstance(out, str):
        whole = list(out)
    value = canon(r["value"])
    parts = value["arr"][1] if whole and isinstance(value, dict) and "arr" in value else None
    if whole and parts is not None and (_producer(desc, whole) or {}).get("style") == "dictpicker":
        value = {"dict": sorted([[n, e] for n, e in zip(whole, parts)], key=lambda kv: kv[0])}   # the function returns a dict
    o = {"value": value}
    dict_whole = bool(whole and (_producer(desc, whole) or {}).get("style") == "dictpicker")
    if entry in ("full", "func_full") and "fullview" in r and not dict_whole:
        # the dictionary view is computed in Lean (PF.Pipe.fullView, theorems in Props/C02View.lean)
        o["full"] = sorted([[k, canon(v)] for k, v in r["fullview_cf" if entry == "func_full" else "fullview"]], key=lambda kv: kv[0])
    elif entry in ("full", "func_full"):
        # a dict-returning function with a custom output_picker: Val has no dict, the whole value is re-shaped here
        full = {}
        for k, v in r["full"]:                                # an association list: the first entry of a name is the live one
            full.setdefault(k, canon(v))
        if whole:
            full.setdefault(_key(whole), value)               # `all_results[func.output_name] = r` under the tuple key
            if entry == "func_full" and parts is not None:     # call_full_output adds the individual names
                for n, e in zip(whole, parts):
                    full.setdefault(n, e)
        o["full"] = sorted([[k, v] for k, v in full.items()], key=lambda kv: kv[0])
    o["calls"] = r["calls"] if "calls" in r else [r["name"]]
    return o


def _val(rng, k, falsy_kw):
    return rng.choice(falsy_kw) if falsy_kw and rng.random() < 0.2 else kwval(k)


def cases_for(ctx, desc, rng, p, max_combos=16, falsy_kw=None):
    """case dicts {entry, out, kw, kind[, pos]} for one pipeline, using the REAL pipeline's arg_combinations / root_args."""
    cases = []
    outs_all = pipegen.all_outputs(desc)

    def add(entry, out, kw, kind, pos=None):
        c = {"entry": entry, "out": out, "kw": kw, "kind": kind}
        if pos is not None:
            c["pos"] = pos
        cases.append(c)

    def kws(names):
        return [[k, _val(rng, k, falsy_kw)] for k in names]

    for f in desc["funcs"]:
        outs = list(f["outputs"]) + ([list(f["outputs"])] if len(f["outputs"]) > 1 and rng.random() < 0.3 else [])
        for o in outs:
            if not isinstance(o, str):
                roots = None
                try:
                    roots = p.root_args(tuple(o))
                except Exception:  # noqa: BLE001
                    pass
                if roots is not None:
                    add(rng.choice(["call", "call", "full", "func", "func_full", "func_dict"]), o, kws(roots), "tuple-request")
                    k = rng.randint(0, len(roots))
                    add("callroot", o, kws(roots[k:]), "root-pos", pos=[_val(rng, n, falsy_kw) for n in roots[:k]])
                continue
            try:
                combos = sorted(p.arg_combinations(o))
            except Exception as e:  # noqa: BLE001
                ctx.count(f"argcomb-exc:{exc_enum(e)}")
                continue
            if len(combos) > max_combos:
                combos = rng.sample(combos, max_combos)
            for combo in combos:
                entry = rng.choice(["call", "call", "run", "full", "func", "func_full", "func_dict"])
                if entry == "func" and any(k in outs_all for k in combo):
                    entry = "call"                      # kept from round 1: Pipeline.func(o) with root arguments only
                add(entry, o, kws(combo), "listed")
            roots = next((c for c in combos if not any(k in outs_all for k in c)), None)
            if combos and len(f["outputs"]) > 1 and roots is not None:
                # Pipeline.func(o) for every output of a tuple-output function, in sequence on the same pipeline object
                add("func", o, kws(roots), "func-each-output")
            try:
                roots = list(p.root_args(o))
            except Exception:  # noqa: BLE001
                roots = None
            if roots is not None:
                # call_with_root_args: a valid split between positional and keyword, and one ill-bound variant
                k = rng.randint(0, len(roots))
                add("callroot", o, kws(roots[k:]), "root-pos", pos=[_val(rng, n, falsy_kw) for n in roots[:k]])
                bad = rng.choice(["toomany", "dup", "missing", "unexpected"])
                allpos = [kwval(n) for n in roots]
                if bad == "toomany":
                    add("callroot", o, [], "root-bad:toomany", pos=allpos + [kwval("extra")])
                elif bad == "dup" and roots:
                    add("callroot", o, kws(roots[:1]), "root-bad:dup", pos=allpos)
                elif bad == "missing" and roots:
                    drop = rng.choice(roots)       # also one that has a pipeline default: the signature has no defaults
                    k2 = min(k, roots.index(drop))
                    add("callroot", o, kws([n for n in roots[k2:] if n != drop]), "root-bad:missing", pos=allpos[:k2])
                elif bad == "unexpected":
                    add("callroot", o, kws(roots[k:] + ["zz"]), "root-bad:unexpected", pos=allpos[:k])
            if combos:
                base = list(rng.choice(combos))
                pool = [n for n in (["r0", "r1", "r2", "zz"] + outs_all) if n not in base and n != o]
                if pool:
                    extra = rng.choice(pool)
                    add(rng.choice(["call", "call", "func_full", "func_dict"]), o, kws(base + [extra]), "surplus")
                if base:
                    drop = rng.choice(base)
                    add(rng.choice(["call", "call", "func_dict"]), o, kws([k for k in base if k != drop]), "missing")
        # pipeline[o]: the PipeFunc itself, called directly
        o = rng.choice(f["outputs"]) if rng.random() < 0.7 or len(f["outputs"]) == 1 else list(f["outputs"])
        add("getitem", o, [], "getitem")
        bound = [b[0] for b in f.get("bound", [])]
        dflt = [d[0] for d in f.get("defaults", [])]
        names = [q for q, _ in f["params"]]
        direct = [q for q in names if (q in bound and rng.random() < 0.3) or (q in dflt and rng.random() < 0.5) or (q not in bound and q not in dflt)]
        add("pfcall", o, [[q, _val(rng, q + ":direct", falsy_kw)] for q in direct], "pf-direct")
        required = [q for q in names if q not in bound and q not in dflt]
        if required and rng.random() < 0.3:
            drop = rng.choice(required)
            add("pfcall", o, [[q, kwval(q + ":direct")] for q in direct if q != drop], "pf-missing")
        if rng.random() < 0.3:
            add("pfcall", o, [[q, kwval(q + ":direct")] for q in direct + ["zz"]], "pf-extra")
        if names and f.get("style", "def") in ("def", "lambda", "class", "instance", "method", "classmethod") and rng.random() < 0.6:
            k = rng.randint(1, len(names))
            rest = [q for q in names[k:] if q in direct]
            touched = any(q in bound or q in dflt for q in names[:k])
            add("pfpos", o, [[q, kwval(q + ":direct")] for q in rest], "pf-pos:default-or-bound" if touched else "pf-pos",
                pos=[kwval(q + ":direct") for q in names[:k]])
    add("getitem", "nosuch", [], "getitem-unknown")
    # pipeline() without an output name
    try:
        leaves = p.leaf_nodes
        roots = list(p.root_args(leaves[0].output_name)) if len(leaves) == 1 else []
    except Exception as e:  # noqa: BLE001
        ctx.count(f"leaf-exc:{exc_enum(e)}")
        roots = []
    add("noout", None, kws(roots), "noout")
    return cases


def model_request(desc, c):
    entry = c["entry"]
    a = {"funcs": desc["funcs"], "kw": c["kw"]}
    if entry != "noout":
        a["out"] = c["out"]
    if entry == "callroot":
        a["pos"] = c.get("pos", [])
    if entry == "pfpos":
        a["pos"] = c["pos"]
    if entry == "getitem":
        del a["kw"]
    return {"m": MODEL_ENTRY[entry], "a": a}


BASE_VARIANTS = [("listing-order-0", {"defaults_in_signature": True}, False),
                 ("listing-order-1+PipeFunc-defaults", {"defaults_in_signature": False}, True),
                 ("listing-order-2", {"defaults_in_signature": True}, True)]
STYLED_VARIANTS = [("plain+cache_type=None+lazy=False", {"defaults_in_signature": True, "cache_type": None, "lazy": False}, False),
                   ("permuted+PipeFunc-defaults+profile", {"defaults_in_signature": False, "profile": True}, True),
                   ("permuted+debug", {"defaults_in_signature": True, "debug": True}, True),
                   ("cache", {"defaults_in_signature": True, "cache": True, "cache_type": "lru"}, False)]


def build_variants(ctx, desc, rng, styled):
    n = len(desc["funcs"])
    built = []
    for label, kw, permute in (STYLED_VARIANTS if styled else BASE_VARIANTS):
        order = None
        if permute:
            if n <= 1:
                if not styled:
                    continue
            else:
                order = list(range(n)); rng.shuffle(order)
        kw = dict(kw)
        if kw.get("cache_type") == "lru" and styled:
            kw["cache_type"] = rng.choice(["lru", "simple", "hybrid"])
            if kw["cache_type"] != "simple":
                # a shared cache starts a multiprocessing manager process per pipeline (slow): one in ten
                kw["cache_kwargs"] = {"shared": rng.random() < 0.1}
            ctx.count(f"cache:{kw['cache_type']}{':shared' if kw.get('cache_kwargs', {}).get('shared') else ''}")
        if styled:
            p, log, by_name = c02_sig.build_styled(desc, order=order, **kw)
            c02_sig.tie(ctx, desc, by_name, label)
        else:
            p, log = pipegen.build(desc, order=order, **kw)
        built.append((label, p, log))
    return built


def check_pipeline(ctx, desc, rng, styled=False):
    reqs, metas = [], []
    built = build_variants(ctx, desc, rng, styled)
    # 0 == False: one pipeline (its caches are keyed by the keyword values) uses only one of the two, see c02_sig.stylise
    falsy = [v for v in FALSY if v != (0 if desc.get("zero") == "false" else {"s": "$False"})] if styled else None
    cases = cases_for(ctx, desc, rng, built[0][1], falsy_kw=falsy)
    for c in cases:
        obs = []
        for label, p, log in built:
            ob = call_impl(p, log, c["entry"], c["out"], c["kw"], c.get("pos"))
            if label == "cache":
                # the second identical call must return the same value (the log may be shorter: values only)
                ob2 = call_impl(p, log, c["entry"], c["out"], c["kw"], c.get("pos"))
                ob = {"first": ob, "second": ob2}
            obs.append((label, ob))
        reqs.append(model_request(desc, c))
        metas.append(("case", c, obs))
    p = built[0][1]
    for o in pipegen.all_outputs(desc):
        try:
            impl = {"combos": sorted(sorted(c) for c in p.arg_combinations(o)), "root_args": sorted(p.root_args(o)),
                    "deps": sorted(sorted([d] if isinstance(d, str) else list(d)) for d in p.func_dependencies(o))}
        except Exception as e:  # noqa: BLE001
            impl = {"err": exc_enum(e)}
        reqs.append({"m": "argcombos", "a": {"funcs": desc["funcs"], "out": o}})
        metas.append(("argcombos", {"entry": None, "out": o, "kw": None, "kind": "argcombos"}, impl))
    return reqs, metas


def judge(ctx, desc, req, meta, resp, styled=False):
    kind0, c, impl = meta
    r = resp["r"]
    entry, out, kw, kind = c["entry"], c["out"], c["kw"], c["kind"]
    case = {"funcs": desc["funcs"], **c}
    if styled:
        case["styled"] = True
    if kind0 == "argcombos":
        model = {"combos": sorted(sorted(c) for c in (r["combos"] or [])), "root_args": sorted(r["root_args"] or []),
                 "deps": sorted(sorted(d) for d in (r["deps"] or []))}
        ctx.count("op:argcombos")
        ctx.record(case, nontrivial=len(model["combos"]) > 1)
        if impl != model:
            ctx.violation(case, f"arg_combinations/root_args/func_dependencies of {out} differ from the model",
                          found_input=False, item="correspondence:argcombos", impl=impl, model=model)
        return
    model = model_obs(r, entry, out, desc)
    ctx.count(f"op:{entry}:{kind}")
    if entry == "noout":
        ctx.count("noout:unique-leaf" if "err" not in model else "noout:several-leaves")
    pipeline_entry = entry in PIPELINE_ENTRIES
    corr = {} if pipeline_entry else {"found_input": False, "item": f"correspondence:{entry}"}   # pipeline[o] is not named by the property
    producer = _producer(desc, out if entry != "noout" else (r["leaf"][0][0] if "leaf" in r else None))
    nontrivial = producer is not None and any(q in pipegen.all_outputs(desc) for q, _ in producer["params"])
    ctx.record(case, nontrivial)
    if kind == "pf-pos:default-or-bound":
        # PipeFunc.__call__ merges `defaults | kwargs | bound` into the keywords before `self.func(*args, **kwargs)`: a positionally
        # passed parameter that has a default or a bound value arrives twice.  Not a C02 clause: an observation.
        for label, ob in impl:
            ob = ob["second"] if "second" in ob else ob
            ctx.count(f"observation:pipefunc-positional-arg-for-defaulted-or-bound-parameter:{ob.get('err', 'accepted')}")
        # judged since round 9: the model (PF.Pipe.pfCallPos) says `TypeError: multiple values` (falls through to the comparison below)
    for i, (label, ob) in enumerate(impl):
        values_only = "second" in ob
        if values_only:
            first, ob = ob["first"], ob["second"]
            if kind not in OK_KINDS and kind != "noout":
                continue                # a cache hit skips the unused-keyword check (`None in used_parameters`): accept/refuse not compared
            if ("err" in first) != ("err" in ob) or ("err" not in ob and first["value"] != ob["value"]):
                ctx.violation({**case, "variant": label}, "the second identical call of a cached pipeline does not return the value of the first",
                              impl={"first": first, "second": ob}, model=model, **corr)
                continue
        ob_c = dict(ob)
        mod_c = dict(model)
        vcase = case if i == 0 else {**case, "variant": label}
        # the call log is compared as a multiset plus the model's order validity; errors only as accept/reject
        if "err" in ob_c or "err" in mod_c:
            if kind in OK_KINDS and "err" in ob_c and pipeline_entry:
                ctx.violation(vcase, f"argument combination listed by arg_combinations is rejected ({ob_c['err']}) [{label}]", impl=ob_c, model=mod_c)
            elif ("err" in ob_c) != ("err" in mod_c):
                what = (f"request {'rejected' if 'err' in ob_c else 'accepted'} by the implementation ({ob_c.get('err', 'ok')}) but not by the "
                        f"specification ({mod_c.get('err', 'ok')}) ({kind}, {entry}) [{label}]")
                ctx.violation(vcase, what, impl=ob_c, model=mod_c, **corr)
            elif kind == "surplus" and ob_c["err"] != "UnusedParametersError" and mod_c["err"] == "UnusedParametersError":
                ctx.violation(vcase, "surplus keyword rejected with a different error class", found_input=False,
                              item="correspondence:error-class", impl=ob_c, model=mod_c)
            elif (kind.startswith("root-bad") or kind in ("getitem-unknown", "pf-extra", "noout", "pf-pos:default-or-bound")) and ob_c["err"] != mod_c["err"]:
                ctx.violation(vcase, f"{entry} ({kind}) refused with {ob_c['err']} instead of {mod_c['err']}", found_input=False,
                              item="correspondence:error-class", impl=ob_c, model=mod_c)
            ctx.count(f"err:{kind}")
            continue
        if entry == "getitem":
            lam = (_producer(desc, out) or {}).get("style") == "lambda"          # a lambda's __name__ is "<lambda>"
            if ob_c["outputs"] != mod_c["outputs"] or (not lam and ob_c["name"].split(".")[-1] != mod_c["name"]):
                ctx.violation(vcase, f"pipeline[{out!r}] is not the function producing it", impl=ob_c, model=mod_c, **corr)
            continue
        if ob_c["value"] != mod_c["value"]:
            ctx.violation(vcase, f"value differs from the composition along the DAG ({entry}) [{label}]", impl=ob_c, model=mod_c, **corr)
        elif values_only:
            ctx.count("cache:second-call-value-agrees")
        elif sorted(ob_c["calls"]) != sorted(mod_c["calls"]):
            ctx.violation(vcase, f"functions executed {sorted(ob_c['calls'])} instead of exactly the needed ones {sorted(mod_c['calls'])} [{label}]",
                          impl=ob_c, model=mod_c, **corr)
        elif "full" in mod_c and ob_c.get("full") == mod_c["full"] and any(dict(map(tuple, [[k, str(v)] for k, v in ob_c["full"]])).get(k) != str(canon(v)) for k, v in kw):
            # model and code agree; noted for the reader: a supplied output of a tuple producer that still runs (for a sibling output) is
            # overwritten in `all_results` by the recomputed value, although the consumers received the supplied one
            ctx.count("observation:full_output-shows-recomputed-value-for-supplied-sibling-output")
        elif "full" in mod_c and ob_c.get("full") != mod_c["full"]:
            ctx.violation(vcase, f"full_output is not the memo of the same evaluation ({entry}) [{label}]", impl=ob_c, model=mod_c)
        else:
            # dependencies first: position of each function after the producers of the values it consumed
            pos = {c: k for k, c in enumerate(ob_c["calls"])}
            for f in desc["funcs"]:
                if f["name"] in pos:
                    for pn, _ in f["params"]:
                        g = next((g for g in desc["funcs"] if pn in g["outputs"]), None)
                        if g is not None and g["name"] in pos and pos[g["name"]] > pos[f["name"]] and pn not in [k for k, _ in kw] \
                                and pn not in [b[0] for b in f.get("bound", [])]:
                            ctx.violation(vcase, f"{f['name']} executed before its dependency {g['name']}", impl=ob_c, model=mod_c)
    if r.get("spec") is not None and "err" not in model and canon(r["spec"]) != model["value"]:
        raise AssertionError("model run and specification disagree (extraction bug?)")


CORPUS: list = [
    # DF-25: tuple-output producer of which the consumer uses one output only
    {"funcs": [{"name": "f0", "params": [["r0", "r0"]], "outputs": ["o0a", "o0b"], "defaults": [], "bound": []},
               {"name": "f1", "params": [["o0b", "o0b"], ["r1", "r1"]], "outputs": ["o1"], "defaults": [], "bound": []}]},
    {"funcs": [{"name": "f0", "params": [["r0", "a0"]], "outputs": ["o0"], "defaults": [["r0", {"s": "dflt:r0"}]], "bound": []},
               {"name": "f1", "params": [["o0", "o0"], ["r0", "r0"]], "outputs": ["o1a", "o1b"], "defaults": [], "bound": []},
               {"name": "f2", "params": [["o1a", "x"], ["o0", "y"], ["o1b", "z"]], "outputs": ["o2"], "defaults": [], "bound": [["o0", {"s": "bound:o0:f2"}]]}]},
    # sequence-valued results (terms.SEQ_SUFFIX): a single output that IS a tuple, a tuple output whose parts are 1-D arrays, a list - passed on
    {"funcs": [{"name": "f0_pair", "params": [["r0", "r0"]], "outputs": ["o0"], "defaults": [], "bound": []},
               {"name": "f1_nd", "params": [["o0", "a0"], ["r1", "r1"]], "outputs": ["o1a", "o1b"], "defaults": [["r1", {"s": "dflt:r1"}]], "bound": []},
               {"name": "f2_lst", "params": [["o1a", "o1a"], ["o0", "o0"]], "outputs": ["o2"], "defaults": [], "bound": []},
               {"name": "f3", "params": [["o2", "o2"], ["o1b", "b"]], "outputs": ["o3"], "defaults": [], "bound": []}]},
]

# styled corpus: every style once, with None / falsy / mutable defaults (the values short-cuts get wrong)
STYLED_CORPUS: list = [
    {"funcs": [{"name": "f0", "params": [["r0", "a0"], ["r1", "r1"]], "outputs": ["o0"], "defaults": [["r1", None]], "bound": [], "style": "class"},
               {"name": "f1", "params": [["o0", "o0"], ["r2", "r2"]], "outputs": ["o1a", "o1b"], "defaults": [["r2", 0]], "bound": [], "style": "dictpicker", "rename_out": True},
               {"name": "f2", "params": [["o1a", "x"], ["r0", "r0"]], "outputs": ["o2"], "defaults": [["r0", {"s": ""}]], "bound": [["o1a", {"s": "bound:o1a:f2"}]], "style": "instance"},
               {"name": "f3", "params": [["o1b", "o1b"], ["o2", "y"], ["r1", "z"]], "outputs": ["o3"], "defaults": [["r1", None]], "bound": [], "style": "kwonly"}]},
    {"funcs": [{"name": "f0", "params": [["r0", "r0"]], "outputs": ["o0"], "defaults": [["r0", {"arr": [[0], []]}]], "bound": [], "style": "partial_pos"},
               {"name": "f1_none", "params": [["o0", "a0"], ["r1", "r1"]], "outputs": ["o1"], "defaults": [["r1", {"s": "${}"}]], "bound": [], "style": "method"},
               {"name": "f2", "params": [["o1", "o1"], ["r2", "r2"], ["xk2", "xk2"]], "outputs": ["o2a", "o2b"],
                "defaults": [["r2", {"s": ""}], ["xk2", {"s": "partial:xk2"}]], "bound": [], "style": "partial_kwextra"},
               {"name": "f3", "params": [["o2a", "o2a"], ["o2b", "b"]], "outputs": ["o3"], "defaults": [], "bound": [], "style": "lambda"},
               {"name": "f4", "params": [["o3", "o3"], ["r1", "r1"]], "outputs": ["o4"], "defaults": [["r1", {"s": "${}"}]], "bound": [], "style": "classmethod", "rename_out": True}]},
    # sequence-valued results through the styled callables (they honour terms.seq_of like terms.make_func): a callable instance returning a
    # tuple as its ONE output, a dict of 1-D arrays picked by a custom output_picker, a bound method returning a list, a partial returning an array
    {"funcs": [{"name": "f0_pair", "params": [["r0", "r0"]], "outputs": ["o0"], "defaults": [["r0", None]], "bound": [], "style": "instance"},
               {"name": "f1_nd", "params": [["o0", "a0"], ["r1", "r1"]], "outputs": ["o1a", "o1b"], "defaults": [["r1", 0]], "bound": [], "style": "dictpicker", "rename_out": True},
               {"name": "f2_lst", "params": [["o1a", "o1a"], ["o0", "o0"]], "outputs": ["o2"], "defaults": [], "bound": [], "style": "method"},
               {"name": "f3_nd", "params": [["o2", "o2"], ["o1b", "b"]], "outputs": ["o3"], "defaults": [], "bound": [], "style": "partial_pos"},
               {"name": "f4", "params": [["o3", "o3"], ["o0", "o0"]], "outputs": ["o4"], "defaults": [], "bound": [], "style": "kwonly"}]},
]


def run(ctx):
    rng = ctx.rng
    observations = c02_sig.probe_observations(ctx)
    ctx.count("observations-probed", len(observations))
    streams = []
    descs = [copy.deepcopy(d) for d in CORPUS]
    for _ in range(ctx.n(150, 4000)):
        descs.append(pipegen.gen_dag(rng, max_funcs=rng.choice([2, 3, 4, 5, 6])))
    streams.append((False, descs))
    sdescs = [copy.deepcopy(d) for d in STYLED_CORPUS]
    for _ in range(ctx.n(90, 1500)):
        sdescs.append(c02_sig.stylise(rng, pipegen.gen_dag(rng, max_funcs=rng.choice([2, 3, 4, 5, 6]), p_default=0.5), ctx))
    streams.append((True, sdescs))
    all_reqs, all_meta = [], []
    for styled, ds in streams:
        for desc in ds:
            try:
                reqs, metas = check_pipeline(ctx, desc, rng, styled=styled)
            except Exception as e:  # noqa: BLE001   construction refused a generated (valid) pipeline
                ctx.count(f"construct-exc:{exc_enum(e)}")
                ctx.violation({"funcs": desc["funcs"], **({"styled": True} if styled else {})},
                              f"valid pipeline refused at construction: {type(e).__name__}: {str(e)[:100]}")
                continue
            all_reqs += reqs
            all_meta += [(desc, m, styled) for m in metas]
    # sessions on one object: corpus, then generated while they run (the arguments come from the object's own arg_combinations)
    sessions = [(copy.deepcopy(s), None) for s in c02_session.CORPUS]
    for _ in range(ctx.n(70, 1500)):
        desc = pipegen.gen_dag(rng, max_funcs=rng.choice([2, 3, 4, 5]), p_default=0.45)
        try:
            sessions.append(c02_session.run_session(_SELF(), ctx, rng, desc))
        except Exception as e:  # noqa: BLE001
            ctx.count(f"session-construct-exc:{exc_enum(e)}")
            ctx.violation({"funcs": desc["funcs"]}, f"valid pipeline refused at construction: {type(e).__name__}: {str(e)[:100]}")
    for i, (sess, obs) in enumerate(sessions):
        if obs is None:
            sessions[i] = (sess, c02_session.replay_impl(_SELF(), sess))
        all_reqs.append(c02_session.model_request(sess))
        all_meta.append((None, ("session", i), False))
    outs = ctx.lean(all_reqs)
    for req, (desc, meta, styled), resp in zip(all_reqs, all_meta, outs):
        if meta[0] == "session":
            c02_session.judge(_SELF(), ctx, sessions[meta[1]][0], sessions[meta[1]][1], resp)
            continue
        judge(ctx, desc, req, meta, resp, styled=styled)


def _SELF():
    import sys
    return sys.modules[__name__]


def replay(ctx, case):
    if case.get("session"):
        obs = c02_session.replay_impl(_SELF(), case)
        answers = ctx.lean([c02_session.model_request(case)])[0]["r"]["answers"]
        for i, (st, ob, a) in enumerate(zip(case["steps"], obs, answers)):
            print(f"step {i}: {st['e'] if st['k'] == 'edit' else {k: st.get(k) for k in ('entry', 'out', 'kw', 'pos', 'kind')}}")
            print("   implementation:", ob)
            print("   model:         ", a if st["k"] == "edit" else c02_session._model_obs(_SELF(), st, a))
        return
    desc = {"funcs": case["funcs"]}
    styled = case.get("styled")
    if case.get("sig_tie"):
        p, log, by_name = c02_sig.build_styled(desc)
        f = next(f for f in case["funcs"] if f["name"] == case["sig_tie"])
        print("PipeFunc reports:", c02_sig.reported(by_name[f["name"]]))
        print("description:     ", c02_sig.described(f))
        return
    if not case.get("entry") and case.get("out") is None:
        try:
            (c02_sig.build_styled if styled else pipegen.build)(desc)
            print("construction: ok")
        except Exception as e:  # noqa: BLE001
            print("construction:", type(e).__name__, e)
        return
    variants = STYLED_VARIANTS if styled else BASE_VARIANTS
    for label, kw, permute in variants:
        if case.get("variant") not in (None, label):
            continue
        order = list(reversed(range(len(case["funcs"])))) if permute else None
        if styled:
            p, log, _ = c02_sig.build_styled(desc, order=order, **kw)
        else:
            p, log = pipegen.build(desc, order=order, **kw)
        if case.get("entry"):
            ob = call_impl(p, log, case["entry"], case["out"], case["kw"], case.get("pos"))
            if label == "cache":
                ob = {"first": ob, "second": call_impl(p, log, case["entry"], case["out"], case["kw"], case.get("pos"))}
            print(f"implementation [{label}]:", ob)
        else:
            print("combos:", sorted(p.arg_combinations(case["out"])))
    if case.get("entry"):
        r = ctx.lean([model_request(desc, case)])[0]["r"]
        print("model:", model_obs(r, case["entry"], case["out"], desc), "raw:", r)
    else:
        print("model:", ctx.lean([{"m": "argcombos", "a": {"funcs": case["funcs"], "out": case["out"]}}])[0]["r"])
