import PfModel.Lemmas.MapPiecesFlowVal
/-!
Data flow of a run in pieces, part 3: the relation between the store of a part and the store of the full run at the same
point of the generation loop, and the fact that under it `_select_kwargs` delivers the same arguments at selected indices.
-/
namespace PF.Pieces
open PF PF.Map

/-- a slot of the part's store against the full run's slot of the same name: whole values are equal; an array has the same
    shape and mask, holds only elements the full run holds, and holds every element its producer's selection covers -/
def SlotRel (fx : List (String × Sel)) (ns : List String) (shE : List Nat) (mkE : List Bool) : Slot → Slot → Prop
  | .single v, .single w => v = w
  | .array sh mk c, .array sh' mk' c' =>
      sh = shE ∧ mk = mkE ∧ sh' = shE ∧ mk' = mkE ∧ shE.length = mkE.length ∧ ns.length = mkE.length ∧
      (∀ li v, cellLookup c li = some v → cellLookup c' li = some v) ∧
      (∀ F, InRange shE F → selFullB fx mkE ns shE F = true →
        (cellLookup c (ravel (extOf mkE shE) (extOf mkE F))).isSome = true)
  | _, _ => False

/-- position by position: same names, related slots -/
def StoreRel (fs : List MFunc) (shapes : List (String × List Nat)) (masks : List (String × List Bool)) (fx : List (String × Sel)) :
    List (String × Slot) → List (String × Slot) → Prop
  | [], [] => True
  | (n, s) :: r, (n', s') :: r' =>
      n = n' ∧ (producer fs n).isSome = true ∧ SlotRel fx (axesOf fs n) (shapeOfName shapes n) (maskOfName masks n) s s' ∧
      StoreRel fs shapes masks fx r r'
  | _, _ => False

section rel
variable (fs : List MFunc) (shapes : List (String × List Nat)) (masks : List (String × List Bool)) (fx : List (String × Sel))

theorem storeRel_append : ∀ (a a' b b' : List (String × Slot)), StoreRel fs shapes masks fx a a' → StoreRel fs shapes masks fx b b' →
    StoreRel fs shapes masks fx (a ++ b) (a' ++ b') := by
  intro a
  induction a with
  | nil => intro a' b b' h1 h2; cases a' with
    | nil => simpa using h2
    | cons _ _ => simp [StoreRel] at h1
  | cons x xs ih =>
    intro a' b b' h1 h2
    cases a' with
    | nil => obtain ⟨n, s⟩ := x; simp [StoreRel] at h1
    | cons y ys =>
      obtain ⟨n, s⟩ := x; obtain ⟨n', s'⟩ := y
      simp only [StoreRel, List.cons_append] at h1 ⊢
      exact ⟨h1.1, h1.2.1, h1.2.2.1, ih ys b b' h1.2.2.2 h2⟩

theorem storeRel_lookup : ∀ (P F : List (String × Slot)), StoreRel fs shapes masks fx P F → ∀ n,
    (alookup P n = none ∧ alookup F n = none) ∨
    ∃ sP sF, alookup P n = some sP ∧ alookup F n = some sF ∧ (producer fs n).isSome = true ∧
      SlotRel fx (axesOf fs n) (shapeOfName shapes n) (maskOfName masks n) sP sF := by
  intro P
  induction P with
  | nil => intro F h n; cases F with
    | nil => left; simp [alookup]
    | cons _ _ => simp [StoreRel] at h
  | cons x xs ih =>
    intro F h n
    cases F with
    | nil => obtain ⟨m, s⟩ := x; simp [StoreRel] at h
    | cons y ys =>
      obtain ⟨m, s⟩ := x; obtain ⟨m', s'⟩ := y
      simp only [StoreRel] at h
      obtain ⟨hm, hp, hs, hr⟩ := h
      subst hm
      simp only [alookup]
      by_cases e : m = n
      · subst e; right; exact ⟨s, s', by simp, by simp, hp, hs⟩
      · simp only [e, ↓reduceIte]; exact ih ys hr n

theorem storeRel_map (outs : List String) (sP sF : String → Slot)
    (h : ∀ o ∈ outs, (producer fs o).isSome = true ∧ SlotRel fx (axesOf fs o) (shapeOfName shapes o) (maskOfName masks o) (sP o) (sF o)) :
    StoreRel fs shapes masks fx (outs.map fun o => (o, sP o)) (outs.map fun o => (o, sF o)) := by
  induction outs with
  | nil => simp [StoreRel]
  | cons o os ih =>
    simp only [List.map_cons, StoreRel]
    exact ⟨trivial, (h o List.mem_cons_self).1, (h o List.mem_cons_self).2, ih (fun o' ho' => h o' (List.mem_cons_of_mem _ ho'))⟩

end rel

theorem mapM_congr' {α β} (f g : α → M β) : ∀ (l : List α), (∀ a ∈ l, f a = g a) → l.mapM f = l.mapM g := by
  intro l
  induction l with
  | nil => intro _; rfl
  | cons a as ih =>
    intro h
    rw [List.mapM_cons, List.mapM_cons, h a List.mem_cons_self, ih (fun x hx => h x (List.mem_cons_of_mem _ hx))]

/-- what `_func_kwargs` finds for a parameter in the part's environment and in the full run's: the same thing, or two related
    stored arrays -/
theorem argWhole_rel (fs : List MFunc) (shapes : List (String × List Nat)) (masks : List (String × List Bool)) (fx : List (String × Sel))
    (inputs : List (String × Val)) (P F : List (String × Slot)) (hrel : StoreRel fs shapes masks fx P F) (g : MFunc) (p : String) :
    argWhole fs { inputs := inputs, store := P } g p = argWhole fs { inputs := inputs, store := F } g p ∨
    ∃ cP cF, alookup g.bound p = none ∧ alookup inputs p = none ∧ (producer fs p).isSome = true ∧
      argWhole fs { inputs := inputs, store := P } g p = .ok (Slot.array (shapeOfName shapes p) (maskOfName masks p) cP).toVal ∧
      argWhole fs { inputs := inputs, store := F } g p = .ok (Slot.array (shapeOfName shapes p) (maskOfName masks p) cF).toVal ∧
      SlotRel fx (axesOf fs p) (shapeOfName shapes p) (maskOfName masks p)
        (.array (shapeOfName shapes p) (maskOfName masks p) cP) (.array (shapeOfName shapes p) (maskOfName masks p) cF) := by
  unfold argWhole
  cases hb : alookup g.bound p with
  | some v => left; rfl
  | none =>
    cases hi : alookup inputs p with
    | some v => left; rfl
    | none =>
      simp only []
      rcases storeRel_lookup fs shapes masks fx P F hrel p with ⟨h1, h2⟩ | ⟨sP, sF, h1, h2, hp, hs⟩
      · left; rw [h1, h2]
      · rw [h1, h2]
        cases sP with
        | single v =>
          cases sF with
          | single w => left; simp only [SlotRel] at hs; subst hs; rfl
          | array _ _ _ => simp [SlotRel] at hs
        | array sh mk c =>
          cases sF with
          | single w => simp [SlotRel] at hs
          | array sh' mk' c' =>
            right
            have hs' := hs
            simp only [SlotRel] at hs
            obtain ⟨e1, e2, e3, e4, _⟩ := hs
            subst e1; subst e2
            rw [e3, e4] at hs' ⊢
            exact ⟨c, c', trivial, trivial, hp, rfl, rfl, hs'⟩

/-- related arrays agree at every selected element -/
theorem slotRel_agree (fx : List (String × Sel)) (ns : List String) (sh : List Nat) (mk : List Bool) (cP cF : List (Nat × Val))
    (h : SlotRel fx ns sh mk (.array sh mk cP) (.array sh mk cF)) (F : List Nat) (hin : InRange sh F)
    (hsel : selFullB fx mk ns sh F = true) :
    cellLookup cP (ravel (extOf mk sh) (extOf mk F)) = cellLookup cF (ravel (extOf mk sh) (extOf mk F)) := by
  simp only [SlotRel] at h
  obtain ⟨_, _, _, _, _, _, hsub, hsome⟩ := h
  have := hsome F hin hsel
  cases hc : cellLookup cP (ravel (extOf mk sh) (extOf mk F)) with
  | none => rw [hc] at this; cases this
  | some v => rw [hsub _ v hc]

/-- a parameter taken whole: the same value in both environments -/
theorem argWhole_whole (fs : List MFunc) (shapes : List (String × List Nat)) (masks : List (String × List Bool)) (fx : List (String × Sel))
    (inputs : List (String × Val)) (P F : List (String × Slot)) (hrel : StoreRel fs shapes masks fx P F) (g : MFunc) (p : String)
    (hok : ((alookup g.bound p).isSome || (alookup inputs p).isSome || (producer fs p).isNone || wholeOK fs masks fx p) = true) :
    argWhole fs { inputs := inputs, store := P } g p = argWhole fs { inputs := inputs, store := F } g p := by
  rcases argWhole_rel fs shapes masks fx inputs P F hrel g p with h | ⟨cP, cF, hb, hi, hp, h1, h2, hs⟩
  · exact h
  · rw [h1, h2]
    have hw : wholeOK fs masks fx p = true := by
      simp only [hb, hi, Option.isSome_none, Bool.false_or] at hok
      cases hpp : producer fs p with
      | none => rw [hpp] at hp; cases hp
      | some _ => simpa [hpp] using hok
    congr 1
    apply toVal_agree
    intro Fi hin
    apply slotRel_agree fx _ _ _ _ _ hs Fi hin
    apply selFullB_unfixed
    · intro x hx
      unfold wholeOK at hw
      have := (List.all_eq_true.mp hw) x hx
      simpa using this
    · exact hin

/-- **`_select_kwargs` at a selected index delivers the same arguments in the part and in the full run** -/
theorem selectArgs_flow (fs : List MFunc) (shapes : List (String × List Nat)) (masks : List (String × List Bool)) (fx : List (String × Sel))
    (inputs : List (String × Val)) (P F : List (String × Slot)) (hrel : StoreRel fs shapes masks fx P F) (g : MFunc) (ms : MSpec)
    (o : String) (hok : funcOK fs shapes masks inputs fx g = true) (hms : g.mapspec = some ms) (hin : ms.inputs.isEmpty = false)
    (ho : g.outputs.head? = some o) (lsG : List (List Nat)) (E : List Nat)
    (hls : selLists (extOf (maskOfName masks o) (ms.outputIndices.map (fixedLookup fx)))
      (extOf (maskOfName masks o) (shapeOfName shapes o)) = .ok lsG)
    (hE : InRange (extOf (maskOfName masks o) (shapeOfName shapes o)) E) (hsel : selected lsG E = true) :
    selectArgs fs { inputs := inputs, store := P } g ms E = selectArgs fs { inputs := inputs, store := F } g ms E := by
  unfold funcOK at hok
  simp only [Bool.and_eq_true, hms, hin, ho, Bool.false_or, beq_iff_eq] at hok
  obtain ⟨⟨_, hext, _⟩, hpar⟩ := hok
  have hls' : selLists (ms.externalIndices.map (fixedLookup fx)) (extOf (maskOfName masks o) (shapeOfName shapes o)) = .ok lsG := by
    rw [hext, ← extOf_map]; exact hls
  unfold selectArgs
  apply mapM_congr'
  intro pq hpq
  obtain ⟨p, orig⟩ := pq
  have hp := (List.all_eq_true.mp hpar) (p, orig) hpq
  simp only [] at hp ⊢
  rcases argWhole_rel fs shapes masks fx inputs P F hrel g p with h | ⟨cP, cF, hb, hi, hpr, h1, h2, hs⟩
  · rw [h]
  · have hpo : paramOK fs shapes masks fx g p = true := by
      simp only [hb, hi, Option.isSome_none, Bool.false_or] at hp
      cases hpp : producer fs p with
      | none => rw [hpp] at hpr; cases hpr
      | some _ => simpa [hpp] using hp
    unfold paramOK at hpo
    simp only [hms, hin, Bool.false_eq_true, ↓reduceIte] at hpo
    cases hsp : ms.inputSpec p with
    | none =>
      rw [hsp] at hpo
      have := argWhole_whole fs shapes masks fx inputs P F hrel g p (by simp [hpo])
      rw [this]
    | some a =>
      rw [hsp, ho] at hpo
      simp only [] at hpo
      rw [h1, h2]
      simp only [bind, Except.bind]
      have hidx : indexVal (Slot.array (shapeOfName shapes p) (maskOfName masks p) cP).toVal (inputKey ms a E) =
          indexVal (Slot.array (shapeOfName shapes p) (maskOfName masks p) cF).toVal (inputKey ms a E) := by
        apply indexVal_agree
        intro s hs_in
        rw [inputKey_eq] at hs_in ⊢
        obtain ⟨hsl, hir⟩ := read_selected fx ms.externalIndices _ lsG E hls' hE hsel _ _ _ _ s hpo hs_in
        exact ⟨hir, slotRel_agree fx _ _ _ _ _ hs _ hir hsl⟩
      rw [hidx]

end PF.Pieces
