import PfModel.Generated.C15Facts
import PfModel.Lemmas.Hashable
/-!
C15, the tie to the source: the type dispatch of `pipefunc.cache.to_hashable`, re-extracted from /repo with `ast` on every
run (`harness/c15_extract.py` → `Generated/C15Facts.lean`).  The three `decide` proofs below are the only C15 obligations
that can stop checking when the source is edited; they live in their own module so that the hand-written theorems of
`Props/C15.lean` / `Props/C15Keys.lean` stay audited when that happens.  The remaining theorems tie the vocabulary of the
translator (`Kind.attrNames`, `Kind.srcBody`) to the definitions `key` is made of (`Kind.wrap`, `Kind.mode`, `Kind.sorted`).
-/
namespace PF.C15
open PF PF.Hashable

/-- Walking the `isinstance` chain of the source in its order, every kind of the model reaches a branch that builds the
    payload the model builds: subclass tests (`OrderedDict`, `defaultdict`, `Counter`) come before `dict`, each branch
    calls the helper (`_hashable_iterable` / `_hashable_mapping` / `tuple(sorted(items))` / `tuple(obj)`) with the `sort`
    flag of `Kind.sorted`, puts `Kind.attrNames` in front, and returns `(m, tp, payload)`; everything else falls through
    to the pickle digest. -/
theorem C15_dispatch : dispatchMatchesModel Generated.toHashableBranches Generated.toHashableFallback = true := by decide

/-- The pandas branches of the source are the ones `Model/HashablePandas.lean` mirrors (`seriesKey`, `frameKey`, the theorems
    of `Props/C15Pandas.lean`): a Series is converted through `obj.to_dict()` — the index labels are the dict keys — with
    `obj.name` in front, a DataFrame through `obj.to_dict('list')` — the column labels are the dict keys; both tagged
    `(m, tp, …)`, both behind the `"pandas" in sys.modules` guard, each class tested once. -/
theorem C15_dispatch_pandas : pandasMatchesModel Generated.toHashableBranches = true := by decide

/-- `_HASH_MARKER` is the model's `marker`; `hash(obj)` is tried first and a hashable object is returned as it is unless it
    is a tuple headed by the marker (the DF-32 repair: `key true`); the tag is the class object. -/
theorem C15_dispatch_prelude : preludeMatchesModel Generated.toHashablePrelude = true := by decide

/-- `_hashable_iterable` / `_hashable_mapping` sort only when asked and convert every element / every mapping value
    (keeping the mapping key), `_cloudpickle_key` is md5 over the cloudpickle bytes. -/
theorem C15_dispatch_helpers : helpersMatchModel Generated.hashableHelpers = true := by decide

/-- `Kind.attrNames` / `Kind.attrVals` describe `Kind.wrap`: the payload is the converted children alone, or the
    attributes followed by the converted children (an opaque object: its digest). -/
theorem C15_wrap_shape (k : Kind) (body : List PV) :
    k.attrVals.length = k.attrNames.length ∧
    k.wrap body = (match k with
      | .opaque _ d => .atom (.str d)
      | _ => if k.attrVals = [] then tup body else tup (k.attrVals ++ [tup body])) := by
  cases k <;> refine ⟨rfl, ?_⟩ <;> first | rfl | simp [Kind.wrap, Kind.attrVals]

/-- `Kind.srcBody` names the conversion `key` applies to the children: which of `convElems` / `convItems` / `rawItems` /
    `rawAtoms` runs and whether `sortP` follows (stated for unhashable nodes: the dispatch is reached). -/
theorem C15_body_shape (k : Kind) (xs : List PV) (h : hashable (.node k xs) = false) :
    key true (.node k xs) =
      (match k.srcBody with
       | .iterable s => (convElems true xs).bind (fun cs => (if s then sortP cs else .ok cs).bind
            (fun s => .ok (tagged k.cls (k.wrap (s.map Prod.snd)))))
       | .mapping s => (convItems true xs).bind (fun cs => (if s then sortP cs else .ok cs).bind
            (fun s => .ok (tagged k.cls (k.wrap (s.map Prod.snd)))))
       | .rawItems s => (rawItems xs).bind (fun cs => (if s then sortP cs else .ok cs).bind
            (fun s => .ok (tagged k.cls (k.wrap (s.map Prod.snd)))))
       | .rawSeq => (rawAtoms xs).bind (fun cs => .ok (tagged k.cls (k.wrap (cs.map Prod.snd))))
       | .digest => (match xs with | [] => .ok (tagged k.cls (k.wrap [])) | _ :: _ => .error .malformed)
       | _ => .error .malformed) := by
  have hf : ∀ cs, finish k cs = (if k.sorted then sortP cs else .ok cs).bind
      (fun s => .ok (tagged k.cls (k.wrap (s.map Prod.snd)))) := by
    intro cs
    simp only [finish, sortIf]
    cases hs : k.sorted
    · rfl
    · simp only [if_true]; cases sortP cs <;> rfl
  conv => lhs; unfold key
  simp only [h, Bool.false_and, Bool.false_eq_true, if_false]
  cases k <;>
    simp only [Kind.srcBody, Kind.mode, hf, Kind.sorted, bind, Except.bind, if_true, if_false, Bool.false_eq_true] <;>
    first
    | rfl
    | (cases xs <;> rfl)
    | (cases rawAtoms xs <;> rfl)

/-- A `frozenset` never reaches the dispatch (this is why the `set | frozenset` branch, which sorts, is matched against
    `set` only): a well-formed frozenset is hashable and is returned as it is. -/
theorem C15_fset_returned (esc : Bool) (xs : List PV) (hwf : wf (.node .fset xs) = true) :
    key esc (.node .fset xs) = .ok (.node .fset xs) := by
  have hh : hashable (.node .fset xs) = true := by
    simp only [wf, Bool.and_eq_true] at hwf
    simp [hashable, Kind.hashableKind, hwf.2]
  conv => lhs; unfold key
  simp [hh, markerHeaded]

example : wf (.node .fset [.atom (.str [97])]) = true := by decide
example : hashable (.node .list [natAtom 1]) = false := by decide

end PF.C15
