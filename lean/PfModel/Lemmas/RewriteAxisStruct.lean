import PfModel.Lemmas.RewriteAxisGo
/-!
`add_mapspec_axis` on ANY pipeline (prior MapSpecs allowed): the recursion `addAxisGo` changes nothing but MapSpecs, and
every axis name of the MapSpecs afterwards is the new axis or was there before.
-/
namespace PF.Rw
open PF PF.Map

/-- the function without its MapSpec -/
def stripSpec (f : RFunc) : RFunc := { f with mapspec := none }

/-- the axis names used by the MapSpecs of a pipeline -/
def axesOf (fs : List RFunc) : List String :=
  fs.flatMap fun f => match f.mapspec with
    | none => []
    | some ms => (ms.inputs ++ ms.outputs).flatMap fun a => a.axes.filterMap id

/-- every named axis of `ms` is `axis` or one of `old` -/
def SpecAxesIn (axis : String) (old : List String) (ms : MSpec) : Prop :=
  ∀ a ∈ ms.inputs ++ ms.outputs, ∀ x, some x ∈ a.axes → x = axis ∨ x ∈ old

/-- **generic invariant preservation for the recursion of `add_mapspec_axis`**: a property of the function list that
    survives attaching the computed MapSpec to the functions sharing the outputs of one of them survives the recursion -/
theorem addAxisGo_inv (axis : String) (order : List String) (J : List RFunc → Prop)
    (hJ : ∀ (cur : List RFunc) (f : RFunc) (q : String) (dims : List (String × Nat)), J cur → f ∈ cur →
      J (cur.map fun g => if sameF g f then { g with mapspec := some ⟨(newSpec axis q dims f).1, (newSpec axis q dims f).2⟩ } else g)) :
    ∀ (fuel : Nat) (q : String) (st : List RFunc × List (String × Nat)), J st.1 → J (addAxisGo axis order fuel q st).1 := by
  intro fuel
  induction fuel with
  | zero => intro q st h; simpa [addAxisGo] using h
  | succ fuel ih =>
    intro q st h
    rw [addAxisGo_succ]
    have hstep : ∀ (st : List RFunc × List (String × Nat)) (fo : String), J st.1 → J (stepF axis order fuel q st fo).1 := by
      intro st fo h
      unfold stepF
      cases hp : rproducer st.1 fo with
      | none => exact h
      | some f =>
        simp only []
        split
        · exact h
        · have hf : f ∈ st.1 := (rproducer_mem st.1 fo f hp).1
          have h1 := hJ st.1 f q st.2 h hf
          have hin : ∀ (l : List ASpec) (s : List RFunc × List (String × Nat)), J s.1 →
              J (l.foldl (fun st o => addAxisGo axis order fuel o.name (st.1, (o.name, o.axes.length) :: st.2)) s).1 := by
            intro l
            induction l with
            | nil => intro s hs; exact hs
            | cons o l ihl =>
              intro s hs
              rw [List.foldl_cons]
              exact ihl _ (ih o.name (s.1, (o.name, o.axes.length) :: s.2) hs)
          exact hin _ _ h1
    have hfold : ∀ (l : List String) (st : List RFunc × List (String × Nat)), J st.1 → J (l.foldl (stepF axis order fuel q) st).1 := by
      intro l
      induction l with
      | nil => intro st h; exact h
      | cons fo l ihl => intro st h; rw [List.foldl_cons]; exact ihl _ (hstep st fo h)
    exact hfold order st h

theorem mem_axesFromDims (q axis : String) (dims : List (String × Nat)) (x : String) (h : some x ∈ axesFromDims q dims axis) : x = axis := by
  unfold axesFromDims at h
  rcases List.mem_append.mp h with h | h
  · simp [List.mem_replicate] at h
  · simpa using h

/-- the MapSpec arrays `add_mapspec_axis` computes for a function only use its old axis names and the new one -/
theorem newSpec_axes (axis q : String) (dims : List (String × Nat)) (f : RFunc) (old : List String)
    (hf : ∀ ms, f.mapspec = some ms → SpecAxesIn axis old ms) :
    SpecAxesIn axis old ⟨(newSpec axis q dims f).1, (newSpec axis q dims f).2⟩ := by
  unfold newSpec
  cases hm : f.mapspec with
  | none =>
    intro a ha x hx
    simp only [List.mem_append, List.mem_cons, List.not_mem_nil, or_false, List.mem_map] at ha
    rcases ha with rfl | ⟨o, _, rfl⟩
    · exact Or.inl (mem_axesFromDims q axis dims x hx)
    · left; simpa using hx
  | some ms =>
    have hold := hf ms hm
    intro a ha x hx
    simp only [List.mem_append] at ha
    rcases ha with ha | ha
    · by_cases hany : ms.inputs.any (·.name = q) = true
      · simp only [hany, ↓reduceIte, List.mem_map] at ha
        obtain ⟨s, hs, rfl⟩ := ha
        split at hx
        · simp only [List.mem_append, List.mem_cons, List.not_mem_nil, or_false] at hx
          rcases hx with hx | hx
          · exact hold s (List.mem_append_left _ hs) x hx
          · left; injection hx
        · exact hold s (List.mem_append_left _ hs) x hx
      · simp only [hany, Bool.false_eq_true, ↓reduceIte, List.mem_append, List.mem_cons, List.not_mem_nil, or_false] at ha
        rcases ha with ha | rfl
        · exact hold a (List.mem_append_left _ ha) x hx
        · exact Or.inl (mem_axesFromDims q axis dims x hx)
    · simp only [List.mem_map] at ha
      obtain ⟨s, hs, rfl⟩ := ha
      split at hx
      · exact hold s (List.mem_append_right _ hs) x hx
      · simp only [List.mem_append, List.mem_cons, List.not_mem_nil, or_false] at hx
        rcases hx with hx | hx
        · exact hold s (List.mem_append_right _ hs) x hx
        · left; injection hx

theorem mem_axesOf (fs : List RFunc) (f : RFunc) (hf : f ∈ fs) (ms : MSpec) (hm : f.mapspec = some ms) (a : ASpec)
    (ha : a ∈ ms.inputs ++ ms.outputs) (x : String) (hx : some x ∈ a.axes) : x ∈ axesOf fs := by
  unfold axesOf
  rw [List.mem_flatMap]
  refine ⟨f, hf, ?_⟩
  rw [hm]
  simp only [List.mem_flatMap, List.mem_filterMap, id]
  exact ⟨a, ha, some x, hx, rfl⟩

/-- **`add_mapspec_axis` on any pipeline**: nothing but MapSpecs changes (parameters, outputs, defaults, bound values,
    bodies stay, function by function), and no axis name other than the new one is introduced -/
theorem addAxis_structure (p axis : String) (fs : List RFunc) :
    (addAxis p axis fs).map stripSpec = fs.map stripSpec ∧
    ∀ g ∈ addAxis p axis fs, ∀ ms, g.mapspec = some ms → SpecAxesIn axis (axesOf fs) ms := by
  unfold addAxis
  simp only []
  have := addAxisGo_inv axis (topoOrder fs (fs.length + 1) [] fs)
    (fun cur => cur.map stripSpec = fs.map stripSpec ∧ ∀ g ∈ cur, ∀ ms, g.mapspec = some ms → SpecAxesIn axis (axesOf fs) ms) ?_
    (fs.length + 2) p (fs, match specRank fs p with | some r => [(p, r + 1)] | none => []) ?_
  · exact this
  · intro cur f q dims ⟨h1, h2⟩ hf
    constructor
    · rw [← h1, List.map_map]
      apply List.map_congr_left
      intro g _
      simp only [Function.comp]
      split <;> rfl
    · intro g hg ms hm
      obtain ⟨g0, hg0, rfl⟩ := List.mem_map.mp hg
      split at hm
      · simp only [Option.some.injEq] at hm
        subst hm
        exact newSpec_axes axis q dims f (axesOf fs) (h2 f hf)
      · exact h2 g0 hg0 ms hm
  · refine ⟨rfl, ?_⟩
    intro g hg ms hm a ha x hx
    exact Or.inr (mem_axesOf fs g hg ms hm a ha x hx)

end PF.Rw
