import PfModel.Lemmas.Rewrite
/-! Renaming (`update_renames`, `update_scope`) preserves the composition: lemmas for `C10_rename`. -/
namespace PF.Rw
open PF PF.Pipe

/-- re-keying one dictionary entry -/
def rkv (ρ : String → String) {β} (kv : String × β) : String × β := (ρ kv.1, kv.2)

theorem rkv_eq (ρ : String → String) {β} : (fun (x : String × β) => match x with | (p, v) => (ρ p, v)) = rkv ρ := by
  funext x; obtain ⟨p, v⟩ := x; rfl

/-- `update_renames` on the pipeline-level view of a function -/
def renameCore (ρ : String → String) (g : Func) : Func :=
  { g with params := g.params.map (rkv ρ), outputs := g.outputs.map ρ, defaults := g.defaults.map (rkv ρ), bound := g.bound.map (rkv ρ) }

theorem renameF_core (ρ : String → String) (f : RFunc) : (renameF ρ f).core = renameCore ρ f.core := by
  simp only [renameF, renameCore, rkv_eq]

theorem cores_renameAll (ρ : String → String) (fs : List RFunc) : cores (renameAll ρ fs) = (cores fs).map (renameCore ρ) := by
  simp only [cores, renameAll, List.map_map]
  apply List.map_congr_left
  intro f _; exact renameF_core ρ f

/-- every name the function mentions lies in `N` -/
def NamesIn (N : String → Prop) (g : Func) : Prop :=
  (∀ p ∈ g.params, N p.1) ∧ (∀ o ∈ g.outputs, N o) ∧ (∀ kv ∈ g.defaults, N kv.1) ∧ (∀ kv ∈ g.bound, N kv.1)

section
variable (ρ : String → String) (N : String → Prop) (hinj : ∀ a b, N a → N b → ρ a = ρ b → a = b)
include hinj

theorem alookup_rename {β} (l : List (String × β)) (p : String) (hl : ∀ kv ∈ l, N kv.1) (hp : N p) :
    alookup (l.map (rkv ρ)) (ρ p) = alookup l p := by
  induction l with
  | nil => rfl
  | cons e es ih =>
    obtain ⟨k, v⟩ := e
    have hk : N k := hl (k, v) (by simp)
    have ih' := ih (fun kv h => hl kv (List.mem_cons_of_mem _ h))
    simp only [List.map_cons, rkv, alookup]
    by_cases h : k = p
    · simp [h]
    · have : ¬ ρ k = ρ p := fun e => h (hinj k p hk hp e)
      simp only [h, this, ↓reduceIte]; exact ih'

theorem mem_map_rename (os : List String) (o : String) (hos : ∀ x ∈ os, N x) (ho : N o) : ρ o ∈ os.map ρ ↔ o ∈ os := by
  constructor
  · intro h
    obtain ⟨x, hx, e⟩ := List.mem_map.mp h
    rw [← hinj x o (hos x hx) ho e]; exact hx
  · intro h; exact List.mem_map.mpr ⟨o, h, rfl⟩

theorem alookup_zip_rename (os : List String) (qs : List String) (o : String) (hos : ∀ x ∈ os, N x) (ho : N o) :
    alookup ((os.map ρ).zip qs) (ρ o) = alookup (os.zip qs) o := by
  induction os generalizing qs with
  | nil => rfl
  | cons a as ih =>
    cases qs with
    | nil => rfl
    | cons q qs =>
      have ha : N a := hos a (by simp)
      simp only [List.map_cons, List.zip_cons_cons, alookup]
      by_cases h : a = o
      · simp [h]
      · have : ¬ ρ a = ρ o := fun e => h (hinj a o ha ho e)
        simp only [h, this, ↓reduceIte]; exact ih qs (fun x hx => hos x (List.mem_cons_of_mem _ hx))

theorem producer_rename (gs : List Func) (p : String) (hgs : ∀ g ∈ gs, NamesIn N g) (hp : N p) :
    producer (gs.map (renameCore ρ)) (ρ p) = (producer gs p).map (renameCore ρ) := by
  induction gs with
  | nil => rfl
  | cons g gs ih =>
    have ih' := ih (fun x hx => hgs x (List.mem_cons_of_mem _ hx))
    have hg := (hgs g (by simp)).2.1
    simp only [producer, List.map_cons, List.find?_cons] at ih' ⊢
    have e : (ρ p ∈ (renameCore ρ g).outputs) = (p ∈ g.outputs) := by
      simp only [renameCore]; exact propext (mem_map_rename ρ N hinj g.outputs p hg hp)
    by_cases h : p ∈ g.outputs
    · simp [e, h]
    · simp only [e, h, decide_false]; exact ih'

theorem pdefaults_rename_aux (gs hs : List Func) (hgs : ∀ g ∈ gs, NamesIn N g) (hhs : ∀ g ∈ hs, NamesIn N g) :
    ((hs.map (renameCore ρ)).flatMap fun f => f.defaults.filter fun kv =>
        (alookup f.bound kv.1).isNone && (producer (gs.map (renameCore ρ)) kv.1).isNone) =
    (hs.flatMap fun f => f.defaults.filter fun kv => (alookup f.bound kv.1).isNone && (producer gs kv.1).isNone).map (rkv ρ) := by
  induction hs with
  | nil => rfl
  | cons h hs ih =>
    have ih' := ih (fun x hx => hhs x (List.mem_cons_of_mem _ hx))
    obtain ⟨_, _, hd, hb⟩ := hhs h (by simp)
    simp only [List.map_cons, List.flatMap_cons, List.map_append, ih']
    congr 1
    simp only [renameCore, List.filter_map]
    congr 1
    apply List.filter_congr
    intro kv hkv
    have hk : N kv.1 := hd kv hkv
    simp only [Function.comp, rkv, alookup_rename ρ N hinj h.bound kv.1 hb hk, producer_rename ρ N hinj gs kv.1 hgs hk]
    cases producer gs kv.1 <;> simp

theorem pdefaults_rename (gs : List Func) (hgs : ∀ g ∈ gs, NamesIn N g) :
    pdefaults (gs.map (renameCore ρ)) = (pdefaults gs).map (rkv ρ) :=
  pdefaults_rename_aux ρ N hinj gs gs hgs hgs

theorem pdefault_rename (gs : List Func) (p : String) (hgs : ∀ g ∈ gs, NamesIn N g) (hp : N p) :
    pdefault (gs.map (renameCore ρ)) (ρ p) = pdefault gs p := by
  unfold pdefault
  rw [pdefaults_rename ρ N hinj gs hgs, ← List.map_reverse]
  apply alookup_rename ρ N hinj _ p _ hp
  intro kv hkv
  have hkv' := List.mem_reverse.mp hkv
  obtain ⟨f, hf, hfm, _⟩ := (mem_pdefaults gs kv.1 kv.2).mp hkv'
  exact (hgs f hf).2.2.1 kv hfm

theorem resolve_rename (gs : List Func) (kw : List (String × Val)) (f : Func) (p : String)
    (hgs : ∀ g ∈ gs, NamesIn N g) (hkw : ∀ kv ∈ kw, N kv.1) (hf : NamesIn N f) (hp : N p) :
    resolve (gs.map (renameCore ρ)) (kw.map (rkv ρ)) (renameCore ρ f) (ρ p) = resolve gs kw f p := by
  unfold resolve
  have hb : alookup (renameCore ρ f).bound (ρ p) = alookup f.bound p := alookup_rename ρ N hinj f.bound p hf.2.2.2 hp
  rw [hb, alookup_rename ρ N hinj kw p hkw hp, producer_rename ρ N hinj gs p hgs hp, pdefault_rename ρ N hinj gs p hgs hp]
  cases alookup f.bound p with
  | some v => rfl
  | none =>
    cases alookup kw p with
    | some v => rfl
    | none => cases producer gs p <;> rfl

theorem composeArgs_rename (gs : List Func) (kw : List (String × Val)) (f : Func) (r r' : String → Except Err Val)
    (hgs : ∀ g ∈ gs, NamesIn N g) (hkw : ∀ kv ∈ kw, N kv.1) (hf : NamesIn N f)
    (hr : ∀ p, N p → Agree (r' (ρ p)) (r p)) :
    ∀ ps : List (String × String), (∀ p ∈ ps, N p.1) →
      Agree (composeArgsWith r' (gs.map (renameCore ρ)) (kw.map (rkv ρ)) (renameCore ρ f) (ps.map (rkv ρ)))
            (composeArgsWith r gs kw f ps) := by
  intro ps
  induction ps with
  | nil => intro _; simp [composeArgsWith, Agree]
  | cons e es ih =>
    obtain ⟨p, orig⟩ := e
    intro hps
    have hp : N p := hps (p, orig) (by simp)
    have ih' := ih (fun x hx => hps x (List.mem_cons_of_mem _ hx))
    simp only [List.map_cons, rkv, composeArgsWith]
    rw [resolve_rename ρ N hinj gs kw f p hgs hkw hf hp]
    have hrest : ∀ (v : Val),
        Agree (match composeArgsWith r' (gs.map (renameCore ρ)) (kw.map (rkv ρ)) (renameCore ρ f) (es.map (rkv ρ)) with
               | .error e => .error e | .ok rest => .ok ((orig, v) :: rest))
              (match composeArgsWith r gs kw f es with | .error e => .error e | .ok rest => .ok ((orig, v) :: rest)) := by
      intro v
      revert ih'
      cases composeArgsWith r' (gs.map (renameCore ρ)) (kw.map (rkv ρ)) (renameCore ρ f) (es.map (rkv ρ)) <;>
        cases composeArgsWith r gs kw f es <;> simp [Agree]
    cases resolve gs kw f p with
    | missing => simp [Agree]
    | val v => exact hrest v
    | upstream =>
      have := hr p hp
      revert this
      cases r' (ρ p) <;> cases r p <;> simp only [Agree] <;> intro h
      · trivial
      · exact h.elim
      · exact h.elim
      · subst h; exact hrest _

theorem rproducer_rename (fs : List RFunc) (p : String) (hfs : ∀ f ∈ fs, NamesIn N f.core) (hp : N p) :
    rproducer (renameAll ρ fs) (ρ p) = (rproducer fs p).map (renameF ρ) := by
  induction fs with
  | nil => rfl
  | cons g gs ih =>
    have ih' := ih (fun x hx => hfs x (List.mem_cons_of_mem _ hx))
    have hg := (hfs g (by simp)).2.1
    simp only [rproducer, renameAll, List.map_cons, List.find?_cons] at ih' ⊢
    have e : (ρ p ∈ (renameF ρ g).core.outputs) = (p ∈ g.core.outputs) := by
      rw [renameF_core]; simp only [renameCore]; exact propext (mem_map_rename ρ N hinj g.core.outputs p hg hp)
    by_cases h : p ∈ g.core.outputs
    · simp [e, h]
    · simp only [e, h, decide_false]; exact ih'

theorem outVal_rename (f : RFunc) (args : List (String × Val)) (o : String) (hf : NamesIn N f.core) (ho : N o) :
    Agree (outVal (renameF ρ f) args (ρ o)) (outVal f args o) := by
  have h1 : origOf (renameF ρ f) (ρ o) = origOf f o := by
    unfold origOf; rw [renameF_core]; simp only [renameCore]
    exact alookup_zip_rename ρ N hinj f.core.outputs f.outOrig o hf.2.1 ho
  unfold outVal
  rw [h1]
  cases origOf f o with
  | none => simp [Agree]
  | some oo =>
    have h2 : (renameF ρ f).body = f.body := rfl
    have h3 : (renameF ρ f).outOrig = f.outOrig := rfl
    have h4 : (renameF ρ f).core.name = f.core.name := rfl
    simp only [h2, h3, h4]
    exact Agree.rfl' _

/-- **Renaming preserves the composition** (all fuel, all outputs in `N`) -/
theorem eval_rename (fs : List RFunc) (kw : List (String × Val))
    (hfs : ∀ f ∈ fs, NamesIn N f.core) (hkw : ∀ kv ∈ kw, N kv.1) :
    ∀ (n : Nat) (o : String), N o → Agree (eval (renameAll ρ fs) (kw.map (rkv ρ)) n (ρ o)) (eval fs kw n o) := by
  have hcs : ∀ g ∈ cores fs, NamesIn N g := by
    intro g hg; obtain ⟨f, hf, rfl⟩ := List.mem_map.mp hg; exact hfs f hf
  intro n
  induction n with
  | zero => intro o _; simp [eval, Agree]
  | succ n ih =>
    intro o ho
    rw [eval_succ, eval_succ, rproducer_rename ρ N hinj fs o hfs ho]
    cases hp : rproducer fs o with
    | none => simp [Agree]
    | some f =>
      have hfmem : f ∈ fs := List.mem_of_find?_eq_some hp
      have hf := hfs f hfmem
      simp only [Option.map_some]
      rw [cores_renameAll, renameF_core]
      have hps : (renameCore ρ f.core).params = f.core.params.map (rkv ρ) := rfl
      rw [hps]
      have key := composeArgs_rename ρ N hinj (cores fs) kw f.core (eval fs kw n) (eval (renameAll ρ fs) (kw.map (rkv ρ)) n)
        hcs hkw hf ih f.core.params hf.1
      revert key
      cases composeArgsWith (eval (renameAll ρ fs) (kw.map (rkv ρ)) n) ((cores fs).map (renameCore ρ)) (kw.map (rkv ρ)) (renameCore ρ f.core)
          (f.core.params.map (rkv ρ)) <;>
        cases composeArgsWith (eval fs kw n) (cores fs) kw f.core f.core.params <;> simp only [Agree] <;> intro h
      · trivial
      · exact h.elim
      · exact h.elim
      · subst h; exact outVal_rename ρ N hinj f _ o hf ho

end

end PF.Rw
