"""Values for the C15 check: specs (JSON-able trees) -> Python objects, Python objects -> model values (PV JSON),
the reference relation `py_same` (the property's "equal value of the same type"), a canonical printer for keys, and the
child-interpreter entry point (`python c15_values.py --child`: specs on stdin, one printed key per line on stdout).

A *spec* is what the generator produces and what replays record; `build(spec)` constructs the object.  `encode(obj)`
reads the *object* (its actual type, its actual iteration order), independently of the spec it was built from.
"""
from __future__ import annotations

import array
import collections
import hashlib
import json
import sys

MARKER = "__CONVERTED__"


class OutOfModel(Exception):
    pass


# ---------------------------------------------------------------------------------------------- user classes
class Obj:
    """Picklable, unhashable (defines __eq__ only): reaches the cloudpickle fallback."""

    def __init__(self, *attrs):
        self.attrs = list(attrs)

    def __eq__(self, other):
        return type(other) is type(self) and self.attrs == other.attrs

    __hash__ = None  # type: ignore[assignment]

    def __repr__(self):
        return f"{type(self).__name__}({self.attrs!r})"


class Obj2(Obj):
    pass


class SubList(list):
    pass


class SubDict(dict):
    pass


# round 9: instances of user subclasses that override nothing (what `namedtuple` / a bare `class S(list): pass` give).  Module level:
# picklable by reference, printed as `c15_values.<name>` in every interpreter.
class SubList2(list):
    pass


class SubTuple(tuple):
    __slots__ = ()


NT1 = collections.namedtuple("NT1", "x")
NT2 = collections.namedtuple("NT2", "x y")
NT2b = collections.namedtuple("NT2b", "x y")
NT3 = collections.namedtuple("NT3", "x y z")


class SubFset(frozenset):
    __slots__ = ()


class SubSet(set):
    pass


class SubODict(collections.OrderedDict):
    pass


class SubDeque(collections.deque):
    pass


# round s5: picklable, unhashable objects whose STATE IS NOT (ONLY) THEIR INSTANCE __dict__ — what a key built from `vars(obj)` /
# `obj.__dict__` cannot see, what the pickle does.  Every instance has a hidden part `hid` and a visible part `vis` (lists of values):
#   SlotDictObj  hid in an inherited slot, vis in __dict__ (a class without __slots__ deriving from a slotted one — the shape of a
#                dataclass deriving from a slots=True dataclass);
#   SlotOnlyObj  both in slots, no __dict__ at all;
#   ArgsObj      hid in the C-level `args` of an exception (custom __reduce__), vis in __dict__;
#   StateObj     hid under a name-mangled slot handed over by __getstate__ / __setstate__, vis in __dict__.
class _Parts:
    __slots__ = ()
    __hash__ = None  # type: ignore[assignment]

    def parts(self):
        return list(self.hid), list(self.vis)

    def __eq__(self, other):
        return type(other) is type(self) and self.parts() == other.parts()

    def __repr__(self):
        h, v = self.parts()
        return f"{type(self).__name__}(hid={h!r}, vis={v!r})"


class _SlotBase(_Parts):
    __slots__ = ("hid",)


class SlotDictObj(_SlotBase):
    def __init__(self, hid, vis):
        self.hid = list(hid)
        self.vis = list(vis)


class SlotOnlyObj(_Parts):
    __slots__ = ("hid", "vis")

    def __init__(self, hid, vis):
        self.hid = list(hid)
        self.vis = list(vis)


class ArgsObj(Exception):
    __hash__ = None  # type: ignore[assignment]

    def __init__(self, hid, vis):
        super().__init__(*hid)
        self.vis = list(vis)

    def parts(self):
        return list(self.args), list(self.vis)

    def __reduce__(self):
        return (type(self), (list(self.args), self.vis))

    __eq__ = _Parts.__eq__
    __repr__ = _Parts.__repr__


class _StateBase(_Parts):
    __slots__ = ("__h",)


class StateObj(_StateBase):
    def __init__(self, hid, vis):
        self._StateBase__h = list(hid)
        self.vis = list(vis)

    @property
    def hid(self):
        return self._StateBase__h

    def __getstate__(self):
        return {"h": self._StateBase__h, "v": self.vis}

    def __setstate__(self, st):
        self._StateBase__h = st["h"]
        self.vis = st["v"]


FOBJ = {"SlotDictObj": SlotDictObj, "SlotOnlyObj": SlotOnlyObj, "ArgsObj": ArgsObj, "StateObj": StateObj}
FOBJ_CLASSES = tuple(FOBJ.values())


class Unpicklable:
    __hash__ = None  # type: ignore[assignment]

    def __eq__(self, other):
        return self is other

    def __reduce__(self):
        raise TypeError("cannot pickle me")


def _np():
    import numpy as np
    return np


CLASSES = {
    "tuple": tuple, "list": list, "deque": collections.deque, "set": set, "frozenset": frozenset, "dict": dict,
    "odict": collections.OrderedDict, "ddict": collections.defaultdict, "counter": collections.Counter,
    "bytearray": bytearray, "array": array.array, "int": int, "float": float, "bool": bool, "str": str, "bytes": bytes,
    "nonetype": type(None),
}
OTHER_CLASSES = [Obj, Obj2, SubList, SubDict, Unpicklable, type, object, complex,
                 SubList2, SubTuple, NT1, NT2, NT2b, NT3, SubFset, SubSet, SubODict, SubDeque,
                 SlotDictObj, SlotOnlyObj, ArgsObj, StateObj]      # (append only: specs name classes by position)
# user subclass -> the builtin class whose behaviour it inherits unchanged
SUB_BASE = {SubList: list, SubList2: list, SubTuple: tuple, NT1: tuple, NT2: tuple, NT2b: tuple, NT3: tuple, SubFset: frozenset,
            SubSet: set, SubDict: dict, SubODict: collections.OrderedDict, SubDeque: collections.deque}
SUB_BY_NAME = {c.__name__: c for c in SUB_BASE}
SUB_FOR = {"list": ["SubList", "SubList2"], "tuple": ["SubTuple", "NT1", "NT2", "NT2b", "NT3"], "fset": ["SubFset"], "set": ["SubSet"],
           "dict": ["SubDict"], "odict": ["SubODict"], "deque": ["SubDeque"]}


def sub_bases():
    """the table of `WV.subOk` (Model/HashableSubRel.lean): class number -> the builtin base, for every modelled user subclass"""
    np = _np()
    return [[other_index(c), cls_name(b)] for c, b in SUB_BASE.items()] + [[other_index(np.ma.MaskedArray), "ndarray"]]


def make_sub(cls, base_value):
    """an instance of the user class `cls` with the content of `base_value` (an instance of its builtin base)"""
    if type(base_value) is not SUB_BASE[cls]:
        raise ValueError("base mismatch")
    if hasattr(cls, "_fields"):
        if len(cls._fields) != len(base_value):
            raise ValueError("arity")
        return cls(*base_value)
    if cls is SubDeque:
        return cls(base_value, maxlen=base_value.maxlen)
    return cls(base_value)


def to_base(x):
    """the builtin-class copy of an instance of a user subclass (same element objects, same order)"""
    b = SUB_BASE[type(x)]
    if b is collections.deque:
        return collections.deque(x, maxlen=x.maxlen)
    return b(x)


def erase_hashable_sub(x):
    """`x` with every HASHABLE instance of a modelled tuple / frozenset subclass replaced by its builtin copy, at any depth (what
    `==` / `hash` of a key see); unhashable subclass instances keep their class"""
    t = type(x)
    if isinstance(x, type):                      # a class object (the namedtuple classes have `_fields` themselves)
        return x
    if t in SUB_BASE and SUB_BASE[t] in (tuple, frozenset):
        try:
            hash(x)
            return erase_hashable_sub(to_base(x))
        except TypeError:
            pass
    if isinstance(x, tuple) and not hasattr(x, "_fields"):
        return t(erase_hashable_sub(y) for y in x)
    if hasattr(x, "_fields"):
        return t(*[erase_hashable_sub(y) for y in x])
    if isinstance(x, list):
        return t(erase_hashable_sub(y) for y in x)
    if isinstance(x, collections.deque):
        return t((erase_hashable_sub(y) for y in x), maxlen=x.maxlen)
    if t in (frozenset, set):
        return t(erase_hashable_sub(y) for y in x)
    if t in (dict, collections.OrderedDict, SubDict, SubODict):
        return t((erase_hashable_sub(k), erase_hashable_sub(v)) for k, v in x.items())
    if t is collections.defaultdict:
        d = collections.defaultdict(x.default_factory)
        for k, v in x.items():
            d[erase_hashable_sub(k)] = erase_hashable_sub(v)
        return d
    return x


def has_hashable_sub(x, _depth=0):
    t = type(x)
    if isinstance(x, type):
        return False
    if t in SUB_BASE and SUB_BASE[t] in (tuple, frozenset):
        try:
            hash(x)
            return True
        except TypeError:
            pass
    if _depth > 8:
        return False
    if isinstance(x, (tuple, list, set, frozenset, collections.deque)):
        return any(has_hashable_sub(y, _depth + 1) for y in x)
    if isinstance(x, dict):
        return any(has_hashable_sub(k, _depth + 1) or has_hashable_sub(v, _depth + 1) for k, v in x.items())
    return False


def cls_name(c):
    np = _np()
    if c is np.ndarray:
        return "ndarray"
    for k, v in CLASSES.items():
        if v is c:
            return k
    return None


def other_index(c) -> int:
    """A stable small number for a class outside the model's table (pandas classes, user classes)."""
    for i, o in enumerate(OTHER_CLASSES):
        if o is c:
            return i
    name = f"{c.__module__}.{c.__qualname__}"
    return 100 + int(hashlib.md5(name.encode()).hexdigest()[:6], 16)


# ---------------------------------------------------------------------------------------------- build
class Builder:
    def __init__(self):
        self.nans = {}

    def nan(self, i):
        if i not in self.nans:
            self.nans[i] = float("nan")
        return self.nans[i]

    def b(self, s):  # noqa: C901, PLR0911, PLR0912
        t = s[0]
        if t == "int":
            return int(s[1])
        if t == "float":
            return float(s[1])
        if t == "nan":
            return self.nan(s[1])
        if t == "bool":
            return bool(s[1])
        if t == "str":
            return s[1]
        if t == "bytes":
            return bytes(s[1])
        if t == "none":
            return None
        if t == "cls":
            if s[1] == "ndarray":
                return _np().ndarray
            if s[1] in CLASSES:
                return CLASSES[s[1]]
            return OTHER_CLASSES[int(s[1])]
        if t == "tuple":
            return tuple(self.b(x) for x in s[1])
        if t == "list":
            return [self.b(x) for x in s[1]]
        if t == "sublist":
            return SubList(self.b(x) for x in s[1])
        if t == "sub":                  # ["sub", class name, spec of a value of the builtin base]: an instance of the user subclass
            return make_sub(SUB_BY_NAME[s[1]], self.b(s[2]))
        if t == "set":
            out = set()
            for x in s[1]:
                out.add(self.b(x))
            return out
        if t == "fset":
            return frozenset(self.b(x) for x in s[1])
        if t == "dict":
            return {self.b(k): self.b(v) for k, v in s[1]}
        if t == "subdict":
            return SubDict((self.b(k), self.b(v)) for k, v in s[1])
        if t == "odict":
            return collections.OrderedDict((self.b(k), self.b(v)) for k, v in s[1])
        if t == "ddict":
            d = collections.defaultdict(None if s[1] is None else self.b(s[1]))
            for k, v in s[2]:
                d[self.b(k)] = self.b(v)
            return d
        if t == "counter":
            c = collections.Counter()
            for k, v in s[1]:
                c[self.b(k)] = self.b(v)
            return c
        if t == "deque":
            return collections.deque([self.b(x) for x in s[2]], maxlen=s[1])
        if t == "bytearray":
            return bytearray(s[1])
        if t == "array":
            return array.array(s[1], [float(x) if s[1] in "fd" else int(x) for x in s[2]])
        if t == "nd":
            np = _np()
            flat = [float(x) for x in s[3]]
            return np.array(flat, dtype="float64").astype(s[2]).reshape(s[1])
        if t == "ndf":                  # the same logical array in Fortran (column-major) memory order
            np = _np()
            return np.asfortranarray(np.array([float(x) for x in s[3]], dtype="float64").astype(s[2]).reshape(s[1]))
        if t == "ndview":               # … as a non-contiguous view (every second element of a longer buffer)
            np = _np()
            flat = np.array([float(x) for x in s[3]], dtype="float64").astype(s[2])
            buf = np.zeros(2 * len(flat), dtype=s[2])
            buf[::2] = flat
            return buf[::2].reshape(s[1])
        if t == "ma":                   # ["ma", shape, dtype, flat, mask]
            np = _np()
            data = np.array([float(x) for x in s[3]], dtype="float64").astype(s[2]).reshape(s[1])
            return np.ma.array(data, mask=np.array([bool(x) for x in s[4]]).reshape(s[1]))
        if t == "nds":                  # ["nds", [[field, dtype], …], [[v, …] per row]]: a structured array
            np = _np()
            return np.array([tuple(r) for r in s[2]], dtype=[(f, d) for f, d in s[1]])
        if t == "objarr":
            np = _np()
            a = np.empty(len(s[1]), dtype=object)
            for i, x in enumerate(s[1]):
                a[i] = self.b(x)
            return a
        if t == "npscalar":
            return getattr(_np(), s[1])(float(s[2]))
        if t == "ts":                   # ["ts", n]: a pandas Timestamp (hashable: an index label, or a value on its own)
            import pandas as pd
            return pd.Timestamp("2024-01-01") + pd.Timedelta(days=int(s[1]))
        if t == "series":               # ["series", name | name spec, [[label spec, value spec], …]] (rows in row order)
            import pandas as pd
            name = self.b(s[1]) if isinstance(s[1], list) else s[1]
            return pd.Series([self.b(v) for _, v in s[2]], index=[self.b(i) for i, _ in s[2]], name=name)
        if t == "df":                   # ["df", [index label spec, …], [[column label | spec, [value spec, …]], …]] (columns in order)
            import pandas as pd
            cols = [self.b(c) if isinstance(c, list) else c for c, _ in s[2]]
            df = pd.DataFrame({i: [self.b(v) for v in vs] for i, (_, vs) in enumerate(s[2])}, index=[self.b(i) for i in s[1]])
            df.columns = cols            # (after the fact: repeated column labels are possible)
            return df
        if t == "obj":
            return (Obj2 if s[1] else Obj)(*[self.b(x) for x in s[2]])
        if t == "fobj":                 # ["fobj", class name, [hidden part specs], [visible part specs]]
            return FOBJ[s[1]]([self.b(x) for x in s[2]], [self.b(x) for x in s[3]])
        if t == "unpicklable":
            return Unpicklable()
        raise ValueError(f"bad spec {s!r}")


def build(spec):
    return Builder().b(spec)


# ---------------------------------------------------------------------------------------------- encode (object -> PV JSON)
class Encoder:
    """`nan_ids`: identity of NaN objects (kept alive by the caller) -> small numbers; NaNs inside ndarrays are fresh."""

    def __init__(self):
        self.nan_ids = {}
        self.keep = []
        self.fresh = 10**6

    def num(self, x):
        np = _np()
        if isinstance(x, (bool, np.bool_)):
            return {"n": [0, 2 * int(x)]}
        if isinstance(x, (int, np.integer)):
            return {"n": [0, 2 * int(x)]}
        if isinstance(x, (float, np.floating)):
            x = float(x)
            if x != x:
                return None
            if x == float("inf"):
                return {"n": [1, 0]}
            if x == float("-inf"):
                return {"n": [-1, 0]}
            if (2 * x) == int(2 * x):
                return {"n": [0, int(2 * x)]}
            raise OutOfModel("float not a half-integer")
        raise OutOfModel(f"number {type(x)}")

    def atom(self, x, fresh_nan=False):
        np = _np()
        if x is None:
            return None
        if isinstance(x, (bool, int, float, np.bool_, np.integer, np.floating)):
            is_np = isinstance(x, np.generic)
            if not is_np and type(x) not in (bool, int, float):
                raise OutOfModel("numeric subclass")
            j = self.num(x)
            if j is not None:
                return j
            if fresh_nan or is_np:
                self.fresh += 1
                return {"nan": self.fresh}
            if id(x) not in self.nan_ids:
                self.nan_ids[id(x)] = len(self.nan_ids)
                self.keep.append(x)
            return {"nan": self.nan_ids[id(x)]}
        if type(x) is str or isinstance(x, np.str_):
            return {"s": [ord(c) for c in str(x)]}
        if type(x) is bytes:
            return {"b": list(x)}
        if isinstance(x, type):
            n = cls_name(x)
            return {"c": n} if n else {"c": ["other", other_index(x)]}
        raise OutOfModel(f"atom {type(x)}")

    def item(self, k, v):
        return {"k": "tuple", "x": [self.enc(k), self.enc(v)]}

    def enc(self, x, order=None):  # noqa: C901, PLR0911, PLR0912
        """`order`: optional callable permuting the listing of set / mapping children (to exercise order independence)."""
        np = _np()
        perm = order or (lambda l: l)
        t = type(x)
        if t is tuple:
            return {"k": "tuple", "x": [self.enc(y, order) for y in x]}
        if t is list:
            return {"k": "list", "x": [self.enc(y, order) for y in x]}
        if t is frozenset:
            ch = [self.enc(y, order) for y in x]
            return {"k": "fset", "x": sorted(ch, key=lambda j: json.dumps(j, sort_keys=True))}
        if t is set:
            return {"k": "set", "x": perm([self.enc(y, order) for y in x])}
        if t is dict:
            return {"k": "dict", "x": perm([self.item(k, v) if order is None else {"k": "tuple", "x": [self.enc(k, order), self.enc(v, order)]} for k, v in x.items()])}
        if t is collections.OrderedDict:
            return {"k": "odict", "x": [{"k": "tuple", "x": [self.enc(k, order), self.enc(v, order)]} for k, v in x.items()]}
        if t is collections.defaultdict:
            f = x.default_factory
            if f is not None and not isinstance(f, type):
                raise OutOfModel("factory")
            return {"k": "ddict", "f": self.atom(f), "x": perm([{"k": "tuple", "x": [self.enc(k, order), self.enc(v, order)]} for k, v in x.items()])}
        if t is collections.Counter:
            for v in x.values():
                if type(v) not in (int, float, bool, str, type(None)):
                    raise OutOfModel("counter value")
            return {"k": "counter", "x": perm([{"k": "tuple", "x": [self.enc(k, order), self.enc(v, order)]} for k, v in x.items()])}
        if t is collections.deque:
            return {"k": "deque", "ml": x.maxlen, "x": [self.enc(y, order) for y in x]}
        if t is bytearray:
            return {"k": "bytearray", "x": [self.atom(int(y)) for y in x]}
        if t is array.array:
            if x.typecode == "u" or x.typecode == "w":
                raise OutOfModel("unicode array")
            return {"k": "array", "tc": ord(x.typecode), "x": [self.atom(y) for y in x]}
        if t is np.ndarray:
            if x.dtype.kind not in "iufb":
                raise OutOfModel("dtype")
            return {"k": "ndarray", "shape": list(x.shape), "dtype": [ord(c) for c in x.dtype.str],
                    "x": [self.atom(y, fresh_nan=True) for y in x.flatten()]}
        if t in (Obj, Obj2) or t in FOBJ_CLASSES:
            import cloudpickle
            d = hashlib.md5(cloudpickle.dumps(x)).hexdigest()  # noqa: S324
            return {"k": "opaque", "cls": other_index(t), "d": [ord(c) for c in d], "x": []}
        return self.atom(x)


class WideEncoder(Encoder):
    """Values for `Model/HashableSub.lean` (`wkeys`): a container node of a modelled user subclass is the node of its builtin base
    with `"sub": <class number>`; with `erase` (keys: a hashable subclass instance inside a key compares and hashes as its base) the
    mark is dropped.  A MaskedArray without masked elements is an ndarray subclass instance."""

    def __init__(self):
        super().__init__()
        self.erase = False
        self.marks = 0

    def enc(self, x, order=None):
        np = _np()
        t = type(x)
        if t in SUB_BASE:
            j = super().enc(to_base(x), order)
        elif t is np.ma.MaskedArray:
            if np.ma.getmaskarray(x).any() or x.dtype.kind not in "iufb":
                raise OutOfModel("masked element")
            j = super().enc(np.asarray(x.data), order)
        else:
            return super().enc(x, order)
        if not self.erase:
            j["sub"] = other_index(t)
            self.marks += 1
        return j

    def enc_key(self, k):
        self.erase = True
        try:
            return self.enc(k)
        finally:
            self.erase = False


def enc_pandas(enc: Encoder, x):
    """A Series / DataFrame as the request of the model's `serieskeys` / `framekeys` entry (Model/HashablePandas.lean): the rows
    (label, value) in row order, the columns (label, values) in column order — read off the object with `tolist()`, not with
    the `to_dict` calls the implementation makes.  Labels must be scalars of the model, NaNs are outside."""
    import pandas as pd

    def label(l):
        if l is None or type(l) in (bool, int, float, str, bytes):
            if isinstance(l, float) and l != l:
                raise OutOfModel("nan label")
            return enc.atom(l)
        raise OutOfModel(f"label {type(l)}")

    def value(v):
        if isinstance(v, float) and v != v:
            raise OutOfModel("nan value")
        return enc.enc(v)

    if type(x) is pd.Series:
        return "serieskeys", {"cls": other_index(type(x)), "name": enc.enc(x.name),
                              "rows": [[label(l), value(v)] for l, v in zip(x.index.tolist(), x.tolist())]}
    if type(x) is pd.DataFrame:
        return "framekeys", {"cls": other_index(type(x)), "index": [label(l) for l in x.index.tolist()],
                             "cols": [[label(c), [value(v) for v in x.iloc[:, i].tolist()]] for i, c in enumerate(x.columns.tolist())]}
    raise OutOfModel("not a pandas object")


def dumps(j) -> str:
    return json.dumps(j, sort_keys=True, separators=(",", ":"))


def norm_fresh(j):
    """NaNs read out of an ndarray are fresh objects on every call: their identities are not comparable across encodings."""
    if isinstance(j, dict):
        if "nan" in j and j["nan"] >= 10**6:
            return {"nan": "fresh"}
        return {k: norm_fresh(v) for k, v in j.items()}
    if isinstance(j, list):
        return [norm_fresh(x) for x in j]
    return j


# ---------------------------------------------------------------------------------------------- reference relation
NAN_EQUAL = False      # True: every NaN equals every NaN (what a cache keyed by the *pickled* key observes)


def _isnan(x) -> bool:
    try:
        return isinstance(x, float) and x != x
    except Exception:  # noqa: BLE001
        return False


def leaf_eq(a, b) -> bool:
    try:
        if NAN_EQUAL:
            if _isnan(a) and _isnan(b):
                return True
            if isinstance(a, (set, frozenset)) and isinstance(b, (set, frozenset)):
                return len(a) == len(b) and all(any(leaf_eq(x, y) for y in b) for x in a)
            if isinstance(a, tuple) and isinstance(b, tuple):
                return len(a) == len(b) and all(leaf_eq(x, y) for x, y in zip(a, b))
        return a is b or bool(a == b)
    except Exception:  # noqa: BLE001
        return False


def py_same(a, b) -> bool:  # noqa: C901, PLR0911, PLR0912
    """The property's "equal values of the same type": Python `==` (identity-or-equal at the leaves, as inside containers),
    the same container type at every level, and equal attributes that `==` ignores (default_factory, maxlen, typecode,
    dtype/shape, Series name, index)."""
    np = _np()
    scal = (bool, int, float, str, bytes, type(None), type, np.generic)
    if isinstance(a, scal) or isinstance(b, scal):
        if isinstance(a, scal) and isinstance(b, scal):
            if isinstance(a, (str, np.str_)) != isinstance(b, (str, np.str_)) or isinstance(a, bytes) != isinstance(b, bytes):
                return False
            return leaf_eq(a, b)
        return False
    if type(a) is not type(b):
        return False
    if isinstance(a, (tuple, list)):
        return len(a) == len(b) and all(py_same(x, y) for x, y in zip(a, b))
    if isinstance(a, collections.deque):
        return a.maxlen == b.maxlen and len(a) == len(b) and all(py_same(x, y) for x, y in zip(a, b))
    if isinstance(a, (set, frozenset)):
        return leaf_eq(a, b)
    if isinstance(a, collections.OrderedDict):
        return len(a) == len(b) and all(leaf_eq(k1, k2) and py_same(v1, v2) for (k1, v1), (k2, v2) in zip(a.items(), b.items()))
    if isinstance(a, dict):
        if isinstance(a, collections.defaultdict) and a.default_factory is not b.default_factory:
            return False
        if len(a) != len(b):
            return False
        for k, v in a.items():
            if k in b:
                if not py_same(v, b[k]):
                    return False
            elif not (NAN_EQUAL and any(leaf_eq(k, k2) and py_same(v, v2) for k2, v2 in b.items())):
                return False
        return True
    if isinstance(a, bytearray):
        return a == b
    if isinstance(a, array.array):
        return a.typecode == b.typecode and len(a) == len(b) and all(leaf_eq(x, y) for x, y in zip(a, b))
    if isinstance(a, np.ndarray):
        if a.shape != b.shape or a.dtype != b.dtype:
            return False
        if isinstance(a, np.ma.MaskedArray):
            ma, mb = np.ma.getmaskarray(a), np.ma.getmaskarray(b)
            return bool((ma == mb).all()) and bool((np.asarray(a.data)[~ma] == np.asarray(b.data)[~mb]).all())
        if a.dtype.names is not None:
            return bool((a == b).all())
        if a.dtype == object:
            return all(py_same(x, y) for x, y in zip(a.flatten(), b.flatten()))
        return bool(np.array_equal(a, b, equal_nan=True)) if NAN_EQUAL and a.dtype.kind == "f" else bool((a == b).all())
    if isinstance(a, Obj):
        return len(a.attrs) == len(b.attrs) and all(py_same(x, y) for x, y in zip(a.attrs, b.attrs))
    if isinstance(a, FOBJ_CLASSES):
        return all(len(p) == len(q) and all(py_same(x, y) for x, y in zip(p, q)) for p, q in zip(a.parts(), b.parts()))
    mod = type(a).__module__.split(".")[0]
    if mod == "pandas":
        import pandas as pd
        # the same labels in the same order (index, columns, name) and the same values row by row; numbers by `==` as everywhere
        # (an int64 and a float64 Series of equal values are the same value, like [1] and [1.0]); a NaN is a fresh object
        # whenever it is read, so a NaN-holding Series is not `py_same` to itself unless NAN_EQUAL (as for ndarrays)
        if isinstance(a, pd.Series):
            return (py_same(a.name, b.name) and len(a) == len(b) and _labels_same(a.index, b.index)
                    and all(py_same(x, y) for x, y in zip(a.tolist(), b.tolist())))
        if isinstance(a, pd.DataFrame):
            return (a.shape == b.shape and _labels_same(a.index, b.index) and _labels_same(a.columns, b.columns)
                    and all(py_same(x, y) for i in range(a.shape[1]) for x, y in zip(a.iloc[:, i].tolist(), b.iloc[:, i].tolist())))
    return leaf_eq(a, b)


def _labels_same(i, j) -> bool:
    return len(i) == len(j) and all(py_same(x, y) for x, y in zip(i.tolist(), j.tolist()))


def drop_zero_counts(x):
    """`x` with the zero counts of every Counter removed, at any depth (Counter.__eq__ treats a missing element as a zero count since
    Python 3.10: Counter(a=0) == Counter()).  Containers are rebuilt only along the paths read by `py_same`."""
    t = type(x)
    if t is collections.Counter:
        return collections.Counter({k: v for k, v in x.items() if not (isinstance(v, (int, float)) and v == 0)})
    if t in (list, tuple):
        return t(drop_zero_counts(y) for y in x)
    if t is collections.deque:
        return collections.deque((drop_zero_counts(y) for y in x), maxlen=x.maxlen)
    if t in (dict, collections.OrderedDict):
        return t((k, drop_zero_counts(v)) for k, v in x.items())
    if t is collections.defaultdict:
        d = collections.defaultdict(x.default_factory)
        for k, v in x.items():
            d[k] = drop_zero_counts(v)
        return d
    if t in FOBJ_CLASSES:
        h, v = x.parts()
        return t([drop_zero_counts(y) for y in h], [drop_zero_counts(y) for y in v])
    if t in (Obj, Obj2):
        return t(*[drop_zero_counts(y) for y in x.attrs])
    return x


def differ_only_in_zero_counts(a, b) -> bool:
    """not `py_same`, but the same once zero counts are dropped from every Counter: equal for Counter.__eq__, different mappings"""
    try:
        return not py_same(a, b) and py_same(drop_zero_counts(a), drop_zero_counts(b))
    except Exception:  # noqa: BLE001
        return False


def keq(k1, k2) -> bool:
    """Equality of two keys as a dict lookup sees it (identity or `==`)."""
    try:
        return hash(k1) == hash(k2) and bool((k1,) == (k2,))      # `np.float64(2) == (2,)` is a truthy array: hashes decide first
    except Exception:  # noqa: BLE001
        return False


# ---------------------------------------------------------------------------------------------- canonical printer
def show(k) -> str:  # noqa: PLR0911
    np = _np()
    if isinstance(k, tuple):
        return "(" + ",".join(show(x) for x in k) + ")"
    if isinstance(k, frozenset):
        return "f{" + ",".join(sorted(show(x) for x in k)) + "}"
    if isinstance(k, type):
        return f"<{k.__module__}.{k.__qualname__}>"
    if isinstance(k, np.generic):
        return f"np.{type(k).__name__}:{k.item()!r}"
    if isinstance(k, (bool, int, float, str, bytes, type(None))):
        return f"{type(k).__name__}:{k!r}"
    return f"?{type(k).__name__}:{k!r}"


def describe(fn, obj):
    """`("ok", key)` / `("exc", enum)`."""
    from pfimport import exc_enum
    try:
        return ("ok", fn(obj))
    except RecursionError:
        return ("exc", "RecursionError")
    except Exception as e:  # noqa: BLE001
        return ("exc", exc_enum(e))


def child_main():
    import pfimport  # noqa: F401
    from pipefunc.cache import to_hashable
    specs = json.loads(sys.stdin.read())
    for s in specs:
        try:
            obj = build(s)
        except Exception as e:  # noqa: BLE001
            print("BUILD-ERROR " + type(e).__name__)
            continue
        st, k = describe(to_hashable, obj)
        if st == "exc":
            print("EXC " + k)
        else:
            try:
                print("KEY " + show(k))
            except Exception as e:  # noqa: BLE001
                print("SHOW-ERROR " + type(e).__name__)


if __name__ == "__main__" and "--child" in sys.argv:
    child_main()
