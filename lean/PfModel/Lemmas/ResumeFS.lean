import PfModel.Model.ResumeFS
import PfModel.Lemmas.MapRun
/-! Helper lemmas for `Props/C05.lean`: the invariant of the repaired write protocol and the simulation of the resumable
    runner by `PF.Map`'s runner. -/
namespace PF.ResumeFS
open PF PF.Map

/-! ### folder states and prefixes -/

theorem applyAll_append (fs : FS) (a b : List Ev) : applyAll fs (a ++ b) = applyAll (applyAll fs a) b := by
  simp [applyAll, List.foldl_append]

theorem crashAt_zero (fs : FS) (evs : List Ev) : crashAt fs evs 0 = fs := by simp [crashAt, applyAll]

theorem crashAt_all (fs : FS) (evs : List Ev) (k : Nat) (h : evs.length ≤ k) : crashAt fs evs k = applyAll fs evs := by
  simp [crashAt, List.take_of_length_le h]

theorem crashAt_append (fs : FS) (a b : List Ev) (k : Nat) :
    crashAt fs (a ++ b) k = if k ≤ a.length then crashAt fs a k else crashAt (applyAll fs a) b (k - a.length) := by
  unfold crashAt
  split
  · next h => rw [List.take_append_of_le_length h]
  · next h =>
    have h' : a.length ≤ k := by omega
    rw [List.take_append, List.take_of_length_le h', applyAll_append]

/-- every prefix of `evs`, from any state satisfying `I`, satisfies `I` -/
def Safe (I : FS → Prop) (evs : List Ev) : Prop := ∀ fs, I fs → ∀ k, I (crashAt fs evs k)

theorem Safe.nil (I : FS → Prop) : Safe I [] := by
  intro fs h k; simpa [crashAt, applyAll] using h

theorem Safe.final {I : FS → Prop} {evs : List Ev} (h : Safe I evs) (fs : FS) (hI : I fs) : I (applyAll fs evs) := by
  have := h fs hI evs.length
  rwa [crashAt_all fs evs _ (Nat.le_refl _)] at this

theorem Safe.append {I : FS → Prop} {a b : List Ev} (ha : Safe I a) (hb : Safe I b) : Safe I (a ++ b) := by
  intro fs hI k
  rw [crashAt_append]
  split
  · exact ha fs hI k
  · exact hb _ (ha.final fs hI) _

theorem Safe.flatMap {I : FS → Prop} {α} (l : List α) (g : α → List Ev) (h : ∀ x ∈ l, Safe I (g x)) : Safe I (l.flatMap g) := by
  induction l with
  | nil => exact Safe.nil I
  | cons x xs ih =>
    rw [List.flatMap_cons]
    exact Safe.append (h x (by simp)) (ih fun y hy => h y (by simp [hy]))

/-- `{P} evs {Q}` with `I` at every prefix -/
def Trip (I P : FS → Prop) (evs : List Ev) (Q : FS → Prop) : Prop :=
  ∀ fs, I fs → P fs → (∀ k, I (crashAt fs evs k)) ∧ Q (applyAll fs evs)

theorem Trip.seq {I P Q R : FS → Prop} {a b : List Ev} (ha : Trip I P a Q) (hb : Trip I Q b R) : Trip I P (a ++ b) R := by
  intro fs hI hP
  obtain ⟨h1, h2⟩ := ha fs hI hP
  have hI' : I (applyAll fs a) := by
    have := h1 a.length; rwa [crashAt_all fs a _ (Nat.le_refl _)] at this
  obtain ⟨h3, h4⟩ := hb _ hI' h2
  refine ⟨?_, by rw [applyAll_append]; exact h4⟩
  intro k
  rw [crashAt_append]
  split
  · exact h1 k
  · exact h3 _

/-! ### the invariant -/

/-- `W p v`: `v` is a right content of the file `p` -/
abbrev Right := Path → Val → Prop

/-- every file that is not a temporary name is absent, or complete with a right value -/
def Inv (W : Right) (fs : FS) : Prop :=
  ∀ p, p.isTmp = false → fs.files p = none ∨ ∃ v, fs.files p = some (.complete v) ∧ W p v

def AllMeta (names : List String) (fs : FS) : Prop :=
  (∀ n ∈ names, ∃ v, fs.files (.input n) = some (.complete v)) ∧ ∃ v, fs.files .defaults = some (.complete v)

/-- an existing `run_info.json` implies complete inputs and defaults -/
def MetaOk (names : List String) (fs : FS) : Prop := fs.files .runInfo ≠ none → AllMeta names fs

/-- files present in `fs0` are still present -/
def Mono (fs0 fs : FS) : Prop := ∀ p, p.isTmp = false → (fs0.files p).isSome → (fs.files p).isSome

structure I (W : Right) (names : List String) (fs0 fs : FS) : Prop where
  inv : Inv W fs
  metaOk : MetaOk names fs
  mono : Mono fs0 fs

theorem I.start {W : Right} {names : List String} {fs : FS} (h1 : Inv W fs) (h2 : MetaOk names fs) : I W names fs fs :=
  ⟨h1, h2, fun _ _ h => h⟩

theorem tmp_ne {p q : Path} (h : q.isTmp = false) : q ≠ .tmp p := by
  intro e; subst e; simp [Path.isTmp] at h

/-- events that do not change any file -/
theorem Safe.noFile {J : FS → Prop} (e : Ev) (hJ : ∀ fs, J fs → J (apply fs e)) : Safe J [e] := by
  intro fs h k
  match k with
  | 0 => simpa [crashAt, applyAll] using h
  | k+1 => simpa [crashAt, applyAll] using hJ fs h

theorem I.congr_files {W : Right} {names : List String} {fs0 fs fs' : FS} (h : I W names fs0 fs) (e : fs'.files = fs.files) :
    I W names fs0 fs' := by
  refine ⟨?_, ?_, ?_⟩
  · intro p hp; rw [e]; exact h.inv p hp
  · intro hr; rw [e] at hr; have := h.metaOk hr; unfold AllMeta at *; rw [e]; exact this
  · intro p hp h0; rw [e]; exact h.mono p hp h0

theorem safe_mkdirp (W : Right) (names : List String) (fs0 : FS) (d : Dir) : Safe (I W names fs0) [.mkdirp d] :=
  Safe.noFile _ fun _ h => h.congr_files rfl

theorem safe_call (W : Right) (names : List String) (fs0 : FS) (fn : String) (li : Nat) (a : List (String × Val)) :
    Safe (I W names fs0) [.call fn li a] :=
  Safe.noFile _ fun _ h => h.congr_files rfl

/-- changing only temporary names keeps the invariant -/
theorem I.of_same_nontmp {W : Right} {names : List String} {fs0 fs fs' : FS} (h : I W names fs0 fs)
    (e : ∀ p, p.isTmp = false → fs'.files p = fs.files p) : I W names fs0 fs' := by
  refine ⟨?_, ?_, ?_⟩
  · intro p hp; rw [e p hp]; exact h.inv p hp
  · intro hr
    rw [e _ rfl] at hr
    obtain ⟨h1, h2⟩ := h.metaOk hr
    refine ⟨fun n hn => ?_, ?_⟩
    · rw [e _ rfl]; exact h1 n hn
    · rw [e _ rfl]; exact h2
  · intro p hp h0; rw [e p hp]; exact h.mono p hp h0

/-- a file that is not `run_info.json` is replaced by a complete right value -/
theorem I.set_complete {W : Right} {names : List String} {fs0 fs fs' : FS} (h : I W names fs0 fs) (p : Path) (v : Val)
    (hp : p.isTmp = false) (hW : W p v) (hne : p ≠ .runInfo)
    (e : ∀ q, q.isTmp = false → fs'.files q = if q = p then some (.complete v) else fs.files q) : I W names fs0 fs' := by
  refine ⟨?_, ?_, ?_⟩
  · intro q hq; rw [e q hq]
    split
    · next hqp => subst hqp; exact Or.inr ⟨v, rfl, hW⟩
    · exact h.inv q hq
  · intro hr
    rw [e _ rfl, if_neg (Ne.symm hne)] at hr
    obtain ⟨h1, h2⟩ := h.metaOk hr
    refine ⟨fun n hn => ?_, ?_⟩
    · rw [e _ rfl]; split
      · exact ⟨v, rfl⟩
      · exact h1 n hn
    · rw [e _ rfl]; split
      · exact ⟨v, rfl⟩
      · exact h2
  · intro q hq h0; rw [e q hq]; split
    · rfl
    · exact h.mono q hq h0

/-- **The repaired `dump`** (temporary name, then `os.replace`) keeps the invariant at every prefix, for every file other
    than `run_info.json` -/
theorem safe_write (W : Right) (names : List String) (fs0 : FS) (p : Path) (v : Val) (hp : p.isTmp = false) (hW : W p v)
    (hne : p ≠ .runInfo) : Safe (I W names fs0) (writeEvs false p v) := by
  intro fs h k
  have ht : ∀ q : Path, q.isTmp = false → q ≠ .tmp p := fun q hq => tmp_ne hq
  match k with
  | 0 => simpa [crashAt, applyAll] using h
  | 1 => exact h.congr_files (by simp [crashAt, applyAll, writeEvs, apply])
  | 2 => exact h.of_same_nontmp fun q hq => by simp [crashAt, applyAll, writeEvs, apply, FS.set, ht q hq]
  | 3 => exact h.of_same_nontmp fun q hq => by simp [crashAt, applyAll, writeEvs, apply, FS.set, ht q hq]
  | 4 => exact h.of_same_nontmp fun q hq => by simp [crashAt, applyAll, writeEvs, apply, FS.set, ht q hq]
  | k+5 =>
    refine h.set_complete p v hp hW hne fun q hq => ?_
    simp only [crashAt, applyAll, writeEvs, apply, FS.set, List.take, List.foldl, Bool.false_eq_true, ↓reduceIte]
    simp [ht q hq]

/-- writing `run_info.json` last: safe once the inputs and the defaults are complete -/
theorem trip_runInfo (W : Right) (names : List String) (fs0 : FS) (v : Val) (hW : W .runInfo v) :
    Trip (I W names fs0) (AllMeta names) (writeEvs false .runInfo v) (fun _ => True) := by
  intro fs h hA
  refine ⟨?_, trivial⟩
  intro k
  have ht : ∀ q : Path, q.isTmp = false → q ≠ .tmp .runInfo := fun q hq => tmp_ne hq
  match k with
  | 0 => simpa [crashAt, applyAll] using h
  | 1 => exact h.congr_files (by simp [crashAt, applyAll, writeEvs, apply])
  | 2 => exact h.of_same_nontmp fun q hq => by simp [crashAt, applyAll, writeEvs, apply, FS.set, ht q hq]
  | 3 => exact h.of_same_nontmp fun q hq => by simp [crashAt, applyAll, writeEvs, apply, FS.set, ht q hq]
  | 4 => exact h.of_same_nontmp fun q hq => by simp [crashAt, applyAll, writeEvs, apply, FS.set, ht q hq]
  | k+5 =>
    have e : ∀ q, q.isTmp = false →
        (crashAt fs (writeEvs false .runInfo v) (k+5)).files q = if q = .runInfo then some (.complete v) else fs.files q := by
      intro q hq
      simp only [crashAt, applyAll, writeEvs, apply, FS.set, List.take, List.foldl, Bool.false_eq_true, ↓reduceIte]
      simp [ht q hq]
    refine ⟨?_, ?_, ?_⟩
    · intro q hq; rw [e q hq]; split
      · next hqp => subst hqp; exact Or.inr ⟨v, rfl, hW⟩
      · exact h.inv q hq
    · intro _
      obtain ⟨h1, h2⟩ := hA
      refine ⟨fun n hn => ?_, ?_⟩
      · rw [e _ rfl]; simpa using h1 n hn
      · rw [e _ rfl]; simpa using h2
    · intro q hq h0; rw [e q hq]; split
      · rfl
      · exact h.mono q hq h0

end PF.ResumeFS
