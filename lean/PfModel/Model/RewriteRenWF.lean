/-
The well-formedness `PF.Rw.WF` of a function's naming state (hypothesis of the `C10_renames_*` theorems, `Lemmas/RewriteRen.lean`) as a
Boolean the driver evaluates on every function before every `update_renames(update_from, overwrite)` step: what `PipeFunc._validate` and
`_validate_mapspec` maintain (`pipefunc/_pipefunc.py:589-603, 845-884`).  Core Lean only.
-/
import PfModel.Model.RewriteRen
namespace PF.Rw

def wfB (f : RFunc) : Bool :=
  decide ((inverseOf f).map (·.1)).Nodup && decide ((inverseOf f).map (·.2)).Nodup &&
  (f.core.outputs.length == f.outOrig.length) &&
  f.core.defaults.all (fun kv => (f.core.params.map (·.1)).contains kv.1) &&
  f.core.bound.all (fun kv => (f.core.params.map (·.1)).contains kv.1) &&
  (match f.mapspec with
   | none => true
   | some ms => (ms.inputs ++ ms.outputs).all fun a => ((inverseOf f).map (·.1)).contains a.name)

end PF.Rw
