import PfModel.Model.Storage
/-! Helper lemmas for C07 (`Props/C07.lean`): association lists, `slice.indices`/`range`, `normalize_key`,
    `itertools.product`, and the fold lemmas that turn the `to_array` loops into lookups. -/
namespace PF.St

/-! ### association lists -/
section assoc
variable {K V : Type} [DecidableEq K]

theorem alook_ains (d : List (K × V)) (k x : K) (v : V) :
    alook (ains d k v) x = if k = x then some v else alook d x := by
  induction d with
  | nil => simp [ains, alook]
  | cons p r ih =>
    obtain ⟨k', w⟩ := p
    simp only [ains]
    split
    · next e => subst e; simp only [alook]; split <;> simp_all
    · next e =>
      simp only [alook, ih]
      by_cases e' : k' = x
      · subst e'
        have : ¬ k = k' := fun h => e h.symm
        simp [this]
      · simp [e']

theorem mem_ains (d : List (K × V)) (k : K) (v : V) (p : K × V) (h : p ∈ ains d k v) : p = (k, v) ∨ p ∈ d := by
  induction d with
  | nil => simp [ains] at h; exact Or.inl h
  | cons q r ih =>
    obtain ⟨k', w⟩ := q
    simp only [ains] at h
    split at h
    · next e =>
      subst e
      rcases List.mem_cons.mp h with h | h
      · exact Or.inl h
      · exact Or.inr (List.mem_cons_of_mem _ h)
    · rcases List.mem_cons.mp h with h | h
      · exact Or.inr (h ▸ List.mem_cons_self)
      · rcases ih h with h | h
        · exact Or.inl h
        · exact Or.inr (List.mem_cons_of_mem _ h)

/-- keys are pairwise distinct (a Python `dict`) -/
def Uniq : List (K × V) → Prop
  | [] => True
  | (k, _) :: r => (∀ p ∈ r, p.1 ≠ k) ∧ Uniq r

theorem mem_ains_key (d : List (K × V)) (k : K) (v : V) (p : K × V) (h : p ∈ ains d k v) : p.1 = k ∨ ∃ q ∈ d, q.1 = p.1 := by
  rcases mem_ains d k v p h with h | h
  · exact Or.inl (by rw [h])
  · exact Or.inr ⟨p, h, rfl⟩

theorem uniq_ains (d : List (K × V)) (k : K) (v : V) (h : Uniq d) : Uniq (ains d k v) := by
  induction d with
  | nil => simp [ains, Uniq]
  | cons q r ih =>
    obtain ⟨k', w⟩ := q
    simp only [ains]
    split
    · next e => subst e; exact h
    · next e =>
      refine ⟨?_, ih h.2⟩
      intro p hp
      rcases mem_ains r k v p hp with hp | hp
      · rw [hp]; exact fun e' => e e'.symm
      · exact h.1 p hp

theorem alook_of_mem (d : List (K × V)) (k : K) (v : V) (hu : Uniq d) (h : (k, v) ∈ d) : alook d k = some v := by
  induction d with
  | nil => simp at h
  | cons q r ih =>
    obtain ⟨k', w⟩ := q
    simp only [alook]
    rcases List.mem_cons.mp h with h | h
    · injection h with h1 h2; subst h1; subst h2; simp
    · have := hu.1 _ h
      simp only at this
      rw [if_neg (fun e => this e.symm)]
      exact ih hu.2 h

theorem mem_of_alook (d : List (K × V)) (k : K) (v : V) (h : alook d k = some v) : (k, v) ∈ d := by
  induction d with
  | nil => simp [alook] at h
  | cons q r ih =>
    obtain ⟨k', w⟩ := q
    simp only [alook] at h
    split at h
    · next e => subst e; injection h with h; subst h; exact List.mem_cons_self
    · exact List.mem_cons_of_mem _ (ih h)

theorem alook_none_of_not_mem (d : List (K × V)) (k : K) (h : alook d k = none) : ∀ p ∈ d, p.1 ≠ k := by
  induction d with
  | nil => intro p hp; simp at hp
  | cons q r ih =>
    obtain ⟨k', w⟩ := q
    simp only [alook] at h
    split at h
    · simp at h
    · next e =>
      intro p hp
      rcases List.mem_cons.mp hp with hp | hp
      · rw [hp]; exact e
      · exact ih h p hp

/-- a loop of `d[key E] = v` over `ts` -/
theorem alook_foldl_ains {ι} (key : ι → K) (ts : List ι) (d : List (K × V)) (v : V) (x : K) :
    alook (ts.foldl (fun d E => ains d (key E) v) d) x = if (∃ E ∈ ts, key E = x) then some v else alook d x := by
  induction ts generalizing d with
  | nil => simp
  | cons t ts ih =>
    simp only [List.foldl]
    rw [ih, alook_ains]
    by_cases h1 : ∃ E ∈ ts, key E = x
    · have : ∃ E ∈ t :: ts, key E = x := by obtain ⟨E, hE, e⟩ := h1; exact ⟨E, List.mem_cons_of_mem _ hE, e⟩
      simp [h1, this]
    · by_cases h2 : key t = x
      · have : ∃ E ∈ t :: ts, key E = x := ⟨t, List.mem_cons_self, h2⟩
        simp [h1, h2, this]
      · have : ¬ ∃ E ∈ t :: ts, key E = x := by
          rintro ⟨E, hE, e⟩
          rcases List.mem_cons.mp hE with hE | hE
          · exact h2 (hE ▸ e)
          · exact h1 ⟨E, hE, e⟩
        simp [h1, h2, this]

theorem uniq_foldl_ains {ι} (key : ι → K) (ts : List ι) (d : List (K × V)) (v : V) (h : Uniq d) :
    Uniq (ts.foldl (fun d E => ains d (key E) v) d) := by
  induction ts generalizing d with
  | nil => exact h
  | cons t ts ih => exact ih _ (uniq_ains d (key t) v h)

theorem mem_foldl_ains {ι} (key : ι → K) (ts : List ι) (d : List (K × V)) (v : V) (p : K × V)
    (h : p ∈ ts.foldl (fun d E => ains d (key E) v) d) : (∃ E ∈ ts, key E = p.1) ∨ p ∈ d := by
  induction ts generalizing d with
  | nil => exact Or.inr h
  | cons t ts ih =>
    rcases ih _ h with ⟨E, hE, e⟩ | h
    · exact Or.inl ⟨E, List.mem_cons_of_mem _ hE, e⟩
    · rcases mem_ains d (key t) v p h with h | h
      · exact Or.inl ⟨t, List.mem_cons_self, by rw [h]⟩
      · exact Or.inr h

end assoc
/-! ### `slice.indices` and `range` -/
theorem sliceIndices_bounds (n : Nat) (a b c : Option Int) (s e st : Int)
    (h : sliceIndices n a b c = .ok (s, e, st)) :
    st ≠ 0 ∧ (0 < st → 0 ≤ s ∧ e ≤ n) ∧ (st < 0 → s ≤ (n : Int) - 1 ∧ -1 ≤ e) := by
  unfold sliceIndices at h
  simp only at h
  split at h
  · cases h
  · next hst =>
    injection h with h
    injection h with h1 h2
    injection h2 with h2 h3
    subst h3
    refine ⟨hst, ?_, ?_⟩
    · intro hp
      subst h1; subst h2
      constructor
      · cases a <;> simp only <;> split <;> (try split) <;> omega
      · cases b <;> simp only <;> split <;> (try split) <;> omega
    · intro hn
      subst h1; subst h2
      constructor
      · cases a <;> simp only <;> split <;> (try split) <;> omega
      · cases b <;> simp only <;> split <;> (try split) <;> omega

theorem rangeLen_pos_elem (s e st : Int) (j : Nat) (hj : j < rangeLen s e st) :
    (0 < st → s + (j : Int) * st < e ∧ s ≤ s + (j : Int) * st) ∧
    (st < 0 → e < s + (j : Int) * st ∧ s + (j : Int) * st ≤ s) := by
  unfold rangeLen at hj
  constructor
  · intro hp
    rw [if_pos hp] at hj
    split at hj
    · next hse =>
      have hq : (j : Int) < (e - s + st - 1) / st := by omega
      have h1 : ((j : Int) + 1) * st ≤ (e - s + st - 1) / st * st :=
        Int.mul_le_mul_of_nonneg_right (by omega) (by omega)
      have h2 : (e - s + st - 1) / st * st ≤ e - s + st - 1 := Int.ediv_mul_le _ (by omega)
      have h3 : ((j : Int) + 1) * st = (j : Int) * st + st := by rw [Int.add_mul]; simp
      have h4 : 0 ≤ (j : Int) * st := Int.mul_nonneg (by omega) (by omega)
      omega
    · omega
  · intro hn
    rw [if_neg (by omega)] at hj
    split at hj
    · next hse =>
      have hm : 0 < -st := by omega
      have hq : (j : Int) < (s - e + (-st) - 1) / (-st) := by omega
      have h1 : ((j : Int) + 1) * (-st) ≤ (s - e + (-st) - 1) / (-st) * (-st) :=
        Int.mul_le_mul_of_nonneg_right (by omega) (by omega)
      have h2 : (s - e + (-st) - 1) / (-st) * (-st) ≤ s - e + (-st) - 1 := Int.ediv_mul_le _ (by omega)
      have h3 : ((j : Int) + 1) * (-st) = -((j : Int) * st) + (-st) := by rw [Int.add_mul, Int.mul_neg]; simp
      have h4 : 0 ≤ (j : Int) * (-st) := Int.mul_nonneg (by omega) (by omega)
      have h5 : (j : Int) * (-st) = -((j : Int) * st) := Int.mul_neg _ _
      omega
    · omega

theorem sliceRange_lt (n : Nat) (a b c : Option Int) (r : List Nat) (h : sliceRange n a b c = .ok r) :
    ∀ x ∈ r, x < n := by
  unfold sliceRange at h
  split at h
  · cases h
  · next s e st hs =>
    injection h with h
    subst h
    intro x hx
    obtain ⟨j, hj, rfl⟩ := List.mem_map.mp hx
    have hj' := List.mem_range.mp hj
    obtain ⟨hne, hpos, hneg⟩ := sliceIndices_bounds n a b c s e st hs
    obtain ⟨hp, hn⟩ := rangeLen_pos_elem s e st j hj'
    rcases Int.lt_or_gt_of_ne hne with hlt | hgt
    · have := hn hlt; have := hneg hlt; omega
    · have := hp hgt; have := hpos hgt; omega

/-! ### `normalize_key` -/

/-- an integer entry `e` on an axis of size `n` is acceptable iff `-n ≤ e < n`; slices always are -/
def EntryOK (n : Nat) : KE → Prop
  | .int k => -(n : Int) ≤ k ∧ k < n
  | .slice .. => True

instance (n : Nat) (k : KE) : Decidable (EntryOK n k) := by cases k <;> unfold EntryOK <;> exact inferInstance

/-- the non-negative key: `e` or `e + n` -/
def normVal (n : Nat) : KE → NK
  | .int k => .idx (if 0 ≤ k then k else k + n).toNat
  | .slice a b c => .slc a b c

/-- right rank and every entry acceptable for its axis -/
def KeyOK : List Nat → List KE → Prop
  | [], [] => True
  | n :: ns, k :: ks => EntryOK n k ∧ KeyOK ns ks
  | _, _ => False

instance decKeyOK : (s : List Nat) → (k : List KE) → Decidable (KeyOK s k)
  | [], [] => isTrue trivial
  | [], _ :: _ => isFalse id
  | _ :: _, [] => isFalse id
  | n :: ns, k :: ks =>
    match (inferInstance : Decidable (EntryOK n k)), decKeyOK ns ks with
    | isTrue h1, isTrue h2 => isTrue ⟨h1, h2⟩
    | isFalse h1, _ => isFalse (fun h => h1 h.1)
    | _, isFalse h2 => isFalse (fun h => h2 h.2)

instance decInRange : (s k : List Nat) → Decidable (InRange s k)
  | [], [] => isTrue trivial
  | [], _ :: _ => isFalse id
  | _ :: _, [] => isFalse id
  | d :: ds, k :: ks =>
    match (inferInstance : Decidable (k < d)), decInRange ds ks with
    | isTrue h1, isTrue h2 => isTrue ⟨h1, h2⟩
    | isFalse h1, _ => isFalse (fun h => h1 h.1)
    | _, isFalse h2 => isFalse (fun h => h2 h.2)

def normVals : List Nat → List KE → List NK
  | n :: ns, k :: ks => normVal n k :: normVals ns ks
  | _, _ => []

theorem normEntry_ok (n : Nat) (k : KE) (h : EntryOK n k) : normEntry n k = .ok (normVal n k) := by
  cases k with
  | slice a b c => rfl
  | int k =>
    simp only [EntryOK] at h
    simp only [normEntry, normVal]
    rw [if_pos]
    split <;> omega

theorem normEntry_err (n : Nat) (k : KE) (h : ¬ EntryOK n k) : normEntry n k = .error .index := by
  cases k with
  | slice a b c => exact absurd trivial h
  | int k =>
    simp only [EntryOK] at h
    simp only [normEntry]
    rw [if_neg]
    split <;> omega

theorem normAxes_ok : ∀ (sizes : List Nat) (key : List KE), KeyOK sizes key → normAxes sizes key = .ok (normVals sizes key)
  | [], [], _ => rfl
  | [], _ :: _, h => h.elim
  | _ :: _, [], h => h.elim
  | n :: ns, k :: ks, h => by
    simp only [normAxes, normVals, normEntry_ok n k h.1, normAxes_ok ns ks h.2]

theorem normAxes_err : ∀ (sizes : List Nat) (key : List KE), sizes.length = key.length → ¬ KeyOK sizes key →
    normAxes sizes key = .error .index
  | [], [], _, h => (h trivial).elim
  | [], _ :: _, hl, _ => by simp at hl
  | _ :: _, [], hl, _ => by simp at hl
  | n :: ns, k :: ks, hl, h => by
    simp only [normAxes]
    by_cases h1 : EntryOK n k
    · have h2 : ¬ KeyOK ns ks := fun h2 => h ⟨h1, h2⟩
      rw [normEntry_ok n k h1, normAxes_err ns ks (by simpa using hl) h2]
    · rw [normEntry_err n k h1]

theorem keyOK_length : ∀ (sizes : List Nat) (key : List KE), KeyOK sizes key → sizes.length = key.length
  | [], [], _ => rfl
  | [], _ :: _, h => h.elim
  | _ :: _, [], h => h.elim
  | _ :: ns, _ :: ks, h => by simp [keyOK_length ns ks h.2]

theorem expectedRank_eq (g : Geom) (hg : g.WF) (fd : Bool) : expectedRank g fd = (axisSizes g fd).length := by
  cases fd
  · simp only [expectedRank, axisSizes, Geom.full]
    exact (length_select g.mask g.shape g.internal hg.1 hg.2).symm
  · simp only [expectedRank, axisSizes]; exact hg.1.symm

theorem normalizeKey_ok (g : Geom) (hg : g.WF) (fd : Bool) (key : List KE) (h : KeyOK (axisSizes g fd) key) :
    normalizeKey g fd key = .ok (normVals (axisSizes g fd) key) := by
  unfold normalizeKey
  rw [expectedRank_eq g hg fd, if_neg (by simp [keyOK_length _ _ h]), normAxes_ok _ _ h]

theorem normalizeKey_err (g : Geom) (hg : g.WF) (fd : Bool) (key : List KE) (h : ¬ KeyOK (axisSizes g fd) key) :
    normalizeKey g fd key = .error .index := by
  unfold normalizeKey
  rw [expectedRank_eq g hg fd]
  split
  · rfl
  · next hl => exact normAxes_err _ _ (by simp at hl; exact hl.symm) h

/-- a normalised key fits the axis sizes -/
def NKOK : List Nat → List NK → Prop
  | [], [] => True
  | n :: ns, .idx v :: ks => v < n ∧ NKOK ns ks
  | _ :: ns, .slc .. :: ks => NKOK ns ks
  | _, _ => False

theorem nkok_normVals : ∀ (sizes : List Nat) (key : List KE), KeyOK sizes key → NKOK sizes (normVals sizes key)
  | [], [], _ => trivial
  | [], _ :: _, h => h.elim
  | _ :: _, [], h => h.elim
  | n :: ns, k :: ks, h => by
    cases k with
    | slice a b c => simp only [normVals, normVal, NKOK]; exact nkok_normVals ns ks h.2
    | int k =>
      simp only [normVals, normVal, NKOK]
      refine ⟨?_, nkok_normVals ns ks h.2⟩
      have := h.1; simp only [EntryOK] at this
      split <;> omega

/-- whatever `normalize_key` accepts fits the axis sizes -/
theorem normalizeKey_nkok (g : Geom) (hg : g.WF) (fd : Bool) (key : List KE) (nk : List NK)
    (h : normalizeKey g fd key = .ok nk) : NKOK (axisSizes g fd) nk := by
  by_cases hk : KeyOK (axisSizes g fd) key
  · rw [normalizeKey_ok g hg fd key hk] at h; injection h with h; subst h; exact nkok_normVals _ _ hk
  · rw [normalizeKey_err g hg fd key hk] at h; cases h

theorem mem_product_cons (r : List Nat) (rs : List (List Nat)) (F : List Nat) :
    F ∈ product (r :: rs) ↔ ∃ k ∈ r, ∃ F' ∈ product rs, F = k :: F' := by
  simp only [product, List.mem_flatMap, List.mem_map]
  constructor
  · rintro ⟨k, hk, F', hF', e⟩; exact ⟨k, hk, F', hF', e.symm⟩
  · rintro ⟨k, hk, F', hF', e⟩; exact ⟨k, hk, F', hF', e.symm⟩

def NK.Fits (n : Nat) : NK → Prop
  | .idx v => v < n
  | .slc .. => True

theorem axisRange_lt (n : Nat) (k : NK) (r : List Nat) (hk : k.Fits n)
    (h : axisRange n k = .ok r) : ∀ x ∈ r, x < n := by
  cases k with
  | idx v => simp only [axisRange] at h; injection h with h; subst h; intro x hx; simp at hx; subst hx; exact hk
  | slc a b c => exact sliceRange_lt n a b c r h

/-- every tuple of `itertools.product(*_slice_indices(key))` is a valid index of the array -/
theorem keyRanges_inRange : ∀ (sizes : List Nat) (nk : List NK) (rs : List (List Nat)), NKOK sizes nk →
    keyRanges sizes nk = .ok rs → ∀ F ∈ product rs, InRange sizes F
  | [], [], rs, _, h => by
    simp only [keyRanges] at h; injection h with h; subst h
    intro F hF; simp [product] at hF; subst hF; trivial
  | [], _ :: _, _, hk, _ => hk.elim
  | _ :: _, [], _, hk, _ => hk.elim
  | n :: ns, k :: ks, rs, hk, h => by
    simp only [keyRanges] at h
    split at h
    · cases h
    · next r hr =>
      split at h
      · cases h
      · next rs' hrs =>
        injection h with h; subst h
        have hk' : k.Fits n ∧ NKOK ns ks := by
          cases k with
          | idx v => exact hk
          | slc a b c => exact ⟨trivial, hk⟩
        intro F hF
        obtain ⟨x, hx, F', hF', e⟩ := (mem_product_cons r rs' F).mp hF
        subst e
        exact ⟨axisRange_lt n k r hk'.1 hr x hx, keyRanges_inRange ns ks rs' hk'.2 hrs F' hF'⟩

theorem nkok_scalar : ∀ (sizes : List Nat) (nk : List NK), NKOK sizes nk → nk.any NK.isSlc = false →
    InRange sizes (nk.map NK.val)
  | [], [], _, _ => trivial
  | [], _ :: _, hk, _ => hk.elim
  | _ :: _, [], hk, _ => hk.elim
  | n :: ns, .idx v :: ks, hk, hs => by
    simp only [List.map, NK.val, InRange]
    exact ⟨hk.1, nkok_scalar ns ks hk.2 (by simpa [NK.isSlc] using hs)⟩
  | n :: ns, .slc a b c :: ks, _, hs => by simp [NK.isSlc] at hs

/-! ### folds -/
variable {V : Type}

/-- `_key_to_file` is the row-major linear index -/
theorem keyToFile_eq_ravel : ∀ (shape key : List Nat), keyToFile shape key = ravel shape key
  | [], [] => rfl
  | [], _ :: _ => by simp [keyToFile, strides, ravel]
  | _ :: _, [] => by simp [keyToFile, ravel]
  | d :: ds, k :: ks => by
    have ih := keyToFile_eq_ravel ds ks
    simp only [keyToFile, strides, ravel, List.zip_cons_cons, List.map_cons, List.foldr_cons] at ih ⊢
    rw [ih]

/-- a loop `arr[key] = val(value)` over the items of a dict with distinct in-range keys leaves, at the row-major
    position of an in-range key, the image of the dict's entry -/
theorem fold_upd_dict {X} (shape : List Nat) (d : Dict V) (val : List V → X) (hu : Uniq d)
    (hr : ∀ p ∈ d, InRange shape p.1) (E : List Nat) (hE : InRange shape E) :
    (d.foldl (fun a x => upd a (ravel shape x.1) (val x.2)) (fun _ => none)) (ravel shape E) = (alook d E).map val := by
  cases h : alook d E with
  | some v =>
    have hm := mem_of_alook d E v h
    refine foldl_upd_hit d (fun x => ravel shape x.1) (fun x => val x.2) _ _ _ ⟨(E, v), hm, rfl⟩ ?_
    intro y hy e
    have : y.1 = E := ravel_inj shape _ _ (hr y hy) hE e
    have h2 := alook_of_mem d y.1 y.2 hu hy
    rw [this, h] at h2
    injection h2 with h2
    simp [h2]
  | none =>
    rw [foldl_upd_other d (fun x => ravel shape x.1) (fun x => val x.2)]
    · rfl
    · intro x hx e
      have : x.1 = E := ravel_inj shape _ _ (hr x hx) hE e
      exact alook_none_of_not_mem d E h x hx this

/-- The splat loops of both back ends: an outer loop over items `x` with distinct in-range external keys `ekey x`, an
    inner loop over `iterate_shape_indices(internal_shape)` writing `val x` at the interleaved full index. -/
theorem splat_fold {ι X} (m : List Bool) (es is : List Nat) (h1 : es.length = nTrue m) (h2 : is.length = nFalse m)
    (L : List ι) (ekey : ι → List Nat) (val : ι → Nat → X)
    (hr : ∀ x ∈ L, InRange es (ekey x)) (hinj : ∀ x ∈ L, ∀ y ∈ L, ekey x = ekey y → x = y)
    (F : List Nat) (hF : InRange (selectByMask m es is) F) :
    (L.foldl (fun a x => (allIdx is).foldl (fun a I => upd a (flatIdx m es is (ekey x) I) (val x (ravel is I))) a)
      (fun _ => none)) (ravel (selectByMask m es is) F)
    = match L.find? (fun x => ekey x = extOf m F) with
      | some x => some (val x (ravel is (intOf m F)))
      | none => none := by
  have hlen : (selectByMask m es is).length = m.length := length_select m es is h1 h2
  have hFlen : F.length = m.length := (inRange_length _ _ hF).symm.trans hlen
  have hE0 : InRange es (extOf m F) := by
    have := inRange_ext m _ F hF hlen; rwa [ext_select m es is h1 h2] at this
  have hI0 : InRange is (intOf m F) := by
    have := inRange_int m _ F hF hlen; rwa [int_select m es is h1 h2] at this
  have hsel : selectByMask m (extOf m F) (intOf m F) = F := select_ext_int m F hFlen
  have hj : ravel (selectByMask m es is) F = flatIdx m es is (extOf m F) (intOf m F) := by simp [flatIdx, hsel]
  rw [hj]
  cases hfind : L.find? (fun x => ekey x = extOf m F) with
  | some x0 =>
    have hx0 : x0 ∈ L := List.mem_of_find?_eq_some hfind
    have hk0 : ekey x0 = extOf m F := by simpa using List.find?_some hfind
    simp only
    refine foldl_set_once L
      (fun x a => (allIdx is).foldl (fun a I => upd a (flatIdx m es is (ekey x) I) (val x (ravel is I))) a) _ _ _ x0 hx0 ?_ ?_
    · intro b
      simp only [hk0]
      refine foldl_upd_hit (allIdx is) _ _ b _ _ ⟨intOf m F, (mem_allIdx _ _).mpr hI0, rfl⟩ ?_
      intro I hI e
      have hI' := (mem_allIdx _ _).mp hI
      have := (flat_inj m es is _ _ _ _ h1 h2 hE0 hI' hE0 hI0 e).2
      rw [this]
    · intro x hx hne b
      refine foldl_upd_other (allIdx is) _ _ b _ ?_
      intro I hI e
      have hI' := (mem_allIdx _ _).mp hI
      have := (flat_inj m es is _ _ _ _ h1 h2 (hr x hx) hI' hE0 hI0 e).1
      exact hne (hinj x hx x0 hx0 (this.trans hk0.symm))
  | none =>
    simp only
    have hnone : ∀ x ∈ L, ekey x ≠ extOf m F := by
      intro x hx e
      have := List.find?_eq_none.mp hfind x hx
      simp [e] at this
    rw [foldl_preserve L
      (fun x a => (allIdx is).foldl (fun a I => upd a (flatIdx m es is (ekey x) I) (val x (ravel is I))) a)]
    intro x hx b
    refine foldl_upd_other (allIdx is) _ _ b _ ?_
    intro I hI e
    have hI' := (mem_allIdx _ _).mp hI
    exact hnone x hx (flat_inj m es is _ _ _ _ h1 h2 (hr x hx) hI' hE0 hI0 e).1

/-! ### representation relations and per-operation refinement -/

/-- a `DictArray` state represents the masked array `a`: same entries, distinct in-range keys -/
def RepD (g : Geom) (d : Dict V) (a : MArr V) : Prop :=
  (∀ E, alook d E = a E) ∧ Uniq d ∧ (∀ p ∈ d, InRange g.shape p.1)

/-- a `FileArray` folder represents `a`: the file of the linear index of every in-range key holds `a`'s element -/
def RepF (g : Geom) (f : Files V) (a : MArr V) : Prop :=
  ∀ E, InRange g.shape E → alook f (keyToFile g.shape E) = a E

theorem dumpTargets_inRange (g : Geom) (hg : g.WF) (key : List KE) (ts : List (List Nat))
    (h : dumpTargets g key = .ok ts) : ∀ E ∈ ts, InRange g.shape E := by
  unfold dumpTargets at h
  split at h
  · cases h
  · next nk hnk =>
    split at h
    · cases h
    · next rs hrs =>
      injection h with h; subst h
      have := normalizeKey_nkok g hg true key nk hnk
      simp only [axisSizes] at this
      exact keyRanges_inRange g.shape nk rs this hrs

theorem getItemWith_congr (g : Geom) (hg : g.WF) (lk lk' : List Nat → Option (List V))
    (h : ∀ F, InRange g.full F → cellOf g lk F = cellOf g lk' F) (key : List KE) :
    getItemWith g lk key = getItemWith g lk' key := by
  unfold getItemWith
  split
  · rfl
  · next nk hnk =>
    have hok := normalizeKey_nkok g hg false key nk hnk
    simp only [axisSizes] at hok
    split
    · split
      · rfl
      · next rs hrs =>
        congr 1
        apply List.map_congr_left
        intro F hF
        exact h F (keyRanges_inRange g.full nk rs hok hrs F hF)
    · next hs =>
      congr 1
      exact h _ (nkok_scalar g.full nk hok (by simpa using hs))

theorem readOut_eq {X} (dflt : X) (shape : List Nat) (arr : Flat X) (f : List Nat → X)
    (h : ∀ E, InRange shape E → (arr (ravel shape E)).getD dflt = f E) :
    readOut dflt (prod shape) arr = (allIdx shape).map f := by
  rw [← map_key_range, List.map_map]
  unfold readOut
  apply List.map_congr_left
  intro i hi
  obtain ⟨hr, hin⟩ := ravel_key shape i (List.mem_range.mp hi)
  simp only [Function.comp]
  rw [← h _ hin, hr]

theorem range_eq_allIdx {X} (shape : List Nat) (f : Nat → X) (f' : List Nat → X)
    (h : ∀ E, InRange shape E → f (ravel shape E) = f' E) :
    (List.range (prod shape)).map f = (allIdx shape).map f' := by
  rw [← map_key_range, List.map_map]
  apply List.map_congr_left
  intro i hi
  obtain ⟨hr, hin⟩ := ravel_key shape i (List.mem_range.mp hi)
  simp only [Function.comp]
  rw [← h _ hin, hr]

theorem find?_fst (d : Dict V) (E : List Nat) :
    d.find? (fun x => x.1 = E) = (alook d E).map (fun v => (E, v)) := by
  induction d with
  | nil => rfl
  | cons p r ih =>
    obtain ⟨k, v⟩ := p
    simp only [List.find?, alook]
    by_cases e : k = E
    · subst e; simp
    · simp [e, ih]

theorem find?_self (L : List (List Nat)) (x : List Nat) (h : x ∈ L) : L.find? (fun y => y = x) = some x := by
  cases hf : L.find? (fun y => y = x) with
  | some y => have := List.find?_some hf; simp at this; rw [this]
  | none => have := List.find?_eq_none.mp hf x h; simp at this

theorem intOf_ne_nil (g : Geom) (hg : g.WF) (hi : g.internal.isEmpty = false) (F : List Nat) (hF : InRange g.full F) :
    intOf g.mask F ≠ [] := by
  have hlen : g.full.length = g.mask.length := length_select g.mask g.shape g.internal hg.1 hg.2
  have hFlen : F.length = g.mask.length := (inRange_length _ _ hF).symm.trans hlen
  have := length_intOf g.mask F hFlen
  intro e
  rw [e, ← hg.2] at this
  cases hgi : g.internal with
  | nil => simp [hgi] at hi
  | cons _ _ => simp [hgi] at this

theorem extOf_inRange (g : Geom) (hg : g.WF) (F : List Nat) (hF : InRange g.full F) : InRange g.shape (extOf g.mask F) := by
  have hlen : g.full.length = g.mask.length := length_select g.mask g.shape g.internal hg.1 hg.2
  have := inRange_ext g.mask _ F hF hlen
  rwa [Geom.full, ext_select g.mask g.shape g.internal hg.1 hg.2] at this

/-- `DictArray.to_array` computes the specification's array -/
theorem dToArray_spec (g : Geom) (hg : g.WF) (d : Dict V) (a : MArr V) (h : RepD g d a) (s : Option Bool) :
    dToArray g d s = aToArray g a s := by
  obtain ⟨hla, hu, hr⟩ := h
  unfold dToArray aToArray
  split
  · congr 1
    apply readOut_eq
    intro E hE
    rw [fold_upd_dict g.shape d Cell.whole hu hr E hE, hla E]
    cases a E <;> rfl
  · split
    · rfl
    · next hi =>
      congr 1
      apply readOut_eq
      intro F hF
      have hi' : g.internal.isEmpty = false := by simpa using hi
      have hsf := splat_fold g.mask g.shape g.internal hg.1 hg.2 d (fun x => x.1) (fun x i => cellAt x.2 i) hr
        (fun x hx y hy e => by
          have h1 := alook_of_mem d x.1 x.2 hu hx
          have h2 := alook_of_mem d y.1 y.2 hu hy
          rw [e, h2] at h1
          injection h1 with h1
          exact Prod.ext e h1.symm) F hF
      simp only [Geom.full] at hF ⊢
      rw [hsf, find?_fst, hla]
      unfold cellOf
      cases a (extOf g.mask F) with
      | none => rfl
      | some el => simp [intOf_ne_nil g hg hi' F hF]

/-- `FileArray.to_array` computes the specification's array -/
theorem fToArray_spec (g : Geom) (hg : g.WF) (f : Files V) (a : MArr V) (h : RepF g f a) (s : Option Bool) :
    fToArray g f s = aToArray g a s := by
  unfold fToArray aToArray
  split
  · congr 1
    apply range_eq_allIdx
    intro E hE
    rw [← keyToFile_eq_ravel, h E hE]
  · split
    · rfl
    · next hi =>
      congr 1
      apply readOut_eq
      intro F hF
      have hi' : g.internal.isEmpty = false := by simpa using hi
      have hE := extOf_inRange g hg F hF
      have hsf := splat_fold g.mask g.shape g.internal hg.1 hg.2 (allIdx g.shape) (fun E => E)
        (fun E i => cellSub (alook f (keyToFile g.shape E)) i)
        (fun x hx => (mem_allIdx _ _).mp hx) (fun x _ y _ e => e) F hF
      simp only [Geom.full] at hF ⊢
      rw [hsf, find?_self _ _ ((mem_allIdx _ _).mpr hE)]
      simp only [h _ hE]
      unfold cellOf cellSub
      cases a (extOf g.mask F) with
      | none => rfl
      | some el => simp [intOf_ne_nil g hg hi' F hF]

theorem dMaskFlat_spec (g : Geom) (d : Dict V) (a : MArr V) (h : RepD g d a) : dMaskFlat g d = aMaskFlat g a := by
  obtain ⟨hla, hu, hr⟩ := h
  unfold dMaskFlat aMaskFlat
  apply readOut_eq
  intro E hE
  rw [fold_upd_dict g.shape d (fun _ => false) hu hr E hE, hla E]
  cases a E <;> rfl

theorem fMaskLinear_spec (g : Geom) (f : Files V) (a : MArr V) (h : RepF g f a) : fMaskLinear g f = aMaskFlat g a := by
  unfold fMaskLinear aMaskFlat
  apply range_eq_allIdx
  intro E hE
  rw [← keyToFile_eq_ravel, h E hE]

theorem unravel?_some (shape : List Nat) (i : Int) (h : 0 ≤ i ∧ i < (prod shape : Nat)) :
    unravel? shape i = some (shapeToKey shape i.toNat) := by
  unfold unravel?; rw [if_pos h]

theorem dStep_refines (g : Geom) (hg : g.WF) (d : Dict V) (a : MArr V) (h : RepD g d a) (op : Op V)
    (hd : op.InDomain g) : (dStep g d op).2 = (aStep g a op).2 ∧ RepD g (dStep g d op).1 (aStep g a op).1 := by
  have hfun : alook d = a := funext h.1
  cases op with
  | dump key v =>
    simp only [dStep, aStep]
    cases hts : dumpTargets g key with
    | error e => exact ⟨rfl, h⟩
    | ok ts =>
      refine ⟨rfl, ?_, uniq_foldl_ains (fun E => E) ts d v h.2.1, ?_⟩
      · intro E
        have := alook_foldl_ains (fun E => E) ts d v E
        simp only at this ⊢
        rw [this, h.1 E]
        by_cases hE : E ∈ ts
        · rw [if_pos hE, if_pos ⟨E, hE, rfl⟩]
        · rw [if_neg hE, if_neg]; rintro ⟨E', hE', e⟩; exact hE (e ▸ hE')
      · intro p hp
        rcases mem_foldl_ains (fun E => E) ts d v p hp with ⟨E, hE, e⟩ | hp
        · rw [← e]; exact dumpTargets_inRange g hg key ts hts E hE
        · exact h.2.2 p hp
  | get key => simp only [dStep, aStep, hfun]; exact ⟨trivial, h⟩
  | toArray s => simp only [dStep, aStep, dToArray_spec g hg d a h s]; exact ⟨trivial, h⟩
  | mask => simp only [dStep, aStep, dMaskFlat_spec g d a h]; exact ⟨trivial, h⟩
  | maskLinear => simp only [dStep, aStep, dMaskFlat_spec g d a h]; exact ⟨trivial, h⟩
  | has i =>
    simp only [Op.InDomain] at hd
    simp only [dStep, aStep, unravel?_some g.shape i hd, h.1]; exact ⟨trivial, h⟩
  | «at» i =>
    simp only [Op.InDomain] at hd
    simp only [dStep, aStep, unravel?_some g.shape i hd, h.1]
    cases a (shapeToKey g.shape i.toNat) <;> exact ⟨rfl, h⟩
  | persistReopen => exact ⟨rfl, h⟩

theorem repF_lin (g : Geom) (f : Files V) (a : MArr V) (h : RepF g f a) (i : Int) (hd : 0 ≤ i ∧ i < (prod g.shape : Nat)) :
    alook f i.toNat = a (shapeToKey g.shape i.toNat) := by
  have hlt : i.toNat < prod g.shape := by omega
  obtain ⟨hr, hin⟩ := ravel_key g.shape i.toNat hlt
  have := h _ hin
  rwa [keyToFile_eq_ravel, hr] at this

theorem fStep_refines (g : Geom) (hg : g.WF) (f : Files V) (a : MArr V) (h : RepF g f a) (op : Op V)
    (hd : op.InDomain g) : (fStep g f op).2 = (aStep g a op).2 ∧ RepF g (fStep g f op).1 (aStep g a op).1 := by
  cases op with
  | dump key v =>
    simp only [fStep, aStep]
    cases hts : dumpTargets g key with
    | error e => exact ⟨rfl, h⟩
    | ok ts =>
      refine ⟨rfl, ?_⟩
      intro X hX
      have hin := dumpTargets_inRange g hg key ts hts
      have := alook_foldl_ains (keyToFile g.shape) ts f v (keyToFile g.shape X)
      simp only at this ⊢
      rw [this, h X hX]
      by_cases hE : X ∈ ts
      · rw [if_pos hE, if_pos ⟨X, hE, rfl⟩]
      · rw [if_neg hE, if_neg]
        rintro ⟨E', hE', e⟩
        rw [keyToFile_eq_ravel, keyToFile_eq_ravel] at e
        exact hE (ravel_inj g.shape E' X (hin E' hE') hX e ▸ hE')
  | get key =>
    simp only [fStep, aStep]
    refine ⟨?_, h⟩
    apply getItemWith_congr g hg
    intro F hF
    unfold cellOf
    simp only [h _ (extOf_inRange g hg F hF)]
  | toArray s => simp only [fStep, aStep, fToArray_spec g hg f a h s]; exact ⟨trivial, h⟩
  | mask => simp only [fStep, aStep, fMaskLinear_spec g f a h]; exact ⟨trivial, h⟩
  | maskLinear => simp only [fStep, aStep, fMaskLinear_spec g f a h]; exact ⟨trivial, h⟩
  | has i =>
    simp only [Op.InDomain] at hd
    simp only [fStep, aStep, unravel?_some g.shape i hd, if_pos hd, repF_lin g f a h i hd]; exact ⟨trivial, h⟩
  | «at» i =>
    simp only [Op.InDomain] at hd
    simp only [fStep, aStep, unravel?_some g.shape i hd, if_pos hd, repF_lin g f a h i hd]
    cases a (shapeToKey g.shape i.toNat) <;> exact ⟨rfl, h⟩
  | persistReopen => exact ⟨rfl, h⟩

/-- a per-operation refinement lifts to every operation sequence -/
theorem runOps_refines {S} (step : S → Op V → S × Obs V) (astep : MArr V → Op V → MArr V × Obs V)
    (R : S → MArr V → Prop) (P : Op V → Prop)
    (hstep : ∀ s a op, R s a → P op → (step s op).2 = (astep a op).2 ∧ R (step s op).1 (astep a op).1) :
    ∀ (ops : List (Op V)) (s : S) (a : MArr V), R s a → (∀ op ∈ ops, P op) →
      (runOps step s ops).2 = (runOps astep a ops).2 ∧ R (runOps step s ops).1 (runOps astep a ops).1
  | [], _, _, h, _ => ⟨rfl, h⟩
  | op :: ops, s, a, h, hp => by
    obtain ⟨h1, h2⟩ := hstep s a op h (hp op List.mem_cons_self)
    obtain ⟨h3, h4⟩ := runOps_refines step astep R P hstep ops _ _ h2 (fun o ho => hp o (List.mem_cons_of_mem _ ho))
    simp only [runOps]
    exact ⟨by rw [h1, h3], h4⟩

theorem repD_empty (g : Geom) : RepD g ([] : Dict V) aEmpty := ⟨fun _ => rfl, trivial, fun _ hp => by simp at hp⟩
theorem repF_empty (g : Geom) : RepF g ([] : Files V) aEmpty := fun _ _ => rfl

/-! ### integer keys -/

/-- the all-integer key naming the full index `F` -/
def intKey (F : List Nat) : List KE := F.map (fun (k : Nat) => KE.int (k : Int))

theorem keyOK_ints : ∀ (sizes F : List Nat), InRange sizes F → KeyOK sizes (intKey F)
  | [], [], _ => trivial
  | [], _ :: _, h => by simp [InRange] at h
  | _ :: _, [], h => by simp [InRange] at h
  | n :: ns, k :: ks, h => by
    simp only [intKey, List.map, KeyOK, EntryOK]
    exact ⟨⟨by omega, by have := h.1; omega⟩, keyOK_ints ns ks h.2⟩

theorem normVals_ints : ∀ (sizes F : List Nat), InRange sizes F →
    normVals sizes (intKey F) = F.map NK.idx
  | [], [], _ => rfl
  | [], _ :: _, h => by simp [InRange] at h
  | _ :: _, [], h => by simp [InRange] at h
  | n :: ns, k :: ks, h => by
    simp only [intKey, List.map, normVals, normVal]
    have ih := normVals_ints ns ks h.2
    simp only [intKey] at ih
    rw [ih]
    simp

theorem any_isSlc_idx : ∀ F : List Nat, (F.map NK.idx).any NK.isSlc = false
  | [] => rfl
  | k :: ks => by simp only [List.map, List.any, NK.isSlc, Bool.false_or]; exact any_isSlc_idx ks

theorem map_val_idx : ∀ F : List Nat, (F.map NK.idx).map NK.val = F
  | [] => rfl
  | k :: ks => by simp only [List.map, NK.val]; rw [map_val_idx ks]

/-- an all-integer in-range key reads the one cell it names -/
theorem getItemWith_ints (g : Geom) (hg : g.WF) (lk : List Nat → Option (List V)) (F : List Nat) (hF : InRange g.full F) :
    getItemWith g lk (intKey F) = .scalar (cellOf g lk F) := by
  unfold getItemWith
  have hok : KeyOK (axisSizes g false) (intKey F) := keyOK_ints g.full F hF
  rw [normalizeKey_ok g hg false _ hok]
  simp only [axisSizes, Bool.false_eq_true, if_false]
  rw [normVals_ints g.full F hF]
  have h1 : (F.map NK.idx).any NK.isSlc = false := any_isSlc_idx F
  have h2 : (F.map NK.idx).map NK.val = F := map_val_idx F
  simp only [h1, Bool.false_eq_true, if_false, h2]

theorem cellAt_lt (el : List V) (i : Nat) (h : i < el.length) : cellAt el i = .atom el[i] := by
  unfold cellAt; rw [List.getElem?_eq_getElem h]

/-! ### slice keys: the result is NumPy's sub-array -/
/-- position `J` of the result names index `r[j]` on every axis -/
def pick : List (List Nat) → List Nat → List Nat
  | r :: rs, j :: js => r.getD j 0 :: pick rs js
  | _, _ => []

theorem range_map_getD (r : List Nat) : (List.range r.length).map (fun j => r.getD j 0) = r := by
  apply List.ext_getElem
  · simp
  · intro i h1 h2
    simp at h1
    simp [List.getD, List.getElem?_eq_getElem h2]

/-- `itertools.product` of the axis ranges is the row-major enumeration of the result positions, each mapped through
    the ranges -/
theorem product_eq_allIdx : ∀ rs : List (List Nat), product rs = (allIdx (rs.map List.length)).map (pick rs)
  | [] => by simp [product, allIdx, pick]
  | r :: rs => by
    simp only [product, List.map, allIdx]
    rw [product_eq_allIdx rs, List.map_flatMap]
    conv => lhs; rw [← range_map_getD r]
    rw [List.flatMap_map]
    apply flatMap_congr'
    intro j _
    simp only [List.map_map]
    apply List.map_congr_left
    intro J _
    simp [pick]

/-- integer axes contribute a range of length 1: `new_shape` has as many cells as there are result positions -/
theorem sliceShape_prod : ∀ (sizes : List Nat) (nk : List NK) (rs : List (List Nat)), keyRanges sizes nk = .ok rs →
    prod (sliceShape nk rs) = prod (rs.map List.length)
  | [], [], rs, h => by simp only [keyRanges] at h; injection h with h; subst h; rfl
  | [], k :: _, rs, h => by simp only [keyRanges] at h; injection h with h; subst h; cases k <;> rfl
  | _ :: _, [], rs, h => by simp only [keyRanges] at h; injection h with h; subst h; rfl
  | n :: ns, k :: ks, rs, h => by
    simp only [keyRanges] at h
    split at h
    · cases h
    · next r hr =>
      split at h
      · cases h
      · next rs' hrs =>
        injection h with h; subst h
        have ih := sliceShape_prod ns ks rs' hrs
        cases k with
        | idx v =>
          simp only [axisRange] at hr; injection hr with hr; subst hr
          simp only [sliceShape, List.map, prod, List.length_singleton, ih]; omega
        | slc a b c => simp only [sliceShape, List.map, prod, ih]

theorem getItemWith_slices (g : Geom) (lk : List Nat → Option (List V)) (key : List KE) (nk : List NK)
    (rs : List (List Nat)) (h : normalizeKey g false key = .ok nk) (hs : nk.any NK.isSlc = true)
    (hr : keyRanges g.full nk = .ok rs) :
    getItemWith g lk key
      = .arr (sliceShape nk rs) ((allIdx (rs.map List.length)).map (fun J => cellOf g lk (pick rs J))) := by
  unfold getItemWith
  simp only [h, hs, if_true, hr]
  rw [product_eq_allIdx, List.map_map]
  rfl

/-! ### integer dump keys; the folder only holds files of valid linear indices -/
theorem keyRanges_idx : ∀ (sizes E : List Nat), sizes.length = E.length →
    keyRanges sizes (E.map NK.idx) = .ok (E.map (fun k => [k]))
  | [], [], _ => rfl
  | [], _ :: _, h => by simp at h
  | _ :: _, [], h => by simp at h
  | n :: ns, k :: ks, h => by
    simp only [List.map, keyRanges, axisRange]
    rw [keyRanges_idx ns ks (by simpa using h)]

theorem product_singletons : ∀ E : List Nat, product (E.map (fun k => [k])) = [E]
  | [] => rfl
  | k :: ks => by simp [product, product_singletons ks]

/-- a dump with the all-integer key of an in-range external index writes exactly that element -/
theorem dumpTargets_ints (g : Geom) (hg : g.WF) (E : List Nat) (hE : InRange g.shape E) :
    dumpTargets g (intKey E) = .ok [E] := by
  unfold dumpTargets
  have hok : KeyOK (axisSizes g true) (intKey E) := keyOK_ints g.shape E hE
  rw [normalizeKey_ok g hg true _ hok]
  simp only [axisSizes, if_true]
  rw [normVals_ints g.shape E hE, keyRanges_idx g.shape E (inRange_length _ _ hE)]
  simp only [product_singletons]

/-- every file of the folder is one of `__0__ … __(size-1)__` -/
def FilesInRange (g : Geom) (f : Files V) : Prop := ∀ p ∈ f, p.1 < prod g.shape

theorem fStep_filesInRange (g : Geom) (hg : g.WF) (f : Files V) (h : FilesInRange g f) (op : Op V) :
    FilesInRange g (fStep g f op).1 := by
  cases op with
  | dump key v =>
    simp only [fStep]
    cases hts : dumpTargets g key with
    | error e => exact h
    | ok ts =>
      intro p hp
      rcases mem_foldl_ains (keyToFile g.shape) ts f v p hp with ⟨E, hE, e⟩ | hp
      · rw [← e, keyToFile_eq_ravel]; exact ravel_lt g.shape E (dumpTargets_inRange g hg key ts hts E hE)
      · exact h p hp
  | get key => exact h
  | toArray s => exact h
  | mask => exact h
  | maskLinear => exact h
  | has i => simp only [fStep]; split <;> exact h
  | «at» i => simp only [fStep]; split <;> (try split) <;> exact h
  | persistReopen => exact h

theorem runOps_filesInRange (g : Geom) (hg : g.WF) : ∀ (ops : List (Op V)) (f : Files V), FilesInRange g f →
    FilesInRange g (runOps (fStep g) f ops).1
  | [], _, h => h
  | op :: ops, f, h => by
    simp only [runOps]
    exact runOps_filesInRange g hg ops _ (fStep_filesInRange g hg f h op)

end PF.St
