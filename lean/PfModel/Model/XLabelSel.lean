/-
Selection on the DATASET the constructors return (`pipefunc/map/xarray.py:164-195` builds it; what is specified here is what the
installed xarray does with it): `ds[o]` (a variable with the dataset's coordinates that live on its dimensions), `ds[o].sel({c: v})`
for every value of every 1-D plain coordinate, `ds[o].isel({dim: p})` — the way an element is reached through a JOINED coordinate
(zipped inputs: the coordinate `a:b` holds the tuples `(a[p], b[p])`; the position of a tuple selects along the shared axis).
Until round 9 `arrayOfVar` / `allSel` lived in the driver (`lean/Driver/C19.lean`) and the expected slice for joined coordinates was
computed by the harness in Python.  Core Lean only; built on `PF.XLabel`.
-/
import PfModel.Model.XLabel
namespace PF.XLabel
open PF PF.Map

/-- `ds[o]`: the variable with the coordinates of the dataset that live on its dimensions (xarray: a coordinate belongs to a
    DataArray of the dataset iff all of its dimensions are dimensions of the variable).  `none`: a bare ndarray variable
    (`dims = none`), whose dimensions xarray names itself. -/
def dsArray (d : Dataset) (v : Var) : Option DataArray :=
  match v.dims with
  | none => none
  | some dims => some { name := v.name, dims := dims, data := v.data,
                        coords := d.coords.filter fun c => c.dims.all fun a => dims.contains (some a) }

/-- `da.isel({dim: p})`: position `p` along the dimension named `dim` -/
def isel (da : DataArray) (dim : String) (p : Nat) : Option Val :=
  match da.dims.findIdx? (· = some dim) with
  | some q => indexVal da.data (keyAt da.dims.length q p)
  | none => none

/-- one answer of `sel`: variable, coordinate, the value selected by, what comes back (`none`: xarray raises) -/
structure SelObs where
  var : String
  coord : String
  value : Val
  result : Option Val
  deriving Repr, Inhabited

/-- every `ds[o].sel({c: v})` for the 1-D plain coordinates of `ds[o]`, every value `v` of the coordinate -/
def allSel (eq : Val → Val → Bool) (d : Dataset) : List SelObs :=
  d.vars.flatMap fun v =>
    match dsArray d v with
    | none => []
    | some da =>
      da.coords.flatMap fun c =>
        match c.dims, c.val with
        | [_], .plain (.arr _ xs) => xs.map fun x => { var := v.name, coord := c.name, value := x, result := sel eq da c.name x }
        | _, _ => []

/-- the `p`-th tuple of a joined coordinate: one value per level (`pd.MultiIndex.from_arrays(arrays)[p]`) -/
def tupleAt (arrays : List Val) (p : Nat) : Val :=
  .tup (arrays.map fun a => match a with
    | .arr _ xs => xs.getD p .none
    | _ => .none)

/-- number of entries of a joined coordinate: the length of its first level -/
def multiLen : List Val → Nat
  | .arr _ xs :: _ => xs.length
  | _ => 0

/-- one answer of the selection through a joined coordinate -/
structure MultiObs where
  var : String
  coord : String
  dim : String
  pos : Nat
  value : Val
  result : Option Val
  deriving Repr, Inhabited

/-- for every joined coordinate of `ds[o]` and every position `p`: the tuple at `p` and `ds[o].isel({dim: p})` -/
def allMulti (d : Dataset) : List MultiObs :=
  d.vars.flatMap fun v =>
    match dsArray d v with
    | none => []
    | some da =>
      da.coords.flatMap fun c =>
        match c.dims, c.val with
        | [a], .multi _ arrays => (List.range (multiLen arrays)).map fun p =>
            { var := v.name, coord := c.name, dim := a, pos := p, value := tupleAt arrays p, result := isel da a p }
        | _, _ => []

/-! ### slices, element by element -/

/-- a full index agrees with a key: the same number at every integer position of the key -/
def Agree : List (Option Nat) → List Nat → Prop
  | [], [] => True
  | some k :: ks, f :: fs => k = f ∧ Agree ks fs
  | none :: ks, _ :: fs => Agree ks fs
  | _, _ => False

/-- the part of a full index at the sliced positions of a key: the index into the slice -/
def subOf : List (Option Nat) → List Nat → List Nat
  | some _ :: ks, _ :: fs => subOf ks fs
  | none :: ks, f :: fs => f :: subOf ks fs
  | _, _ => []

end PF.XLabel
