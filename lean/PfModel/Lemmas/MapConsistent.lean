import PfModel.Model.MapConsistent
import PfModel.Lemmas.MapTotal
/-!
`validate_consistent_axes`: the algorithmic model (`Model/MapConsistent.lean`) accepts exactly the spec lists on which the
pairwise predicate `PF.C01.consistentAxes` holds, and that predicate says "there is ONE axis naming per array".
The theorems are in `Props/C01Axes.lean`.
-/
namespace PF.MapAxes
open PF PF.Map

/-! ### the `position -> name` dict -/

theorem plookup_pset (m : List (Nat × String)) (i : Nat) (n : String) (q : Nat) :
    plookup (pset m i n) q = if i = q then some n else plookup m q := by
  induction m with
  | nil => simp [pset, plookup]
  | cons e r ih =>
    obtain ⟨k, v⟩ := e
    simp only [pset]
    by_cases hk : k = i
    · subst hk; simp only [if_true, plookup]; split <;> rfl
    · simp only [hk, if_false, plookup, ih]
      by_cases hq : k = q
      · subst hq; simp [Ne.symm hk]
      · simp [hq]

/-! ### the walk, flattened to `(position, name)` entries -/

/-- the named positions of an axis list, from position `i` on -/
def entriesFrom (i : Nat) : List (Option String) → List (Nat × String)
  | [] => []
  | none :: r => entriesFrom (i + 1) r
  | some n :: r => (i, n) :: entriesFrom (i + 1) r

/-- the walk over a flat list of entries -/
def walkE (m : List (Nat × String)) : List (Nat × String) → Option (List (Nat × String))
  | [] => some m
  | (p, n) :: r =>
    match plookup m p with
    | some n' => if n' != n then none else walkE (pset m p n) r
    | none => walkE (pset m p n) r

theorem walkE_append (m : List (Nat × String)) (E1 E2 : List (Nat × String)) :
    walkE m (E1 ++ E2) = (walkE m E1).bind fun m' => walkE m' E2 := by
  induction E1 generalizing m with
  | nil => simp [walkE]
  | cons e r ih =>
    obtain ⟨p, n⟩ := e
    simp only [List.cons_append, walkE]
    split
    · split
      · rfl
      · exact ih _
    · exact ih _

theorem walkAxes_eq (m : List (Nat × String)) (i : Nat) (l : List (Option String)) :
    walkAxes m i l = walkE m (entriesFrom i l) := by
  induction l generalizing m i with
  | nil => simp [walkAxes, entriesFrom, walkE]
  | cons x r ih =>
    cases x with
    | none => simp only [walkAxes, entriesFrom, ih]
    | some n =>
      simp only [walkAxes, entriesFrom, walkE, ih]
      cases plookup m i <;> rfl

theorem walkSpecs_eq (m : List (Nat × String)) (L : List ASpec) :
    walkSpecs m L = walkE m (L.flatMap fun a => entriesFrom 0 a.axes) := by
  induction L generalizing m with
  | nil => simp [walkSpecs, walkE]
  | cons a r ih =>
    simp only [walkSpecs, List.flatMap_cons, walkE_append, walkAxes_eq]
    cases walkE m (entriesFrom 0 a.axes) with
    | none => simp
    | some m' => simp [ih]

/-- the walk goes through iff no entry contradicts the dict it starts from and no two entries contradict each other:
    the order of the entries does not matter -/
theorem walkE_ok_iff (m : List (Nat × String)) (E : List (Nat × String)) :
    (walkE m E).isSome = true ↔
      (∀ p n, (p, n) ∈ E → ∀ n', plookup m p = some n' → n' = n) ∧
      (∀ p n n', (p, n) ∈ E → (p, n') ∈ E → n = n') := by
  induction E generalizing m with
  | nil => simp [walkE]
  | cons e r ih =>
    obtain ⟨p, n⟩ := e
    have key : (plookup m p = none ∨ plookup m p = some n) →
        ((walkE (pset m p n) r).isSome = true ↔
          (∀ q k, (q, k) ∈ (p, n) :: r → ∀ k', plookup m q = some k' → k' = k) ∧
          (∀ q k k', (q, k) ∈ (p, n) :: r → (q, k') ∈ (p, n) :: r → k = k')) := by
      intro hm
      rw [ih]
      simp only [plookup_pset, List.mem_cons, Prod.mk.injEq]
      constructor
      · rintro ⟨h1, h2⟩
        refine ⟨?_, ?_⟩
        · intro q k hq k' hk'
          rcases hq with ⟨rfl, rfl⟩ | hq
          · rcases hm with hm | hm <;> simp_all
          · by_cases hpq : p = q
            · subst hpq
              have := h1 p k hq n (by simp)
              rcases hm with hm | hm <;> simp_all
            · exact h1 q k hq k' (by simp [hpq, hk'])
        · intro q k k' hq hq'
          rcases hq with ⟨rfl, rfl⟩ | hq
          · rcases hq' with ⟨-, rfl⟩ | hq'
            · rfl
            · exact h1 q k' hq' k (by simp)
          · rcases hq' with ⟨rfl, rfl⟩ | hq'
            · exact (h1 q k hq k' (by simp)).symm
            · exact h2 q k k' hq hq'
      · rintro ⟨h1, h2⟩
        refine ⟨?_, ?_⟩
        · intro q k hq k' hk'
          by_cases hpq : p = q
          · subst hpq
            simp only [if_true, Option.some.injEq] at hk'
            rw [← hk']
            exact h2 p n k (Or.inl ⟨rfl, rfl⟩) (Or.inr hq)
          · simp only [hpq, if_false] at hk'
            exact h1 q k (Or.inr hq) k' hk'
        · intro q k k' hq hq'
          exact h2 q k k' (Or.inr hq) (Or.inr hq')
    simp only [walkE]
    split
    · rename_i n' hn'
      by_cases hne : n' = n
      · subst hne
        simp only [bne_self_eq_false, Bool.false_eq_true, if_false]
        exact key (Or.inr hn')
      · have : (n' != n) = true := by simp [hne]
        simp only [this, if_true, Option.isSome_none, Bool.false_eq_true, false_iff]
        rintro ⟨h1, _⟩
        exact hne (h1 p n (by simp) n' hn')
    · rename_i hn'
      exact key (Or.inl hn')

theorem mem_entriesFrom (i : Nat) (l : List (Option String)) (p : Nat) (n : String) :
    (p, n) ∈ entriesFrom i l ↔ ∃ q, p = i + q ∧ l[q]? = some (some n) := by
  induction l generalizing i with
  | nil => simp [entriesFrom]
  | cons x r ih =>
    have shift : (∃ q, p = i + 1 + q ∧ r[q]? = some (some n)) ↔ ∃ q, p = i + (q + 1) ∧ (x :: r)[q + 1]? = some (some n) := by
      constructor
      · rintro ⟨q, h1, h2⟩; exact ⟨q, by omega, by simpa using h2⟩
      · rintro ⟨q, h1, h2⟩; exact ⟨q, by omega, by simpa using h2⟩
    cases x with
    | none =>
      simp only [entriesFrom, ih, shift]
      constructor
      · rintro ⟨q, h1, h2⟩; exact ⟨q + 1, h1, h2⟩
      · rintro ⟨q, h1, h2⟩
        cases q with
        | zero => simp at h2
        | succ q => exact ⟨q, h1, h2⟩
    | some k =>
      simp only [entriesFrom, List.mem_cons, Prod.mk.injEq, ih, shift]
      constructor
      · rintro (⟨rfl, rfl⟩ | ⟨q, h1, h2⟩)
        · exact ⟨0, by simp, by simp⟩
        · exact ⟨q + 1, h1, h2⟩
      · rintro ⟨q, h1, h2⟩
        cases q with
        | zero =>
          left
          simp only [List.getElem?_cons_zero, Option.some.injEq] at h2
          exact ⟨by omega, h2.symm⟩
        | succ q => exact Or.inr ⟨q, h1, h2⟩

theorem mem_entries0 (l : List (Option String)) (p : Nat) (n : String) :
    (p, n) ∈ entriesFrom 0 l ↔ l[p]? = some (some n) := by
  rw [mem_entriesFrom]
  constructor
  · rintro ⟨q, h1, h2⟩
    have : p = q := by omega
    subst this; exact h2
  · intro h; exact ⟨p, by omega, h⟩

/-- two axis lists never name one position differently -/
def namesAgree (a b : List (Option String)) : Prop :=
  ∀ (p : Nat) (n n' : String), a[p]? = some (some n) → b[p]? = some (some n') → n = n'

/-- the walk over the specs of one array goes through iff no two of them name one position differently -/
theorem walkSpecs_ok_iff (L : List ASpec) :
    (walkSpecs [] L).isSome = true ↔ ∀ a ∈ L, ∀ b ∈ L, namesAgree a.axes b.axes := by
  rw [walkSpecs_eq, walkE_ok_iff]
  simp only [plookup, List.mem_flatMap, mem_entries0, namesAgree]
  constructor
  · rintro ⟨_, h⟩ a ha b hb p n n' h1 h2
    exact h p n n' ⟨a, ha, h1⟩ ⟨b, hb, h2⟩
  · intro h
    refine ⟨by simp, ?_⟩
    rintro p n n' ⟨a, ha, h1⟩ ⟨b, hb, h2⟩
    exact h a ha b hb p n n' h1 h2

theorem namesAgree_cons (x y : Option String) (a b : List (Option String)) :
    namesAgree (x :: a) (y :: b) ↔ (∀ n n', x = some n → y = some n' → n = n') ∧ namesAgree a b := by
  constructor
  · intro h
    refine ⟨?_, ?_⟩
    · intro n n' hx hy
      exact h 0 n n' (by simp [hx]) (by simp [hy])
    · intro p n n' h1 h2
      exact h (p + 1) n n' (by simpa using h1) (by simpa using h2)
  · rintro ⟨h0, h⟩ p n n' h1 h2
    cases p with
    | zero =>
      simp only [List.getElem?_cons_zero, Option.some.injEq] at h1 h2
      exact h0 n n' h1 h2
    | succ p => exact h p n n' (by simpa using h1) (by simpa using h2)

theorem zipAgree_iff (a b : List (Option String)) :
    ((a.zip b).all fun xy => xy.1.isNone || xy.2.isNone || xy.1 == xy.2) = true ↔ namesAgree a b := by
  induction a generalizing b with
  | nil => simp [namesAgree]
  | cons x a ih =>
    cases b with
    | nil => simp [namesAgree]
    | cons y b =>
      rw [namesAgree_cons, ← ih]
      simp only [List.zip_cons_cons, List.all_cons, Bool.and_eq_true]
      refine and_congr ?_ Iff.rfl
      cases x <;> cases y <;> simp

theorem axesAgree_iff (a b : List (Option String)) :
    PF.C01.axesAgree a b = true ↔ a.length = b.length ∧ namesAgree a b := by
  simp only [PF.C01.axesAgree, Bool.and_eq_true, zipAgree_iff, beq_iff_eq]

theorem lengthsOK_iff (l : List ASpec) :
    lengthsOK l = true ↔ ∀ a ∈ l, ∀ b ∈ l, a.axes.length = b.axes.length := by
  cases l with
  | nil => simp [lengthsOK]
  | cons x r =>
    simp only [lengthsOK, List.all_eq_true, beq_iff_eq, List.mem_cons]
    constructor
    · intro h a ha b hb
      have e1 : a.axes.length = x.axes.length := by
        rcases ha with rfl | ha
        · rfl
        · exact h a ha
      have e2 : b.axes.length = x.axes.length := by
        rcases hb with rfl | hb
        · rfl
        · exact h b hb
      omega
    · intro h b hb
      exact h b (Or.inr hb) x (Or.inl rfl)

/-- the check of one array name goes through iff its specs agree pairwise -/
theorem checkName_ok_iff (e : String × List ASpec) :
    checkName e = .ok () ↔ ∀ a ∈ e.2, ∀ b ∈ e.2, PF.C01.axesAgree a.axes b.axes = true := by
  have hw := walkSpecs_ok_iff e.2
  have hl := lengthsOK_iff e.2
  simp only [axesAgree_iff]
  unfold checkName
  by_cases h1 : lengthsOK e.2 = true
  · simp only [h1, Bool.not_true, Bool.false_eq_true, if_false]
    cases hws : walkSpecs [] e.2 with
    | none =>
      simp only [hws, Option.isSome_none, Bool.false_eq_true, false_iff] at hw
      simp only [reduceCtorEq, false_iff]
      intro h
      exact hw fun a ha b hb => (h a ha b hb).2
    | some m =>
      simp only [hws, Option.isSome_some, true_iff] at hw
      simp only [true_iff]
      intro a ha b hb
      exact ⟨hl.1 h1 a ha b hb, hw a ha b hb⟩
  · have h1' : lengthsOK e.2 = false := by simpa using h1
    simp only [h1', Bool.not_false, if_true, reduceCtorEq, false_iff]
    intro h
    exact h1 (hl.2 fun a ha b hb => (h a ha b hb).1)

theorem checkAll_ok_iff (g : List (String × List ASpec)) :
    checkAll g = .ok () ↔ ∀ e ∈ g, checkName e = .ok () := by
  induction g with
  | nil => simp [checkAll]
  | cons e r ih =>
    simp only [checkAll, List.mem_cons, forall_eq_or_imp]
    cases h : checkName e with
    | error x => simp
    | ok u => simp [ih]

/-! ### the grouping -/

/-- `indices.get(n)` -/
def glookup : List (String × List ASpec) → String → Option (List ASpec)
  | [], _ => none
  | (k, l) :: r, n => if k = n then some l else glookup r n

theorem mem_of_glookup (g : List (String × List ASpec)) (n : String) (l : List ASpec) (h : glookup g n = some l) :
    (n, l) ∈ g := by
  induction g with
  | nil => simp [glookup] at h
  | cons e r ih =>
    obtain ⟨k, l'⟩ := e
    simp only [glookup] at h
    split at h
    · rename_i hk; subst hk
      simp only [Option.some.injEq] at h; subst h; simp
    · exact List.mem_cons_of_mem _ (ih h)

theorem glookup_addSpec (g : List (String × List ASpec)) (a : ASpec) (n : String) :
    glookup (addSpec g a) n = if a.name = n then some ((glookup g n).getD [] ++ [a]) else glookup g n := by
  induction g with
  | nil => simp only [addSpec, glookup]; split <;> simp
  | cons e r ih =>
    obtain ⟨k, l⟩ := e
    simp only [addSpec]
    by_cases hk : k = a.name
    · subst hk
      simp only [if_true, glookup]
      split <;> simp
    · simp only [hk, if_false, glookup, ih]
      by_cases hn : k = n
      · subst hn; simp [Ne.symm hk]
      · simp [hn]

theorem glookup_foldl (specs : List ASpec) (g : List (String × List ASpec)) (a : ASpec) (ha : a ∈ specs) :
    ∃ l, glookup (specs.foldl addSpec g) a.name = some l ∧ a ∈ l ∧
      ∀ b ∈ specs, b.name = a.name → b ∈ l := by
  -- every spec of that name already filed stays filed; generalise over what is already there
  suffices H : ∀ (specs : List ASpec) (g : List (String × List ASpec)) (n : String),
      (∃ b ∈ specs, b.name = n) ∨ (glookup g n).isSome →
      ∃ l, glookup (specs.foldl addSpec g) n = some l ∧ (∀ b ∈ specs, b.name = n → b ∈ l) ∧
        ∀ b ∈ (glookup g n).getD [], b ∈ l by
    obtain ⟨l, h1, h2, _⟩ := H specs g a.name (Or.inl ⟨a, ha, rfl⟩)
    exact ⟨l, h1, h2 a ha rfl, h2⟩
  intro specs
  induction specs with
  | nil =>
    intro g n h
    rcases h with ⟨b, hb, _⟩ | h
    · simp at hb
    · obtain ⟨l, hl⟩ := Option.isSome_iff_exists.1 h
      exact ⟨l, by simpa using hl, by simp, by simp [hl]⟩
  | cons x r ih =>
    intro g n h
    simp only [List.foldl_cons]
    have hg := glookup_addSpec g x n
    by_cases hx : x.name = n
    · simp only [hx, if_true] at hg
      obtain ⟨l, h1, h2, h3⟩ := ih (addSpec g x) n (Or.inr (by simp [hg]))
      refine ⟨l, h1, ?_, ?_⟩
      · intro b hb hbn
        rcases List.mem_cons.1 hb with rfl | hb
        · exact h3 b (by simp [hg])
        · exact h2 b hb hbn
      · intro b hb
        exact h3 b (by simp [hg, hb])
    · simp only [hx, if_false] at hg
      have h' : (∃ b ∈ r, b.name = n) ∨ (glookup (addSpec g x) n).isSome := by
        rcases h with ⟨b, hb, hbn⟩ | h
        · rcases List.mem_cons.1 hb with rfl | hb
          · exact absurd hbn hx
          · exact Or.inl ⟨b, hb, hbn⟩
        · exact Or.inr (by rw [hg]; exact h)
      obtain ⟨l, h1, h2, h3⟩ := ih (addSpec g x) n h'
      refine ⟨l, h1, ?_, ?_⟩
      · intro b hb hbn
        rcases List.mem_cons.1 hb with rfl | hb
        · exact absurd hbn hx
        · exact h2 b hb hbn
      · intro b hb
        exact h3 b (by rw [hg]; exact hb)

/-- everything filed under a name carries that name and comes from `T` -/
def Good (T : List ASpec) (g : List (String × List ASpec)) : Prop :=
  ∀ e ∈ g, ∀ a ∈ e.2, a.name = e.1 ∧ a ∈ T

theorem good_addSpec (T : List ASpec) (g : List (String × List ASpec)) (a : ASpec) (hg : Good T g) (ha : a ∈ T) :
    Good T (addSpec g a) := by
  induction g with
  | nil =>
    intro e he b hb
    simp only [addSpec, List.mem_singleton] at he
    subst he
    simp only [List.mem_singleton] at hb
    subst hb; exact ⟨rfl, ha⟩
  | cons e r ih =>
    obtain ⟨k, l⟩ := e
    have hr : Good T r := fun e he => hg e (List.mem_cons_of_mem _ he)
    have hkl := hg (k, l) (by simp)
    simp only [addSpec]
    split
    · rename_i hk
      intro e he b hb
      rcases List.mem_cons.1 he with rfl | he
      · rcases List.mem_append.1 hb with hb | hb
        · exact hkl b hb
        · simp only [List.mem_singleton] at hb
          subst hb; exact ⟨hk.symm, ha⟩
      · exact hr e he b hb
    · intro e he b hb
      rcases List.mem_cons.1 he with rfl | he
      · exact hkl b hb
      · exact ih hr e he b hb

theorem good_foldl (T : List ASpec) (specs : List ASpec) (g : List (String × List ASpec)) (hg : Good T g)
    (hs : ∀ a ∈ specs, a ∈ T) : Good T (specs.foldl addSpec g) := by
  induction specs generalizing g with
  | nil => exact hg
  | cons x r ih =>
    exact ih (addSpec g x) (good_addSpec T g x hg (hs x (by simp))) fun a ha => hs a (List.mem_cons_of_mem _ ha)

/-- the algorithm accepts a list of specs iff any two specs of one array agree -/
theorem validateSpecs_ok_iff (specs : List ASpec) :
    validateSpecs specs = .ok () ↔
      ∀ a ∈ specs, ∀ b ∈ specs, a.name = b.name → PF.C01.axesAgree a.axes b.axes = true := by
  unfold validateSpecs group
  rw [checkAll_ok_iff]
  simp only [checkName_ok_iff]
  constructor
  · intro h a ha b hb hab
    obtain ⟨l, h1, h2, h3⟩ := glookup_foldl specs [] a ha
    exact h _ (mem_of_glookup _ _ _ h1) a h2 b (h3 b hb hab.symm)
  · intro h e he a ha b hb
    have hg := good_foldl specs specs [] (fun e he => by simp at he) (fun a ha => ha) e he
    exact h a (hg a ha).2 b (hg b hb).2 ((hg a ha).1.trans (hg b hb).1.symm)

theorem allSpecs_eq (fs : List MFunc) : PF.C01.allSpecs fs = specsOf (mapspecsOf fs) := by
  induction fs with
  | nil => rfl
  | cons f r ih =>
    simp only [PF.C01.allSpecs, specsOf, mapspecsOf, List.flatMap_cons, List.filterMap_cons] at ih ⊢
    cases f.mapspec with
    | none => simpa using ih
    | some ms => simp [ih]

theorem consistentAxes_iff (fs : List MFunc) :
    PF.C01.consistentAxes fs = true ↔
      ∀ a ∈ PF.C01.allSpecs fs, ∀ b ∈ PF.C01.allSpecs fs, a.name = b.name → PF.C01.axesAgree a.axes b.axes = true := by
  simp only [PF.C01.consistentAxes, List.all_eq_true, Bool.or_eq_true, bne_iff_ne, ne_eq]
  constructor
  · intro h a ha b hb hab
    rcases h a ha b hb with h | h
    · exact absurd hab h
    · exact h
  · intro h a ha b hb
    by_cases hab : a.name = b.name
    · exact Or.inr (h a ha b hb hab)
    · exact Or.inl hab

theorem validate_ok_iff (fs : List MFunc) :
    validate (mapspecsOf fs) = .ok () ↔ PF.C01.consistentAxes fs = true := by
  rw [consistentAxes_iff, allSpecs_eq]
  exact validateSpecs_ok_iff _

/-! ### what a refusal says -/

theorem checkAll_error (g : List (String × List ASpec)) (x : String × Kind) (h : checkAll g = .error x) :
    ∃ e ∈ g, checkName e = .error x := by
  induction g with
  | nil => simp [checkAll] at h
  | cons e r ih =>
    simp only [checkAll] at h
    cases hc : checkName e with
    | error y =>
      rw [hc] at h
      simp only [Except.error.injEq] at h
      subst h
      exact ⟨e, by simp, hc⟩
    | ok u =>
      rw [hc] at h
      obtain ⟨e', h1, h2⟩ := ih h
      exact ⟨e', List.mem_cons_of_mem _ h1, h2⟩

theorem validate_error_spec (ms : List MSpec) (nm : String) (k : Kind) (h : validate ms = .error (nm, k)) :
    ∃ a ∈ specsOf ms, ∃ b ∈ specsOf ms, a.name = nm ∧ b.name = nm ∧
      match k with
      | .length => a.axes.length ≠ b.axes.length
      | .name => a.axes.length = b.axes.length ∧
          ∃ (p : Nat) (n n' : String), a.axes[p]? = some (some n) ∧ b.axes[p]? = some (some n') ∧ n ≠ n' := by
  unfold validate validateSpecs group at h
  obtain ⟨e, he, hc⟩ := checkAll_error _ _ h
  have hg := good_foldl (specsOf ms) (specsOf ms) [] (fun e he => by simp at he) (fun a ha => ha) e he
  unfold checkName at hc
  by_cases h1 : lengthsOK e.2 = true
  · simp only [h1, Bool.not_true, Bool.false_eq_true, if_false] at hc
    cases hws : walkSpecs [] e.2 with
    | some m => rw [hws] at hc; cases hc
    | none =>
      rw [hws] at hc
      simp only [Except.error.injEq, Prod.mk.injEq] at hc
      obtain ⟨rfl, rfl⟩ := hc
      have hw : ¬ ∀ a ∈ e.2, ∀ b ∈ e.2, namesAgree a.axes b.axes := by
        intro hall
        have := (walkSpecs_ok_iff e.2).2 hall
        rw [hws] at this; cases this
      simp only [namesAgree, Classical.not_forall, Classical.not_imp] at hw
      obtain ⟨a, ha, b, hb, p, n, n', e1, e2, hne⟩ := hw
      exact ⟨a, (hg a ha).2, b, (hg b hb).2, (hg a ha).1, (hg b hb).1,
        (lengthsOK_iff e.2).1 h1 a ha b hb, p, n, n', e1, e2, hne⟩
  · have h1' : lengthsOK e.2 = false := by simpa using h1
    simp only [h1', Bool.not_false, if_true, Except.error.injEq, Prod.mk.injEq] at hc
    obtain ⟨rfl, rfl⟩ := hc
    have hl : ¬ ∀ a ∈ e.2, ∀ b ∈ e.2, a.axes.length = b.axes.length := fun hall => h1 ((lengthsOK_iff e.2).2 hall)
    simp only [Classical.not_forall, Classical.not_imp] at hl
    obtain ⟨a, ha, b, hb, hne⟩ := hl
    exact ⟨a, (hg a ha).2, b, (hg b hb).2, (hg a ha).1, (hg b hb).1, hne⟩

/-! ### one naming per array -/

/-- the first index name any spec of the list gives to position `p` -/
def pick (p : Nat) : List ASpec → Option String
  | [] => none
  | a :: r => match a.axes[p]? with
    | some (some n) => some n
    | _ => pick p r

theorem pick_spec (p : Nat) (l : List ASpec) (a : ASpec) (n : String) (ha : a ∈ l) (hp : a.axes[p]? = some (some n)) :
    ∃ a' n', a' ∈ l ∧ a'.axes[p]? = some (some n') ∧ pick p l = some n' := by
  induction l with
  | nil => simp at ha
  | cons x r ih =>
    simp only [pick]
    split
    · rename_i k hk
      exact ⟨x, k, by simp, hk, rfl⟩
    · rename_i hk
      rcases List.mem_cons.1 ha with rfl | ha
      · exact absurd hp (hk n)
      · obtain ⟨a', n', h1, h2, h3⟩ := ih ha
        exact ⟨a', n', List.mem_cons_of_mem _ h1, h2, h3⟩

/-- the naming the specs of array `nm` jointly give: the rank of the first one, each position named by the first spec that names it -/
def naming (specs : List ASpec) (nm : String) : List (Option String) :=
  let l := specs.filter (·.name == nm)
  (List.range ((l.headD default).axes.length)).map fun p => pick p l

theorem naming_spec (specs : List ASpec)
    (h : ∀ a ∈ specs, ∀ b ∈ specs, a.name = b.name → PF.C01.axesAgree a.axes b.axes = true)
    (a : ASpec) (ha : a ∈ specs) :
    a.axes.length = (naming specs a.name).length ∧
      ∀ (p : Nat) (n : String), a.axes[p]? = some (some n) → (naming specs a.name)[p]? = some (some n) := by
  have hal : a ∈ specs.filter (·.name == a.name) := by simp [List.mem_filter, ha]
  have hmem : ∀ b ∈ specs.filter (·.name == a.name), b ∈ specs ∧ b.name = a.name := by
    intro b hb
    simpa [List.mem_filter] using hb
  -- the rank of the first spec of that name is the rank of `a`
  have hlen : ((specs.filter (·.name == a.name)).headD default).axes.length = a.axes.length := by
    cases hl : specs.filter (·.name == a.name) with
    | nil => rw [hl] at hal; simp at hal
    | cons x r =>
      have hx := hmem x (by rw [hl]; simp)
      have := (axesAgree_iff _ _).1 (h x hx.1 a ha hx.2)
      simpa using this.1
  refine ⟨?_, ?_⟩
  · simp only [naming, List.length_map, List.length_range, hlen]
  · intro p n hp
    have hlt : p < a.axes.length := by
      rcases Nat.lt_or_ge p a.axes.length with h' | h'
      · exact h'
      · rw [List.getElem?_eq_none h'] at hp; cases hp
    obtain ⟨a', n', h1, h2, h3⟩ := pick_spec p _ a n hal hp
    have ha' := hmem a' h1
    have hn : n = n' := ((axesAgree_iff _ _).1 (h a ha a' ha'.1 ha'.2.symm)).2 p n n' hp h2
    simp only [naming, hlen]
    rw [List.getElem?_map, List.getElem?_range hlt]
    simp [h3, hn]

end PF.MapAxes
