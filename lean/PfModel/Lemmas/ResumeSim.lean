import PfModel.Lemmas.ResumeFS
/-! Simulation of the resumable runner (`PF.ResumeFS`, repaired protocol, file arrays) by `PF.Map`'s runner: from a folder
    that satisfies the invariant, every function produces the result of the uninterrupted run, calls the user function only
    for elements that are not stored, and emits only events that keep the invariant. -/
namespace PF.ResumeFS
open PF PF.Map

/-! ### generic list/Except facts -/

theorem mapM_ok_of_forall {ε α β} (g : α → Except ε β) (h : α → β) :
    ∀ l : List α, (∀ x ∈ l, g x = .ok (h x)) → l.mapM g = .ok (l.map h) := by
  intro l
  induction l with
  | nil => intro _; rfl
  | cons a as ih =>
    intro hl
    rw [List.mapM_cons, hl a (by simp), ih fun x hx => hl x (by simp [hx])]
    rfl

theorem callsOf_append (a b : List Ev) : callsOf (a ++ b) = callsOf a ++ callsOf b := by
  simp [callsOf, List.filterMap_append]

theorem callsOf_write (lg : Bool) (p : Path) (v : Val) : callsOf (writeEvs lg p v) = [] := by
  cases lg <;> simp [callsOf, writeEvs]

theorem callsOf_flatMap_write {α} (lg : Bool) (l : List α) (p : α → Path) (v : α → Val) :
    callsOf (l.flatMap fun x => writeEvs lg (p x) (v x)) = [] := by
  induction l with
  | nil => rfl
  | cons a as ih => rw [List.flatMap_cons, callsOf_append, callsOf_write, ih]; rfl

theorem alookup_map_self {β} (l : List String) (g : String → β) (o : String) (h : o ∈ l) :
    alookup (l.map fun x => (x, g x)) o = some (g o) := by
  induction l with
  | nil => cases h
  | cons a as ih =>
    simp only [List.map_cons, alookup]
    split
    · next e => subst e; rfl
    · next ne =>
      rcases List.mem_cons.mp h with e | e
      · exact absurd e.symm ne
      · exact ih e

/-! ### result arrays from element values -/

def denoteV (shape : List Nat) (mask : List Bool) (val : Nat → Val) : Val :=
  let es := extOf mask shape
  .arr shape ((allIdx shape).map fun F => elemAt mask (val (ravel es (extOf mask F))) (intOf mask F))

theorem opArrayV_eq_denoteV (shape : List Nat) (mask : List Bool) (val : Nat → Val) (h : shape.length = mask.length) :
    opArrayV shape mask val = denoteV shape mask val := by
  have h1 : (extOf mask shape).length = nTrue mask := length_extOf mask shape h
  have h2 : (intOf mask shape).length = nFalse mask := length_intOf mask shape h
  have hsel : selectByMask mask (extOf mask shape) (intOf mask shape) = shape := select_ext_int mask shape h
  unfold opArrayV denoteV
  simp only []
  congr 1
  rw [← map_key_range shape, List.map_map]
  apply List.map_congr_left
  intro j hj
  have hlt : j < prod shape := List.mem_range.mp hj
  obtain ⟨hr, hin⟩ := ravel_key shape j hlt
  have hF : InRange (selectByMask mask (extOf mask shape) (intOf mask shape)) (shapeToKey shape j) := by rw [hsel]; exact hin
  have := fill_correct mask (extOf mask shape) (intOf mask shape)
    (fun E I => elemAt mask (val (ravel (extOf mask shape) E)) I) (shapeToKey shape j) h1 h2 hF
  rw [hsel, hr] at this
  simp [this]

theorem opArrayV_congr (shape : List Nat) (mask : List Bool) (v1 v2 : Nat → Val) (h : shape.length = mask.length)
    (e : ∀ li, li < prod (extOf mask shape) → v1 li = v2 li) : opArrayV shape mask v1 = opArrayV shape mask v2 := by
  rw [opArrayV_eq_denoteV _ _ _ h, opArrayV_eq_denoteV _ _ _ h]
  unfold denoteV
  simp only []
  congr 1
  apply List.map_congr_left
  intro F hF
  have hin : InRange shape F := (mem_allIdx shape F).mp hF
  have hE : InRange (extOf mask shape) (extOf mask F) := inRange_ext mask shape F hin h
  rw [e _ (ravel_lt _ _ hE)]

theorem opArray_eq_V (f : MFunc) (shape : List Nat) (mask : List Bool) (args : Nat → List (String × Val)) (o : String) :
    opArray f shape mask args o = opArrayV shape mask (fun li => outVal f (args li) o) := rfl

/-! ### what `PF.Map` computes for one mapped function -/

theorem runMappedWith_ok (fsd : List MFunc) (env : Env) (f : MFunc) (ms : MSpec) (shape : List Nat) (mask : List Bool) (r : FuncResult)
    (h : runMappedWith opArray fsd env f ms shape mask = .ok r) :
    ∃ args : Nat → List (String × Val),
      (∀ li, li < prod (extOf mask shape) → selectArgs fsd env f ms (shapeToKey (extOf mask shape) li) = .ok (args li)) ∧
      r.outputs = f.outputs.map (fun o => (o, opArray f shape mask args o)) ∧
      r.slots = f.outputs.map (fun o => (o, Slot.array shape mask (cellsOf f (prod (extOf mask shape)) args o))) := by
  unfold runMappedWith at h
  simp only [bind, Except.bind] at h
  split at h
  · cases h
  · next argsAt hm =>
    simp only [pure, Except.pure] at h
    cases h
    have hlen := mapM_ok_length _ _ _ hm
    simp only [List.length_range] at hlen
    refine ⟨fun li => argsAt.getD li [], ?_, rfl, rfl⟩
    intro li hli
    have := mapM_ok_get _ _ _ hm li (by simpa using hli) (by omega)
    simp only [List.getElem_range] at this
    rw [this]
    simp [List.getD, List.getElem?_eq_getElem (by omega : li < argsAt.length)]

/-! ### one mapped function -/

def slotHas : Slot → Path → Val → Prop
  | .array _ _ cells, .cell _ li, v => cellLookup cells li = some v
  | .array _ _ cells, .dictArr _, v => v = .tup (cells.map (·.2)) ∧ cells.map (·.1) = List.range cells.length
  | .single w, .single _, v => v = w
  | _, _, _ => False

/-- `W` says exactly what these slots say about the files of their outputs -/
def SlotsRight (W : Right) (slots : List (String × Slot)) : Prop :=
  ∀ o s, (o, s) ∈ slots → (∀ li v, W (.cell o li) v ↔ slotHas s (.cell o li) v) ∧ (∀ v, W (.single o) v ↔ slotHas s (.single o) v) ∧
    (∀ v, W (.dictArr o) v ↔ slotHas s (.dictArr o) v)

/-- a task body: a user call followed by events that are not calls (its element dumps) -/
def IsBody (b : List Ev) : Prop := ∃ fn li a rest, b = .call fn li a :: rest ∧ callsOf rest = []

/-- `l` is a sequence of task bodies, each of which keeps `J` at every prefix from every state satisfying `J` -/
def Bodies (J : FS → Prop) (l : List Ev) : Prop := ∃ bs : List (List Ev), bs.flatten = l ∧ ∀ b ∈ bs, IsBody b ∧ Safe J b

theorem Bodies.nil (J : FS → Prop) : Bodies J [] := ⟨[], rfl, fun _ h => by cases h⟩

theorem Bodies.append {J : FS → Prop} {a b : List Ev} (ha : Bodies J a) (hb : Bodies J b) : Bodies J (a ++ b) := by
  obtain ⟨x, hx, hx'⟩ := ha
  obtain ⟨y, hy, hy'⟩ := hb
  refine ⟨x ++ y, by simp [hx, hy], fun c hc => ?_⟩
  rcases List.mem_append.mp hc with h | h
  · exact hx' c h
  · exact hy' c h

theorem Bodies.one {J : FS → Prop} (fn : String) (li : Nat) (a : List (String × Val)) (rest : List Ev) (hc : callsOf rest = [])
    (hs : Safe J (.call fn li a :: rest)) : Bodies J (.call fn li a :: rest) :=
  ⟨[.call fn li a :: rest], by simp, fun b hb => by simp at hb; subst hb; exact ⟨⟨fn, li, a, rest, rfl, hc⟩, hs⟩⟩

theorem runMissing_spec (W : Right) (names : List String) (fs0 : FS) (cfg : Cfg) (hl : cfg.legacy = false) (d : Bool)
    (fsd : List MFunc) (env : Env) (f : MFunc) (ms : MSpec) (es : List Nat) (args : Nat → List (String × Val)) :
    ∀ (missing : List Nat) (nc : Nat),
      (∀ li ∈ missing, selectArgs fsd env f ms (shapeToKey es li) = .ok (args li)) →
      (∀ li ∈ missing, ∀ o ∈ f.outputs, W (.cell o li) (outVal f (args li) o)) →
      Safe (I W names fs0) (runMissing cfg d fsd env f ms es missing nc).evs ∧
      (∀ c ∈ callsOf (runMissing cfg d fsd env f ms es missing nc).evs, c.fn = f.name ∧ c.li ∈ missing) ∧
      ((runMissing cfg d fsd env f ms es missing nc).res =
        .ok (missing.map fun li => (li, f.outputs.map fun o => (o, outVal f (args li) o))) ∨
       (cfg.failAt ≠ none ∧ ∃ fn, (runMissing cfg d fsd env f ms es missing nc).res = .error (.raised fn))) ∧
      Bodies (I W names fs0) (runMissing cfg d fsd env f ms es missing nc).evs := by
  intro missing
  induction missing with
  | nil => intro nc _ _; exact ⟨Safe.nil _, by simp [runMissing, callsOf], Or.inl rfl, Bodies.nil _⟩
  | cons li rest ih =>
    intro nc hsel hW
    have hs := hsel li (by simp)
    obtain ⟨ih1, ih2, ih3, ih4⟩ := ih (nc + 1) (fun x hx => hsel x (by simp [hx])) (fun x hx => hW x (by simp [hx]))
    simp only [runMissing, hs]
    by_cases hf : cfg.failAt = some nc
    · simp only [hf, ↓reduceIte]
      refine ⟨safe_call _ _ _ _ _ _, ?_, ?_, Bodies.one _ _ _ [] rfl (safe_call _ _ _ _ _ _)⟩
      · intro c hc; simp [callsOf] at hc; subst hc; simp
      · exact Or.inr ⟨by simp, _, rfl⟩
    · simp only [hf, ↓reduceIte, hl]
      have hwr : Safe (I W names fs0) (if d = true then [] else
          (f.outputs.map fun o => (o, outVal f (args li) o)).flatMap fun ov => writeEvs false (.cell ov.1 li) ov.2) := by
        cases d
        · simp only [Bool.false_eq_true, ↓reduceIte]
          refine Safe.flatMap _ _ ?_
          intro ov hov
          obtain ⟨o, ho, rfl⟩ := List.mem_map.mp hov
          exact safe_write W names fs0 _ _ rfl (hW li (by simp) o ho) (by intro e; cases e)
        · exact Safe.nil _
      have hwc : callsOf (if d = true then [] else
          (f.outputs.map fun o => (o, outVal f (args li) o)).flatMap fun ov => writeEvs false (.cell ov.1 li) ov.2) = [] := by
        cases d
        · simp only [Bool.false_eq_true, ↓reduceIte]; exact callsOf_flatMap_write _ _ _ _
        · rfl
      have hshape : ∀ (wr more : List Ev), (Ev.call f.name li (args li) :: wr ++ more) = [Ev.call f.name li (args li)] ++ (wr ++ more) :=
        fun _ _ => rfl
      refine ⟨?_, ?_, ?_, ?_⟩
      rotate_left 3
      · have : ∀ (wr more : List Ev), (Ev.call f.name li (args li) :: wr ++ more) = (Ev.call f.name li (args li) :: wr) ++ more := fun _ _ => rfl
        rw [this]
        exact Bodies.append (Bodies.one _ _ _ _ hwc (Safe.append (a := [Ev.call f.name li (args li)]) (safe_call _ _ _ _ _ _) hwr)) ih4
      · rw [hshape]
        exact Safe.append (safe_call _ _ _ _ _ _) (Safe.append hwr ih1)
      · intro c hc
        rw [hshape, callsOf_append, callsOf_append, hwc] at hc
        simp only [List.nil_append, List.mem_append] at hc
        rcases hc with hc | hc
        · simp [callsOf] at hc; subst hc; simp
        · obtain ⟨a, b⟩ := ih2 c hc; exact ⟨a, by simp [b]⟩
      · rcases ih3 with h3 | ⟨h3, fn, h4⟩
        · rw [h3]; exact Or.inl rfl
        · rw [h4]; exact Or.inr ⟨h3, fn, rfl⟩

theorem rowLookup_append (a b : List (Nat × Row)) (i : Nat) :
    rowLookup (a ++ b) i = match rowLookup a i with | some r => some r | none => rowLookup b i := by
  induction a with
  | nil => simp [rowLookup]
  | cons e es ih => obtain ⟨k, r⟩ := e; simp only [List.cons_append, rowLookup]; split <;> simp_all

theorem rowLookup_map (l : List Nat) (g : Nat → Row) (i : Nat) :
    rowLookup (l.map fun li => (li, g li)) i = if i ∈ l then some (g i) else none := by
  induction l with
  | nil => simp [rowLookup]
  | cons a as ih =>
    simp only [List.map_cons, rowLookup, List.mem_cons]
    by_cases e : a = i
    · subst e; simp
    · have e' : ¬ i = a := fun h => e h.symm
      simp [e, e', ih]

theorem rowVal_partition (f : MFunc) (g : Nat → Val) (o : String) (ho : o ∈ f.outputs) (l1 l2 : List Nat) (li : Nat) (h : li ∈ l1 ∨ li ∈ l2)
    (gg : Nat → String → Val) (hg : ∀ x, gg x o = g x) :
    rowVal ((l1.map fun x => (x, f.outputs.map fun o' => (o', gg x o'))) ++ (l2.map fun x => (x, f.outputs.map fun o' => (o', gg x o')))) o li = g li := by
  unfold rowVal
  rw [rowLookup_append, rowLookup_map, rowLookup_map]
  by_cases h1 : li ∈ l1
  · simp only [h1, ↓reduceIte]
    rw [alookup_map_self f.outputs (gg li) o ho]; simp [hg]
  · have h2 : li ∈ l2 := by rcases h with h | h; exact absurd h h1; exact h
    simp only [h1, h2, ↓reduceIte]
    rw [alookup_map_self f.outputs (gg li) o ho]; simp [hg]

theorem stepMapped_spec (W : Right) (names : List String) (fs0 : FS) (cfg : Cfg) (hl : cfg.legacy = false) (d : Bool)
    (fsd : List MFunc) (env : Env) (f : MFunc) (ms : MSpec) (shape : List Nat) (mask : List Bool) (r : FuncResult)
    (hlen : shape.length = mask.length) (hpf : runMappedWith opArray fsd env f ms shape mask = .ok r) (hSR : SlotsRight W r.slots)
    (view : View)
    (hV : ∀ o ∈ f.outputs, ∀ li, view o li = none ∨ ∃ v, view o li = some (.complete v) ∧ W (.cell o li) v) (nc : Nat) :
    Safe (I W names fs0) (stepMapped cfg d fsd env view nc f ms shape mask).subEvs ∧
    (stepMapped cfg d fsd env view nc f ms shape mask).procEvs = [] ∧
    (∀ c ∈ (stepMapped cfg d fsd env view nc f ms shape mask).calls,
      c.fn = f.name ∧ c.li < prod (extOf mask shape) ∧ isMissing view f c.li = true) ∧
    ((∃ r', (stepMapped cfg d fsd env view nc f ms shape mask).res = .ok r' ∧
      r'.outputs = r.outputs ∧ r'.slots = r.slots) ∨
     (cfg.failAt ≠ none ∧ ∃ fn, (stepMapped cfg d fsd env view nc f ms shape mask).res = .error (.raised fn))) ∧
    Bodies (I W names fs0) (stepMapped cfg d fsd env view nc f ms shape mask).subEvs := by
  obtain ⟨args, hsel, hout, hslots⟩ := runMappedWith_ok fsd env f ms shape mask r hpf
  have hcell : ∀ o ∈ f.outputs, ∀ li v, W (.cell o li) v ↔ cellLookup (cellsOf f (prod (extOf mask shape)) args o) li = some v := by
    intro o ho li v
    have hm : (o, Slot.array shape mask (cellsOf f (prod (extOf mask shape)) args o)) ∈ r.slots := by
      rw [hslots]; exact List.mem_map.mpr ⟨o, ho, rfl⟩
    exact (hSR _ _ hm).1 li v
  have hWw : ∀ o ∈ f.outputs, ∀ li, li < prod (extOf mask shape) → W (.cell o li) (outVal f (args li) o) := by
    intro o ho li hli
    rw [hcell o ho, cellLookup_cellsOf]; simp [hli]
  have hWr : ∀ o ∈ f.outputs, ∀ li v, li < prod (extOf mask shape) → W (.cell o li) v → v = outVal f (args li) o := by
    intro o ho li v hli hw
    rw [hcell o ho, cellLookup_cellsOf] at hw
    simp only [hli, ↓reduceIte, Option.some.injEq] at hw
    exact hw.symm
  have hmem : ∀ li, li ∈ (List.range (prod (extOf mask shape))).filter (isMissing view f) →
      li < prod (extOf mask shape) ∧ isMissing view f li = true := by
    intro li h; simpa using h
  obtain ⟨S1, S2, S3, S4⟩ := runMissing_spec W names fs0 cfg hl d fsd env f ms (extOf mask shape) args
    ((List.range (prod (extOf mask shape))).filter (isMissing view f)) nc
    (fun li h => hsel li (hmem li h).1) (fun li h o ho => hWw o ho li (hmem li h).1)
  have hcalls : ∀ c ∈ callsOf (runMissing cfg d fsd env f ms (extOf mask shape)
      ((List.range (prod (extOf mask shape))).filter (isMissing view f)) nc).evs,
      c.fn = f.name ∧ c.li < prod (extOf mask shape) ∧ isMissing view f c.li = true :=
    fun c hc => ⟨(S2 c hc).1, (hmem _ (S2 c hc).2).1, (hmem _ (S2 c hc).2).2⟩
  refine ⟨?_, ?_, ?_, ?_, ?_⟩
  rotate_left 4
  · simp only [stepMapped]; split
    · exact S4
    · split <;> exact S4
  · simp only [stepMapped]; split
    · exact S1
    · split <;> exact S1
  · simp only [stepMapped]; split
    · rfl
    · split <;> rfl
  · simp only [stepMapped]; split
    · exact hcalls
    · split <;> exact hcalls
  · rcases S3 with S3 | ⟨hne, fn, S3⟩
    case inr => exact Or.inr ⟨hne, fn, by simp only [stepMapped, S3]⟩
    refine Or.inl ?_
    have hload : ((List.range (prod (extOf mask shape))).filter fun li => !isMissing view f li).mapM
        (fun li => (loadRow view f li).map fun r => (li, r)) =
        .ok (((List.range (prod (extOf mask shape))).filter fun li => !isMissing view f li).map
          fun li => (li, f.outputs.map fun o => (o, outVal f (args li) o))) := by
      apply mapM_ok_of_forall
      intro li hli
      have hli' : li < prod (extOf mask shape) ∧ isMissing view f li = false := by simpa using hli
      have : loadRow view f li = .ok (f.outputs.map fun o => (o, outVal f (args li) o)) := by
        unfold loadRow
        apply mapM_ok_of_forall
        intro o ho
        have hpres : ¬ view o li = none := by
          have := hli'.2
          simp only [isMissing, List.any_eq_false] at this
          have := this o ho
          simpa using this
        rcases hV o ho li with hnone | ⟨v, hv, hw⟩
        · exact absurd hnone hpres
        · simp only [hv]
          rw [hWr o ho li v hli'.1 hw]
      rw [this]; rfl
    simp only [stepMapped, S3, hload]
    refine ⟨_, rfl, ?_, ?_⟩
    · rw [hout]
      apply List.map_congr_left
      intro o ho
      rw [opArray_eq_V]
      congr 1
      apply opArrayV_congr _ _ _ _ hlen
      intro li hli
      apply rowVal_partition f (fun li => outVal f (args li) o) o ho _ _ li _ (fun x o' => outVal f (args x) o') (fun _ => rfl)
      by_cases hm : isMissing view f li = true
      · exact Or.inl (by simp [hli, hm])
      · exact Or.inr (by simp [hli, hm])
    · rw [hslots]
      apply List.map_congr_left
      intro o ho
      congr 2
      unfold cellsOf
      apply List.map_congr_left
      intro li hli
      have hli' : li < prod (extOf mask shape) := List.mem_range.mp hli
      congr 1
      apply rowVal_partition f (fun li => outVal f (args li) o) o ho _ _ li _ (fun x o' => outVal f (args x) o') (fun _ => rfl)
      by_cases hm : isMissing view f li = true
      · exact Or.inl (by simp [hli', hm])
      · exact Or.inr (by simp [hli', hm])

/-! ### one un-mapped function -/

theorem runSingle_ok (fsd : List MFunc) (env : Env) (f : MFunc) (r : FuncResult) (h : runSingle fsd env f = .ok r) :
    ∃ args, f.params.mapM (fun (po : String × String) => (argWhole fsd env f po.1).map fun v => (po.2, v)) = .ok args ∧
      r.outputs = f.outputs.map (fun o => (o, outVal f args o)) ∧
      r.slots = f.outputs.map (fun o => (o, Slot.single (outVal f args o))) := by
  unfold runSingle at h
  simp only [bind, Except.bind] at h
  split at h
  · cases h
  · next args hm =>
    simp only [pure, Except.pure] at h
    cases h
    refine ⟨args, ?_, rfl, by simp [List.map_map, Function.comp_def]⟩
    rw [← hm]
    congr 1

theorem stepSingle_spec (W : Right) (names : List String) (fs0 : FS) (cfg : Cfg) (hl : cfg.legacy = false)
    (fsd : List MFunc) (env : Env) (f : MFunc) (r : FuncResult) (hpf : runSingle fsd env f = .ok r) (hSR : SlotsRight W r.slots)
    (fs : FS) (hI : I W names fs0 fs) (nc : Nat) :
    Safe (I W names fs0) (stepSingle cfg fsd env fs nc f).subEvs ∧
    Safe (I W names fs0) (stepSingle cfg fsd env fs nc f).procEvs ∧
    (∀ c ∈ (stepSingle cfg fsd env fs nc f).calls, c.fn = f.name ∧ (f.outputs.all fun o => (fs.files (.single o)).isSome) = false) ∧
    ((∃ r', (stepSingle cfg fsd env fs nc f).res = .ok r' ∧ r'.outputs = r.outputs ∧ r'.slots = r.slots) ∨
     (cfg.failAt ≠ none ∧ ∃ fn, (stepSingle cfg fsd env fs nc f).res = .error (.raised fn))) ∧
    Bodies (I W names fs0) (stepSingle cfg fsd env fs nc f).subEvs := by
  obtain ⟨args, hargs, hout, hslots⟩ := runSingle_ok fsd env f r hpf
  have hW : ∀ o ∈ f.outputs, ∀ w, W (.single o) w ↔ w = outVal f args o := by
    intro o ho w
    have hm : (o, Slot.single (outVal f args o)) ∈ r.slots := by rw [hslots]; exact List.mem_map.mpr ⟨o, ho, rfl⟩
    exact (hSR _ _ hm).2.1 w
  by_cases hall : (f.outputs.all fun o => (fs.files (.single o)).isSome) = true
  · have hread : f.outputs.mapM (fun o => (readFile fs (.single o)).map fun v => (o, v)) = .ok (f.outputs.map fun o => (o, outVal f args o)) := by
      apply mapM_ok_of_forall
      intro o ho
      have hp : (fs.files (.single o)).isSome = true := (List.all_eq_true.mp hall) o ho
      rcases hI.inv (.single o) rfl with hnone | ⟨v, hv, hw⟩
      · rw [hnone] at hp; cases hp
      · simp only [readFile, hv]
        rw [(hW o ho v).mp hw]; rfl
    simp only [stepSingle, hall, ↓reduceIte, hread, hl, Bool.false_eq_true]
    refine ⟨Safe.nil _, Safe.nil _, by simp, Or.inl ⟨_, rfl, hout.symm, ?_⟩, Bodies.nil _⟩
    rw [hslots]; simp [List.map_map, Function.comp_def]
  · have hall' : (f.outputs.all fun o => (fs.files (.single o)).isSome) = false := by simpa using hall
    simp only [stepSingle, hall', Bool.false_eq_true, ↓reduceIte, hargs]
    have hproc : Safe (I W names fs0) ((f.outputs.map fun o => (o, outVal f args o)).flatMap
        fun ov => writeEvs cfg.legacy (.single ov.1) ov.2) := by
      rw [hl]
      apply Safe.flatMap
      intro ov hov
      obtain ⟨o, ho, rfl⟩ := List.mem_map.mp hov
      exact safe_write W names fs0 _ _ rfl ((hW o ho _).mpr rfl) (by intro e; cases e)
    by_cases hf : cfg.failAt = some nc
    · simp only [hf, ↓reduceIte]
      exact ⟨safe_call _ _ _ _ _ _, Safe.nil _, by simp, Or.inr ⟨by simp, _, rfl⟩, Bodies.one _ _ _ [] rfl (safe_call _ _ _ _ _ _)⟩
    · simp only [hf, ↓reduceIte]
      refine ⟨safe_call _ _ _ _ _ _, hproc, by simp, Or.inl ⟨_, rfl, hout.symm, ?_⟩, Bodies.one _ _ _ [] rfl (safe_call _ _ _ _ _ _)⟩
      rw [hslots]; simp [List.map_map, Function.comp_def]

end PF.ResumeFS
