/-
Model of `ErrorSnapshot.save_to_file` / `load_from_file` (C13, clause "reproduce(), also after save_to_file/load_from_file,
raises the same exception").

`Model/Errors.lean` has `save = load = id` ("cloudpickle is trusted").  Here the file is a *token stream* and the loader a
stack machine, as in pickle (`pickle.py: _Unpickler.load`: a loop dispatching opcodes over `self.stack`): atoms are pushed,
`BUILD k n` pops `n` values and pushes the container / instance of kind `k` holding them (`TUPLE`, `LIST`+`APPENDS`,
`DICT`+`SETITEMS`, `REDUCE`/`BUILD` for a class instance).  Keyword-argument values are no longer opaque: a value has a KIND
(`PV`): an atom (a term, an int, a string, `None`, an array), a tuple, a list, a dict with string keys, or a *dataclass
instance* (`terms.DBox` on the Python side) — the kinds a serialisation that looks inside values can tell apart.

Mirrored code:
* `ErrorSnapshot` (`pipefunc/_pipefunc.py:1261-1282`): the dataclass fields `function, exception, args, kwargs, traceback, timestamp,
  user, machine, ip_address, current_directory` → `SnapFile` / `fieldNames`;
* `save_to_file` (`:1314-1317`, `cloudpickle.dump(self, f)`) → `saveFile`; `load_from_file` (`:1319-1323`) → `loadFile`;
* `reproduce` (`:1310-1312`, `self.function(*self.args, **self.kwargs)`) → `reproduceFile`: the user function sees the VALUES
  (`unbox`: a generated user function looks through a `DBox`, `terms.freeze`);
* what the code must NOT be: a save that transforms the values on their way (`saveWith T`; `asdict` = `dataclasses.asdict`, the
  seeded change C13-s4-B: every dataclass instance, also nested in containers, becomes a plain dict).
Core Lean only.
-/
import PfModel.Model.Errors
namespace PF.Errors.File
open PF PF.Errors

/-- the kind of a compound value -/
inductive Kind
  | tuple
  | list
  | dict (keys : List String)                       -- a `dict` with string keys, in insertion order
  | inst (cls : String) (fields : List String)      -- an instance of the dataclass `cls` with these fields
  deriving Repr, DecidableEq, Inhabited

/-- a Python value as a serialiser sees it -/
inductive PV
  | atom (v : Val)                                  -- copied verbatim: a term, an int, a string, `None`, an array
  | node (k : Kind) (xs : List PV)
  deriving Repr, Inhabited

/-- one opcode of the file -/
inductive Tok
  | atom (v : Val)
  | build (k : Kind) (n : Nat)
  deriving Repr, Inhabited

mutual
/-- `Pickler.save`: children first, then the opcode that builds the container (post-order, as pickle) -/
def dump : PV → List Tok
  | .atom v => [.atom v]
  | .node k xs => dumpL xs ++ [.build k xs.length]
def dumpL : List PV → List Tok
  | [] => []
  | x :: xs => dump x ++ dumpL xs
end

/-- one step of `_Unpickler.load`; popping more than the stack holds is `UnpicklingError` -/
def step (st : List PV) : Tok → Option (List PV)
  | .atom v => some (.atom v :: st)
  | .build k n => if n ≤ st.length then some (.node k (st.take n).reverse :: st.drop n) else none

def run : List Tok → List PV → Option (List PV)
  | [], st => some st
  | t :: ts, st =>
    match step st t with
    | some st' => run ts st'
    | none => none

/-- `pickle.load`: the single value left on the stack at `STOP` -/
def loads (ts : List Tok) : Option PV :=
  match run ts [] with
  | some [v] => some v
  | _ => none

/-- the fields of `ErrorSnapshot` that are plain strings -/
structure Meta where
  traceback : String
  timestamp : String
  user : String
  machine : String
  ip : String
  cwd : String
  deriving Repr, Inhabited, DecidableEq

/-- an `ErrorSnapshot` as the file sees it: every dataclass field -/
structure SnapFile where
  fname : String                       -- `function` (pickled by reference / by value: cloudpickle's business)
  exn : Exn                            -- `exception`: class and `args`
  args : List PV                       -- `args` (always `()` when `PipeFunc.__call__` builds the snapshot)
  kwargs : List (String × PV)          -- `kwargs`, in insertion order, the wrapped function's own names
  info : Meta
  deriving Repr, Inhabited

/-- `dataclasses.fields(ErrorSnapshot)`, in order -/
def fieldNames : List String :=
  ["function", "exception", "args", "kwargs", "traceback", "timestamp", "user", "machine", "ip_address", "current_directory"]

def snapClass : String := "pipefunc._pipefunc.ErrorSnapshot"

/-- the object graph `cloudpickle.dump(self)` walks -/
def SnapFile.toPV (s : SnapFile) : PV :=
  .node (.inst snapClass fieldNames)
    [.atom (.str s.fname),
     .node (.inst s.exn.cls ["args"]) [.node .tuple (s.exn.args.map .atom)],
     .node .tuple s.args,
     .node (.dict (s.kwargs.map (·.1))) (s.kwargs.map (·.2)),
     .atom (.str s.info.traceback), .atom (.str s.info.timestamp), .atom (.str s.info.user), .atom (.str s.info.machine),
     .atom (.str s.info.ip), .atom (.str s.info.cwd)]

def unatoms : List PV → Option (List Val)
  | [] => some []
  | .atom v :: r => (unatoms r).map (v :: ·)
  | _ :: _ => none

/-- reading the object graph back as an `ErrorSnapshot`; anything else is not one -/
def SnapFile.ofPV : PV → Option SnapFile
  | .node (.inst c fn)
      [.atom (.str f), .node (.inst ecls efn) [.node .tuple eargs], .node .tuple args, .node (.dict keys) vals,
       .atom (.str tb), .atom (.str ts), .atom (.str us), .atom (.str ma), .atom (.str ip), .atom (.str cwd)] =>
    if c = snapClass ∧ fn = fieldNames ∧ efn = ["args"] ∧ keys.length = vals.length then
      match unatoms eargs with
      | some ea => some { fname := f, exn := { cls := ecls, args := ea }, args := args, kwargs := keys.zip vals,
                          info := { traceback := tb, timestamp := ts, user := us, machine := ma, ip := ip, cwd := cwd } }
      | none => none
    else none
  | _ => none

/-- `ErrorSnapshot.save_to_file` -/
def saveFile (s : SnapFile) : List Tok := dump s.toPV

/-- `ErrorSnapshot.load_from_file` -/
def loadFile (ts : List Tok) : Option SnapFile := (loads ts).bind SnapFile.ofPV

/-! ### a save that transforms the values (what the code must not be) -/

def SnapFile.mapVals (T : PV → PV) (s : SnapFile) : SnapFile :=
  { s with args := s.args.map T, kwargs := s.kwargs.map fun kv => (kv.1, T kv.2) }

/-- a `save_to_file` that applies `T` to every argument value before writing -/
def saveWith (T : PV → PV) (s : SnapFile) : List Tok := saveFile (s.mapVals T)

/-- `dataclasses._asdict_inner` on the kind: an instance becomes a dict of its fields -/
def Kind.plain : Kind → Kind
  | .inst _ fields => .dict fields
  | k => k

mutual
/-- `dataclasses.asdict` applied to a value: recursive over dataclass instances, lists, tuples and dicts -/
def asdict : PV → PV
  | .atom v => .atom v
  | .node k xs => .node k.plain (asdictL xs)
def asdictL : List PV → List PV
  | [] => []
  | x :: xs => asdict x :: asdictL xs
end

def Kind.isInst : Kind → Bool
  | .inst _ _ => true
  | _ => false

mutual
/-- does the value hold a dataclass instance, at any depth -/
def hasInst : PV → Bool
  | .atom _ => false
  | .node k xs => k.isInst || hasInstL xs
def hasInstL : List PV → Bool
  | [] => false
  | x :: xs => hasInst x || hasInstL xs
end

def SnapFile.hasInst (s : SnapFile) : Bool := hasInstL s.args || hasInstL (s.kwargs.map (·.2))

/-! ### the values a user function sees -/

mutual
/-- what a generated user function makes of an argument (`terms.freeze`): it looks through a one-field instance (`DBox`); a tuple or
    a list is a sequence; a dict and any other instance are told apart from everything else -/
def unbox : PV → Val
  | .atom v => v
  | .node k xs =>
    match k, unboxL xs with
    | .inst _ _, [v] => v
    | .inst c fields, vs => .app ("$inst:" ++ c) (fields.zip vs)
    | .dict keys, vs => .app "$dict" (keys.zip vs)
    | _, vs => .tup vs
def unboxL : List PV → List Val
  | [] => []
  | x :: xs => unbox x :: unboxL xs
end

/-- positional arguments as the function sees them: `*0`, `*1`, … (no parameter name starts with `*`) -/
def posArgs : Nat → List PV → List (String × Val)
  | _, [] => []
  | i, v :: r => ("*" ++ toString i, unbox v) :: posArgs (i + 1) r

/-- the snapshot of `Model/Errors.lean` behind a file snapshot: the values the function is called with
    (`self.function(*self.args, **self.kwargs)`) -/
def SnapFile.toSnapshot (s : SnapFile) : Snapshot :=
  { fname := s.fname, exn := s.exn, kwargs := posArgs 0 s.args ++ s.kwargs.map fun kv => (kv.1, unbox kv.2) }

/-- the file snapshot of a snapshot whose values have the kinds `box` gives them (`box k v` is the Python object standing for
    the model value `v` of the argument `k`) -/
def ofSnapshot (box : String → Val → PV) (m : Meta) (s : Snapshot) : SnapFile :=
  { fname := s.fname, exn := s.exn, args := [], kwargs := s.kwargs.map fun kv => (kv.1, box kv.1 kv.2), info := m }

/-- a `DBox` around a value -/
def dbox (v : Val) : PV := .node (.inst "terms.DBox" ["v"]) [.atom v]

/-- the harness's choice (`terms.box_some`): the arguments named in `boxed` are handed over as `DBox` instances -/
def boxNamed (boxed : List String) : String → Val → PV := fun k v => if boxed.contains k then dbox v else .atom v

/-- `load_from_file(...).reproduce()` -/
def reproduceFile (fails : Oracle) (ts : List Tok) : Option (Except Exn Unit) :=
  (loadFile ts).map fun s => reproduce fails s.toSnapshot

end PF.Errors.File
