import PfModel.Lemmas.ErrorsProto
import PfModel.Props.C13
import PfModel.Props.C13Async
/-!
C13 (extension 3) — "for several exception types": the exception's CLASS never decides anything.

The quantifier of the property ranges over exception types.  Among them are the types to which the Python runtime, the executors or
storage code attach a meaning (`StopIteration` ends `list(map(f, xs))`, `TimeoutError` / `CancelledError` are what a future reports
itself, `KeyError` / `AttributeError` / `FileNotFoundError` are what fallbacks swallow, …).  The theorems below say that the failure
models are *parametric* in the exception: renaming every exception the user functions raise changes nothing of a run — which
invocations run, which generation fails, what is stored, the note, the snapshot's function and arguments — except the exception
delivered, which is renamed the same way.  `C13_iter_collection` shows that this is a property of the way the results are
collected (`[f(i) for i in xs]`), not a triviality: a collection driven by the iterator protocol (`list(map(f, xs))`) is not
parametric — it agrees exactly as long as no user function raises a `StopIteration`, and swallows the failure when one does.
`C13_await_kinds` is what `await` (`map_async`) can deliver.
-/
namespace PF.C13
open PF PF.Map PF.Errors

/-- **Parametric in the exception — generation loop, every mode and schedule.** -/
theorem C13_class_parametric_gens (h : Exn → Exn) (mode : Mode) (fails : Oracle) (sched : Nat → List Nat) (R : Env → MFunc → M FuncResult)
    (gens : List (List MFunc)) (env : Env) (g : Nat) :
    runGensE mode (mapOracle h fails) sched R gens env g = (runGensE mode fails sched R gens env g).mapExn h := by
  rw [runGensE_eq_G, runGensE_eq_G]
  exact runGensG_map h _ _ (fun g env gen => genE_map h mode fails (sched g) R env gen) gens env g

/-- **Same type and message, for every exception type — `Pipeline.map`, sequentially or in any executor.**  Let the user functions
    raise `h x` wherever they raised `x` (the same invocations; `h` arbitrary: another class, other args, none).  Then the run is
    the same run — refused / completed / hanging alike, the same generation fails, the same invocations were made in the same
    order, the same cells are stored, the note names the same function and arguments, the snapshot holds the same function and
    keyword arguments — and the exception that reaches the caller (and the one in the snapshot) is `h` of the one that reached it
    before.  No class is treated differently from any other. -/
theorem C13_class_parametric (h : Exn → Exn) (mode : Mode) (fails : Oracle) (sched : Nat → List Nat) (fs : List MFunc)
    (inputs : List (String × Val)) (userInternal : List (String × List Nat)) :
    runMapE mode (mapOracle h fails) sched fs inputs userInternal = (runMapE mode fails sched fs inputs userInternal).mapExn h := by
  simp only [runMapE]
  cases validateInputs fs inputs with
  | error e => rfl
  | ok u =>
    simp only []
    split
    · rfl
    · cases mapShapes fs inputs (constructInternal fs userInternal) with
      | error e => rfl
      | ok sm =>
        obtain ⟨shapes, masks⟩ := sm
        simp only [C13_class_parametric_gens]
        cases runGensE mode fails sched (runFuncWith opArray fs shapes masks) (generations fs) { inputs := inputs, store := [] } 0 <;> rfl

/-- **… `map_async`**, for every pool schedule and every loop order. -/
theorem C13_class_parametric_async (h : Exn → Exn) (fails : Oracle) (sched loopo : Nat → List Nat) (fs : List MFunc)
    (inputs : List (String × Val)) (userInternal : List (String × List Nat)) :
    runMapA (mapOracle h fails) sched loopo fs inputs userInternal = (runMapA fails sched loopo fs inputs userInternal).mapExn h := by
  simp only [runMapA]
  cases validateInputs fs inputs with
  | error e => rfl
  | ok u =>
    simp only []
    split
    · rfl
    · cases mapShapes fs inputs (constructInternal fs userInternal) with
      | error e => rfl
      | ok sm =>
        obtain ⟨shapes, masks⟩ := sm
        have hg : ∀ gens env g, runGensA (mapOracle h fails) sched loopo (runFuncWith opArray fs shapes masks) gens env g =
            (runGensA fails sched loopo (runFuncWith opArray fs shapes masks) gens env g).mapExn h := fun gens env g =>
          runGensG_map h _ _ (fun g env gen => poolGenA_map h fails (sched g) (loopo g) _ env gen) gens env g
        simp only [hg]
        cases runGensA fails sched loopo (runFuncWith opArray fs shapes masks) (generations fs) { inputs := inputs, store := [] } 0 <;> rfl

/-- **… `pipeline(...)` / `Pipeline.run`.** -/
theorem C13_class_parametric_call (h : Exn → Exn) (fails : Oracle) (fs : List Pipe.Func) (kw : List (String × Val)) (req : Pipe.Req) :
    Call.runTopE (mapOracle h fails) fs kw req = (Call.runTopE fails fs kw req).mapExn h :=
  Call.runTopE_map h fails fs kw req

/-- **Class-blind**: two families of exceptions raised at the same invocations (`h x` and `h' x`) give runs that differ in nothing
    but the exception — forget it (`mapExn (fun _ => x0)`) and the two outcomes are equal. -/
theorem C13_class_blind (h h' : Exn → Exn) (x0 : Exn) (mode : Mode) (fails : Oracle) (sched : Nat → List Nat) (fs : List MFunc)
    (inputs : List (String × Val)) (userInternal : List (String × List Nat)) :
    (runMapE mode (mapOracle h fails) sched fs inputs userInternal).mapExn (fun _ => x0) =
      (runMapE mode (mapOracle h' fails) sched fs inputs userInternal).mapExn (fun _ => x0) := by
  rw [C13_class_parametric, C13_class_parametric, Outcome.mapExn_mapExn, Outcome.mapExn_mapExn]
  rfl

/-- **The collection must not be driven by the iterator protocol.**  `collectIter` (`list(map(_result, r))`) and `awaitAll`
    (`[_result(x) for x in r]`, the code) agree on every generation in which no finished future holds a `StopIteration` … -/
theorem C13_iter_collection (isStop : Exn → Bool) (futs : Futs) (hno : ∀ j x, futs j = some (some x) → isStop x = false) :
    ∀ (ts : List Task) (i : Nat), collectIter isStop futs ts i = awaitAll futs ts i
  | [], _ => rfl
  | t :: ts, i => by
    simp only [collectIter, awaitAll]
    cases hf : futs i with
    | none => rfl
    | some o =>
      cases o with
      | none => exact C13_iter_collection isStop futs hno ts (i + 1)
      | some x => simp [hno i x hf]

/-- … and it is the ONLY thing they can disagree on: when they differ, the iterator-driven one has swallowed a `StopIteration`
    (it reports "all done" where the code raises it). -/
theorem C13_iter_collection_differs (isStop : Exn → Bool) (futs : Futs) :
    ∀ (ts : List Task) (i : Nat), collectIter isStop futs ts i ≠ awaitAll futs ts i →
      collectIter isStop futs ts i = .allDone ∧ ∃ t x, awaitAll futs ts i = .raised t x ∧ isStop x = true
  | [], _, hne => absurd rfl hne
  | t :: ts, i, hne => by
    simp only [collectIter, awaitAll] at hne ⊢
    cases hf : futs i with
    | none => simp [hf] at hne
    | some o =>
      cases o with
      | none =>
        simp only [hf] at hne
        exact C13_iter_collection_differs isStop futs ts (i + 1) hne
      | some x =>
        simp only [hf] at hne
        cases hs : isStop x with
        | false => simp [hs] at hne
        | true => exact ⟨by simp [hs], t, x, rfl, hs⟩

/-- **What `await` delivers (`map_async`, `_result_async`)**: every exception but a `StopIteration` reaches the awaiting coroutine
    itself (same type, same args, its notes: it is the same object — in particular `TimeoutError`, `CancelledError`,
    `InvalidStateError`, which `asyncio.wrap_future` would rebuild); a `StopIteration`, which no coroutine can raise (PEP 479),
    arrives as the fixed `RuntimeError` whose `__cause__` it is.  Together with `C13_async_raised`: what the caller of a raised
    `map_async` run holds — as the exception or as its cause — is the oracle's answer for an invocation of the failing
    generation. -/
theorem C13_await_kinds (isStop : Exn → Bool) (fails : Oracle) (sched loopo : Nat → List Nat) (R : Env → MFunc → M FuncResult)
    (gens : List (List MFunc)) (env : Env) (g g' : Nat) (r : Raised) (log : List Task) (store : List (String × Slot))
    (h : runGensA fails sched loopo R gens env g = .raised g' r log store) :
    (isStop r.exn = false → (awaitExn isStop r.exn).exn = r.exn ∧ (awaitExn isStop r.exn).cause = none) ∧
    (isStop r.exn = true → (awaitExn isStop r.exn).exn = stopWrapper ∧ (awaitExn isStop r.exn).cause = some r.exn) ∧
    ∃ (gen : List MFunc) (t : Task), gens[g' - g]? = some gen ∧ t.f ∈ gen ∧
      (fails t.f.name t.c.args = some (awaitExn isStop r.exn).exn ∨ fails t.f.name t.c.args = (awaitExn isStop r.exn).cause) := by
  obtain ⟨_, ⟨gen, t, hg, ht, hx, _⟩, _⟩ := C13_async_raised fails sched loopo R gens env g g' r log store h
  refine ⟨fun hs => by simp [awaitExn, hs], fun hs => by simp [awaitExn, hs], gen, t, hg, ht, ?_⟩
  cases hs : isStop r.exn
  · left; simpa [awaitExn, hs] using hx
  · right; simpa [awaitExn, hs] using hx

/-! ## non-vacuity -/

/-- rename every exception to a `StopIteration` without args -/
def toStop : Exn → Exn := fun _ => ⟨"builtins.StopIteration", []⟩
def isStopCls : Exn → Bool := fun x => x.cls == "builtins.StopIteration"

/-- sequential, the failing element raises `StopIteration`: the same run as with the `ValueError` (`g0` twice, nothing else; note
    of `g0`), the `StopIteration` at the caller -/
example : summary (runMapE .seq (mapOracle toStop orc) (fun _ => []) [g0, g1, g2] [("x", x3)] []) =
    ("raised", 0, "builtins.StopIteration", ["g0", "x"], ["g0", "g0"]) := by decide
/-- … and in a pool run in reverse -/
example : summary (runMapE .pool (mapOracle toStop orc) (fun _ => [5, 4, 3, 2, 1, 0]) [g0, g1, g2] [("x", x3)] []) =
    ("raised", 0, "builtins.StopIteration", ["g0", "x"], ["g1", "g1", "g1", "g0", "g0", "g0"]) := by decide
/-- the hypothesis of `C13_await_kinds` is satisfiable, with a `StopIteration` -/
example : summaryA (runMapA (mapOracle toStop orcA) (fun _ => [0, 1, 2, 3, 4, 5]) (fun _ => [0, 1, 2, 3, 4, 5]) [g0, g1, g2] [("x", x3)] []) =
    ("raised", 0, "builtins.StopIteration", ["g0", "g0", "g0", "g1", "g1", "g1"]) := by decide
example : ((awaitExn isStopCls (toStop default)).exn.cls, (awaitExn isStopCls (toStop default)).cause.map (·.cls),
           (awaitExn isStopCls ⟨"builtins.TimeoutError", []⟩).exn.cls) =
    ("builtins.RuntimeError", some "builtins.StopIteration", "builtins.TimeoutError") := by decide

/-- two finished futures, the second one holds a `StopIteration` -/
def futsStop : Futs := fun i => if i = 0 then some none else if i = 1 then some (some ⟨"builtins.StopIteration", []⟩) else some none
def tk (n : Int) : Task := { f := g0, c := { name := "g0", args := [("a", .int n)] } }
/-- witness for `C13_iter_collection_differs` (the seeded change C13-s3-A): the code raises the `StopIteration`, the iterator-driven
    collection reports "all done" with one result of three -/
example : (match awaitAll futsStop [tk 1, tk 2, tk 3] 0 with | .raised _ x => x.cls | _ => "",
           match collectIter isStopCls futsStop [tk 1, tk 2, tk 3] 0 with | .allDone => "all done" | _ => "") =
    ("builtins.StopIteration", "all done") := by decide
/-- … so `collectIter` is not parametric: renaming the `StopIteration` to a `ValueError` changes the outcome's kind -/
example : (match collectIter isStopCls (mapFuts (fun _ => ⟨"builtins.ValueError", []⟩) futsStop) [tk 1, tk 2, tk 3] 0 with
    | .raised _ x => x.cls | _ => "") = "builtins.ValueError" := by decide
/-- hypothesis of `C13_iter_collection` satisfiable: no `StopIteration` among the futures' exceptions -/
example : ∀ j x, (mapFuts (fun _ => (⟨"builtins.ValueError", []⟩ : Exn)) futsStop) j = some (some x) → isStopCls x = false := by
  intro j x hx
  simp only [mapFuts, futsStop] at hx
  split at hx
  · simp at hx
  · split at hx
    · simp at hx; subst hx; decide
    · simp at hx

end PF.C13
