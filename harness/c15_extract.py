"""The small translator of DESIGN.md 3.4 for C15.

Parses `pipefunc/cache.py` of the repository under test with `ast` and writes `lean/PfModel/Generated/C15Facts.lean`:

* `toHashablePrelude`   the marker constant, "hash(obj) first", the marker-headed escape, `tp = type(obj)`;
* `toHashableBranches`  the ordered list of `isinstance` branches of `to_hashable`: the tested classes, the module guard, the
                        leading payload attributes, the helper the payload is built with and its `sort` flag, whether the
                        branch returns `(m, tp, payload)`;
* `toHashableFallback`  what happens after the last `isinstance` test;
* `hashableHelpers`     what `_hashable_iterable`, `_hashable_mapping` and `_cloudpickle_key` do.

`Props/C15Src.lean` re-proves `dispatchMatchesModel … = true` (and the prelude / helper facts) by `decide` on every run.  A
source the translator cannot read yields facts that fail those proofs (a broken tie, DESIGN.md 3.3), never an exception.
"""
from __future__ import annotations

import ast
import os
from pathlib import Path

VERIF = Path(__file__).resolve().parent.parent
OUT = VERIF / "lean" / "PfModel" / "Generated" / "C15Facts.lean"


class ExtractionError(Exception):
    pass


# ------------------------------------------------------------------------------------------------ small ast helpers
def _func(tree, name):
    for n in tree.body:
        if isinstance(n, ast.FunctionDef) and n.name == name:
            return n
    raise ExtractionError(f"function {name} not found")


def _const(tree, name):
    for n in tree.body:
        if isinstance(n, ast.Assign) and len(n.targets) == 1 and isinstance(n.targets[0], ast.Name) and n.targets[0].id == name:
            if isinstance(n.value, ast.Constant) and isinstance(n.value.value, str):
                return n.value.value
    raise ExtractionError(f"string constant {name} not found")


def _body(fn):
    """statements of a function without the docstring"""
    b = list(fn.body)
    if b and isinstance(b[0], ast.Expr) and isinstance(b[0].value, ast.Constant) and isinstance(b[0].value.value, str):
        b = b[1:]
    return b


def _is_name(n, s):
    return isinstance(n, ast.Name) and n.id == s


def _call_of(n, fname):
    return isinstance(n, ast.Call) and _is_name(n.func, fname)


def _class_name(n) -> str:
    """`collections.OrderedDict` / `dict` / `sys.modules["numpy"].ndarray` -> `numpy.ndarray`"""
    if isinstance(n, ast.Name):
        return n.id
    if isinstance(n, ast.Attribute):
        v = n.value
        if (isinstance(v, ast.Subscript) and isinstance(v.value, ast.Attribute) and _is_name(v.value.value, "sys")
                and v.value.attr == "modules" and isinstance(v.slice, ast.Constant)):
            return f"{v.slice.value}.{n.attr}"
        return f"{_class_name(v)}.{n.attr}"
    raise ExtractionError(f"class expression not understood: {ast.unparse(n)}")


def _classes(n) -> list[str]:
    """`A | B`, `(A, B)` or a single class"""
    if isinstance(n, ast.BinOp) and isinstance(n.op, ast.BitOr):
        return _classes(n.left) + _classes(n.right)
    if isinstance(n, ast.Tuple):
        return [c for e in n.elts for c in _classes(e)]
    return [_class_name(n)]


def _module_guard(n) -> str | None:
    """`"numpy" in sys.modules` -> `numpy`"""
    if (isinstance(n, ast.Compare) and len(n.ops) == 1 and isinstance(n.ops[0], ast.In) and isinstance(n.left, ast.Constant)
            and isinstance(n.left.value, str) and ast.unparse(n.comparators[0]) == "sys.modules"):
        return n.left.value
    return None


def _isinstance_test(n, obj="obj"):
    """-> (guard, classes) for `isinstance(obj, X)` or `"mod" in sys.modules and isinstance(obj, X)`; None otherwise"""
    if _call_of(n, "isinstance") and len(n.args) == 2 and _is_name(n.args[0], obj):
        return "", _classes(n.args[1])
    if isinstance(n, ast.BoolOp) and isinstance(n.op, ast.And) and len(n.values) == 2:
        g = _module_guard(n.values[0])
        t = _isinstance_test(n.values[1], obj)
        if g is not None and t is not None and t[0] == "":
            return g, t[1]
    return None


# ------------------------------------------------------------------------------------------------ payloads
def _sort_flag(call) -> bool:
    for k in call.keywords:
        if k.arg == "sort":
            if isinstance(k.value, ast.Constant) and isinstance(k.value.value, bool):
                return k.value.value
            raise ExtractionError(f"sort flag is not a literal: {ast.unparse(call)}")
    if len(call.args) > 2:
        raise ExtractionError(f"positional sort flag: {ast.unparse(call)}")
    return False


def _body_of(e):  # noqa: PLR0911
    """the helper the last payload component is built with"""
    if _call_of(e, "_hashable_iterable") and e.args and _is_name(e.args[0], "obj"):
        return ("iterable", _sort_flag(e))
    if _call_of(e, "_hashable_mapping") and e.args and _is_name(e.args[0], "obj"):
        return ("mapping", _sort_flag(e))
    if _call_of(e, "tuple") and len(e.args) == 1 and not e.keywords:
        a = e.args[0]
        if _is_name(a, "obj") or ast.unparse(a) == "obj.flatten()":
            return ("rawSeq",)
        if ast.unparse(a) == "obj.items()":
            return ("rawItems", False)
        if _call_of(a, "sorted") and len(a.args) == 1 and not a.keywords and ast.unparse(a.args[0]) == "obj.items()":
            return ("rawItems", True)
    if _call_of(e, "_cloudpickle_key") and len(e.args) == 1 and _is_name(e.args[0], "obj"):
        return ("digest",)
    if _call_of(e, "to_hashable") and e.args and not _is_name(e.args[0], "obj"):
        return ("recurse", ast.unparse(e.args[0]))          # the expression that is converted instead of obj (pandas: obj.to_dict())
    return ("other",)


def _attr_of(e) -> str:
    s = ast.unparse(e)
    if _call_of(e, "to_hashable") and e.args:
        s = f"to_hashable({ast.unparse(e.args[0])})"
    return s.replace("obj.", "")


def _payload(e):
    """-> (attrs, body): a tuple payload is `(attr, …, body)`, anything else is the body alone"""
    if isinstance(e, ast.Tuple) and e.elts:
        return [_attr_of(x) for x in e.elts[:-1]], _body_of(e.elts[-1])
    return [], _body_of(e)


def _subst(e, env):
    class T(ast.NodeTransformer):
        def visit_Name(self, n):  # noqa: N802
            return env.get(n.id, n) if isinstance(n.ctx, ast.Load) else n
    return T().visit(e)


def _branch_of(stmts, guard, classes, marker_var):
    """the statements of one `if isinstance(...)` body: local assignments, then `return (m, tp, payload)`"""
    env = {}
    for s in stmts:
        if isinstance(s, ast.Assign) and len(s.targets) == 1 and isinstance(s.targets[0], ast.Name):
            env[s.targets[0].id] = _subst(s.value, env)
            continue
        if isinstance(s, ast.Return) and s.value is not None:
            v = _subst(s.value, env)
            tagged = isinstance(v, ast.Tuple) and len(v.elts) == 3 and _is_name(v.elts[0], marker_var) and _is_name(v.elts[1], "tp")
            attrs, body = _payload(v.elts[2]) if tagged else _payload(v)
            return {"tests": classes, "guard": guard, "attrs": attrs, "body": body, "tagged": tagged}
        raise ExtractionError(f"statement not understood in a branch: {ast.unparse(s)[:80]}")
    raise ExtractionError("branch without return")


# ------------------------------------------------------------------------------------------------ to_hashable
def _escape_guard(test, marker_var) -> bool:
    """`not (isinstance(obj, tuple) and obj and isinstance(obj[0], str) and obj[0] == m)`"""
    if not (isinstance(test, ast.UnaryOp) and isinstance(test.op, ast.Not)):
        return False
    inner = test.operand
    if not (isinstance(inner, ast.BoolOp) and isinstance(inner.op, ast.And)):
        return False
    parts = {ast.unparse(v) for v in inner.values}
    return {"isinstance(obj, tuple)", "obj", f"obj[0] == {marker_var}"} <= parts and all(
        p in ("isinstance(obj, tuple)", "obj", f"obj[0] == {marker_var}", "isinstance(obj[0], str)") for p in parts)


def _prelude(stmts, marker_var, marker):
    """-> (facts, remaining statements)"""
    facts = {"marker": marker, "hashFirst": False, "escape": False, "tpIsType": False}
    i = 0
    if i < len(stmts) and isinstance(stmts[i], ast.Try):
        t = stmts[i]
        tries_hash = len(t.body) == 1 and isinstance(t.body[0], ast.Expr) and ast.unparse(t.body[0].value) == "hash(obj)"
        swallow = all(len(h.body) == 1 and isinstance(h.body[0], ast.Pass) for h in t.handlers) and bool(t.handlers)
        if tries_hash and swallow and len(t.orelse) == 1 and not t.finalbody:
            e = t.orelse[0]
            if isinstance(e, ast.Return) and _is_name(e.value, "obj"):
                facts["hashFirst"] = True
            elif (isinstance(e, ast.If) and not e.orelse and len(e.body) == 1 and isinstance(e.body[0], ast.Return)
                  and _is_name(e.body[0].value, "obj")):
                facts["hashFirst"] = True
                facts["escape"] = _escape_guard(e.test, marker_var)
            i += 1
    # tp = type(obj); try: hash(tp) except: tp = tp.__name__
    if i < len(stmts) and isinstance(stmts[i], (ast.Assign, ast.AnnAssign)):
        s = stmts[i]
        tgt = s.targets[0] if isinstance(s, ast.Assign) else s.target
        if _is_name(tgt, "tp") and s.value is not None and ast.unparse(s.value) == "type(obj)":
            facts["tpIsType"] = True
            i += 1
            if i < len(stmts) and isinstance(stmts[i], ast.Try) and ast.unparse(stmts[i].body[0]) == "hash(tp)":
                i += 1
    return facts, stmts[i:]


def _dispatch(stmts, marker_var):
    """-> (branches, fallback)"""
    branches = []
    fallback = None
    for s in stmts:
        if fallback is not None:
            if isinstance(s, ast.Raise):
                continue
            raise ExtractionError(f"statement after the fallback: {ast.unparse(s)[:80]}")
        if isinstance(s, ast.If) and not s.orelse:
            t = _isinstance_test(s.test)
            if t is not None:
                branches.append(_branch_of(s.body, t[0], t[1], marker_var))
                continue
            g = _module_guard(s.test)
            if g is not None:                                   # if "pandas" in sys.modules: if isinstance(...): ...
                for inner in s.body:
                    ti = _isinstance_test(inner.test) if isinstance(inner, ast.If) and not inner.orelse else None
                    if ti is None or ti[0] != "":
                        raise ExtractionError(f"statement not understood under a module guard: {ast.unparse(inner)[:80]}")
                    branches.append(_branch_of(inner.body, g, ti[1], marker_var))
                continue
            if _is_name(s.test, "fallback_to_pickle"):          # if fallback_to_pickle: try: return (m, tp, _cloudpickle_key(obj)) …
                inner = s.body
                if len(inner) == 1 and isinstance(inner[0], ast.Try):
                    inner = inner[0].body
                fallback = _branch_of(inner, "", [], marker_var)
                continue
        raise ExtractionError(f"statement not understood in the dispatch: {ast.unparse(s)[:80]}")
    if fallback is None:
        raise ExtractionError("no pickle fallback found")
    return branches, fallback


def _helpers(tree):
    def shape(fname, iterable_expr, conv_expr):
        b = _body(_func(tree, fname))
        sort_ok = conv_ok = False
        if len(b) == 2 and isinstance(b[0], ast.Assign) and isinstance(b[1], ast.Return):
            sort_ok = ast.unparse(b[0]) == f"items = sorted({iterable_expr}) if sort else {iterable_expr}"
            conv_ok = ast.unparse(b[1].value) == conv_expr
        return sort_ok, conv_ok

    it = shape("_hashable_iterable", "iterable", "tuple((to_hashable(item, fallback_to_pickle) for item in items))")
    mp = shape("_hashable_mapping", "mapping.items()", "tuple(((k, to_hashable(v, fallback_to_pickle)) for k, v in items))")
    ck = _body(_func(tree, "_cloudpickle_key"))
    md5 = (len(ck) == 2 and ast.unparse(ck[0]) == "data = cloudpickle.dumps(obj)" and isinstance(ck[1], ast.Return)
           and ast.unparse(ck[1].value) == "hashlib.md5(data).hexdigest()")
    return {"iterSort": it[0], "iterConv": it[1], "mapSort": mp[0], "mapConv": mp[1], "digestMd5": md5}


def extract(repo: str) -> dict:
    tree = ast.parse((Path(repo) / "pipefunc" / "cache.py").read_text())
    fn = _func(tree, "to_hashable")
    stmts = _body(fn)
    if not (stmts and isinstance(stmts[0], ast.Assign) and isinstance(stmts[0].targets[0], ast.Name) and isinstance(stmts[0].value, ast.Name)):
        raise ExtractionError("to_hashable does not start with `m = _HASH_MARKER`")
    marker_var = stmts[0].targets[0].id
    marker = _const(tree, stmts[0].value.id)
    prelude, rest = _prelude(stmts[1:], marker_var, marker)
    branches, fallback = _dispatch(rest, marker_var)
    return {"prelude": prelude, "branches": branches, "fallback": fallback, "helpers": _helpers(tree)}


# ------------------------------------------------------------------------------------------------ rendering
def _b(x: bool) -> str:
    return "true" if x else "false"


def _s(x: str) -> str:
    return '"' + x.replace("\\", "\\\\").replace('"', '\\"') + '"'


def _lean_body(b) -> str:
    if b[0] == "recurse":
        return f".recurse {_s(b[1])}"
    return f".{b[0]} {_b(b[1])}" if len(b) == 2 else f".{b[0]}"


def _lean_branch(b) -> str:
    return ("{ tests := [" + ", ".join(_s(t) for t in b["tests"]) + f"], guard := {_s(b['guard'])}, attrs := ["
            + ", ".join(_s(a) for a in b["attrs"]) + f"], body := {_lean_body(b['body'])}, tagged := {_b(b['tagged'])} }}")


STUB = {"prelude": {"marker": "", "hashFirst": False, "escape": False, "tpIsType": False}, "branches": [],
        "fallback": {"tests": [], "guard": "", "attrs": [], "body": ("other",), "tagged": False},
        "helpers": {"iterSort": False, "iterConv": False, "mapSort": False, "mapConv": False, "digestMd5": False}}


def render(facts: dict | None, why: str = "") -> str:
    head = ("/- GENERATED by harness/c15_extract.py from pipefunc/cache.py of the repository under test.\n"
            "   Do not edit: it is rewritten on every `./check C15`. -/\n"
            "import PfModel.Model.HashableSrc\n"
            "namespace PF.Generated\nopen PF.Hashable\n\n")
    note = ""
    if facts is None:
        facts = STUB
        note = f"/- extraction failed: {why.replace('-/', '- /')} -/\n"
    p, h = facts["prelude"], facts["helpers"]
    body = note
    body += ("/-- `_HASH_MARKER`, the `hash(obj)` test, the marker-headed escape and `tp = type(obj)` -/\n"
             "def toHashablePrelude : SrcPrelude :=\n"
             f"  {{ marker := [{', '.join(str(ord(c)) for c in p['marker'])}], hashFirst := {_b(p['hashFirst'])}, "
             f"escape := {_b(p['escape'])}, tpIsType := {_b(p['tpIsType'])} }}\n\n")
    items = ",\n   ".join(_lean_branch(b) for b in facts["branches"])
    body += ("/-- the `isinstance` branches of `to_hashable`, in source order -/\n"
             f"def toHashableBranches : List SrcBranch :=\n  [{items}]\n\n")
    body += ("/-- after the last `isinstance` test (`fallback_to_pickle=True`) -/\n"
             f"def toHashableFallback : SrcBranch :=\n  {_lean_branch(facts['fallback'])}\n\n")
    body += ("/-- `_hashable_iterable`, `_hashable_mapping`, `_cloudpickle_key` -/\n"
             "def hashableHelpers : SrcHelpers :=\n"
             f"  {{ iterSort := {_b(h['iterSort'])}, iterConv := {_b(h['iterConv'])}, mapSort := {_b(h['mapSort'])}, "
             f"mapConv := {_b(h['mapConv'])}, digestMd5 := {_b(h['digestMd5'])} }}\n")
    return head + body + "\nend PF.Generated\n"


def write(repo: str | None = None) -> tuple[bool, dict | str]:
    repo = repo or os.environ.get("VERIF_REPO", "/repo")
    try:
        facts, why = extract(repo), ""
    except (ExtractionError, OSError, SyntaxError, AttributeError, IndexError) as e:
        facts, why = None, f"{type(e).__name__}: {e}"
    text = render(facts, why)
    OUT.parent.mkdir(parents=True, exist_ok=True)
    if not OUT.exists() or OUT.read_text() != text:         # keep the mtime when nothing changed: no needless rebuild
        OUT.write_text(text)
    return facts is not None, (facts if facts is not None else why)


if __name__ == "__main__":
    import json
    print(json.dumps(write(), indent=1, default=str))
