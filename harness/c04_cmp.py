"""C04, the three-valued resume check (`equal_dicts` answers False / None / True; `_compare_to_previous_run_info` accepts on None).

`run_compare_stream(ctx, base)`: small pipelines `x0[i] -> y0[i]` (optionally `-> z0[i]`) with a scalar input `c0` and a parameter
`d0` with a default; a first `map(run_folder=F)`, then `map(run_folder=F, cleanup=False)` where each element of `x0`, `c0` and the
default `d0` independently stay the same, really change, or cannot be compared (`Cranky`: `==` raises).  Observed: accepted / refused,
and after an accepted resume `RunInfo.load(F)` and `load_outputs` against the second run's own values (property clause); the verdict
is compared with the model entry `resume.compare3` (`PF.RIC.compareToPrevious3`, `createOn3`).
"""
from __future__ import annotations

import contextlib
import io
import os
import shutil
import tempfile
import warnings

import pfimport  # noqa: F401  (FIRST: blocks zarr)
from pfimport import exc_enum

import mapgen
import terms


class Cranky(terms.Term):
    """A term whose `==` raises.  Defined at module level and reduced to itself, so that it pickles by reference (`Term.__reduce__` would
    rebuild a plain `Term`) and the value loaded from the run folder has the SAME type as the new one (`_is_equal` tests `type(a) is type(b)` first)."""

    __slots__ = ()

    def __eq__(self, o):
        raise RuntimeError("cannot compare")

    def __ne__(self, o):
        raise RuntimeError("cannot compare")

    def __hash__(self):
        return hash((self.f, "cranky"))

    def __reduce__(self):
        return (Cranky, (self.f, self.args))


# how one value slot changes from the first run to the second
#   same: plain term, unchanged            diff: plain term, another one
#   raise: a Cranky in both runs (same payload)   raise-diff: a Cranky in both runs, another payload (still: could not compare)
#   newcranky: plain term first, Cranky second (the types differ: `_is_equal` answers False without calling `==`)
KINDS = ["same", "diff", "raise", "raise-diff", "newcranky"]
OUTCOME = {"same": "true", "diff": "false", "raise": "none", "raise-diff": "none", "newcranky": "false"}
STORAGES = ["file_array", "dict"]


def value(kind, tag, second):
    cranky = kind in ("raise", "raise-diff") or (kind == "newcranky" and second)
    if second and kind in ("diff", "raise-diff"):
        tag += 100
    return (Cranky if cranky else terms.Term)("$cranky" if cranky else "v", (("t", tag),))


def case_values(case, second):
    x0 = [value(k, 10 + i, second) for i, k in enumerate(case["x0"])]
    if second and case.get("grow"):
        x0.append(value("same", 99, second))
    if case.get("x0arr"):
        x0 = mapgen.to_np_object(x0)      # an object ndarray: `np.array_equal(equal_nan=True)` raises TypeError, then the same element walk
    return {"x0": x0, "c0": value(case["c0"], 1, second)}, value(case["d0"], 5, second)


def name_outcomes(case):
    """The outcome of `_is_equal` for every scalar value (named by its key) and every ELEMENT of `x0` (named `x0#i`); what `_is_equal` makes
    of the list / object array `x0` from its elements (`all(...)`: the first element that is not equal or raises decides) is the model's business
    (`PF.RIC.seqEq3`)."""
    oc = {f"x0#{i}": OUTCOME[k] for i, k in enumerate(case["x0"])}
    oc["c0"] = OUTCOME[case["c0"]]
    oc["d0"] = OUTCOME[case["d0"]]
    return oc


def build(case, d0):
    from pipefunc import PipeFunc, Pipeline
    log = terms.CallLog()
    f0 = terms.make_func("f0", ["x0", "c0", "d0"], ["y0"], defaults={"d0": d0}, log=log)
    pfs = [PipeFunc(f0, "y0", mapspec="x0[i] -> y0[i]")]
    if case["two"]:
        f1 = terms.make_func("f1", ["y0"], ["z0"], log=log)
        pfs.append(PipeFunc(f1, "z0", mapspec="y0[i] -> z0[i]"))
    with contextlib.redirect_stdout(io.StringIO()):
        return Pipeline(pfs)


def outputs_of(case):
    return ["y0", "z0"] if case["two"] else ["y0"]


def record_json(case, second):
    inputs, d0 = case_values(case, second)
    n = len(inputs["x0"])
    outs = outputs_of(case)
    return {"inputs": [[k, terms.enc(v)] for k, v in inputs.items()], "defaults": [["d0", terms.enc(d0)]],
            "all_output_names": outs, "shapes": [[o, [n]] for o in outs], "shape_masks": [[o, [True]] for o in outs],
            "mapspecs": ["x0[i] -> y0[i]"] + (["y0[i] -> z0[i]"] if case["two"] else []),
            "storage": case["storage2"] if second else case["storage1"]}


def model_request(case):
    oc = name_outcomes(case)
    return {"m": "resume.compare3", "a": {"old": record_json(case, False), "new": record_json(case, True),
                                          "raises": sorted(k for k, v in oc.items() if v == "none"),
                                          "unequal": sorted(k for k, v in oc.items() if v == "false")}}


def enc_out(v):
    return terms.enc(list(v))


def run_impl(case, folder):
    """Both runs on the real code; never raises."""
    from pipefunc.map import load_outputs
    from pipefunc.map._run_info import RunInfo
    obs = {}
    try:
        with warnings.catch_warnings():
            warnings.simplefilter("ignore")
            in1, d1 = case_values(case, False)
            try:
                mapgen.quiet(build(case, d1).map, in1, run_folder=folder, storage=case["storage1"], parallel=False)
            except Exception as e:  # noqa: BLE001
                return {"first": "error:" + exc_enum(e)}
            in2, d2 = case_values(case, True)
            try:
                r2 = mapgen.quiet(build(case, d2).map, in2, run_folder=folder, storage=case["storage2"], cleanup=False, parallel=False)
            except ValueError as e:
                return {"accepted": False, "exc": exc_enum(e)}
            except Exception as e:  # noqa: BLE001
                return {"second": "error:" + exc_enum(e)}
            obs["accepted"] = True
            obs["own"] = {o: enc_out(r2[o].output) for o in outputs_of(case)}
            obs["given_inputs"] = {k: terms.enc(v) for k, v in in2.items()}
            obs["given_defaults"] = {"d0": terms.enc(d2)}
            try:
                ri = mapgen.quiet(RunInfo.load, folder)
                obs["loaded_inputs"] = {k: terms.enc(v) for k, v in ri.inputs.items()}
                obs["loaded_defaults"] = {k: terms.enc(v) for k, v in ri.defaults.items()}
                obs["loaded_storage"] = ri.storage
                obs["reloaded"] = {o: enc_out(mapgen.quiet(load_outputs, o, run_folder=folder)) for o in outputs_of(case)}
            except Exception as e:  # noqa: BLE001
                obs["load"] = "error:" + exc_enum(e)
    except Exception as e:  # noqa: BLE001
        obs["harness"] = "error:" + exc_enum(e)
    return obs


def gen_case(rng):
    def kind(p_same):
        return "same" if rng.random() < p_same else rng.choice(KINDS[1:])
    n = rng.choice([1, 2, 3])
    return {"cmp3": True, "two": rng.random() < 0.4, "storage1": rng.choice(STORAGES), "storage2": rng.choice(STORAGES),
            "x0": [kind(0.7) for _ in range(n)], "c0": kind(0.5), "d0": kind(0.4), "grow": rng.random() < 0.08, "x0arr": rng.random() < 0.35}


def _c(x0, c0, d0, **kw):
    return {"cmp3": True, "two": False, "storage1": "file_array", "storage2": "file_array", "x0": x0, "c0": c0, "d0": d0, "grow": False, "x0arr": False, **kw}


CORPUS = [
    _c(["same", "same"], "same", "same"),
    _c(["same", "same"], "raise", "diff"),                      # inputs could not be compared: the changed default is never looked at
    _c(["same", "same"], "same", "diff"),                       # ... and is refused when they can
    _c(["raise", "same"], "same", "diff", storage2="dict"),
    _c(["same", "same"], "same", "raise"),                      # defaults could not be compared
    _c(["same", "same"], "raise-diff", "raise-diff", two=True),
    _c(["diff", "same"], "raise", "same"),                      # one not-equal input beats a raised comparison (before it)
    _c(["same", "same"], "raise", "same"),
    _c(["same", "raise"], "diff", "same"),                      # ... and after it
    _c(["diff", "raise"], "same", "same"),                      # inside one list: the not-equal element comes first: False
    _c(["raise", "diff"], "same", "diff"),                      # the raising element comes first: could not compare
    _c(["diff", "raise"], "same", "same", x0arr=True),          # the same two with an object ndarray
    _c(["raise", "diff"], "same", "diff", x0arr=True),
    _c(["same", "same"], "newcranky", "same"),                  # types differ: False, `==` is never called
    _c(["same", "same"], "raise", "newcranky"),
    _c(["same"], "raise", "diff", grow=True),                   # shapes are compared before the inputs
]


def run_compare_stream(ctx, base):
    rng = ctx.rng
    cases = [dict(c) for c in CORPUS] + [gen_case(rng) for _ in range(ctx.n(12, 150))]
    sub = tempfile.mkdtemp(prefix="cmp3-", dir=base)
    try:
        impls = []
        for i, case in enumerate(cases):
            folder = os.path.join(sub, f"c{i}")
            impls.append(run_impl(case, folder))
            shutil.rmtree(folder, ignore_errors=True)
        outs = ctx.lean([model_request(c) for c in cases])
        for case, impl, resp in zip(cases, impls, outs):
            judge(ctx, case, impl, resp["r"])
    finally:
        shutil.rmtree(sub, ignore_errors=True)


def judge(ctx, case, impl, model):
    ctx.count(f"cmp3:inputs={model['inputs_cmp']}/defaults={model['defaults_cmp']}"
              f"->{'accepted' if model['accepted'] else 'refused:' + str(model['refusal'])}")
    ctx.count(f"cmp3:kinds:x0={'+'.join(sorted(set(case['x0'])))}/c0={case['c0']}/d0={case['d0']}")
    ctx.count("cmp3:x0-is-" + ("object-array" if case.get("x0arr") else "list"))
    if case["storage1"] != case["storage2"]:
        ctx.count("cmp3:storage-switched")
    if case["two"]:
        ctx.count("cmp3:two-functions")
    nontrivial = any(k != "same" for k in [*case["x0"], case["c0"], case["d0"]]) or case["grow"]
    if "accepted" not in impl:
        ctx.violation(case, f"resume.compare3: the implementation fails outside the resume check: {impl}", found_input=False,
                      item="correspondence:resume-compare3", impl=impl, model=model)
        ctx.record(case, nontrivial)
        return
    if impl["accepted"] != model["accepted"]:
        ctx.violation(case, f"resume.compare3: implementation {'accepts' if impl['accepted'] else 'refuses'} the resume, the model "
                            f"{'accepts' if model['accepted'] else 'refuses (' + str(model['refusal']) + ')'} "
                            f"(inputs {model['inputs_cmp']}, defaults {model['defaults_cmp']})",
                      found_input=False, item="correspondence:resume-compare3", impl=impl, model=model)
        ctx.record(case, nontrivial)
        return
    if impl["accepted"]:
        ctx.count("cmp3:accepted:" + ("could-not-compare" if "none" in (model["inputs_cmp"], model["defaults_cmp"]) else "equal"))
        if model["inputs_cmp"] == "none" and model["defaults_cmp"] == "false":
            ctx.count("cmp3:accepted-with-unchecked-differing-defaults")
        # property clauses: after an accepted run the folder yields THIS run's inputs, defaults and outputs
        if "load" in impl or "harness" in impl:
            ctx.violation(case, f"after an accepted resume the run folder does not load: {impl.get('load') or impl.get('harness')}", impl=impl, model=model)
        else:
            if impl["loaded_defaults"] != impl["given_defaults"]:
                ctx.violation(case, "after an accepted resume RunInfo.load(F).defaults are not the defaults of the run that was made", impl=impl, model=model)
            if impl["loaded_inputs"] != impl["given_inputs"]:
                ctx.violation(case, "after an accepted resume RunInfo.load(F).inputs are not the inputs the run was given", impl=impl, model=model)
            if impl["reloaded"] != impl["own"]:
                ctx.violation(case, "after an accepted resume load_outputs differs from the run's own Result.output", impl=impl, model=model)
            if impl["loaded_storage"] != case["storage2"]:
                ctx.violation(case, "after an accepted resume RunInfo.load(F).storage is not the storage the run used", impl=impl, model=model)
            m_def = {k: v for k, v in (model["decoded_defaults_after"] or [])}
            m_in = {k: v for k, v in (model["decoded_inputs_after"] or [])}
            if m_def != impl["loaded_defaults"] or m_in != impl["loaded_inputs"]:
                ctx.violation(case, "resume.compare3: the record read back after the accepted resume differs between implementation and model",
                              found_input=False, item="correspondence:resume-compare3", impl=impl, model=model)
    else:
        ctx.count("cmp3:refused")
    ctx.record(case, nontrivial)


def replay_compare(ctx, case, base):
    """Both sides for one recorded case of this stream (a case with `"cmp3": true`)."""
    import json
    folder = tempfile.mkdtemp(prefix="cmp3-", dir=base)
    try:
        print("outcome of `_is_equal` per scalar / per element of x0:", name_outcomes(case))
        print("implementation:", json.dumps(run_impl(case, os.path.join(folder, "F")), default=str)[:4000])
        print("model:", json.dumps(ctx.lean([model_request(case)])[0]["r"])[:4000])
    finally:
        shutil.rmtree(folder, ignore_errors=True)
