import PfModel.Lemmas.StorageKeys
import PfModel.Props.C07
/-!
C07, round 9 — the key clauses at the level of the OPERATIONS of every back end ("out-of-range or wrong-rank keys raise
IndexError"), the complete error classification of a key, and exactly which elements a dump key (slices included) writes.
Property theorems only.  Until this round `C07_normalize` spoke about `normalizeKey` alone and `C07_read_your_writes`
took the target list `ts` of a dump as given.
-/
namespace PF.C07
open PF PF.St
variable {V : Type}

/-- a wrong-rank or out-of-range key (`¬ KeyOK`: not one entry per axis, or an integer entry outside `-n ≤ e < n`)
    makes `__getitem__` (all axes) and `dump` (external axes) raise `IndexError` in `DictArray` / `SharedMemoryDictArray`,
    `FileArray` and the reference alike, from every state, and nothing is written -/
theorem C07_bad_key_index_error (g : Geom) (hg : g.WF) (key : List KE) (d : Dict V) (f : Files V) (a : MArr V) (v : List V) :
    (¬ KeyOK g.full key →
      dStep g d (.get key) = (d, .err .index) ∧ fStep g f (.get key) = (f, .err .index) ∧
      (aStep g a (.get key)).2 = .err .index) ∧
    (¬ KeyOK g.shape key →
      dStep g d (.dump key v) = (d, .err .index) ∧ fStep g f (.dump key v) = (f, .err .index) ∧
      (aStep g a (.dump key v)).2 = .err .index ∧ (aStep g a (.dump key v)).1 = a) := by
  constructor
  · intro h
    have hn := normalizeKey_err g hg false key h
    simp only [dStep, fStep, aStep, getItemWith, hn, and_self]
  · intro h
    have hn := normalizeKey_err g hg true key h
    simp only [dStep, fStep, aStep, dumpTargets, hn, and_self]

/-- complete classification of a read key: `IndexError` iff `¬ KeyOK`; otherwise `ValueError` iff some slice has step
    0; otherwise no exception at all (whatever the element lookup, i.e. in every back end and in every state) -/
theorem C07_getitem_error_classes (g : Geom) (hg : g.WF) (lk : List Nat → Option (List V)) (key : List KE) :
    (¬ KeyOK g.full key → getItemWith g lk key = .err .index) ∧
    (KeyOK g.full key → hasStep0 key = true → getItemWith g lk key = .err .value) ∧
    (KeyOK g.full key → hasStep0 key = false → ∀ e, getItemWith g lk key ≠ .err e) := by
  refine ⟨?_, ?_, ?_⟩
  · intro h
    simp only [getItemWith, normalizeKey_err g hg false key h]
  · intro hk h0
    have hn := normalizeKey_ok g hg false key hk
    have hany := normalizeKey_any g hg key _ hn
    rw [step0_isSlice key h0] at hany
    have hr := keyRanges_step0 g.full key hk h0
    simp only [getItemWith, hn]
    rw [if_pos hany]
    simp only [axisSizes, Bool.false_eq_true, if_false] at hr ⊢
    rw [hr]
  · intro hk h0 e
    have hn := normalizeKey_ok g hg false key hk
    obtain ⟨rs, hr⟩ := keyRanges_noStep0 g.full key hk h0
    simp only [getItemWith, hn]
    simp only [axisSizes, Bool.false_eq_true, if_false] at hr ⊢
    split
    · rw [hr]; intro h; cases h
    · intro h; cases h

/-- complete classification of a dump key, and exactly what an accepted one writes: `IndexError` iff `¬ KeyOK` (external
    axes); otherwise `ValueError` iff some slice has step 0; otherwise the dump succeeds and its targets are precisely
    the external index tuples `E` the key names axis by axis (`Hits`: the normalised integer on an integer axis, a member
    of `range(*slice.indices(n))` on a slice axis) -/
theorem C07_dump_targets_characterised (g : Geom) (hg : g.WF) (key : List KE) :
    (¬ KeyOK g.shape key → dumpTargets g key = .error .index) ∧
    (KeyOK g.shape key → hasStep0 key = true → dumpTargets g key = .error .value) ∧
    (KeyOK g.shape key → hasStep0 key = false →
      ∃ ts, dumpTargets g key = .ok ts ∧ ∀ E, E ∈ ts ↔ Hits g.shape key E) := by
  refine ⟨?_, ?_, ?_⟩
  · intro h
    simp only [dumpTargets, normalizeKey_err g hg true key h]
  · intro hk h0
    have hn := normalizeKey_ok g hg true key hk
    have hr := keyRanges_step0 g.shape key hk h0
    simp only [axisSizes, if_true] at hn
    simp only [dumpTargets, hn, hr]
  · intro hk h0
    have hn := normalizeKey_ok g hg true key hk
    obtain ⟨rs, hr⟩ := keyRanges_noStep0 g.shape key hk h0
    simp only [axisSizes, if_true] at hn
    refine ⟨product rs, by simp only [dumpTargets, hn, hr], ?_⟩
    intro E
    exact mem_product_hits g.shape key rs E hk hr

/-- written elements read back equal, for slice dumps too, stated on the key alone: after `dump(key, v)` with an
    accepted key, an in-range full index `F` reads `v` (indexed internally) iff the key names the external part of `F`,
    and reads what it read before otherwise -/
theorem C07_read_your_writes_by_key (g : Geom) (hg : g.WF) (a : MArr V) (key : List KE) (v : List V)
    (hk : KeyOK g.shape key) (h0 : hasStep0 key = false) (F : List Nat) (hF : InRange g.full F) :
    (aStep g a (.dump key v)).2 = .unit ∧
    (Hits g.shape key (extOf g.mask F) →
      (aStep g (aStep g a (.dump key v)).1 (.get (intKey F))).2
        = .scalar (if intOf g.mask F = [] then .whole v else cellAt v (ravel g.internal (intOf g.mask F)))) ∧
    (¬ Hits g.shape key (extOf g.mask F) →
      (aStep g (aStep g a (.dump key v)).1 (.get (intKey F))).2 = (aStep g a (.get (intKey F))).2) := by
  obtain ⟨ts, hts, hmem⟩ := (C07_dump_targets_characterised g hg key).2.2 hk h0
  obtain ⟨h1, h2, h3⟩ := C07_read_your_writes g hg a key v ts hts F hF
  exact ⟨h1, fun h => h2 ((hmem _).2 h), fun h => h3 (fun hin => h ((hmem _).1 hin))⟩

/-- the members of a slice's range are the arithmetic progression `start' + j·step` of `slice.indices(n)`, all inside the
    axis: `e` is named by the slice iff `e = start' + j·step` for some `j < len(range)` -/
theorem C07_slice_members (n : Nat) (a b c : Option Int) (r : List Nat) (h : sliceRange n a b c = .ok r) (e : Nat) :
    e ∈ r ↔ ∃ s e' st, sliceIndices n a b c = .ok (s, e', st) ∧ ∃ j : Nat, j < rangeLen s e' st ∧ (e : Int) = s + (j : Int) * st := by
  have hc : c ≠ some 0 := by
    intro hc; subst hc; rw [sliceRange_step0] at h; cases h
  obtain ⟨s, e', st, hs, hr, hb⟩ := (C07_slice_range n a b c).2 hc
  rw [h] at hr
  injection hr with hr
  subst hr
  simp only [List.mem_map, List.mem_range]
  constructor
  · rintro ⟨j, hj, he⟩
    refine ⟨s, e', st, hs, j, hj, ?_⟩
    have := (hb j hj).1
    omega
  · rintro ⟨s2, e2, st2, hs2, j, hj, he⟩
    rw [hs] at hs2
    injection hs2 with hs2
    injection hs2 with q1 q2
    injection q2 with q2 q3
    subst q1; subst q2; subst q3
    exact ⟨j, hj, by omega⟩

/-! ### non-vacuity -/

example : g23.WF := by decide
example : ¬ KeyOK g23.full [.int 2, .int 0] ∧ ¬ KeyOK g23.shape [.int 3] ∧ ¬ KeyOK g23.shape [.int 0, .int 0] := by decide
example : KeyOK g23.full [.slice none none (some 0), .int 2] ∧ hasStep0 [.slice none none (some 0), .int 2] = true := by decide
example : KeyOK g23.full [.slice none none (some (-1)), .int (-1)] ∧ hasStep0 [.slice none none (some (-1)), .int (-1)] = false := by decide
example : KeyOK g23.shape [.slice none none (some (-2))] ∧ hasStep0 [.slice none none (some (-2))] = false ∧
    dumpTargets g23 [.slice none none (some (-2))] = .ok [[2], [0]] := ⟨by decide, by decide, rfl⟩
example : Hits g23.shape [.slice none none (some (-2))] [2] := ⟨⟨[2, 0], rfl, by decide⟩, trivial⟩
example : ¬ Hits g23.shape [.slice none none (some (-2))] [1] := by
  rintro ⟨⟨r, hr, hm⟩, _⟩
  have : r = [2, 0] := by
    have e : sliceRange 3 none none (some (-2)) = .ok [2, 0] := rfl
    rw [e] at hr; injection hr with hr; exact hr.symm
  subst this; simp at hm
example : InRange g23.full [1, 2] ∧ extOf g23.mask [1, 2] = [2] := by decide
example : sliceRange 3 none none (some (-2)) = .ok [2, 0] := rfl

end PF.C07
