import PfModel.Lemmas.SchedAlign
import PfModel.Props.C03Count
/-!
C03 (proof round 7) — the alignment left open by round 9 ("the i-th executed call = the call of task `ran[i]` with `selectArgs`
at its index is not stated as a theorem, only counts + the permutation statement").

`C03_call_alignment_gen`: in a successful generation, under every schedule and every `dump_in_subprocess` assignment, the
execution-order call log has exactly one entry per body that ran, in the same order, and the i-th entry is the call of the
function of the i-th body with the keyword arguments that `bodyRun` selects at that future's index from `env` — the store of
the EARLIER generations alone (not from the live view that other bodies of the generation are dumping into).  Together with
`C03_consumed_complete` (those earlier generations have completely run) this is the clause "never before all values it
consumes are complete" read on the arguments the user function actually receives.
-/
namespace PF.C03
open PF PF.Map PF.Sched PF.SchedC PF.SchedA

theorem C03_call_alignment_gen (fs : List MFunc) (shapes : List (String × List Nat)) (masks : List (String × List Bool))
    (dumpSub : String → Bool) (env : Env) (gen : List MFunc) (order : List TaskId)
    (hperm : order.Perm (idsFrom 0 (planned shapes masks gen))) (hind : GenIndep gen)
    (rs : List FuncResult) (tr : GenTrace) (h : runGenSched fs shapes masks dumpSub env gen order = .ok (rs, tr)) :
    tr.calls.length = tr.ran.length ∧
    ∀ (i : Nat) (id : TaskId), tr.ran[i]? = some id →
      ∃ f a, gen[id.1]? = some f ∧ id.2 < demanded shapes masks f ∧
        bodyRun fs env f (planOf shapes masks f) id.2 = .ok a ∧ tr.calls[i]? = some { name := f.name, args := a } := by
  obtain ⟨hran, hlen, hat⟩ := runGenSched_calls_aligned fs shapes masks dumpSub env gen order hperm hind rs tr h
  refine ⟨by rw [hran, hlen], ?_⟩
  intro i id hi
  rw [hran] at hi
  obtain ⟨hc, hs⟩ := hat i id hi
  have hv := (mem_ids_iff_valid _ id).mp (hperm.mem_iff.mp (List.mem_of_getElem? hi))
  simp only [validId, planned, List.getElem?_map, Option.map_eq_some_iff] at hv
  obtain ⟨fp, ⟨f, hf, rfl⟩, hk⟩ := hv
  have hpl : (planned shapes masks gen)[id.1]? = some (f, planOf shapes masks f) := by simp [planned, hf]
  cases hb : bodyRun fs env f (planOf shapes masks f) id.2 with
  | error e => simp [callOf, resOf, hpl, hb] at hs
  | ok a =>
    refine ⟨f, a, hf, hk, hb, ?_⟩
    rw [hc]; simp [callOf, resOf, hpl, hb]

/-- **Whole run.** In every successful run (unique output names, every family of schedules, every `dump_in_subprocess`
    assignment) the trace of generation `g` is aligned as above against a store `env` that holds the run's inputs and a slot for
    exactly the outputs of the functions of the generations before `g` — nothing of generation `g` or later. -/
theorem C03_call_alignment (fs : List MFunc) (inputs : List (String × Val)) (ui : List (String × List Nat))
    (dumpSub : String → Bool) (sched : Scheds) (hs : ValidScheds sched) (huo : UniqueOutputs fs)
    (res : MapResult) (trs : List GenTrace) (h : runMapSched fs inputs ui dumpSub sched = .ok (res, trs))
    (g : Nat) (gen : List MFunc) (tr : GenTrace) (hgen : (generations fs)[g]? = some gen) (htr : trs[g]? = some tr) :
    ∃ env : Env, env.inputs = inputs ∧
      env.store.map (·.1) = ((generations fs).take g).flatten.flatMap (·.outputs) ∧
      tr.calls.length = tr.ran.length ∧
      ∀ (i : Nat) (id : TaskId), tr.ran[i]? = some id →
        ∃ f a, gen[id.1]? = some f ∧ id.2 < demanded res.shapes res.masks f ∧
          bodyRun fs env f (planOf res.shapes res.masks f) id.2 = .ok a ∧ tr.calls[i]? = some { name := f.name, args := a } := by
  obtain ⟨_, rs, envF, hg⟩ := runMapSched_ok' fs inputs ui dumpSub sched res trs h
  obtain ⟨env, rs', h1, h2, h3⟩ := runGensSched_gen_at fs res.shapes res.masks dumpSub sched (generations fs) 0 _ _ hg g gen tr hgen htr
  rw [Nat.zero_add] at h3
  obtain ⟨a, b⟩ := C03_call_alignment_gen fs res.shapes res.masks dumpSub env gen _ (hs g _)
    (C03_layer_independent fs huo gen (List.mem_of_getElem? hgen)).1 rs' tr h3
  exact ⟨env, h1, by simpa using h2, a, b⟩

/-! ### non-vacuity: two sibling functions, bodies in reversed order; the log follows the bodies -/

private def el (n : String) (ins : List String) (out : String) : MFunc :=
  { name := n, params := ins.map fun p => (p, p), outputs := [out],
    mapspec := some { inputs := ins.map fun p => ⟨p, [some "i"]⟩, outputs := [⟨out, [some "i"]⟩] },
    ret := none, internal := none, defaults := [], bound := [] }
private def exGen : List MFunc := [el "f" ["x"] "y", el "h" ["x"] "w"]
private def exEnv : Env := { inputs := [("x", .arr [2] [.int 1, .int 2])], store := [] }
private def exShapes : List (String × List Nat) := [("x", [2]), ("y", [2]), ("w", [2])]
private def exMasks : List (String × List Bool) := [("x", [true]), ("y", [true]), ("w", [true])]

example : idsFrom 0 (planned exShapes exMasks exGen) = [(0, 0), (0, 1), (1, 0), (1, 1)] := by decide
example : [(1, 1), (1, 0), (0, 1), (0, 0)].Perm (idsFrom 0 (planned exShapes exMasks exGen)) := by decide
example : GenIndep exGen := by
  intro f hf h hh p hp _ hpo
  simp only [exGen, List.mem_cons, List.not_mem_nil, or_false] at hf hh
  rcases hf with rfl | rfl <;> rcases hh with rfl | rfl <;> simp [el] at hp hpo <;> simp_all
/-- the generation succeeds under the reversed order; bodies and logged calls (function, index argument) line up -/
example : ((runGenSched [] exShapes exMasks (fun o => o == "y") exEnv exGen [(1, 1), (1, 0), (0, 1), (0, 0)]).toOption.map fun r =>
      (r.2.ran, r.2.calls.map fun c => (c.name, c.args.map fun kv => (kv.1, match kv.2 with | .int n => n | _ => 0)))) =
    some ([(1, 1), (1, 0), (0, 1), (0, 0)],
          [("h", [("x", 2)]), ("h", [("x", 1)]), ("f", [("x", 2)]), ("f", [("x", 1)])]) := by decide

/-- a whole successful run for `C03_call_alignment` (consumer `g` listed first, reversed schedules): generation 1 is `[g]`, the
    store its bodies read holds exactly `y`, `w` -/
private def exFs : List MFunc := [el "g" ["y", "w"] "z", el "f" ["x"] "y", el "h" ["x"] "w"]
example : UniqueOutputs exFs := by simp [UniqueOutputs, exFs, el]
example : ValidScheds (fun _ ids => ids.reverse) := fun _ ids => List.reverse_perm ids
example : ((generations exFs).take 1).flatten.flatMap (·.outputs) = ["y", "w"] := by decide
example : ((runMapSched exFs exEnv.inputs [] (fun o => o == "y") (fun _ ids => ids.reverse)).toOption.map fun r =>
      r.2.map fun tr => (tr.ran, tr.calls.map (·.name))) =
    some [([(1, 1), (1, 0), (0, 1), (0, 0)], ["h", "h", "f", "f"]), ([(0, 1), (0, 0)], ["g", "g"])] := by decide

end PF.C03
