#!/usr/bin/env python3
"""Print the build brief for one property (used to brief a builder working in its own scratch copy)."""
import json
import sys

pid = sys.argv[1]
extra = sys.argv[2] if len(sys.argv) > 2 else ""
props = {json.loads(l)["id"]: json.loads(l) for l in open("/verif/properties.jsonl")}
p = props[pid]
print(f"""You are building one property check ({pid}) of a Lean-4 verification framework for the Python library pipefunc.
The framework, its design and one complete worked example (C20) already exist in /verif. Your job: deliver the Lean model,
the theorems, the JSON driver and the Python correspondence harness for {pid}, working end to end, with no false alarms.

## The property (fixed text, do not reinterpret loosely)
{pid} — {p['title']}
STATEMENT: {p['statement']}
QUANTIFIER: {p['quantifier']['text']}
WHY TESTS CAN'T: {p['why_tests_cant']}
ANCHORS: {json.dumps(p['anchors'])[:1800]}

## What to read first (in this order)
1. /verif/BUILDING.md  — the contract for a property module (file layout, harness API, verdict kinds, Lean style).
2. /verif/DESIGN.md — section 3 (technique), the subsection "### {pid}" of section 6 (the plan for THIS property: model,
   theorem names and statements, correspondence, observations), the rows of the defect table in section 7 that mention
   {pid}, section 8 (known findings), Appendix C (driver entry for this property).
3. The worked example: /verif/lean/PfModel/Model/Resources.lean, Lemmas/Resources.lean, Props/C20.lean,
   /verif/lean/Driver/C20.lean, /verif/lean/PfModel/DriverLib.lean, /verif/harness/props/c20.py, /verif/harness/framework.py.
4. The anchored pipefunc source under /repo/pipefunc (read the code the property is anchored in, line by line).
5. Design-phase prototypes that may save you time: /tmp/scratch/leantest/Leantest/*.lean (Lean proofs that compiled),
   /tmp/scratch/proto/*.py (Python fuzzers/reference semantics used to find the defects listed in DESIGN.md section 7).
{extra}
## Where you work (IMPORTANT — several builders work in parallel)
* Make your own scratch copy of the framework:  `mkdir -p /tmp/vb && cp -r /verif /tmp/vb/{pid}`  and work ONLY there
  (`cd /tmp/vb/{pid}`; `./check {pid}`; `cd lean && lake build PfModel.Props.{pid}`). Never run lake inside /verif/lean.
* Make your own worktree of the repository:  `git -C /repo worktree add --detach /tmp/wt/{pid} HEAD`  and point the
  harness at it with the environment variable `VERIF_REPO=/tmp/wt/{pid}` (pfimport.py honours it). Never edit files
  under /repo itself and never run git commands that change /repo's main working tree or branch.
* Python: `/venv/bin/python` (3.12, has numpy, pipefunc's deps). Every process that imports pipefunc must
  `import pfimport` first (zarr must be blocked: see pfimport.py). No network. Lean 4.33.0, `lake`, core library only
  (Mathlib single modules allowed in Lemmas/ if truly needed — they load in 1–2 s; never `import Mathlib`).
* Do not modify shared files (harness/framework.py, harness/main.py, harness/pfimport.py, lean/PfModel/DriverLib.lean,
  lean/PfModel/Core/*, lakefile, MANIFEST.json, known_findings.json, DESIGN.md, BUILDING.md). If you need a shared helper,
  put it in your own files. If you believe a shared file has a bug, say so in your final report.

## Defects in pipefunc that your check exposes
DESIGN.md section 7 lists defects already confirmed for this property on the pinned code. Your model mirrors the code;
where the code violates the property statement, decide per BUILDING.md: small safe repair → make the fix in YOUR worktree
/tmp/wt/{pid} as ONE commit per defect whose message starts with "fix:" (minimal; explain the defect in the message),
model the repaired behaviour, keep the failing input in CORPUS; otherwise a narrow known finding. After each fix run the
affected unit tests; before delivering run `/verif/tools/baseline.py /tmp/wt/{pid}` once (≈ 1.5 min; must print missing=0).
Export the fix commits with `git -C /tmp/wt/{pid} format-patch -o /verif/fixes/{pid} <base>..HEAD` (base = the commit
your worktree started from). Put the known_findings.json entries you need (both "fixed" and "finding") in a file
/verif/fixes/{pid}/known_findings_entries.json (a JSON list; "fixed" entries use "commit": "PENDING").
IMPORTANT: fix commits must touch files under pipefunc/ only (the test-suite leaves a my_run_folder/ directory in the worktree: never `git add -A`; `rm -rf` it).
Your check must pass (exit 0, no VIOLATION line) on your worktree WITH your fixes applied, and must report a VIOLATION
with a concrete replay on the worktree WITHOUT each fix (try it: `git stash`/checkout the base in a second worktree) —
that is the evidence that the check detects that class of breakage.

## Deliverables (copy into /verif when — and only when — they work; only files with your property's names)
* /verif/lean/PfModel/Model/<YourMechanism>.lean (+ Lemmas/<…>.lean), /verif/lean/PfModel/Props/{pid}.lean, /verif/lean/Driver/{pid}.lean
* /verif/harness/props/{pid.lower()}.py (+ any helper module named harness/{pid.lower()}_*.py)
* /verif/fixes/{pid}/*.patch and /verif/fixes/{pid}/known_findings_entries.json (if any)
* /verif/fixes/{pid}/REPORT.md: the theorem list (name + one-line statement + which clause of the property it carries, and
  which clauses rest on correspondence alone), the model→code mapping, the defects found (input, disposition), what the
  generators cover (counts), timings of quick/thorough, and anything a reviewer should distrust.
Do NOT run `git add/commit` in /verif; the integrator commits. Do not leave stray files in /verif. Remove your worktree
(`git -C /repo worktree remove --force /tmp/wt/{pid}`) and scratch copy at the end.

## Quality bar
* Theorems at full strength for all inputs/histories (induction / invariants / refinement to a short denotational spec); no
  `sorry`/`admit`/`axiom`/`native_decide`/`bv_decide`/`partial`/`unsafe`; `#print axioms` ⊆ {{propext, Classical.choice, Quot.sound}}
  (the check audits it). The model must be the thing the theorems are about AND the thing the driver executes.
  Prefer a faithful operational model + a short spec + a refinement theorem over restating the code. Non-vacuity examples.
* Harness: mostly-valid structured generator + separate malformed stream, everything seeded from ctx.rng, distribution
  counted, corpus of past failures first, property clauses evaluated directly on the implementation where possible,
  `VERIF_SEED=0,1,2,3 ./check {pid}` and `./check {pid} --tier thorough` all exit 0 on the fixed tree; quick ≤ 60 s.
  The build of your Lean closure should take < 2 min; split slow proofs.
* Think like an adversary: which small plausible edits to the anchored code would break the property while passing the
  existing tests? Make sure the generator reaches them (branch coverage counters help) — try 3–5 such mutations by hand in
  your worktree and confirm the check reports each with a concrete replay; list them in REPORT.md.
* Budget: aim to deliver within about 3 hours of wall-clock. Deliver a working, narrower check rather than an unfinished broad one;
  a theorem you could not finish stays as a `…_partial` with the missing part stated, never as a `sorry`.

Your final message to me should be SHORT (≤ 25 lines): what was delivered, theorem count, defects (fix/finding), quick/thorough
timings, mutations tried and caught, and any open issue.""")
