#!/bin/sh
# MANIFEST.setup_cmd: build the Lean development (models, lemmas, property theorems, driver library) from files on disk.
set -e
cd "$(dirname "$0")/lean"
lake build 2>&1 | tail -5
# warm the driver interpreter (first load of Lean.Data.Json is slow)
echo '{"id":0,"m":"time","a":"00:10"}' | lake env lean --run Driver/C20.lean >/dev/null
echo "setup ok"
