import PfModel.Lemmas.HashableKeys
/-!
Whole-run facts about the pipeline cache of `Model/HashableKeys.lean` (`PCache.run`): a hit is traced back to the earlier
real call that stored the result under the same `compute_cache_key`; real calls return fresh results.  Core Lean only.
-/
namespace PF.Hashable

abbrev PCall := PV × List Name × List (Name × PV)

def pcallKey (q : PCall) : Except Err (Option PV) := pipeKey q.1 q.2.1 q.2.2

theorem PCache.inv_empty : PCache.Inv {} := by
  intro e he; cases he

theorem PCache.call_cases {c c' : PCache} {out : PV} {roots : List Name} {kw : List (Name × PV)} {r : Nat} {hit : Bool}
    (h : c.call out roots kw = .ok (r, hit, c')) :
    (hit = true ∧ c' = c ∧ ∃ k q0, pipeKey out roots kw = .ok (some k) ∧ PCache.lookup k c.entries = some (q0, r)) ∨
    (hit = false ∧ r = c.calls ∧ pipeKey out roots kw = .ok none ∧ c' = { c with calls := c.calls + 1 }) ∨
    (hit = false ∧ r = c.calls ∧ ∃ k, pipeKey out roots kw = .ok (some k) ∧ PCache.lookup k c.entries = none ∧
      c' = { entries := (k, (out, roots, kw), c.calls) :: c.entries, calls := c.calls + 1 }) := by
  unfold PCache.call at h
  cases hk : pipeKey out roots kw with
  | error e => rw [hk] at h; cases h
  | ok o =>
    rw [hk] at h
    cases o with
    | none => simp only at h; cases h; exact .inr (.inl ⟨rfl, rfl, rfl, rfl⟩)
    | some k =>
      simp only at h
      cases hl : PCache.lookup k c.entries with
      | some p =>
        obtain ⟨q0, r0⟩ := p
        rw [hl] at h; cases h; exact .inl ⟨rfl, rfl, k, q0, rfl, hl⟩
      | none =>
        rw [hl] at h; cases h
        exact .inr (.inr ⟨rfl, rfl, k, rfl, hl, rfl⟩)

theorem PCache.call_inv {c c' : PCache} {out : PV} {roots : List Name} {kw : List (Name × PV)} {r : Nat} {hit : Bool}
    (hi : c.Inv) (h : c.call out roots kw = .ok (r, hit, c')) : c'.Inv := by
  rcases PCache.call_cases h with ⟨_, e, _⟩ | ⟨_, _, _, e⟩ | ⟨_, _, k, hk, _, e⟩
  · rw [e]; exact hi
  · rw [e]; exact hi
  · rw [e]
    intro x hx
    cases hx with
    | head => exact hk
    | tail _ hx => exact hi x hx

theorem PCache.call_calls_le {c c' : PCache} {out : PV} {roots : List Name} {kw : List (Name × PV)} {r : Nat} {hit : Bool}
    (h : c.call out roots kw = .ok (r, hit, c')) : c.calls ≤ c'.calls := by
  rcases PCache.call_cases h with ⟨_, e, _⟩ | ⟨_, _, _, e⟩ | ⟨_, _, k, _, _, e⟩ <;> rw [e] <;> simp

theorem PCache.run_cons_ok {c c' : PCache} {out : PV} {roots : List Name} {kw : List (Name × PV)} {as : List PCall}
    {r : Nat} {hit : Bool} (h : c.call out roots kw = .ok (r, hit, c')) :
    PCache.run c ((out, roots, kw) :: as) = some (r, hit) :: PCache.run c' as := by
  simp only [PCache.run, h]

theorem PCache.run_cons_error {c : PCache} {out : PV} {roots : List Name} {kw : List (Name × PV)} {as : List PCall}
    {e : Err} (h : c.call out roots kw = .error e) :
    PCache.run c ((out, roots, kw) :: as) = none :: PCache.run c as := by
  simp only [PCache.run, h]

/-- A hit in a run started from a cache satisfying the invariant returns the result of an entry that was in the cache at
    the start, or the result computed by an earlier call of the run (a miss) that has the same `compute_cache_key`. -/
theorem PCache.run_sound : ∀ (as : List PCall) (c : PCache), c.Inv → ∀ (j r : Nat),
    (PCache.run c as)[j]? = some (some (r, true)) →
    ∃ q k, as[j]? = some q ∧ pcallKey q = .ok (some k) ∧ ((∃ q0, (k, q0, r) ∈ c.entries) ∨
      (∃ i q0, i < j ∧ as[i]? = some q0 ∧ pcallKey q0 = .ok (some k) ∧ (PCache.run c as)[i]? = some (some (r, false))))
  | [], c, _, j, r, h => by simp [PCache.run] at h
  | (out, roots, kw) :: as, c, hi, j, r, h => by
    cases hc : c.call out roots kw with
    | error e =>
      rw [PCache.run_cons_error hc] at h ⊢
      cases j with
      | zero => simp at h
      | succ j =>
        simp only [List.getElem?_cons_succ] at h ⊢
        obtain ⟨q, k, hq, hk, hh⟩ := PCache.run_sound as c hi j r h
        refine ⟨q, k, hq, hk, ?_⟩
        rcases hh with hh | ⟨i, q0, hij, hai, hk0, hri⟩
        · exact .inl hh
        · exact .inr ⟨i + 1, q0, by omega, by simpa using hai, hk0, by simpa using hri⟩
    | ok p =>
      obtain ⟨r0, hit, c'⟩ := p
      have hi' := PCache.call_inv hi hc
      rw [PCache.run_cons_ok hc] at h ⊢
      have step : ∀ j, (PCache.run c' as)[j]? = some (some (r, true)) → (∀ q0 k, (k, q0, r) ∈ c'.entries →
            (k, q0, r) ∈ c.entries ∨ (q0 = (out, roots, kw) ∧ r0 = r ∧ hit = false ∧ pipeKey out roots kw = .ok (some k))) →
          ∃ q k, as[j]? = some q ∧ pcallKey q = .ok (some k) ∧ ((∃ q0, (k, q0, r) ∈ c.entries) ∨
            (∃ i q0, i < j + 1 ∧ ((out, roots, kw) :: as)[i]? = some q0 ∧ pcallKey q0 = .ok (some k) ∧
              (some (r0, hit) :: PCache.run c' as)[i]? = some (some (r, false)))) := by
        intro j h hent
        obtain ⟨q, k, hq, hk, hh⟩ := PCache.run_sound as c' hi' j r h
        refine ⟨q, k, hq, hk, ?_⟩
        rcases hh with ⟨q0, hm⟩ | ⟨i, q0, hij, hai, hk0, hri⟩
        · rcases hent q0 k hm with hm | ⟨e1, e2, e3, hk1⟩
          · exact .inl ⟨q0, hm⟩
          · subst e1; subst e2; subst e3
            exact .inr ⟨0, (out, roots, kw), by omega, by simp, hk1, by simp⟩
        · exact .inr ⟨i + 1, q0, by omega, by simpa using hai, hk0, by simpa using hri⟩
      rcases PCache.call_cases hc with ⟨e1, e2, k, q0, hk, hl⟩ | ⟨e1, e2, hk, e3⟩ | ⟨e1, e2, k, hk, hl, e3⟩
      · subst e1; subst e2
        cases j with
        | zero =>
          simp only [List.getElem?_cons_zero, Option.some.injEq, Prod.mk.injEq, and_true] at h
          subst h
          exact ⟨(out, roots, kw), k, by simp, hk, .inl ⟨q0, PCache.lookup_some hl⟩⟩
        | succ j =>
          simp only [List.getElem?_cons_succ] at h ⊢
          exact step j h (fun q0 k hm => .inl hm)
      · subst e1
        cases j with
        | zero => simp at h
        | succ j =>
          simp only [List.getElem?_cons_succ] at h ⊢
          exact step j h (fun q0 k hm => .inl (by rw [e3] at hm; exact hm))
      · subst e1
        cases j with
        | zero => simp at h
        | succ j =>
          simp only [List.getElem?_cons_succ] at h ⊢
          refine step j h (fun q0 k' hm => ?_)
          rw [e3] at hm
          cases hm with
          | head => exact .inr ⟨rfl, e2, rfl, hk⟩
          | tail _ hm => exact .inl hm

theorem PCache.run_miss_ge : ∀ (as : List PCall) (c : PCache) (i r : Nat),
    (PCache.run c as)[i]? = some (some (r, false)) → c.calls ≤ r
  | [], c, i, r, h => by simp [PCache.run] at h
  | (out, roots, kw) :: as, c, i, r, h => by
    cases hc : c.call out roots kw with
    | error e =>
      rw [PCache.run_cons_error hc] at h
      cases i with
      | zero => simp at h
      | succ i => exact PCache.run_miss_ge as c i r (by simpa using h)
    | ok p =>
      obtain ⟨r0, hit, c'⟩ := p
      rw [PCache.run_cons_ok hc] at h
      cases i with
      | zero =>
        simp only [List.getElem?_cons_zero, Option.some.injEq, Prod.mk.injEq] at h
        obtain ⟨e1, e2⟩ := h
        subst e1; subst e2
        rcases PCache.call_cases hc with ⟨e1, _⟩ | ⟨_, e2, _⟩ | ⟨_, e2, _⟩
        · cases e1
        · omega
        · omega
      | succ i =>
        have := PCache.run_miss_ge as c' i r (by simpa using h)
        have := PCache.call_calls_le hc
        omega

/-- the results of the real calls of a run increase strictly: every real call returns a fresh result -/
theorem PCache.run_miss_lt : ∀ (as : List PCall) (c : PCache) (i i' r r' : Nat), i < i' →
    (PCache.run c as)[i]? = some (some (r, false)) → (PCache.run c as)[i']? = some (some (r', false)) → r < r'
  | [], c, i, i', r, r', _, h, _ => by simp [PCache.run] at h
  | (out, roots, kw) :: as, c, i, i', r, r', hlt, h, h' => by
    cases i' with
    | zero => omega
    | succ i' =>
    cases hc : c.call out roots kw with
    | error e =>
      rw [PCache.run_cons_error hc] at h h'
      cases i with
      | zero => simp at h
      | succ i => exact PCache.run_miss_lt as c i i' r r' (by omega) (by simpa using h) (by simpa using h')
    | ok p =>
      obtain ⟨r0, hit, c'⟩ := p
      rw [PCache.run_cons_ok hc] at h h'
      cases i with
      | zero =>
        simp only [List.getElem?_cons_zero, Option.some.injEq, Prod.mk.injEq] at h
        obtain ⟨e1, e2⟩ := h
        subst e1; subst e2
        have hge := PCache.run_miss_ge as c' i' r' (by simpa using h')
        rcases PCache.call_cases hc with ⟨e1, _⟩ | ⟨_, e2, _, e3⟩ | ⟨_, e2, k, _, _, e3⟩
        · cases e1
        · rw [e3] at hge; simp at hge; omega
        · rw [e3] at hge; simp at hge; omega
      | succ i => exact PCache.run_miss_lt as c' i i' r r' (by omega) (by simpa using h) (by simpa using h')

end PF.Hashable
