import PfModel.Lemmas.SchedCountPart
import PfModel.Props.C03Part
import PfModel.Props.C03Count
/-!
C03 (round 9) — call COUNTS of partial / resumed runs, through both entry points, for every schedule.

`runPartSched .sync` is the model of `Pipeline.map(parallel=True, fixed_indices=…, cleanup=False)`, `runPartSched .gather` of
`Pipeline.map_async(…)`, on a run folder holding `old`.  For every family of schedules, every `dump_in_subprocess` assignment
and either entry point, the execution-order call log contains every function exactly as often as demanded: once per index
that is selected by `fixed_indices` and not yet stored; once for an un-mapped function, unless all its outputs are stored.
-/
namespace PF.C03
open PF PF.Map PF.Sched PF.Pieces PF.SchedP PF.SchedC

/-- **What is demanded of a partial run.** An un-mapped function: nothing when a previous run stored all its outputs, else one
    invocation.  A mapped function: as many as the duplicate-free list of its indices that are selected by `fixed_indices`
    and missing in the store — none that is stored, none that is not selected. -/
theorem C03_part_count_demanded (shapes : List (String × List Nat)) (masks : List (String × List Bool))
    (fixed : Option (List (String × Sel))) (old : List (String × Slot)) (f : MFunc) :
    (planOfP shapes masks fixed old f = .single → demandedP shapes masks fixed old f = if (loadedOf old f).isSome then 0 else 1) ∧
    (∀ ms sh mk sel todo, planOfP shapes masks fixed old f = .mapped ms sh mk sel todo →
      demandedP shapes masks fixed old f = todo.length ∧ todo.Nodup ∧
      ∀ li, li ∈ todo ↔ li < prod (extOf mk sh) ∧ sel li = true ∧ missingIn f.outputs (oldCells old) li = true) := by
  constructor
  · intro h; simp [demandedP, h, demOfPlan]
  · intro ms sh mk sel todo hp
    have hok := planOfP_ok shapes masks fixed old f
    rw [hp] at hok
    simp only [PlanOK] at hok
    subst hok
    exact ⟨by simp [demandedP, hp, demOfPlan], todoOf_nodup _ _ _ _, fun li => mem_todoOf _ _ _ _ li⟩

/-- when `map_async` succeeds under a schedule, `map` succeeds under it with the same result and trace -/
theorem C03_async_ok_is_sync_ok (mode : Await) (fs : List MFunc) (inputs : List (String × Val)) (ui : List (String × List Nat))
    (fixed : Option (List (String × Sel))) (old : List (String × Slot)) (dumpSub : String → Bool) (sched : Scheds)
    (r : PartResult × List GenTrace) (h : runPartSched mode fs inputs ui fixed old dumpSub sched = .ok r) :
    runPartSched .sync fs inputs ui fixed old dumpSub sched = .ok r := by
  cases mode with
  | sync => exact h
  | gather =>
    obtain ⟨h1, h2⟩ := C03_async_eq_sync fs inputs ui fixed old dumpSub sched
    cases hs : runPartSched .sync fs inputs ui fixed old dumpSub sched with
    | ok r' => have := h1 r' hs; rw [h] at this; cases this; rfl
    | error e => obtain ⟨e', he⟩ := h2 e hs; rw [h] at he; cases he

/-- **Call counts of a partial / resumed run, both entry points, every family of schedules.** -/
theorem C03_part_count_calls (mode : Await) (fs : List MFunc) (inputs : List (String × Val)) (ui : List (String × List Nat))
    (fixed : Option (List (String × Sel))) (old : List (String × Slot))
    (dumpSub : String → Bool) (sched : Scheds) (hs : ValidScheds sched) (huo : UniqueOutputs fs)
    (hnames : (fs.map (·.name)).Nodup)
    (res : PartResult) (trs : List GenTrace) (h : runPartSched mode fs inputs ui fixed old dumpSub sched = .ok (res, trs)) :
    ∀ f ∈ fs, callCount f.name trs = demandedP res.res.shapes res.res.masks fixed old f := by
  intro f hf
  have hperm := C03_part_calls_perm mode fs inputs ui fixed old dumpSub sched hs huo res trs h
  have hsync := C03_async_ok_is_sync_ok mode fs inputs ui fixed old dumpSub sched _ h
  have hseq := C03_part_eq_sequential fs inputs ui fixed old dumpSub sched hs huo
  rw [hsync] at hseq
  simp only [Except.map] at hseq
  obtain ⟨hlen, rs, env, hg, hc⟩ := runPart_ok fs inputs ui fixed old res hseq.symm
  unfold callCount
  rw [hperm.countP_eq, hc,
    runGensWith_count (runFuncPart fs res.res.shapes res.res.masks fixed old) (demandedP res.res.shapes res.res.masks fixed old) f.name
      (fun env f r hr => by
        rw [runFuncPart_plan] at hr
        exact seqOfP_calls_shape fs old env f _ r (planOfP_ok _ _ _ _ f) hr) (generations fs) _ _ hg]
  exact sum_select (·.name) (demandedP res.res.shapes res.res.masks fixed old) _ (generations_names_nodup fs hnames) f
    (PF.Sub.generations_complete fs hlen f hf)

/-- **`map` and `map_async` invoke every function equally often** — for the same pipeline, inputs, `fixed_indices` and store,
    whatever the two families of schedules and the two storage assignments (no hypothesis on function names). -/
theorem C03_part_count_entry_independent (mode mode' : Await) (fs : List MFunc) (inputs : List (String × Val)) (ui : List (String × List Nat))
    (fixed : Option (List (String × Sel))) (old : List (String × Slot))
    (dumpSub dumpSub' : String → Bool) (sched sched' : Scheds) (hs : ValidScheds sched) (hs' : ValidScheds sched') (huo : UniqueOutputs fs)
    (res res' : PartResult) (trs trs' : List GenTrace)
    (h : runPartSched mode fs inputs ui fixed old dumpSub sched = .ok (res, trs))
    (h' : runPartSched mode' fs inputs ui fixed old dumpSub' sched' = .ok (res', trs')) (n : String) :
    callCount n trs = callCount n trs' := by
  have hp := C03_part_calls_perm mode fs inputs ui fixed old dumpSub sched hs huo res trs h
  have hp' := C03_part_calls_perm mode' fs inputs ui fixed old dumpSub' sched' hs' huo res' trs' h'
  have e := C03_part_schedule_independent fs inputs ui fixed old dumpSub dumpSub' sched sched' hs hs' huo
  rw [C03_async_ok_is_sync_ok mode fs inputs ui fixed old dumpSub sched _ h,
      C03_async_ok_is_sync_ok mode' fs inputs ui fixed old dumpSub' sched' _ h'] at e
  simp only [Except.map, Except.ok.injEq] at e
  subst e
  unfold callCount
  rw [hp.countP_eq, hp'.countP_eq]

/-! ### non-vacuity -/

private def el (n : String) (ins : List String) (out : String) : MFunc :=
  { name := n, params := ins.map fun p => (p, p), outputs := [out],
    mapspec := some { inputs := ins.map fun p => ⟨p, [some "i"]⟩, outputs := [⟨out, [some "i"]⟩] },
    ret := none, internal := none, defaults := [], bound := [] }
private def tot : MFunc :=
  { name := "t", params := [("x", "x")], outputs := ["s"], mapspec := none, ret := none, internal := none, defaults := [], bound := [] }

private def exFs : List MFunc := [el "g" ["y", "w"] "z", el "f" ["x"] "y", el "h" ["x"] "w", tot]
private def exIn : List (String × Val) := [("x", .arr [3] [.int 1, .int 2, .int 3])]
private def revSched : Scheds := fun _ ids => ids.reverse
/-- a previous run left element 1 of `y`, elements 0, 1 of `w` and the whole of `s` -/
private def exOld : List (String × Slot) :=
  [("y", .array [3] [true] [(1, .str "old-y1")]), ("w", .array [3] [true] [(0, .str "old-w0"), (1, .str "old-w1")]), ("s", .single (.str "old-s"))]

example : UniqueOutputs exFs := by simp [UniqueOutputs, exFs, el, tot]
example : (exFs.map (·.name)).Nodup := by decide
/-- the resumed run through `map_async` under the reversed schedule: `f` twice (0, 2), `h` once (2), `t` not at all (loaded), `g` thrice -/
example : ((runPartSched .gather exFs exIn [] none exOld (fun o => o == "y") revSched).toOption.map fun r =>
      callTableP exFs r.1.res.shapes r.1.res.masks none exOld r.2) = some [("f", 2, 2), ("h", 1, 1), ("t", 0, 0), ("g", 3, 3)] := by decide
/-- with `fixed_indices = {i: 2}` on an empty folder, through `map`: one invocation each (without `t`, which reduces `i`) -/
example : ((runPartSched .sync (exFs.take 3) exIn [] (some [("i", .idx 2)]) [] (fun _ => false) revSched).toOption.map fun r =>
      callTableP (exFs.take 3) r.1.res.shapes r.1.res.masks (some [("i", .idx 2)]) [] r.2) = some [("f", 1, 1), ("h", 1, 1), ("g", 1, 1)] := by decide
/-- dropping `fixed_indices` (the seeded change C03-s4-A on the async path) is visible in the counts: 3 instead of 1 -/
example : ((runPartSched .gather exFs exIn [] none [] (fun _ => false) revSched).toOption.map fun r => callCount "f" r.2) = some 3 := by decide

end PF.C03
