import PfModel.Props.C12
import PfModel.Lemmas.ValidateEdit
/-!
C12, round 3: pipelines edited IN PLACE after construction, and the executor dictionary.

`PipeFunc.update_defaults / update_bound / update_renames` on a member function validate that function only and clear the
pipeline's caches; what re-establishes the pipeline-level clauses of the property (duplicate output names, inconsistent defaults,
cycles) is the re-validation inside the cached properties `graph` / `topological_generations`, recomputed at the start of
`map` / `run` / `__call__` (`lazySteps`).  `startMap2` is `prepare_run` with these checks and `_validate_executor_names` at their
place in the code's order, followed by everything `startMap` models.
* `C12_startMap2_iff`, `C12_startMap2_complete`, `C12_startMap2_no_effects`: reject / complete / before any effect;
* `C12_lazy_reject_*`: each pipeline-level ill-formedness of the (edited) pipeline is refused at the start of `map`;
* `C12_session_*`: the same for whole sessions *build, edit…, map/run*: refused iff an edit is refused or the start refuses;
  never an effect before the refusal; a member edit is accepted whenever the member alone stays valid (so the lazy checks are
  the only thing between an inconsistent default and user code);
* `C12_constructed_no_lazy_fault`: on a freshly constructed pipeline the lazy checks never fire.
-/
namespace PF.C12
open PF PF.Map PF.Validate

/-! ### the start of `map` on a possibly edited pipeline -/

/-- **Reject and complete**: the start of `map` refuses exactly when the executor dictionary is faulty, a recomputed cached
    property refuses (duplicate output names, inconsistent defaults, cycle), or `MapFault` holds. -/
theorem C12_startMap2_iff (fs : List MFunc) (r : Req) (ex : ExecArg) :
    Refused (startMap2 fs r ex).2 ↔ ExecDictFault fs ex ∨ LazyFault fs ∨ MapFault fs r := by
  unfold startMap2 startSteps2
  rw [refused_exec_append, ← refused_exec_iff (startSteps fs r), ← startMap, C12_startMap_iff, ← refused_lazy_iff,
    ← checkExecutorDict_refused]
  constructor
  · rintro (⟨n, res, hm, hr⟩ | h)
    · unfold gateSteps at hm
      simp only [List.mem_append, List.mem_cons, List.not_mem_nil, or_false, Step.check.injEq] at hm
      rcases hm with ((⟨_, rfl⟩ | hm) | ⟨_, rfl⟩) | hm
      · exact Or.inr (Or.inr (Or.inl ((checkExecutor_refused r).mp hr)))
      · split at hm
        · rcases List.mem_append.mp hm with h | h
          · exact Or.inr (Or.inl ⟨n, res, h, hr⟩)
          · simp only [List.mem_cons, List.not_mem_nil, or_false, Step.check.injEq] at h
            obtain ⟨_, rfl⟩ := h
            exact Or.inr (Or.inr (Or.inr (Or.inl ((checkOutputNames_refused fs r).mp hr))))
        · cases hm
      · exact Or.inl hr
      · exact Or.inr (Or.inl ⟨n, res, hm, hr⟩)
    · exact Or.inr (Or.inr h)
  · rintro (h | ⟨n, res, hm, hr⟩ | h)
    · refine Or.inl ⟨"executor-dict", _, ?_, h⟩
      simp [gateSteps]
    · refine Or.inl ⟨n, res, ?_, hr⟩
      unfold gateSteps
      exact List.mem_append.mpr (Or.inr hm)
    · exact Or.inr h

/-- **Complete**: nothing else is refused. -/
theorem C12_startMap2_complete (fs : List MFunc) (r : Req) (ex : ExecArg)
    (h : ¬ (ExecDictFault fs ex ∨ LazyFault fs ∨ MapFault fs r)) : (startMap2 fs r ex).2 = .ok () := by
  have := mt (C12_startMap2_iff fs r ex).mp h
  rcases exec_result_cases (startSteps2 fs r ex) with hok | ⟨e, he⟩
  · exact hok
  · exact (this ⟨e, he⟩).elim

/-- **Before any user function, without altering the run folder** — also for the lazily re-validated properties and the
    executor dictionary: a refused start has invoked no user function and written nothing; with `cleanup=False` (or without
    a run folder) nothing has happened at all. -/
theorem C12_startMap2_no_effects (fs : List MFunc) (r : Req) (ex : ExecArg) (e : VErr) (h : (startMap2 fs r ex).2 = .error e) :
    (∀ x ∈ (startMap2 fs r ex).1, x.isCall = false ∧ x.isWrite = false) ∧
    ((r.cleanup = false ∨ r.folder = false) → (startMap2 fs r ex).1 = []) := by
  unfold startMap2 startSteps2 at h ⊢
  rcases exec_checks _ (gateSteps_isCheck fs r ex) (startSteps fs r) with heq | ⟨e2, heq⟩
  · rw [heq] at h ⊢
    exact C12_no_effects fs r e h
  · rw [heq]; simp

/-- **Duplicate output names** in the pipeline as it is now (e.g. after `update_renames` renamed an output to the output name
    of another function): refused at the start of `map`, whatever else is wrong. -/
theorem C12_lazy_reject_duplicate_output (pre post : List MFunc) (f : MFunc) (o : String) (ho : o ∈ f.outputs)
    (hdup : o ∈ allOutputs post) (r : Req) (ex : ExecArg) : Refused (startMap2 (pre ++ f :: post) r ex).2 :=
  (C12_startMap2_iff _ r ex).mpr (Or.inr (Or.inl (Or.inl (uniqueOutputs_false_of_dup pre post f o ho hdup))))

/-- **Inconsistent defaults** in the pipeline as it is now (e.g. after `update_defaults` on ONE member function): some default
    of a shared root argument differs from the first default recorded for it ⇒ refused at the start of `map`. -/
theorem C12_lazy_reject_inconsistent_defaults (fs : List MFunc) (p : String) (v w : Val) (hv : (p, v) ∈ pdefaults fs)
    (hw : alookup (pdefaults fs) p = some w) (hne : valEq v w = false) (r : Req) (ex : ExecArg) :
    Refused (startMap2 fs r ex).2 := by
  refine (C12_startMap2_iff fs r ex).mpr (Or.inr (Or.inl (Or.inr (Or.inl ?_))))
  simp only [defaultsConsistent, List.all_eq_false]
  exact ⟨(p, v), hv, by simp [hw, hne]⟩

/-- **Cyclic dependencies** in the pipeline as it is now (e.g. after a parameter was renamed to a downstream output). -/
theorem C12_lazy_reject_cycle (fs : List MFunc) (S : List String) (hS : DependencyClosed fs S) (f : MFunc) (hf : f ∈ fs)
    (hfS : f.name ∈ S) (r : Req) (ex : ExecArg) : Refused (startMap2 fs r ex).2 :=
  (C12_startMap2_iff fs r ex).mpr (Or.inr (Or.inl (Or.inr (Or.inr (acyclic_false_of_closed fs S hS f hf hfS)))))

/-- **An executor dictionary without a `""` default and without an entry for some function** is refused at the start of `map`
    (before the fix: only when that function's generation was submitted, after earlier generations had run). -/
theorem C12_reject_executor_dict (fs : List MFunc) (r : Req) (keys : List String) (hd : "" ∉ keys) (f : MFunc) (hf : f ∈ fs)
    (hk : outputKey f ∉ keys) : Refused (startMap2 fs r (.dict keys)).2 :=
  (C12_startMap2_iff fs r _).mpr (Or.inl ⟨keys, rfl, Or.inr ⟨hd, f, hf, hk⟩⟩)

/-- **An executor dictionary with a key that is no output name.** -/
theorem C12_reject_executor_key (fs : List MFunc) (r : Req) (keys : List String) (k : String) (hk : k ∈ keys) (hne : k ≠ "")
    (hn : k ∉ execKeyNames fs) : Refused (startMap2 fs r (.dict keys)).2 :=
  (C12_startMap2_iff fs r _).mpr (Or.inl ⟨keys, rfl, Or.inl ⟨k, hk, hne, hn⟩⟩)

/-- On a pipeline that `Pipeline([...])` accepted and nobody edited, the lazy checks never fire: `startMap2` then refuses
    exactly what `startMap` refuses, plus faulty executor dictionaries. -/
theorem C12_constructed_no_lazy_fault (fs : List MFunc) (h : construct fs = .ok ()) : ¬ LazyFault fs := by
  obtain ⟨_, hadd⟩ := (construct_ok_iff fs).mp h
  have hu := uniqueOutputs_of_no_clash fs (fun pre f post hs => (hadd pre f post hs).1)
  intro hl
  cases hfs : fs with
  | nil =>
    subst hfs
    rcases hl with hl | hl | hl
    · simp [uniqueOutputs] at hl
    · simp [defaultsConsistent, pdefaults] at hl
    · revert hl; decide
  | cons g rest =>
    have hne : fs ≠ [] := by rw [hfs]; simp
    obtain ⟨pre, k, hs, hwhole⟩ := whole_is_last_prefix fs hne
    have hv := (hadd pre k [] hs).2
    rw [hwhole] at hv
    have := (pipelineValidate_ok_iff fs).mp hv
    rcases hl with hl | hl | hl
    · rw [hu] at hl; cases hl
    · rw [this.1] at hl; cases hl
    · rw [this.2.2.2] at hl; cases hl

/-! ### the start of `run` / `__call__` -/

/-- `run` refuses at its gate iff a recomputed cached property refuses; and then no user function has been invoked —
    whatever the evaluation would have invoked. -/
theorem C12_startRun_iff (fs : List MFunc) (calls : List String) : Refused (startRun fs calls).2 ↔ LazyFault fs := by
  unfold startRun
  rw [refused_exec_append, refused_lazy_iff]
  constructor
  · rintro (h | ⟨n, res, hm, _⟩)
    · exact h
    · simp at hm
  · exact Or.inl

theorem C12_startRun_no_effects (fs : List MFunc) (calls : List String) (e : VErr) (h : (startRun fs calls).2 = .error e) :
    (startRun fs calls).1 = [] := by
  unfold startRun at h ⊢
  rcases exec_checks _ (lazySteps_isCheck fs) ((calls.map Effect.call).map Step.eff) with heq | ⟨e2, heq⟩
  · rw [heq, exec_effs] at h; cases h
  · rw [heq]

/-! ### sessions: build, edit in place, start -/

/-- **Reject and complete for a session**: *build a valid pipeline, edit it in place, call `map`* is refused iff one of the
    edits is refused (by the member's own validation, or by `Pipeline._validate` for a pipeline-level edit), or the start of
    `map` on the edited pipeline refuses. -/
theorem C12_session_map_iff (base : List MFunc) (edits : List Edit) (r : Req) (ex : ExecArg) :
    Refused (sessionMap base edits r ex).2 ↔
      Refused (applyEdits (base.map EFunc.ofMFunc) edits) ∨
      ∃ es, applyEdits (base.map EFunc.ofMFunc) edits = .ok es ∧
        (ExecDictFault (funcsOf es) ex ∨ LazyFault (funcsOf es) ∨ MapFault (funcsOf es) r) := by
  unfold sessionMap
  cases h : applyEdits (base.map EFunc.ofMFunc) edits with
  | error x => simp [Refused]
  | ok es =>
    simp only [C12_startMap2_iff, Except.ok.injEq, exists_eq_left']
    constructor
    · exact Or.inr
    · rintro (⟨x, hx⟩ | h')
      · cases hx
      · exact h'

/-- **No effect before the refusal of a session** (user calls, writes; with `cleanup=False` nothing at all). -/
theorem C12_session_map_no_effects (base : List MFunc) (edits : List Edit) (r : Req) (ex : ExecArg) (e : VErr)
    (h : (sessionMap base edits r ex).2 = .error e) :
    (∀ x ∈ (sessionMap base edits r ex).1, x.isCall = false ∧ x.isWrite = false) ∧
    ((r.cleanup = false ∨ r.folder = false) → (sessionMap base edits r ex).1 = []) := by
  unfold sessionMap at h ⊢
  cases h' : applyEdits (base.map EFunc.ofMFunc) edits with
  | error x => simp
  | ok es =>
    simp only [h'] at h ⊢
    exact C12_startMap2_no_effects (funcsOf es) r ex e h

/-- the same for `run` / `__call__`: refused iff an edit is refused or the gate refuses, and never after a user call -/
theorem C12_session_run_iff (base : List MFunc) (edits : List Edit) (calls : List String) :
    Refused (sessionRun base edits calls).2 ↔
      Refused (applyEdits (base.map EFunc.ofMFunc) edits) ∨
      ∃ es, applyEdits (base.map EFunc.ofMFunc) edits = .ok es ∧ LazyFault (funcsOf es) := by
  unfold sessionRun
  cases h : applyEdits (base.map EFunc.ofMFunc) edits with
  | error x => simp [Refused]
  | ok es =>
    simp only [C12_startRun_iff, Except.ok.injEq, exists_eq_left']
    constructor
    · exact Or.inr
    · rintro (⟨x, hx⟩ | h')
      · cases hx
      · exact h'

theorem C12_session_run_no_effects (base : List MFunc) (edits : List Edit) (calls : List String) (e : VErr)
    (h : (sessionRun base edits calls).2 = .error e) : (sessionRun base edits calls).1 = [] := by
  unfold sessionRun at h ⊢
  cases h' : applyEdits (base.map EFunc.ofMFunc) edits with
  | error x => rfl
  | ok es =>
    simp only [h'] at h ⊢
    exact C12_startRun_no_effects (funcsOf es) calls e h

/-- **A member `update_defaults` is judged by the member alone**: when the function is still valid on its own (`¬ MemberFault`),
    `PipeFunc.update_defaults` on one of its parameters is accepted — whatever the other functions of the pipeline say about
    that parameter.  So after such an edit only the lazy check (`C12_lazy_reject_inconsistent_defaults`) stands between an
    inconsistent default and user code. -/
theorem C12_member_defaults_accepted (e : EFunc) (p : String) (v : Val) (hp : p ∈ paramNames e.f)
    (hok : ¬ MemberFault { e with f := { e.f with defaults := aset e.f.defaults p v },
                                  explicit := if e.explicit.contains p then e.explicit else e.explicit ++ [p] }) :
    ∃ e', memberDefaults e p v = .ok e' ∧ e'.f.defaults = aset e.f.defaults p v := by
  unfold memberDefaults
  have hc : (paramNames e.f).contains p = true := by simpa [List.contains_iff_mem] using hp
  simp only [hc, Bool.not_true, Bool.false_eq_true, ↓reduceIte]
  rcases memberValidate_cases { e with f := { e.f with defaults := aset e.f.defaults p v },
                                       explicit := if e.explicit.contains p then e.explicit else e.explicit ++ [p] } with h | ⟨x, h⟩
  · rw [h]; exact ⟨_, rfl, rfl⟩
  · exact (hok ((memberValidate_refused _).mp ⟨x, h⟩)).elim

/-- a refused member edit is refused for one of the named reasons (reject/complete for `PipeFunc.update_defaults`) -/
theorem C12_member_defaults_refused_iff (e : EFunc) (p : String) (v : Val) :
    Refused (memberDefaults e p v) ↔
      p ∉ paramNames e.f ∨
      MemberFault { e with f := { e.f with defaults := aset e.f.defaults p v },
                           explicit := if e.explicit.contains p then e.explicit else e.explicit ++ [p] } := by
  unfold memberDefaults
  cases hc : (paramNames e.f).contains p with
  | false =>
    have : p ∉ paramNames e.f := by
      intro hm
      have : (paramNames e.f).contains p = true := by simpa [List.contains_iff_mem] using hm
      rw [hc] at this; cases this
    simp [Refused, this]
  | true =>
    have hp : p ∈ paramNames e.f := by simpa [List.contains_iff_mem] using hc
    simp only [Bool.not_true, Bool.false_eq_true, ↓reduceIte, hp, not_true_eq_false, false_or]
    rw [← memberValidate_refused]
    cases memberValidate { e with f := { e.f with defaults := aset e.f.defaults p v },
                                  explicit := if e.explicit.contains p then e.explicit else e.explicit ++ [p] } with
    | error x => simp [Refused]
    | ok u => simp [Refused]

/-- reject/complete for `PipeFunc.update_bound` on a member -/
theorem C12_member_bound_refused_iff (e : EFunc) (p : String) (v : Val) :
    Refused (memberBound e p v) ↔
      p ∉ paramNames e.f ∨ MemberFault { e with f := { e.f with bound := aset e.f.bound p v } } := by
  unfold memberBound
  cases hc : (paramNames e.f).contains p with
  | false =>
    have : p ∉ paramNames e.f := by
      intro hm
      have : (paramNames e.f).contains p = true := by simpa [List.contains_iff_mem] using hm
      rw [hc] at this; cases this
    simp [Refused, this]
  | true =>
    have hp : p ∈ paramNames e.f := by simpa [List.contains_iff_mem] using hc
    simp only [Bool.not_true, Bool.false_eq_true, ↓reduceIte, hp, not_true_eq_false, false_or]
    rw [← memberValidate_refused]
    cases memberValidate { e with f := { e.f with bound := aset e.f.bound p v } } with
    | error x => simp [Refused]
    | ok u => simp [Refused]

/-- reject/complete for `PipeFunc.update_renames` on a member: the old name is unknown, or the renamed function is faulty on its
    own (output named like a parameter, two originals renamed to one name, …) — never because of the other functions -/
theorem C12_member_rename_refused_iff (e : EFunc) (old new : String) :
    Refused (memberRename e old new) ↔
      old ∉ paramNames e.f ++ e.f.outputs ∨
      MemberFault { f := renameMFunc e.f old new, renames := aset e.renames (originalName e.renames old) new,
                    explicit := e.explicit.map (renameName old new) } := by
  unfold memberRename
  cases hc : (paramNames e.f ++ e.f.outputs).contains old with
  | false =>
    have : old ∉ paramNames e.f ++ e.f.outputs := by
      intro hm
      have : (paramNames e.f ++ e.f.outputs).contains old = true := by simpa [List.contains_iff_mem] using hm
      rw [hc] at this; cases this
    simp [Refused, this]
  | true =>
    have hp : old ∈ paramNames e.f ++ e.f.outputs := by simpa [List.contains_iff_mem] using hc
    simp only [Bool.not_true, Bool.false_eq_true, ↓reduceIte, hp, not_true_eq_false, false_or]
    rw [← memberValidate_refused]
    cases memberValidate { f := renameMFunc e.f old new, renames := aset e.renames (originalName e.renames old) new,
                           explicit := e.explicit.map (renameName old new) } with
    | error x => simp [Refused]
    | ok u => simp [Refused]

/-- **The clause in one statement**: whatever in-place edits were accepted, if the pipeline they leave behind has duplicate output
    names, inconsistent defaults or a cycle, then `map` is refused and NOTHING has happened: no user function, no write, no wipe. -/
theorem C12_session_reject_lazy (base : List MFunc) (edits : List Edit) (es : List EFunc)
    (hed : applyEdits (base.map EFunc.ofMFunc) edits = .ok es) (hl : LazyFault (funcsOf es)) (r : Req) (ex : ExecArg)
    (hcl : r.cleanup = false ∨ r.folder = false) :
    Refused (sessionMap base edits r ex).2 ∧ (sessionMap base edits r ex).1 = [] := by
  have href : Refused (sessionMap base edits r ex).2 :=
    (C12_session_map_iff base edits r ex).mpr (Or.inr ⟨es, hed, Or.inr (Or.inl hl)⟩)
  obtain ⟨e, he⟩ := href
  exact ⟨⟨e, he⟩, (C12_session_map_no_effects base edits r ex e he).2 hcl⟩

/-! ### non-vacuity and witnesses -/

private def fn (n : String) (ps : List String) (o : String) (ds : List (String × Val)) : MFunc :=
  { name := n, params := ps.map fun p => (p, p), outputs := [o], mapspec := none, ret := none, internal := none, defaults := ds, bound := [] }

private def rq (inputs : List (String × Val)) : Req :=
  { inputs := inputs, internal := [], storage := "dict", folder := true, cleanup := false, executor := false, parallel := false,
    order := [], prev := none }

/-- seeded change C12-s2-A: `f(a, b=1) → c`, `g(c, b=1) → y`; `pipeline["y"].update_defaults({"b": 2})`; `map` -/
private def demoA : List MFunc := [fn "f" ["a", "b"] "c" [("b", .int 1)], fn "g" ["c", "b"] "y" [("b", .int 1)]]

example : construct demoA = .ok () := by decide
/-- the edit itself is accepted (the member is fine on its own)… -/
example : (applyEdits (demoA.map EFunc.ofMFunc) [.memberDefaults "g" "b" (.int 2)]).toBool = true := by decide
/-- …and the start of `map` / `run` refuses, having done nothing -/
example : sessionMap demoA [.memberDefaults "g" "b" (.int 2)] (rq [("a", .int 1)]) .absent
    = ([], .error ⟨.value, "inconsistent-defaults"⟩) := by decide
example : sessionRun demoA [.memberDefaults "g" "b" (.int 2)] ["f", "g"] = ([], .error ⟨.value, "inconsistent-defaults"⟩) := by decide
/-- the same default on both members: accepted, both functions run -/
example : sessionMap demoA [.memberDefaults "g" "b" (.int 2), .memberDefaults "f" "b" (.int 2)] (rq [("a", .int 1)]) .absent
    = ([.writeRunInfo, .writeInputs, .writeDefaults, .call "f", .call "g"], .ok ()) := by decide
/-- the pipeline-level method changes both members: accepted at the edit -/
example : (sessionMap demoA [.pipeDefaults "b" (.int 2)] (rq [("a", .int 1)]) .absent).2 = .ok () := by decide

private def threeFns : List MFunc := [fn "f" ["a"] "c" [], fn "g" ["c"] "y" [], fn "h" ["d"] "z" []]
/-- `pipeline["z"].update_renames({"z": "c"})`: a duplicate output name created in place — accepted by the member,
    refused at the start of `map` (the round-3 defect: it used to run `f`, `h` and `g`) -/
example : sessionMap threeFns [.memberRename "h" "z" "c"] (rq [("a", .int 1), ("d", .int 2)]) .absent
    = ([], .error ⟨.value, "duplicate-output"⟩) := by decide
/-- `pipeline.update_renames({"z": "c"})` is refused at the edit -/
example : (match applyEdits (threeFns.map EFunc.ofMFunc) [.pipeRename "z" "c"] with | .error x => x.check | .ok _ => "accepted")
    = "duplicate-output" := by decide
/-- a parameter renamed to a downstream output: a cycle, `NetworkXUnfeasible` at the start of `map` -/
example : sessionMap threeFns [.memberRename "f" "a" "y"] (rq [("a", .int 1), ("d", .int 2)]) .absent
    = ([], .error ⟨.unfeasible, "cycle"⟩) := by decide
/-- a parameter renamed to the function's own output: refused by the member -/
example : (sessionMap threeFns [.memberRename "f" "a" "c"] (rq [("a", .int 1), ("d", .int 2)]) .absent).2
    = .error ⟨.value, "output-is-own-parameter"⟩ := by decide
/-- binding a root argument in place: the input given for it is now surplus -/
example : sessionMap threeFns [.memberBound "h" "d" (.int 5)] (rq [("a", .int 1), ("d", .int 2)]) .absent
    = ([], .error ⟨.value, "complete-inputs"⟩) := by decide
example : (sessionMap threeFns [.memberBound "h" "d" (.int 5)] (rq [("a", .int 1)]) .absent).2 = .ok () := by decide

example : Refused (startMap2 (fn "f" ["a"] "c" [] :: fn "h" ["d"] "c" [] :: []) (rq []) .absent).2 :=
  C12_lazy_reject_duplicate_output [] [fn "h" ["d"] "c" []] (fn "f" ["a"] "c" []) "c" (by decide) (by decide) _ _
example : Refused (startMap2 [fn "f" ["a", "b"] "c" [("b", .int 1)], fn "g" ["c", "b"] "y" [("b", .int 2)]] (rq []) .absent).2 :=
  C12_lazy_reject_inconsistent_defaults _ "b" (.int 2) (.int 1)
    (by rw [show pdefaults [fn "f" ["a", "b"] "c" [("b", .int 1)], fn "g" ["c", "b"] "y" [("b", .int 2)]] = [("b", .int 1), ("b", .int 2)] from rfl]
        simp) rfl (by decide) _ _
example : Refused (startMap2 [fn "f" ["b"] "a" [], fn "g" ["a"] "b" []] (rq []) .absent).2 :=
  C12_lazy_reject_cycle _ ["f", "g"] (by
    intro h hh _; simp only [List.mem_cons, List.not_mem_nil, or_false] at hh
    rcases hh with rfl | rfl
    · exact ⟨"g", by decide, by decide⟩
    · exact ⟨"f", by decide, by decide⟩) (fn "f" ["b"] "a" []) List.mem_cons_self (by decide) _ _

/-- executor dictionaries: `{"c": ex}` for `[f → c, g → y]` (incomplete), `{"q": ex, "": ex}` (unknown key), `{}` -/
example : startMap2 demoA { rq [("a", .int 1)] with executor := true, parallel := true } (.dict ["c"])
    = ([], .error ⟨.value, "executor-dict"⟩) := by decide
example : startMap2 demoA { rq [("a", .int 1)] with executor := true, parallel := true } (.dict ["q", ""])
    = ([], .error ⟨.value, "executor-key"⟩) := by decide
example : startMap2 demoA (rq [("a", .int 1)]) (.dict []) = ([], .error ⟨.value, "executor-dict"⟩) := by decide
example : (startMap2 demoA { rq [("a", .int 1)] with executor := true, parallel := true } (.dict ["c", ""])).2 = .ok () := by decide
example : (startMap2 demoA { rq [("a", .int 1)] with executor := true, parallel := true } (.dict ["c", "y"])).2 = .ok () := by decide
example : Refused (startMap2 demoA (rq []) (.dict ["c"])).2 :=
  C12_reject_executor_dict demoA _ ["c"] (by decide) (fn "g" ["c", "b"] "y" [("b", .int 1)])
    (List.mem_cons_of_mem _ List.mem_cons_self) (by decide)
example : Refused (startMap2 demoA (rq []) (.dict ["q", ""])).2 :=
  C12_reject_executor_key demoA _ ["q", ""] "q" (by decide) (by decide) (by decide)
/-- seeded change C12-s2-B: `x[i] -> y1[i], y2[i]` keyed by its ELEMENT names resolves nothing: refused before any write -/
private def tupleFn : MFunc :=
  { name := "f", params := [("x", "x")], outputs := ["y1", "y2"], ret := none, internal := none, defaults := [], bound := [],
    mapspec := some (MSpec.mk [⟨"x", [some "i"]⟩] [⟨"y1", [some "i"]⟩, ⟨"y2", [some "i"]⟩]) }
example : startMap [tupleFn] { rq [("x", .arr [2] [.int 1, .int 2])] with storage := .perOutput [("y1", "dict"), ("y2", "dict")] }
    = ([], .error ⟨.value, "storage-default"⟩) := by decide
example : (startMap [tupleFn] { rq [("x", .arr [2] [.int 1, .int 2])] with storage := .perOutput [("y1,y2", "dict")] }).2 = .ok () := by decide
example : Refused (sessionMap demoA [.memberDefaults "g" "b" (.int 2)] (rq [("a", .int 1)]) .absent).2 ∧
    (sessionMap demoA [.memberDefaults "g" "b" (.int 2)] (rq [("a", .int 1)]) .absent).1 = [] :=
  C12_session_reject_lazy demoA [.memberDefaults "g" "b" (.int 2)]
    [⟨fn "f" ["a", "b"] "c" [("b", .int 1)], [], []⟩, ⟨fn "g" ["c", "b"] "y" [("b", .int 2)], [], ["b"]⟩] rfl
    (Or.inr (Or.inl (by decide))) _ _ (Or.inl rfl)
example : Refused (memberBound (EFunc.ofMFunc (fn "g" ["c", "b"] "y" [])) "q" (.int 1)) :=
  (C12_member_bound_refused_iff _ _ _).mpr (Or.inl (by decide))
example : Refused (memberRename (EFunc.ofMFunc (fn "g" ["c", "b"] "y" [])) "c" "y") :=
  (C12_member_rename_refused_iff _ _ _).mpr (Or.inr (Or.inr (Or.inl (by decide))))
example : ¬ LazyFault demoA := C12_constructed_no_lazy_fault demoA (by decide)
example : ∃ e', memberDefaults (EFunc.ofMFunc (fn "g" ["c", "b"] "y" [("b", .int 1)])) "b" (.int 2) = .ok e' ∧
    e'.f.defaults = aset [("b", .int 1)] "b" (.int 2) :=
  C12_member_defaults_accepted _ "b" (.int 2) (by decide) (by
    intro h
    rcases h with ⟨p, hp, hb⟩ | h | h | h | h | h
    · revert hb; simp [EFunc.ofMFunc, fn, alookup]
    all_goals (revert h; decide))

end PF.C12
