import PfModel.Generated.C12Facts
import PfModel.Model.Validate
/-!
C12, the tie to the source: the call order of `prepare_run` / `RunInfo.create`, re-extracted from /repo with `ast` on every run
(`harness/c12_extract.py` → `Generated/C12Facts.lean`).  These two `decide` proofs are the only C12 obligations that can stop
checking when the source is restructured; they live in their own module so that the hand-written theorems of `Props/C12.lean`
stay audited when that happens.  (`cls(...)` no longer writes since the DF-33 repair; `run_info._dump_all()` is the write.)
-/
namespace PF.C12
open PF PF.Validate

/-- every call is classified, every required validation (complete inputs, consistent axes, fixed indices, storage names,
    previous run, `_check_inputs`, `map_shapes`) comes before the first effect (`run_info._dump_all()`, `init_store`, `init_tracker`),
    and nothing validates after it -/
theorem C12_order : validationsPrecedeEffects Generated.prepareRunCalls = true := by decide

/-- the order in which the model's `startSteps` performs its steps is the order of the corresponding calls in the source -/
theorem C12_order_model : isSubseq modelSourceOrder Generated.prepareRunCalls = true := by decide

/-! #### round 2: the head of `run_map` and the constructors -/

/-- `run_map`: `prepare_run` (everything `startMap` models) is the first call that is not plumbing, and the generations are only
    run (`_run_and_process_generation`) after it: no user function before the validation -/
theorem C12_order_run_map : prepareGuardsRun Generated.runMapCalls = true := by decide

/-- the same for `run_map_async` (the coroutine that runs the generations is defined and started after `prepare_run`) -/
theorem C12_order_run_map_async : prepareGuardsRun Generated.runMapAsyncCalls = true := by decide

/-- `Pipeline.__init__` adds every function through `add` -/
theorem C12_ctor_pipeline_init : ctorValidates pipelineInitRequired Generated.pipelineInitCalls = true := by decide

/-- `Pipeline.add` calls `validate_unique_output_names`, appends, then validates the pipeline — in this order (the order of
    `PF.Validate.addAll`: `clashes`, then `pipelineValidate (acc ++ [f])`) -/
theorem C12_ctor_pipeline_add :
    (ctorValidates pipelineAddRequired Generated.pipelineAddCalls && isSubseq pipelineAddRequired Generated.pipelineAddCalls) = true := by
  decide

/-- `Pipeline._validate` makes the calls `PF.Validate.pipelineValidate` models, in the model's order (defaults, then MapSpecs) -/
theorem C12_ctor_pipeline_validate :
    (ctorValidates pipelineValidateRequired Generated.pipelineValidateCalls &&
     isSubseq ["validate_consistent_defaults", "self._validate_mapspec"] Generated.pipelineValidateCalls) = true := by decide

/-- `Pipeline._validate_mapspec`: output-name order (`raise`), `validate_consistent_axes`, then `_autogen_mapspec_axes` (which
    computes `topological_generations`: the cycle check) — the order of `pipelineValidate`'s last three tests -/
theorem C12_ctor_pipeline_validate_mapspec :
    (ctorValidates pipelineValidateMapspecRequired Generated.pipelineValidateMapspecCalls &&
     isSubseq pipelineValidateMapspecRequired Generated.pipelineValidateMapspecCalls) = true := by decide

/-- `PipeFunc.__init__` parses the MapSpec (`MapSpec.__post_init__`) and calls `_validate` -/
theorem C12_ctor_pipefunc_init : ctorValidates pipeFuncInitRequired Generated.pipeFuncInitCalls = true := by decide

/-- `PipeFunc._validate` = `_validate_names`, then `_validate_mapspec` (the order of `PF.Validate.pipeFuncValidate`) -/
theorem C12_ctor_pipefunc_validate :
    (ctorValidates pipeFuncValidateRequired Generated.pipeFuncValidateCalls &&
     isSubseq pipeFuncValidateRequired Generated.pipeFuncValidateCalls) = true := by decide

end PF.C12
