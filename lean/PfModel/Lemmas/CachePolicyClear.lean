import PfModel.Lemmas.CachePolicyDisk
/-!
Helper lemmas for `Props/C14Clear.lean`:

* a DiskCache directory whose creation stamps (and clock) are shifted by a constant behaves identically (`shiftDisk`,
  `disk_step_shift`, `disk_run_shift`) — the logical clock is only ever compared, never observed;
* counting lemmas for "how many keys can be present" (`length_le_of_subset_nodup`);
* the bound `files.length ≤ max_size` as an invariant of histories (`Disk.Bounded`).
-/
namespace PF.Cache

/-! ### shifting the clock of a directory -/

/-- every creation stamp moved by `c` -/
def shiftFiles (c : Nat) (f : Files) : Files := f.map fun p => (p.1, (p.2.1, p.2.2 + c))

/-- the same DiskCache with its clock (and every stamp) moved by `c` -/
def shiftDisk (c : Nat) (s : Disk) : Disk := { s with files := shiftFiles c s.files, clock := s.clock + c }

theorem lookup_shift (c : Nat) (f : Files) (k : Key) :
    lookup (shiftFiles c f) k = (lookup f k).map fun p => (p.1, p.2 + c) := by
  induction f with
  | nil => rfl
  | cons p r ih =>
    obtain ⟨k', v, t⟩ := p
    simp only [shiftFiles, List.map_cons, lookup] at ih ⊢
    split
    · rfl
    · exact ih

theorem has_shift (c : Nat) (f : Files) (k : Key) : has (shiftFiles c f) k = has f k := by
  simp only [has, lookup_shift]
  cases lookup f k <;> rfl

theorem set_shift (c : Nat) (f : Files) (k : Key) (v : Val) (t : Nat) :
    set (shiftFiles c f) k (v, t + c) = shiftFiles c (set f k (v, t)) := by
  induction f with
  | nil => rfl
  | cons p r ih =>
    obtain ⟨k', v', t'⟩ := p
    simp only [shiftFiles, List.map_cons, set] at ih ⊢
    split
    · simp
    · simp only [List.map_cons]; rw [ih]

theorem erase_shift (c : Nat) (f : Files) (k : Key) : erase (shiftFiles c f) k = shiftFiles c (erase f k) := by
  induction f with
  | nil => rfl
  | cons p r ih =>
    obtain ⟨k', v', t'⟩ := p
    simp only [shiftFiles, List.map_cons, erase] at ih ⊢
    split
    · exact ih
    · simp only [List.map_cons]; rw [ih]

theorem length_shift (c : Nat) (f : Files) : (shiftFiles c f).length = f.length := by simp [shiftFiles]

theorem stamps_shift (c : Nat) (f : Files) : stamps (shiftFiles c f) = (stamps f).map fun p => (p.1, p.2 + c) := by
  simp [stamps, shiftFiles, List.map_map, Function.comp_def]

theorem argmin_shift (c : Nat) (l : List (Key × Nat)) :
    argmin (l.map fun p => (p.1, p.2 + c)) = (argmin l).map fun p => (p.1, p.2 + c) := by
  induction l with
  | nil => rfl
  | cons p r ih =>
    obtain ⟨k, s⟩ := p
    simp only [List.map_cons, argmin, ih]
    cases argmin r with
    | none => rfl
    | some q =>
      obtain ⟨k', s'⟩ := q
      simp only [Option.map_some]
      by_cases hle : s ≤ s'
      · have : s + c ≤ s' + c := by omega
        simp [hle, this]
      · have : ¬ s + c ≤ s' + c := by omega
        simp [hle, this]

theorem evictN_shift (c : Nat) (n : Nat) : ∀ f : Files, evictN n (shiftFiles c f) = shiftFiles c (evictN n f) := by
  induction n with
  | zero => intro f; rfl
  | succ n ih =>
    intro f
    simp only [evictN, stamps_shift, argmin_shift]
    cases argmin (stamps f) with
    | none => rfl
    | some q =>
      obtain ⟨k, t⟩ := q
      simp only [Option.map_some]
      rw [erase_shift, ih]

theorem excess_shift (c : Nat) (m : Option Nat) (f : Files) : Disk.excess m (shiftFiles c f) = Disk.excess m f := by
  cases m <;> simp [Disk.excess, length_shift]

theorem writeFile_shift (c : Nat) (s : Disk) (k : Key) (v : Val) :
    (shiftDisk c s).writeFile k v = shiftDisk c (s.writeFile k v) := by
  simp only [Disk.writeFile, shiftDisk, set_shift, excess_shift, evictN_shift]
  congr 1
  omega

/-- lifting a result along the shift -/
def shiftRes {α : Type} (c : Nat) : Except Err (Disk × α) → Except Err (Disk × α)
  | .error e => .error e
  | .ok (s, a) => .ok (shiftDisk c s, a)

/-- one operation on the shifted directory is the shifted result of the operation: same observation, same exception -/
theorem disk_step_shift (c : Nat) (s : Disk) (op : Op) : (shiftDisk c s).step op = shiftRes c (s.step op) := by
  cases op with
  | put k v d =>
    simp only [Disk.step, Disk.put]
    have hl : (shiftDisk c s).lru = s.lru := rfl
    rw [hl]
    cases s.lru with
    | none => simp only [writeFile_shift]; rfl
    | some l =>
      simp only
      cases l.put k v with
      | error e => rfl
      | ok l' => simp only [writeFile_shift]; rfl
  | get k =>
    simp only [Disk.step, Disk.get]
    have hl : (shiftDisk c s).lru = s.lru := rfl
    have hf : (shiftDisk c s).files = shiftFiles c s.files := rfl
    rw [hl, hf]
    cases hlru : s.lru with
    | none =>
      simp only [lookup_shift, shiftRes]
      cases lookup s.files k <;> simp [shiftDisk, hlru]
    | some l =>
      simp only
      by_cases hh : has l.dict k = true
      · simp only [hh, if_true]
        cases l.get k with
        | error e => rfl
        | ok r => obtain ⟨l', o⟩ := r; rfl
      · simp only [hh]
        simp only [lookup_shift]
        cases lookup s.files k with
        | none => simp [shiftRes, shiftDisk, hlru]
        | some q =>
          obtain ⟨v, t⟩ := q
          simp only [Option.map_some]
          cases l.put k v with
          | error e => rfl
          | ok l' => rfl
  | has k =>
    simp only [Disk.step, Disk.contains, shiftRes]
    have hl : (shiftDisk c s).lru = s.lru := rfl
    have hf : (shiftDisk c s).files = shiftFiles c s.files := rfl
    rw [hl, hf, has_shift]
  | len =>
    simp only [Disk.step, shiftRes]
    have hf : (shiftDisk c s).files = shiftFiles c s.files := rfl
    rw [hf, length_shift]
  | clear => rfl
  | reopen m l => rfl

/-- lifting a run along the shift -/
def shiftRun (c : Nat) : Except Err (Disk × List Obs) → Except Err (Disk × List Obs) := shiftRes c

/-- a whole history on the shifted directory: the same observations (or the same exception at the same place), and the
    final directory is the shifted final directory -/
theorem disk_run_shift (c : Nat) (h : List Op) : ∀ s : Disk, diskSem.run (shiftDisk c s) h = shiftRun c (diskSem.run s h) := by
  induction h with
  | nil => intro s; rfl
  | cons op h ih =>
    intro s
    simp only [Sem.run]
    have hs : diskSem.step (shiftDisk c s) op = shiftRes c (diskSem.step s op) := disk_step_shift c s op
    rw [hs]
    cases diskSem.step s op with
    | error e => rfl
    | ok r =>
      obtain ⟨s', o⟩ := r
      simp only [shiftRes]
      rw [ih s']
      cases diskSem.run s' h with
      | error e => rfl
      | ok r2 => obtain ⟨s2, os⟩ := r2; rfl

/-- the observations of a run (what the caller sees), or the exception -/
def obsOf {σ : Type} : Except Err (σ × List Obs) → Except Err (List Obs)
  | .error e => .error e
  | .ok (_, os) => .ok os

theorem obsOf_shiftRun (c : Nat) (r : Except Err (Disk × List Obs)) : obsOf (shiftRun c r) = obsOf r := by
  cases r with
  | error e => rfl
  | ok p => obtain ⟨s, os⟩ := p; rfl

/-- `clear()` of any DiskCache is the newly constructed DiskCache (same `max_size`, same LRU size) with a shifted clock -/
theorem disk_clear_eq_shift (s : Disk) : s.clear = shiftDisk s.clock (Disk.empty s.max (s.lru.map (·.max))) := by
  obtain ⟨m, f, c, l⟩ := s
  cases l with
  | none => simp [Disk.clear, shiftDisk, Disk.empty, shiftFiles]
  | some l => simp [Disk.clear, shiftDisk, Disk.empty, shiftFiles, LRU.clear, LRU.empty]

/-! ### counting -/

/-- a duplicate-free list all of whose members are in `l` is not longer than `l` -/
theorem length_le_of_subset_nodup : ∀ (ks l : List Key), ks.Nodup → (∀ x ∈ ks, x ∈ l) → ks.length ≤ l.length := by
  intro ks
  induction ks with
  | nil => intro l _ _; simp
  | cons a t ih =>
    intro l hnd hsub
    have ha : a ∈ l := hsub a (by simp)
    have hnd' := List.nodup_cons.mp hnd
    have := ih (l.erase a) hnd'.2 (by
      intro x hx
      have hxa : x ≠ a := by intro e; subst e; exact hnd'.1 hx
      exact (List.mem_erase_of_ne hxa).mpr (hsub x (by simp [hx])))
    rw [List.length_erase_of_mem ha] at this
    have hpos : 0 < l.length := List.length_pos_of_mem ha
    simp only [List.length_cons]
    omega

theorem length_filter_split (p : Key → Bool) (l : List Key) :
    l.length = (l.filter p).length + (l.filter (fun k => !p k)).length := by
  induction l with
  | nil => rfl
  | cons a t ih =>
    simp only [List.filter_cons]
    cases hp : p a <;> simp [ih] <;> omega

/-- the keys of a duplicate-free list that are reported present split into those with a file and those the LRU holds -/
theorem present_count (ks : List Key) (hnd : ks.Nodup) (fk lk : List Key) (hp : ∀ k ∈ ks, k ∈ fk ∨ k ∈ lk) :
    ks.length ≤ fk.length + lk.length := by
  have h1 : (ks.filter (fun k => decide (k ∈ fk))).length ≤ fk.length :=
    length_le_of_subset_nodup _ fk (nodup_filter _ hnd) (by intro x hx; simpa using (List.mem_filter.mp hx).2)
  have h2 : (ks.filter (fun k => !decide (k ∈ fk))).length ≤ lk.length :=
    length_le_of_subset_nodup _ lk (nodup_filter _ hnd) (by
      intro x hx
      obtain ⟨hm, hn⟩ := List.mem_filter.mp hx
      rcases hp x hm with h | h
      · simp [h] at hn
      · exact h)
  have := length_filter_split (fun k => decide (k ∈ fk)) ks
  omega

/-! ### `len ≤ max_size` along histories -/

/-- the directory holds no more files than the `max_size` in force -/
def Disk.Bounded (s : Disk) : Prop := ∀ m, s.max = some m → s.files.length ≤ m

def Op.isReopen : Op → Bool
  | .reopen _ _ => true
  | _ => false

theorem disk_step_bounded (s s' : Disk) (op : Op) (o : Obs) (hi : s.Inv) (hb : s.Bounded) (hop : op.isReopen = false)
    (h : s.step op = .ok (s', o)) : s'.Bounded := by
  cases op with
  | put k v d =>
    obtain ⟨s2, hp, _, hm, _, hlen, _⟩ := Disk.put_spec s k v hi
    simp only [Disk.step, hp] at h
    cases h
    intro m hmm
    exact hlen m (hm ▸ hmm)
  | get k =>
    obtain ⟨s2, hg, _, hm, hf, _⟩ := Disk.get_spec s k hi
    simp only [Disk.step, hg] at h
    cases h
    intro m hmm
    rw [hf]
    exact hb m (hm ▸ hmm)
  | has k => simp only [Disk.step] at h; cases h; exact hb
  | len => simp only [Disk.step] at h; cases h; exact hb
  | clear =>
    simp only [Disk.step] at h
    cases h
    intro m _
    simp [Disk.clear]
  | reopen m l => simp [Op.isReopen] at hop

theorem disk_put_bounded (s s' : Disk) (k : Key) (v : Val) (d : Nat) (o : Obs) (hi : s.Inv)
    (h : s.step (.put k v d) = .ok (s', o)) : s'.Bounded := by
  obtain ⟨s2, hp, _, hm, _, hlen, _⟩ := Disk.put_spec s k v hi
  simp only [Disk.step, hp] at h
  cases h
  intro m hmm
  exact hlen m (hm ▸ hmm)

theorem disk_run_bounded (h : List Op) : ∀ (s s' : Disk) os, s.Inv → s.Bounded → (∀ op ∈ h, op.isReopen = false) →
    diskSem.run s h = .ok (s', os) → s'.Bounded ∧ s'.Inv := by
  induction h with
  | nil => intro s s' os hi hb _ hr; simp only [Sem.run] at hr; cases hr; exact ⟨hb, hi⟩
  | cons op h ih =>
    intro s s' os hi hb hno hr
    have hop : op.isReopen = false := hno op (by simp)
    have hwf : op.WF := by cases op <;> simp [Op.WF, Op.isReopen] at hop ⊢
    obtain ⟨s1, o, h1, hi1⟩ := disk_lawful.total s op hi hwf
    simp only [Sem.run, h1] at hr
    cases h2 : diskSem.run s1 h with
    | error e => simp [h2] at hr
    | ok p =>
      obtain ⟨s2, os2⟩ := p
      simp only [h2] at hr
      cases hr
      exact ih s1 _ os2 hi1 (disk_step_bounded s s1 op o hi hb hop h1) (fun op' hm => hno op' (List.mem_cons_of_mem _ hm)) h2

/-- running `h1 ++ h2` is running `h1`, then `h2` from where `h1` ended -/
theorem run_append {σ : Type} (M : Sem σ) (h1 h2 : List Op) : ∀ s,
    M.run s (h1 ++ h2) =
      match M.run s h1 with
      | .error e => .error e
      | .ok (s1, os1) =>
        match M.run s1 h2 with
        | .error e => .error e
        | .ok (s2, os2) => .ok (s2, os1 ++ os2) := by
  induction h1 with
  | nil =>
    intro s
    simp only [List.nil_append, Sem.run]
    cases M.run s h2 with
    | error e => rfl
    | ok p => obtain ⟨a, b⟩ := p; rfl
  | cons op h ih =>
    intro s
    simp only [List.cons_append, Sem.run]
    cases M.step s op with
    | error e => rfl
    | ok p =>
      obtain ⟨s', o⟩ := p
      simp only [ih s']
      cases M.run s' h with
      | error e => rfl
      | ok q =>
        obtain ⟨s1, os1⟩ := q
        simp only
        cases M.run s1 h2 with
        | error e => rfl
        | ok r => obtain ⟨s2, os2⟩ := r; rfl

/-! ### `max_size = 0` -/

/-- a DiskCache with `max_size=0` and no LRU: every operation returns, the directory is empty afterwards -/
theorem disk_max0_step (s : Disk) (op : Op) (hm : s.max = some 0) (hl : s.lru = none) (hf : s.files = [])
    (hop : op.isReopen = false) : ∃ s' o, s.step op = .ok (s', o) ∧ s'.max = some 0 ∧ s'.lru = none ∧ s'.files = [] := by
  obtain ⟨m, f, c, l⟩ := s
  simp only at hm hl hf
  subst hm hl hf
  cases op <;>
    simp [Disk.step, Disk.put, Disk.get, Disk.writeFile, Disk.excess, set, evictN, stamps, argmin, erase, Disk.clear, Op.isReopen] at hop ⊢

theorem disk_max0_run (h : List Op) : ∀ (s : Disk), s.max = some 0 → s.lru = none → s.files = [] → (∀ op ∈ h, op.isReopen = false) →
    ∃ s' os, diskSem.run s h = .ok (s', os) ∧ s'.max = some 0 ∧ s'.lru = none ∧ s'.files = [] := by
  induction h with
  | nil => intro s hm hl hf _; exact ⟨s, [], rfl, hm, hl, hf⟩
  | cons op h ih =>
    intro s hm hl hf hno
    obtain ⟨s1, o, h1, a, b, c⟩ := disk_max0_step s op hm hl hf (hno op (by simp))
    obtain ⟨s2, os, h2, a2, b2, c2⟩ := ih s1 a b c (fun op' hm' => hno op' (List.mem_cons_of_mem _ hm'))
    refine ⟨s2, o :: os, ?_, a2, b2, c2⟩
    have h1' : diskSem.step s op = .ok (s1, o) := h1
    simp only [Sem.run, h1', h2]

end PF.Cache
