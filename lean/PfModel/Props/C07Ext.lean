import PfModel.Lemmas.StorageExt
import PfModel.Props.C07
/-!
C07, extension (round 2) — linear indices outside the array, container types, the registry and its class flags.
Property theorems only; the model is `Model/Storage.lean` (`PF.St`), helper lemmas are in `Lemmas/StorageExt.lean`.
-/
namespace PF.C07
open PF PF.St
variable {V : Type}

/-! ### linear indices outside `0 ≤ i < size` (DF-C07-linear, repaired): `IndexError` in every back end -/

/-- `has_index` / `get_from_index` with a linear index outside the array raise `IndexError` in `DictArray`,
    `SharedMemoryDictArray`, `FileArray` and in the reference array alike, and change nothing. No `Geom.WF` needed. -/
theorem C07_linear_index_out_of_range (g : Geom) (i : Int) (h : ¬ (0 ≤ i ∧ i < (prod g.shape : Nat)))
    (d : Dict V) (f : Files V) (a : MArr V) :
    dStep g d (.has i) = (d, .err .index) ∧ dStep g d (.at i) = (d, .err .index) ∧
    fStep g f (.has i) = (f, .err .index) ∧ fStep g f (.at i) = (f, .err .index) ∧
    (aStep g a (.has i)).2 = .err .index ∧ (aStep g a (.at i)).2 = .err .index := by
  simp only [dStep, fStep, aStep, unravel?_none g.shape i h, if_neg h, and_self]

/-- the refinement theorems without the `InDomain` hypothesis: on EVERY operation sequence — linear indices of any
    integer value included — both back ends observe what the reference array observes, hence agree with one another
    (strengthens `C07_dict_refines`, `C07_file_refines`, `C07_backends_agree`) -/
theorem C07_refines_all_indices (g : Geom) (hg : g.WF) (ops : List (Op V)) :
    (runOps (dStep g) ([] : Dict V) ops).2 = (runOps (aStep g) aEmpty ops).2 ∧
    (runOps (fStep g) ([] : Files V) ops).2 = (runOps (aStep g) aEmpty ops).2 ∧
    (runOps (dStep g) ([] : Dict V) ops).2 = (runOps (fStep g) ([] : Files V) ops).2 ∧
    RepD g (runOps (dStep g) ([] : Dict V) ops).1 (runOps (aStep g) aEmpty ops).1 ∧
    RepF g (runOps (fStep g) ([] : Files V) ops).1 (runOps (aStep g) aEmpty ops).1 := by
  have hD := runOps_refines (dStep g) (aStep g) (RepD g) (fun _ => True)
    (fun s a op h _ => dStep_refines_all g hg s a h op) ops [] aEmpty (repD_empty g) (fun _ _ => trivial)
  have hF := runOps_refines (fStep g) (aStep g) (RepF g) (fun _ => True)
    (fun s a op h _ => fStep_refines_all g hg s a h op) ops [] aEmpty (repF_empty g) (fun _ _ => trivial)
  exact ⟨hD.1, hF.1, by rw [hD.1, hF.1], hD.2, hF.2⟩

/-- … and from every represented state (resumed folders), per step -/
theorem C07_step_refines_all_indices (g : Geom) (hg : g.WF) (a : MArr V) (op : Op V) :
    (∀ d, RepD g d a → (dStep g d op).2 = (aStep g a op).2 ∧ RepD g (dStep g d op).1 (aStep g a op).1) ∧
    (∀ f, RepF g f a → (fStep g f op).2 = (aStep g a op).2 ∧ RepF g (fStep g f op).1 (aStep g a op).1) :=
  ⟨fun d h => dStep_refines_all g hg d a h op, fun f h => fStep_refines_all g hg f a h op⟩

/-- witness of the defect on the pinned tree: on an empty array of shape `(2,)`, `has_index(2)` raised `ValueError` in
    `DictArray` and answered `False` in `FileArray`; `get_from_index(2)` of `FileArray` raised the same
    `FileNotFoundError` as for the unwritten in-range element `1`; the repaired back ends raise `IndexError` -/
theorem C07_linear_pinned_witness :
    dHasPinned ⟨[2], [], [true]⟩ ([] : Dict Nat) 2 = .err .value ∧
    fHasPinned ⟨[2], [], [true]⟩ ([] : Files Nat) 2 = .bool false ∧
    fAtPinned ⟨[2], [], [true]⟩ ([] : Files Nat) 2 = fAtPinned ⟨[2], [], [true]⟩ ([] : Files Nat) 1 ∧
    (dStep ⟨[2], [], [true]⟩ ([] : Dict Nat) (.has 2)).2 = .err .index ∧
    (fStep ⟨[2], [], [true]⟩ ([] : Files Nat) (.has 2)).2 = .err .index ∧
    (fStep ⟨[2], [], [true]⟩ ([] : Files Nat) (.at 2)).2 ≠ (fStep ⟨[2], [], [true]⟩ ([] : Files Nat) (.at 1)).2 := by
  decide

/-- in-range linear indices are untouched by the repair: the pinned and the repaired answers coincide -/
theorem C07_linear_pinned_same_in_range (g : Geom) (i : Int) (h : 0 ≤ i ∧ i < (prod g.shape : Nat))
    (d : Dict V) (f : Files V) :
    (dStep g d (.has i)).2 = dHasPinned g d i ∧ (fStep g f (.has i)).2 = fHasPinned g f i ∧
    (fStep g f (.at i)).2 = fAtPinned g f i := by
  refine ⟨?_, ?_, ?_⟩
  · simp only [dStep, dHasPinned, unravel?_some g.shape i h]
  · simp only [fStep, fHasPinned, if_pos h, if_pos h.1]
  · simp only [fStep, fAtPinned, if_pos h, if_pos h.1]
    cases alook f i.toNat <;> rfl

/-! ### container types -/

/-- the kind of object an operation hands back is a function of the operation alone — for `__getitem__`, of whether the
    key holds a slice (`MaskedArray` of dtype object) or not (one element / atom / the `masked` constant) — in every
    back end and in the reference array: `to_array` a `MaskedArray[object]`, `mask` a `MaskedArray[bool]`, `mask_linear`
    a `list[bool]`, `has_index` a `bool`, `get_from_index` an element; anything else is an exception -/
theorem C07_container_of_op (g : Geom) (hg : g.WF) (op : Op V) (d : Dict V) (f : Files V) (a : MArr V) :
    ((dStep g d op).2.container = .raised ∨ (dStep g d op).2.container = op.container) ∧
    ((fStep g f op).2.container = .raised ∨ (fStep g f op).2.container = op.container) ∧
    ((aStep g a op).2.container = .raised ∨ (aStep g a op).2.container = op.container) :=
  ⟨dStep_container g hg d op, fStep_container g hg f op, aStep_container g hg a op⟩

/-- hence on any sequence the back ends return containers of the same kind, position by position (also where they
    raise: by `C07_refines_all_indices` the observations themselves are equal) -/
theorem C07_containers_agree (g : Geom) (hg : g.WF) (ops : List (Op V)) :
    (runOps (dStep g) ([] : Dict V) ops).2.map Obs.container = (runOps (fStep g) ([] : Files V) ops).2.map Obs.container ∧
    (runOps (dStep g) ([] : Dict V) ops).2.map Obs.container = (runOps (aStep g) aEmpty ops).2.map Obs.container := by
  have h := C07_refines_all_indices g hg ops
  exact ⟨by rw [h.2.2.1], by rw [h.1]⟩

/-! ### the registry and the class flags the map runner reads -/

/-- `_update_array` is called once in the worker and once in the parent's post-processing for every element: whatever
    the flag of the backend, exactly one of the two calls dumps (and `force_dump`, used by `adaptive.py`, always does) -/
theorem C07_dump_exactly_once (b : Backend) :
    (dumpsHere b false false = true ↔ dumpsHere b true false = false) ∧
    (dumpsHere b false false = b.dumpInSubprocess) ∧ (dumpsHere b true false = !b.dumpInSubprocess) ∧
    (∀ p, dumpsHere b p true = true) := by
  cases b with
  | mk id cls rs ds bk => cases ds <;> simp [dumpsHere]

/-- every registered backend whose elements are dumped inside the worker process is one the runner provides with a run
    folder / serialises for (`requires_serialization`), its ids are distinct, `storage_id` is the registry key under which
    `get_storage_class` finds it, unknown ids are a `ValueError`; the in-memory `dict` is the only backend dumped by the
    parent, and the only one that gets no temporary folder -/
theorem C07_registry_flags :
    (∀ b ∈ registry, b.dumpInSubprocess = true → b.requiresSerialization = true) ∧
    (∀ b ∈ registry, getStorageClass b.id = .ok b) ∧
    (registry.map Backend.id).Nodup ∧
    (∀ id, id ∉ registry.map Backend.id → getStorageClass id = .error .value) ∧
    (∀ b ∈ registry, dumpsHere b true false = true ↔ b.id = "dict") ∧
    (∀ b ∈ registry, getsTempFolder b false = false ↔ b.id = "dict") ∧
    (∀ b ∈ registry, b.backing = .files ↔ b.id = "file_array") := by
  refine ⟨by decide, ?_, by decide, ?_, by decide, by decide, by decide⟩
  · intro b hb
    simp only [registry, List.mem_cons, List.not_mem_nil, or_false] at hb
    rcases hb with rfl | rfl | rfl <;> rfl
  intro id hid
  simp only [registry, List.map_cons, List.map_nil, List.mem_cons, List.not_mem_nil, or_false, not_or] at hid
  obtain ⟨h1, h2, h3⟩ := hid
  simp only [getStorageClass, registry, List.find?_cons, List.find?_nil]
  rw [decide_eq_false (fun e => h1 e.symm), decide_eq_false (fun e => h2 e.symm), decide_eq_false (fun e => h3 e.symm)]

/-! ### non-vacuity -/

example : ¬ (0 ≤ (2 : Int) ∧ (2 : Int) < (prod (⟨[2], [], [true]⟩ : Geom).shape : Nat)) := by decide
example : (0 : Int) ≤ 1 ∧ (1 : Int) < (prod (⟨[2], [], [true]⟩ : Geom).shape : Nat) := by decide
example : (runOps (fStep g23) ([] : Files Nat) [.dump [.int 2] [7, 8], .has 3, .at (-1), .has 2]).2
    = [.unit, .err .index, .err .index, .bool true] := by decide
example : (runOps (dStep g23) ([] : Dict Nat) [.dump [.int 2] [7, 8], .has 3, .at (-1), .has 2]).2
    = [.unit, .err .index, .err .index, .bool true] := by decide
example : (dStep g23 ([] : Dict Nat) (.get [.slice none none none, .int 0])).2.container = .maskedObject ∧
    (dStep g23 ([] : Dict Nat) (.get [.int 0, .int 0])).2.container = .element ∧
    (dStep g23 ([] : Dict Nat) (.get [.int 5, .int 0])).2.container = .raised := by decide
example : ∃ b ∈ registry, b.dumpInSubprocess = true := ⟨_, List.mem_cons_of_mem _ List.mem_cons_self, rfl⟩
example : "zarr_array" ∉ registry.map Backend.id := by decide

end PF.C07
