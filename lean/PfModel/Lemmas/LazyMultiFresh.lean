import PfModel.Lemmas.LazyMultiRange
/-! Helper lemmas for `Props/C18Multi.lean`, part 3: what a call inside a `construct_dag()` block returns depends only on objects
    created inside the block (every cache a pipeline consults there started empty at `enter`), so every node the returned object
    needs is a recorded node — whichever pipelines were called in the block before. -/
namespace PF.Lazy
open PF PF.Pipe

/-- a value, or an object created at or after `n0` -/
def FreshArg (n0 : Nat) : LArg → Prop
  | .val _ => True
  | .ref r => n0 ≤ r

/-- a pipeline's view inside a block entered at counter `n0`: memo, the block cache and the objects made since refer to objects
    made since only -/
structure Fresh (n0 : Nat) (s : LSt) : Prop where
  memo : ∀ e ∈ s.memo, FreshArg n0 e.2
  cache : ∃ t, s.tg = some t ∧ ∀ e ∈ t.cache, FreshArg n0 e.2
  nodes : ∀ i nd, n0 ≤ i → s.nodes[i]? = some nd → ∀ j ∈ nd.refs, n0 ≤ j
  len : n0 ≤ s.nodes.length

theorem argRefs_fresh {n0 : Nat} : ∀ {args : List (String × LArg)}, (∀ e ∈ args, FreshArg n0 e.2) → ∀ j ∈ argRefs args, n0 ≤ j := by
  intro args
  induction args with
  | nil => intro _ j hj; simp [argRefs] at hj
  | cons e r ih =>
    obtain ⟨k, a⟩ := e
    intro h j hj
    cases a with
    | val v =>
      simp only [argRefs] at hj
      exact ih (fun e he => h e (List.mem_cons_of_mem _ he)) j hj
    | ref i =>
      simp only [argRefs, List.mem_cons] at hj
      rcases hj with rfl | hj
      · exact h (k, .ref j) List.mem_cons_self
      · exact ih (fun e he => h e (List.mem_cons_of_mem _ he)) j hj

theorem mkNode_fresh {n0 : Nat} (nd : Lazy.Node) (s : LSt) (h : Fresh n0 s) (hr : ∀ j ∈ nd.refs, n0 ≤ j) : Fresh n0 (mkNode nd s).2 := by
  obtain ⟨t, ht, hc⟩ := h.cache
  refine ⟨h.memo, ⟨{ t with gnodes := t.gnodes ++ [s.nodes.length], edges := t.edges ++ nd.refs.map (fun a => (a, s.nodes.length)) },
    by simp only [mkNode, ht], hc⟩, ?_, ?_⟩
  · intro i nd' hi hnd
    rw [mkNode_nodes] at hnd
    by_cases hlt : i < s.nodes.length
    · rw [List.getElem?_append_left hlt] at hnd
      exact h.nodes i nd' hi hnd
    · rw [List.getElem?_append_right (Nat.le_of_not_lt hlt)] at hnd
      cases hk : i - s.nodes.length with
      | zero => rw [hk] at hnd; simp at hnd; subst hnd; exact hr
      | succ k => rw [hk] at hnd; simp at hnd
  · rw [mkNode_nodes]; simp; exact Nat.le_succ_of_le h.len

theorem cachePut_fresh {n0 : Nat} (key : Option Key) (a : LArg) (s : LSt) (h : Fresh n0 s) (ha : FreshArg n0 a) :
    Fresh n0 (cachePut key a s) := by
  obtain ⟨t, ht, hc⟩ := h.cache
  unfold cachePut
  split
  · exact h
  · split
    · next g hg =>
      rw [ht] at hg; injection hg with hg; subst hg
      refine ⟨h.memo, ⟨_, rfl, ?_⟩, h.nodes, h.len⟩
      intro e he
      simp only [List.mem_cons] at he
      rcases he with rfl | he
      · exact ha
      · exact hc e he
    · next hg => rw [ht] at hg; cases hg

theorem mkPicks_fresh {n0 : Nat} (f : Func) (r : LArg) (hr : FreshArg n0 r) : ∀ (names : List String) (s : LSt), Fresh n0 s →
    Fresh n0 (mkPicks f r names s).2 ∧ ∀ e ∈ (mkPicks f r names s).1, FreshArg n0 e.2 := by
  intro names
  induction names with
  | nil => intro s h; exact ⟨h, fun e he => by simp [mkPicks] at he⟩
  | cons n names ih =>
    intro s h
    simp only [mkPicks]
    have hrefs : ∀ j ∈ (Node.pick f r n).refs, n0 ≤ j := by
      intro j hj
      cases r with
      | val v => simp [Node.refs] at hj
      | ref i => simp [Node.refs] at hj; subst hj; exact hr
    obtain ⟨h2, hp⟩ := ih _ (mkNode_fresh (.pick f r n) s h hrefs)
    refine ⟨h2, ?_⟩
    intro e he
    simp only [List.mem_cons] at he
    rcases he with rfl | he
    · exact h.len
    · exact hp e he

theorem updateAll_fresh {n0 : Nat} (f : Func) (r : LArg) (s : LSt) (h : Fresh n0 s) (hr : FreshArg n0 r) : Fresh n0 (updateAll f r s) := by
  unfold updateAll
  split
  · refine ⟨?_, h.cache, h.nodes, h.len⟩
    intro e he
    simp only [List.mem_cons] at he
    rcases he with rfl | he
    · exact hr
    · exact h.memo e he
  · obtain ⟨h2, hp⟩ := mkPicks_fresh f r hr f.outputs s h
    refine ⟨?_, h2.cache, h2.nodes, h2.len⟩
    intro e he
    have he' : e ∈ (mkPicks f r f.outputs s).1 ++ (mkPicks f r f.outputs s).2.memo := he
    rcases List.mem_append.mp he' with he' | he'
    · exact hp e he'
    · exact h2.memo e he'

theorem cacheLookup_fresh {n0 : Nat} {s : LSt} {key : Option Key} {r : LArg} (h : Fresh n0 s) (hl : cacheLookup s key = some r) :
    FreshArg n0 r := by
  obtain ⟨t, ht, hc⟩ := h.cache
  unfold cacheLookup at hl
  split at hl
  · cases hl
  · simp only [curCache, ht] at hl
    obtain ⟨key', hm, _⟩ := cacheGet_mem _ _ _ hl
    exact hc _ hm

def LRecFresh (n0 : Nat) (r : String → LSt → Except Err (LArg × LSt)) : Prop :=
  ∀ o s a s', Fresh n0 s → r o s = .ok (a, s') → Fresh n0 s' ∧ FreshArg n0 a

variable {fs : List Func} {kw : List (String × Val)} {n0 : Nat}

theorem largs_fresh (r : String → LSt → Except Err (LArg × LSt)) (hr : LRecFresh n0 r) (f : Func) :
    ∀ ps s args s', Fresh n0 s → largs r fs kw f ps s = .ok (args, s') → Fresh n0 s' ∧ ∀ e ∈ args, FreshArg n0 e.2 := by
  intro ps
  induction ps with
  | nil =>
    intro s args s' hF h
    simp [largs] at h; obtain ⟨rfl, rfl⟩ := h
    exact ⟨hF, fun e he => by cases he⟩
  | cons p ps ih =>
    obtain ⟨p, orig⟩ := p
    intro s args s' hF h
    simp only [largs] at h
    split at h
    · simp at h
    · split at h
      · simp at h
      · next rest s2 hrest =>
        simp at h; obtain ⟨rfl, rfl⟩ := h
        obtain ⟨h2, ha⟩ := ih { s with used := s.used ++ [p] } rest s2 ⟨hF.memo, hF.cache, hF.nodes, hF.len⟩ hrest
        refine ⟨h2, ?_⟩
        intro e he
        simp only [List.mem_cons] at he
        rcases he with rfl | he
        · trivial
        · exact ha e he
    · split at h
      · simp at h
      · next a s1 hrun =>
        split at h
        · simp at h
        · next rest s2 hrest =>
          simp at h; obtain ⟨rfl, rfl⟩ := h
          obtain ⟨h1, ha1⟩ := hr p s a s1 hF hrun
          obtain ⟨h2, ha⟩ := ih { s1 with used := s1.used ++ [p] } rest s2 ⟨h1.memo, h1.cache, h1.nodes, h1.len⟩ hrest
          refine ⟨h2, ?_⟩
          intro e he
          simp only [List.mem_cons] at he
          rcases he with rfl | he
          · exact ha1
          · exact ha e he

theorem lrun_fresh : ∀ (n : Nat), LRecFresh n0 (lrun fs kw n) := by
  intro n
  induction n with
  | zero => intro o s a s' _ h; simp [lrun] at h
  | succ n ihn =>
    intro o s a s' hF h
    rw [lrun_succ] at h
    split at h
    · next a' hw =>
      simp at h; obtain ⟨rfl, rfl⟩ := h
      exact ⟨hF, hF.memo (o, a') (alookup_some_mem _ _ _ hw)⟩
    · split at h
      · simp at h
      · next f hf =>
        split at h
        · next r hr =>
          have hrF := cacheLookup_fresh hF hr
          have h1 := updateAll_fresh f r { s with usedNone := true } ⟨hF.memo, hF.cache, hF.nodes, hF.len⟩ hrF
          split at h
          · next a' hl =>
            simp at h; obtain ⟨rfl, rfl⟩ := h
            exact ⟨h1, h1.memo (o, a') (alookup_some_mem _ _ _ hl)⟩
          · simp at h
        · split at h
          · simp at h
          · next args s1 hargs =>
            obtain ⟨h1, hargsF⟩ := largs_fresh _ ihn f f.params s args s1 hF hargs
            have h2 := mkNode_fresh (.call f args) s1 h1 (argRefs_fresh hargsF)
            have h3 := cachePut_fresh (activeKey fs kw f o s) (.ref s1.nodes.length) _ h2 h1.len
            have h4 := updateAll_fresh f (.ref s1.nodes.length) _ h3 h1.len
            split at h
            · next a' hl =>
              simp at h; obtain ⟨rfl, rfl⟩ := h
              exact ⟨h4, h4.memo (o, a') (alookup_some_mem _ _ _ hl)⟩
            · simp at h

theorem lrunTop_fresh {req : Req} {s : LSt} {a : LArg} {s' : LSt} (hF : Fresh n0 s) (h : lrunTop fs kw req s = .ok (a, s')) :
    Fresh n0 s' ∧ FreshArg n0 a := by
  have h0 : Fresh n0 { s with memo := kw.map fun (k, v) => (k, LArg.val v), used := [], usedNone := false } := by
    refine ⟨?_, hF.cache, hF.nodes, hF.len⟩
    intro e he
    obtain ⟨x, _, rfl⟩ := List.mem_map.mp he
    trivial
  cases req with
  | name o =>
    simp only [lrunTop] at h
    split at h
    · cases h
    · split at h
      · cases h
      · next a1 s1 hrun =>
        split at h
        · injection h with h; injection h with h1 h2; subst h1; subst h2
          exact lrun_fresh _ o _ a1 s1 h0 hrun
        · cases h
  | whole os =>
    rw [lrunTop_whole_eq] at h
    split at h
    · cases h
    · next f hfind =>
      split at h
      · next r hr =>
        obtain ⟨rfl, rfl⟩ := fin_ok h
        exact ⟨⟨h0.memo, h0.cache, h0.nodes, h0.len⟩, cacheLookup_fresh h0 hr⟩
      · split at h
        · cases h
        · next args s1 hargs =>
          obtain ⟨rfl, rfl⟩ := fin_ok h
          obtain ⟨h1, hargsF⟩ := largs_fresh _ (lrun_fresh _) f f.params _ args s1 h0 hargs
          have h2 := mkNode_fresh (.call f args) s1 h1 (argRefs_fresh hargsF)
          exact ⟨cachePut_fresh _ (.ref s1.nodes.length) _ h2 h1.len, h1.len⟩

/-! ### the process -/

/-- a process inside a block entered at counter `n0` -/
structure BFresh (n0 : Nat) (g : GSt) : Prop where
  len : n0 ≤ g.nodes.length
  tg : ∃ t, g.tg = some t ∧ ∀ p ∈ t.caches, ∀ e ∈ p.2, FreshArg n0 e.2
  nodes : ∀ i nd, n0 ≤ i → g.nodes[i]? = some nd → ∀ j ∈ nd.refs, n0 ≤ j

theorem cacheFor_mem : ∀ (c : List (Nat × List (Key × LArg))) (i : Nat) (e : Key × LArg), e ∈ cacheFor c i → ∃ p ∈ c, e ∈ p.2 := by
  intro c
  induction c with
  | nil => intro i e h; simp [cacheFor] at h
  | cons q r ih =>
    obtain ⟨j, d⟩ := q
    intro i e h
    simp only [cacheFor] at h
    split at h
    · exact ⟨(j, d), List.mem_cons_self, h⟩
    · obtain ⟨p, hp, he⟩ := ih i e h
      exact ⟨p, List.mem_cons_of_mem _ hp, he⟩

theorem setCache_mem : ∀ (c : List (Nat × List (Key × LArg))) (i : Nat) (x : List (Key × LArg)) (p : Nat × List (Key × LArg)),
    p ∈ setCache c i x → p ∈ c ∨ p.2 = x := by
  intro c
  induction c with
  | nil => intro i x p h; simp [setCache] at h; right; rw [h]
  | cons q r ih =>
    obtain ⟨j, d⟩ := q
    intro i x p h
    simp only [setCache] at h
    split at h
    · simp only [List.mem_cons] at h
      rcases h with rfl | h
      · right; rfl
      · left; exact List.mem_cons_of_mem _ h
    · simp only [List.mem_cons] at h
      rcases h with rfl | h
      · left; exact List.mem_cons_self
      · rcases ih i x p h with h | h
        · left; exact List.mem_cons_of_mem _ h
        · right; exact h

theorem proj_fresh {g : GSt} (h : BFresh n0 g) (i : Nat) : Fresh n0 (proj g i) := by
  obtain ⟨t, ht, hc⟩ := h.tg
  refine ⟨(fun e he => by cases he), ⟨⟨t.gnodes, t.edges, cacheFor t.caches i⟩, (by simp [proj, ht]), ?_⟩, h.nodes, h.len⟩
  intro e he
  obtain ⟨p, hp, hpe⟩ := cacheFor_mem _ _ _ he
  exact hc p hp e hpe

theorem writeBack_bfresh {g : GSt} (h : BFresh n0 g) (i : Nat) {s' : LSt} (hs : Fresh n0 s') : BFresh n0 (writeBack g i s') := by
  obtain ⟨T, hT, hc⟩ := h.tg
  obtain ⟨t', ht', hc'⟩ := hs.cache
  refine ⟨hs.len, ⟨⟨t'.gnodes, t'.edges, setCache T.caches i t'.cache⟩, (by simp [writeBack, wbTG, hT, ht']), ?_⟩, hs.nodes⟩
  intro p hp e he
  rcases setCache_mem _ _ _ _ hp with hp | hp
  · exact hc p hp e he
  · rw [hp] at he; exact hc' e he

theorem gstep_bfresh (fss : List (List Func)) {g : GSt} (h : BFresh n0 g) (op : Op) (hop : noBlockOp op = true) :
    BFresh n0 (gstep fss g op) := by
  cases op with
  | enter => cases hop
  | exit => cases hop
  | call i kw req =>
    simp only [gstep]
    split
    · next a g' hc =>
      obtain ⟨fs, s', _, _, hrun, rfl⟩ := gcall_ok hc
      exact writeBack_bfresh h i (lrunTop_fresh (proj_fresh h i) hrun).1
    · exact h
  | eval a =>
    simp only [gstep]
    split
    · next v g' he =>
      obtain ⟨e, rfl, _⟩ := geval_ok he
      exact ⟨h.len, h.tg, h.nodes⟩
    · exact h

theorem runOps_bfresh (fss : List (List Func)) : ∀ (ops : List Op) (g : GSt), BFresh n0 g → ops.all noBlockOp = true →
    BFresh n0 (runOps fss ops g) := by
  intro ops
  induction ops with
  | nil => intro g h _; exact h
  | cons op ops ih =>
    intro g h hall
    simp only [List.all_cons, Bool.and_eq_true] at hall
    exact ih _ (gstep_bfresh fss h op hall.1) hall.2

theorem genter_bfresh (g : GSt) : BFresh g.nodes.length (genter g) := by
  refine ⟨Nat.le_refl _, ⟨⟨[], [], []⟩, rfl, (fun p hp => by cases hp)⟩, ?_⟩
  intro i nd hi hnd
  have hlt : i < g.nodes.length := by
    rcases Nat.lt_or_ge i g.nodes.length with hl | hl
    · exact hl
    · have : (genter g).nodes[i]? = none := List.getElem?_eq_none hl
      rw [this] at hnd; cases hnd
  exact absurd hlt (Nat.not_lt.mpr hi)

theorem needs_fresh {nodes : List Lazy.Node} (hn : ∀ i nd, n0 ≤ i → nodes[i]? = some nd → ∀ j ∈ nd.refs, n0 ≤ j) {a : LArg}
    (ha : FreshArg n0 a) {j : Nat} (h : Needs nodes a j) : n0 ≤ j := by
  induction h with
  | self e => subst e; exact ha
  | arg _ hnd hj ih => exact hn _ _ ih hnd _ hj

theorem needs_le {nodes : List Lazy.Node} (hc : Closed nodes) {r j : Nat} (h : Needs nodes (.ref r) j) : j ≤ r := by
  induction h with
  | self e => injection e with e; subst e; exact Nat.le_refl _
  | arg _ hnd hj ih => exact Nat.le_trans (Nat.le_of_lt (hc _ _ hnd _ hj)) ih

end PF.Lazy
