"""C18, fault stream: user functions that RAISE during `evaluate()`, and what the next `evaluate()` does.

A session = lazy calls (outside / inside one construct_dag() block, so objects share nodes) followed by steps `fault` (the set of
functions that raise from now on: a transient fault is switched off again, a permanent one stays) and `eval` (evaluate() of a returned
object, also the retry on the same object and the evaluation of another consumer of the failed node).  Every step is judged on the
implementation (a returned value is the eager value; evaluate() raises iff a needed function that has not returned yet raises, with the
injected exception; each needed function returns exactly once; nothing is invoked again after a success) and the whole observation
(raised / value, which function raised, the log of all invocations, the `_evaluated` flags after every step, node table, graph) is
compared with `PF.Lazy.evaluateF` (lean/PfModel/Model/LazyFault.lean) through the driver entry "fsession".
"""
from __future__ import annotations

import copy

import pfimport  # noqa: F401
from pfimport import exc_enum

import networkx as nx
from pipefunc import PipeFunc
from pipefunc.lazy import _LazyFunction, construct_dag

import pipegen
import terms


def _c18():
    from props import c18
    return c18


class Injected(OSError):
    """the exception the faulty user function raises"""


def kwval(k):
    return {"s": f"kw:{k}"}


_FA = {"name": "fa", "params": [["x", "x"]], "outputs": ["a"], "defaults": [], "bound": []}
_FB = {"name": "fb", "params": [["a", "a"], ["y", "y"]], "outputs": ["b", "c"], "defaults": [["y", {"s": "dy"}]], "bound": []}
_FD = {"name": "fd", "params": [["a", "p"], ["b", "q"], ["c", "r"]], "outputs": ["d"], "defaults": [], "bound": []}
_KX = [["x", kwval("x")]]


def _F(*names):
    return {"op": "fault", "bad": list(names)}


E0, E1 = {"op": "eval", "h": 0}, {"op": "eval", "h": 1}

CORPUS: list = [
    # transient fault in the root producer of a diamond: the retry must give the eager value (seeded change C18-s5-A: the flag was set
    # before the function ran, the retry returned None)
    {"stream": "fault", "funcs": [_FA, _FB, _FD], "ops": [{"op": "call", "out": "d", "kw": _KX}, _F("fa"), E0, _F(), E0, E0]},
    # permanent fault in the middle: every evaluate() raises again, the producer below keeps its memo
    {"stream": "fault", "funcs": [_FA, _FB, _FD], "ops": [{"op": "call", "out": "d", "kw": _KX}, _F("fb"), E0, E0, _F("fd"), E0, _F(), E0, E0]},
    # two consumers share the failed node through the block's cache: the other consumer must see the fault too, then the value
    {"stream": "fault", "funcs": [_FA, _FB, _FD],
     "ops": [{"op": "enter"}, {"op": "call", "out": "d", "kw": _KX}, {"op": "call", "out": "b", "kw": _KX}, {"op": "exit"},
             _F("fb"), E0, E1, _F("fd"), E1, E0, _F(), E0, E1]},
]


# ------------------------------------------------------------------------------------------------ implementation side
def run_fsession(desc, ops):
    """One session on the real pipefunc; never raises because pipefunc misbehaves."""
    c18 = _c18()
    bad: set = set()
    returned: list = []

    def failer(name):
        def fail(kw_enc, idx):
            if name in bad:
                return Injected(name)
            returned.append(name)
            return None
        return fail

    fail = {f["name"]: failer(f["name"]) for f in desc["funcs"]}
    p, log = pipegen.build(desc, lazy=True, fail=fail)
    pe, elog = pipegen.build(desc)
    eagers = {}
    for i, op in enumerate(ops):
        if op["op"] == "call":
            out = op["out"] if isinstance(op["out"], str) else tuple(op["out"])
            elog.clear()
            try:
                ev = pipegen.quiet(pe, out, **{k: terms.dec(v) for k, v in op["kw"]})
                eagers[i] = {"value": terms.enc(ev), "calls": elog.names()}
            except Exception as e:  # noqa: BLE001
                eagers[i] = {"err": exc_enum(e)}
    base = _LazyFunction._counter
    obs, handles, table, known = [], [], {}, {}
    cm = tg = None
    block_objs = []
    try:
        for opi, op in enumerate(ops):
            kind = op["op"]
            if kind == "enter":
                cm = construct_dag()
                tg = cm.__enter__()
                block_objs = []
                obs.append({"ok": True})
            elif kind == "exit":
                cm.__exit__(None, None, None)
                cm = None
                g = tg.graph
                o = {"nodes": sorted(n - base for n in g.nodes), "edges": sorted([a - base, b - base] for a, b in g.edges),
                     "acyclic": nx.is_directed_acyclic_graph(g), "cache": len(tg.cache.cache)}
                obs.append(o)
                tg = None
            elif kind == "fault":
                bad.clear()
                bad.update(op["bad"])
                obs.append({"ok": True})
            elif kind == "call":
                out = op["out"] if isinstance(op["out"], str) else tuple(op["out"])
                before = len(log.names())
                try:
                    r = pipegen.quiet(p, out, **{k: terms.dec(v) for k, v in op["kw"]})
                except Exception as e:  # noqa: BLE001
                    handles.append(None)
                    obs.append({"err": exc_enum(e), "eager": eagers[opi], "invoked": log.names()[before:]})
                    continue
                handles.append(r)
                o = {"eager": eagers[opi], "invoked": log.names()[before:], "type": type(r).__name__}
                if isinstance(r, _LazyFunction):
                    o["ret"] = {"ref": r._id - base}
                    block_objs.append(r)
                    for i, lf in c18.closure([r]).items():
                        table[i - base] = c18.node_desc(lf, base)
                        known[i] = lf
                else:
                    o["ret"] = {"val": terms.enc(r)}
                obs.append(o)
            elif kind == "eval":
                r = handles[op["h"]]
                if not isinstance(r, _LazyFunction):
                    obs.append({"skipped": True})
                    continue
                before = len(log.names())
                nret = len(returned)
                need = c18.closure([r])
                o = {"need": sorted([i - base, lf.func.__name__] for i, lf in need.items() if isinstance(lf.func, PipeFunc))}
                try:
                    v = pipegen.quiet(r.evaluate)
                    o["value"] = terms.enc(v)
                except Injected as e:
                    o["raised"] = str(e.args[0]) if e.args else "?"
                except Exception as e:  # noqa: BLE001
                    o["err"] = exc_enum(e)
                o.update({"log": log.names(), "new": log.names()[before:], "returned": returned[nret:],
                          "done": sorted(i - base for i, lf in known.items() if lf._evaluated),
                          "bad": sorted(bad)})
                obs.append(o)
            else:
                raise AssertionError(kind)
    finally:
        if cm is not None:
            cm.__exit__(None, None, None)
    return {"ops": obs, "table": [[i, table[i]] for i in sorted(table)]}


# ------------------------------------------------------------------------------------------------ judging
def judge_fault(ctx, case, impl):
    """the property's clauses on the implementation's own answers"""
    viol = []
    ok_nodes: set = set()          # call nodes whose function has returned (attributed by the harness, not read from `_evaluated`)
    exact = True                   # the attribution is unambiguous so far
    handles = []
    done_handles = set()
    for op, ob in zip(case["ops"], impl["ops"]):
        if op["op"] == "call":
            handles.append(ob)
            if ob.get("invoked"):
                viol.append(f"functions {ob['invoked']} were invoked by the lazy call itself, before evaluate()")
            if "err" not in ob and ob["type"] != "_LazyFunction":
                viol.append(f"a lazy pipeline returned a {ob['type']}, not a deferred object")
        elif op["op"] == "eval":
            if ob.get("skipped"):
                continue
            h = handles[op["h"]]
            eager = h["eager"]
            need = [(i, n) for i, n in ob["need"]]
            open_nodes = [(i, n) for i, n in need if i not in ok_nodes]
            culprits = sorted({n for i, n in open_nodes if n in ob["bad"]})
            if "err" in ob:
                viol.append(f"evaluate() raised {ob['err']}, which no user function raises (faulty functions: {ob['bad']})")
                exact = False
                continue
            if "value" in ob:
                if "value" in eager and ob["value"] != eager["value"]:
                    viol.append("evaluate() differs from the value the eager pipeline returns"
                                + (f" (an earlier evaluate() of a shared node raised; now no needed function raises)" if not culprits else ""))
                elif exact and culprits:
                    viol.append(f"evaluate() returned although {culprits}, which it needs and which never returned, raise(s): the eager pipeline raises")
                if exact and sorted(ob["returned"]) != sorted(n for _, n in open_nodes):
                    viol.append(f"evaluate() returned after the functions {sorted(ob['returned'])} returned; needed and not yet returned were "
                                f"{sorted(n for _, n in open_nodes)}: each needed function must return exactly once")
                if op["h"] in done_handles and ob["new"]:
                    viol.append(f"a repeated evaluate() invoked {ob['new']} again")
                done_handles.add(op["h"])
                ok_nodes |= {i for i, _ in need}
            else:
                ctx.count("fault:raising-evaluations")
                if exact and not culprits:
                    viol.append(f"evaluate() raised (function {ob['raised']}) although every needed function that has not returned yet returns "
                                f"(faulty: {ob['bad']}): the eager pipeline returns")
                elif ob["raised"] not in ob["bad"]:
                    viol.append(f"evaluate() raised the exception of {ob['raised']}, which is not faulty now")
                if op["h"] in done_handles:
                    viol.append("evaluate() raised on an object that was evaluated before")
                # attribute the functions that returned during this step to the open nodes of the closure
                for n in ob["returned"]:
                    cands = [i for i, m in open_nodes if m == n and i not in ok_nodes]
                    if len(cands) == 1:
                        ok_nodes.add(cands[0])
                    else:
                        exact = False
                        ctx.count("fault:ambiguous-attribution")
        elif op["op"] == "exit" and "nodes" in ob and not ob["acyclic"]:
            viol.append("the recorded task graph has a cycle")
    return viol


def compare_fault(case, impl, model):
    diffs = []
    for i, (op, a, b) in enumerate(zip(case["ops"], impl["ops"], model["ops"])):
        k = op["op"]
        if k == "exit" and "nodes" in a:
            if a["nodes"] != sorted(b["nodes"]) or a["edges"] != sorted([list(e) for e in set(map(tuple, b["edges"]))]) or a["cache"] != b["cache"]:
                diffs.append(f"op {i}: task graph {a} vs model {b}")
        elif k == "call":
            if ("err" in a) != ("err" in b):
                diffs.append(f"op {i}: call {'raises' if 'err' in a else 'accepted'}; model {'raises' if 'err' in b else 'accepted'}")
            elif "err" not in a and a["ret"] != b["ret"]:
                diffs.append(f"op {i}: returned {a['ret']} vs model {b['ret']}")
        elif k == "eval" and not a.get("skipped"):
            kind = lambda o: "value" if "value" in o else "raised" if "raised" in o else "err"   # noqa: E731
            if kind(a) != kind(b):
                diffs.append(f"op {i}: evaluate() {kind(a)}; model {kind(b)}")
            elif "value" in a and a["value"] != b["value"]:
                diffs.append(f"op {i}: evaluate() value differs from the model")
            elif "raised" in a and a["raised"] != b["raised"]:
                diffs.append(f"op {i}: the exception is that of {a['raised']}; model {b['raised']}")
            if a["log"] != b.get("log"):
                diffs.append(f"op {i}: invocation log {a['log']} vs model {b.get('log')}")
            if a["done"] != sorted(b.get("done", [])):
                diffs.append(f"op {i}: nodes with _evaluated set {a['done']} vs model {sorted(b.get('done', []))}")
    mt = dict((i, n) for i, n in model["table"])
    for i, n in impl["table"]:
        if mt.get(i) != n:
            diffs.append(f"node {i}: {n} vs model {mt.get(i)}")
    return diffs


def model_request(c):
    return {"m": "fsession", "a": {"funcs": c["funcs"], "ops": _c18().close_blocks(c["ops"])}}


def check_sessions(ctx, cases):
    c18 = _c18()
    impls = []
    for c in cases:
        try:
            impls.append(run_fsession({"funcs": c["funcs"]}, c["ops"]))
        except Exception as e:  # noqa: BLE001
            impls.append({"crash": exc_enum(e), "msg": str(e)[:200]})
    outs = ctx.lean([model_request(c) for c in cases])
    for c, impl, resp in zip(cases, impls, outs):
        if "crash" in impl:
            ctx.violation(c, f"fault session: the harness could not run the session: {impl['crash']}: {impl['msg']}", found_input=False,
                          item="correspondence:fault-session-crash")
            continue
        model = c18.model_session(resp["r"])
        if not resp["r"].get("wf", True):
            raise AssertionError("a generated pipeline does not satisfy the theorems' well-formedness hypothesis (generator bug?)")
        raised = sum(1 for o in impl["ops"] if "raised" in o)
        ctx.record(c, raised > 0)
        ctx.count("fault:sessions")
        ctx.count("fault:evaluations", sum(1 for o in impl["ops"] if "log" in o))
        ctx.count("fault:retries-that-return", sum(1 for j, o in enumerate(impl["ops"]) if "value" in o and c["ops"][j]["op"] == "eval" and
                                                   any("raised" in p and c["ops"][k]["h"] == c["ops"][j]["h"]
                                                       for k, p in enumerate(impl["ops"][:j]) if c["ops"][k]["op"] == "eval")))
        viol = judge_fault(ctx, c, impl)
        for w in viol[:2]:
            ctx.violation(c, w, impl=impl, model=model)
        if not viol:
            diffs = compare_fault(c, impl, model)
            if diffs:
                ctx.violation(c, "fault session differs from the model: " + diffs[0], found_input=False,
                              item="correspondence:fault-session", impl=impl, model=model)


# ------------------------------------------------------------------------------------------------ generation
def gen_case(ctx, rng):
    desc = pipegen.gen_dag(rng, max_funcs=rng.choice([2, 3, 4, 5, 6]))
    p, _ = pipegen.build(desc)
    outs = pipegen.all_outputs(desc)
    tuples = [f["outputs"] for f in desc["funcs"] if len(f["outputs"]) > 1]

    def pick_out():
        if tuples and rng.random() < 0.15:
            return list(rng.choice(tuples))
        # later outputs have more producers below them
        return outs[-1] if rng.random() < 0.4 else rng.choice(outs)

    def roots_kw(o):
        return [[k, kwval(k)] for k in p.root_args(o if isinstance(o, str) else tuple(o))]

    ops, ncalls = [], 0
    shape = rng.choice(["plain", "plain", "block", "block", "two"])
    ctx.count(f"fault:shape:{shape}")
    if shape == "block":
        ops.append({"op": "enter"})
    for _ in range(1 if shape == "plain" else rng.choice([2, 3])):
        o = pick_out()
        ops.append({"op": "call", "out": o, "kw": roots_kw(o)})
        ncalls += 1
    if shape == "block":
        ops.append({"op": "exit"})
    names = [f["name"] for f in desc["funcs"]]
    # the functions the requests need (the eager call logs): faults elsewhere are unobservable
    needed = []
    pe, elog = pipegen.build(desc)
    for op in ops:
        if op["op"] == "call":
            elog.clear()
            pipegen.quiet(pe, op["out"] if isinstance(op["out"], str) else tuple(op["out"]), **{k: terms.dec(v) for k, v in op["kw"]})
            needed += [n for n in elog.names() if n not in needed]

    def some_bad():
        pool = needed if needed and rng.random() < 0.85 else names
        return sorted(set(rng.choice(pool) for _ in range(rng.choice([1, 1, 2]))))

    bad = some_bad()
    ops.append({"op": "fault", "bad": bad})
    for _ in range(rng.randint(2, 5)):
        h = rng.randrange(ncalls)
        ops.append({"op": "eval", "h": h})
        if rng.random() < 0.4:
            ops.append({"op": "eval", "h": h if rng.random() < 0.6 else rng.randrange(ncalls)})      # retry while the fault lasts
        u = rng.random()
        if u < 0.35:
            bad = []                                                                                  # transient: gone before the retry
            ops.append({"op": "fault", "bad": bad})
        elif u < 0.6:
            bad = some_bad()
            ops.append({"op": "fault", "bad": bad})
    if rng.random() < 0.8:
        if bad:
            ops.append({"op": "fault", "bad": []})
        hs = list(range(ncalls))
        rng.shuffle(hs)
        ops += [{"op": "eval", "h": h} for h in hs] + [{"op": "eval", "h": rng.randrange(ncalls)}]
    return {"stream": "fault", "funcs": desc["funcs"], "ops": ops}


def check(ctx, rng, n):
    cases = [copy.deepcopy(c) for c in CORPUS]
    for _ in range(n):
        try:
            cases.append(gen_case(ctx, rng))
        except Exception as e:  # noqa: BLE001
            ctx.skip(f"fault generator: {exc_enum(e)}")
    check_sessions(ctx, cases)


def replay_one(ctx, case):
    impl = run_fsession({"funcs": case["funcs"]}, case["ops"])
    print("implementation:", impl)
    for w in judge_fault(ctx, case, impl):
        print("violation:", w)
    r = ctx.lean([model_request(case)])[0]["r"]
    print("model:", _c18().model_session(r))
