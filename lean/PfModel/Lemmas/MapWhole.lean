import PfModel.Lemmas.MapOutputs
import PfModel.Lemmas.ValidateShapes
/-!
Whole-run lemmas for `Props/C01Whole.lean`: what ONE function of a run returns and stores, stated against the environment it ran in
(`FuncDenotes`), and the chaining of that description through the generation loop (`runGens_whole`).
Nothing here changes a definition of `Model/MapRun.lean`.
-/
namespace PF.C01
open PF PF.Map

/-- what `load_outputs` reads back from a store (`MapResult.stored` is `slotVals` of the final store) -/
def slotVals (st : List (String × Slot)) : List (String × Val) := st.map fun p => (p.1, p.2.toVal)

theorem slotVals_append (a b : List (String × Slot)) : slotVals (a ++ b) = slotVals a ++ slotVals b := by
  simp [slotVals]

theorem slotVals_nil : slotVals [] = [] := rfl

/-- a way of producing result arrays that agrees with the denotation whenever shape and mask have the same rank
    (`opArray` by `opArray_eq_denote`, `denoteArray` trivially) -/
def Faithful (arr : MFunc → List Nat → List Bool → (Nat → List (String × Val)) → String → Val) : Prop :=
  ∀ f sh mk args o, sh.length = mk.length → arr f sh mk args o = denoteArray f sh mk args o

theorem faithful_op : Faithful opArray := fun f sh mk args o h => opArray_eq_denote f sh mk args o h
theorem faithful_denote : Faithful denoteArray := fun _ _ _ _ _ _ => rfl

/-- **What one function of a run returns**, against the environment `env` it ran in and the shape tables of the run:
    * a function whose MapSpec has inputs: the table records a shape `sh` and a mask `mk` of the same rank for it, there is one
      argument list per external linear index — the one `_select_kwargs` selects at that index from `env` — and every output is
      the denoted array over those arguments;
    * any other function: one argument list, every parameter delivered whole, every output the function's value on it. -/
def FuncDenotes (fs : List MFunc) (shapes : List (String × List Nat)) (masks : List (String × List Bool)) (env : Env) (f : MFunc)
    (outs : List (String × Val)) : Prop :=
  (∃ ms, f.mapspec = some ms ∧ ms.inputs.isEmpty = false ∧
    ∃ o0 sh mk, f.outputs.head? = some o0 ∧ alookup shapes o0 = some sh ∧ alookup masks o0 = some mk ∧ sh.length = mk.length ∧
    ∃ args : Nat → List (String × Val),
      (∀ li, li < prod (extOf mk sh) → selectArgs fs env f ms (shapeToKey (extOf mk sh) li) = .ok (args li)) ∧
      outs = f.outputs.map fun o => (o, denoteArray f sh mk args o)) ∨
  ((∀ ms, f.mapspec = some ms → ms.inputs.isEmpty = true) ∧
    ∃ args, (f.params.mapM fun (p, orig) => do return (orig, ← argWhole fs env f p)) = .ok args ∧
      outs = f.outputs.map fun o => (o, outVal f args o))

theorem runMapped_char (arr : MFunc → List Nat → List Bool → (Nat → List (String × Val)) → String → Val)
    (fs : List MFunc) (env : Env) (f : MFunc) (ms : MSpec) (sh : List Nat) (mk : List Bool) (r : FuncResult)
    (h : runMappedWith arr fs env f ms sh mk = .ok r) :
    ∃ args : Nat → List (String × Val),
      (∀ li, li < prod (extOf mk sh) → selectArgs fs env f ms (shapeToKey (extOf mk sh) li) = .ok (args li)) ∧
      r.outputs = (f.outputs.map fun o => (o, arr f sh mk args o)) ∧
      r.slots = (f.outputs.map fun o => (o, Slot.array sh mk (cellsOf f (prod (extOf mk sh)) args o))) := by
  unfold runMappedWith at h
  simp only [bind, Except.bind] at h
  split at h
  · cases h
  · next argsAt hm =>
    simp only [pure, Except.pure] at h
    cases h
    have hlen := mapM_ok_length _ _ _ hm
    simp only [List.length_range] at hlen
    refine ⟨fun li => argsAt.getD li [], ?_, rfl, rfl⟩
    intro li hli
    have := mapM_ok_get _ _ _ hm li (by simpa using hli) (by omega)
    simp only [List.getElem_range] at this
    rw [this]
    congr 1
    simp [List.getD, List.getElem?_eq_getElem (show li < argsAt.length by omega)]

theorem runSingle_char (fs : List MFunc) (env : Env) (f : MFunc) (r : FuncResult) (h : runSingle fs env f = .ok r) :
    ∃ args, (f.params.mapM fun (p, orig) => do return (orig, ← argWhole fs env f p)) = .ok args ∧
      r.outputs = (f.outputs.map fun o => (o, outVal f args o)) ∧ slotVals r.slots = r.outputs := by
  unfold runSingle at h
  simp only [bind, Except.bind] at h
  split at h
  · cases h
  · next args hm =>
    simp only [pure, Except.pure] at h
    cases h
    exact ⟨args, hm, rfl, by simp [slotVals, Function.comp_def, Slot.toVal]⟩

/-- one function of a run: its outputs are described by `FuncDenotes`, and what the store holds for it reads back as its outputs -/
theorem runFunc_whole (arr : MFunc → List Nat → List Bool → (Nat → List (String × Val)) → String → Val) (harr : Faithful arr)
    (fs : List MFunc) (shapes : List (String × List Nat)) (masks : List (String × List Bool)) (env : Env) (f : MFunc)
    (r : FuncResult) (h : runFuncWith arr fs shapes masks env f = .ok r) :
    FuncDenotes fs shapes masks env f r.outputs ∧ slotVals r.slots = r.outputs := by
  unfold runFuncWith at h
  split at h
  · next ms hms =>
    split at h
    · next hemp =>
      obtain ⟨args, ha, ho, hs⟩ := runSingle_char fs env f r h
      refine ⟨Or.inr ⟨?_, args, ha, ho⟩, hs⟩
      intro ms' hms'
      rw [hms] at hms'; cases hms'; exact hemp
    · next hemp =>
      split at h
      · cases h
      · next o0 ho0 =>
        split at h
        · next sh mk hsh hmk =>
          split at h
          · cases h
          · next hrank =>
            have hrank' : sh.length = mk.length := by simpa using hrank
            obtain ⟨args, ha, ho, hs⟩ := runMapped_char arr fs env f ms sh mk r h
            have ho' : r.outputs = f.outputs.map fun o => (o, denoteArray f sh mk args o) := by
              rw [ho]; apply List.map_congr_left; intro o _; rw [harr f sh mk args o hrank']
            refine ⟨Or.inl ⟨ms, hms, by simpa using hemp, o0, sh, mk, ho0, hsh, hmk, hrank', args, ha, ho'⟩, ?_⟩
            rw [ho', hs]
            simp only [slotVals, List.map_map]
            apply List.map_congr_left
            intro o _
            simp only [Function.comp_def, stored_eq_denote f sh mk args o hrank']
        · cases h
  · next hnone =>
    obtain ⟨args, ha, ho, hs⟩ := runSingle_char fs env f r h
    refine ⟨Or.inr ⟨?_, args, ha, ho⟩, hs⟩
    intro ms' hms'
    rw [hnone] at hms'; cases hms'

/-- one generation: every function of it ran in the SAME environment, and the slots read back as the outputs -/
theorem runGen_whole (R : Env → MFunc → M FuncResult) (P : Env → MFunc → List (String × Val) → Prop)
    (hR : ∀ env f r, R env f = .ok r → P env f r.outputs ∧ slotVals r.slots = r.outputs)
    (env : Env) : ∀ (gen : List MFunc) (rs : List FuncResult), runGenWith R env gen = .ok rs →
      slotVals (rs.flatMap (·.slots)) = rs.flatMap (·.outputs) ∧
      ∀ f ∈ gen, ∃ outs, P env f outs ∧ ∀ p ∈ outs, p ∈ rs.flatMap (·.outputs) := by
  intro gen
  induction gen with
  | nil =>
    intro rs h
    simp only [runGenWith, pure, Except.pure] at h
    cases h
    simp [slotVals]
  | cons f rest ih =>
    intro rs h
    simp only [runGenWith, bind, Except.bind] at h
    split at h
    · cases h
    · next r hr =>
      split at h
      · cases h
      · next rs' hrs =>
        simp only [pure, Except.pure] at h
        cases h
        obtain ⟨a, b⟩ := hR env f r hr
        obtain ⟨c, d⟩ := ih rs' hrs
        refine ⟨by simp only [List.flatMap_cons, slotVals_append, b, c], ?_⟩
        intro g hg
        rcases List.mem_cons.mp hg with rfl | hg
        · exact ⟨r.outputs, a, fun p hp => by simp only [List.flatMap_cons, List.mem_append]; exact Or.inl hp⟩
        · obtain ⟨outs, ho, hsub⟩ := d g hg
          exact ⟨outs, ho, fun p hp => by simp only [List.flatMap_cons, List.mem_append]; exact Or.inr (hsub p hp)⟩

/-- the generation loop: the final store reads back as (initial store) ++ (all returned outputs); every function ran in an
    environment with the given inputs whose store lies between the initial and the final store (a prefix of the final one) -/
theorem runGens_whole (R : Env → MFunc → M FuncResult) (P : Env → MFunc → List (String × Val) → Prop)
    (hR : ∀ env f r, R env f = .ok r → P env f r.outputs ∧ slotVals r.slots = r.outputs) :
    ∀ (gens : List (List MFunc)) (env : Env) (res : List FuncResult × Env), runGensWith R gens env = .ok res →
      slotVals res.2.store = slotVals env.store ++ res.1.flatMap (·.outputs) ∧
      (∃ suf, res.2.store = env.store ++ suf) ∧
      ∀ f ∈ gens.flatten, ∃ env' outs, env'.inputs = env.inputs ∧
        (∃ pre suf, env'.store = env.store ++ pre ∧ res.2.store = env'.store ++ suf) ∧
        P env' f outs ∧ ∀ p ∈ outs, p ∈ res.1.flatMap (·.outputs) := by
  intro gens
  induction gens with
  | nil =>
    intro env res h
    simp only [runGensWith, pure, Except.pure] at h
    cases h
    simp
  | cons g gs ih =>
    intro env res h
    simp only [runGensWith, bind, Except.bind] at h
    split at h
    · cases h
    · next rs hrs =>
      split at h
      · cases h
      · next res' hres =>
        simp only [pure, Except.pure] at h
        cases h
        obtain ⟨a, b⟩ := runGen_whole R P hR env g rs hrs
        obtain ⟨c, ⟨suf0, hsuf0⟩, d⟩ := ih _ res' hres
        simp only at hsuf0 c d
        refine ⟨?_, ⟨rs.flatMap (·.slots) ++ suf0, by rw [hsuf0]; simp⟩, ?_⟩
        · simp only [c, slotVals_append, a, List.flatMap_append, List.append_assoc]
        · intro f hf
          simp only [List.flatten_cons, List.mem_append] at hf
          rcases hf with hf | hf
          · obtain ⟨outs, ho, hsub⟩ := b f hf
            refine ⟨env, outs, rfl, ⟨[], rs.flatMap (·.slots) ++ suf0, by simp, by rw [hsuf0]; simp⟩, ho, ?_⟩
            intro p hp
            simp only [List.flatMap_append, List.mem_append]
            exact Or.inl (hsub p hp)
          · obtain ⟨env', outs, hin, ⟨pre, suf, hpre, hsuf⟩, ho, hsub⟩ := d f hf
            refine ⟨env', outs, hin, ⟨rs.flatMap (·.slots) ++ pre, suf, by rw [hpre]; simp, hsuf⟩, ho, ?_⟩
            intro p hp
            simp only [List.flatMap_append, List.mem_append]
            exact Or.inr (hsub p hp)

/-- the whole run: what is read back from the store is what is returned, and every function of the pipeline is described by
    `FuncDenotes` in an environment made of the given inputs and a prefix of the returned outputs -/
theorem runMapWith_whole (arr : MFunc → List Nat → List Bool → (Nat → List (String × Val)) → String → Val) (harr : Faithful arr)
    (fs : List MFunc) (inputs : List (String × Val)) (ui : List (String × List Nat)) (r : MapResult)
    (h : runMapWith arr fs inputs ui = .ok r) :
    r.stored = r.outputs ∧
    ∀ f ∈ fs, ∃ env outs, env.inputs = inputs ∧ (∃ suf, r.outputs = slotVals env.store ++ suf) ∧
      FuncDenotes fs r.shapes r.masks env f outs ∧ ∀ p ∈ outs, p ∈ r.outputs := by
  have hc := (runMapWith_outputs arr fs inputs ui r h).2.2
  have hac : acyclic fs = true := by unfold acyclic; simp [hc]
  unfold runMapWith at h
  simp only [bind, Except.bind] at h
  split at h
  · cases h
  · split at h
    · cases h
    · split at h
      · cases h
      · next sm hsm =>
        split at h
        · cases h
        · next res hres =>
          simp only [pure, Except.pure] at h
          cases h
          obtain ⟨a, _, b⟩ := runGens_whole _ (FuncDenotes fs sm.1 sm.2)
            (fun env f r hr => runFunc_whole arr harr fs _ _ env f r hr) _ _ res hres
          simp only [slotVals_nil, List.nil_append] at a b
          have hst : (res.2.store.map fun (o, s) => (o, s.toVal)) = slotVals res.2.store := by
            unfold slotVals; apply List.map_congr_left; rintro ⟨o, s⟩ _; rfl
          refine ⟨by simp only [hst, a], ?_⟩
          intro f hf
          obtain ⟨env', outs, hin, ⟨pre, suf, _, hsuf⟩, hd, hsub⟩ := b f (Validate.mem_flatten_of_acyclic fs hac f hf)
          refine ⟨env', outs, hin, ⟨slotVals suf, ?_⟩, hd, hsub⟩
          simp only
          rw [← a, hsuf, slotVals_append]

/-! ### the request used by the non-vacuity examples of `Props/C01Whole.lean` (the first request of `Props/C01Total.lean`) -/
namespace WholeEx

def ints (n : Nat) : List Val := (List.range n).map fun i => .int (Int.ofNat i)
def mf (name : String) (params outputs : List String) (ms : Option MSpec) (ret internal : Option (List Nat) := none) : MFunc :=
  { name := name, params := params.map fun p => (p, p), outputs := outputs, mapspec := ms, ret := ret, internal := internal,
    defaults := [], bound := [] }
/-- `x[i], u[i], w[j] -> y[j, k, i]` (zip over `i`, outer product with `j`, internal axis `k` in the middle) -/
def msY : MSpec := ⟨[⟨"x", [some "i"]⟩, ⟨"u", [some "i"]⟩, ⟨"w", [some "j"]⟩], [⟨"y", [some "j", some "k", some "i"]⟩]⟩
def fY : MFunc := mf "f" ["x", "u", "w"] ["y"] (some msY) (some [2]) (some [2])
/-- `y[j, :, :] -> z[j]` (a `:` reduction) -/
def fZ : MFunc := mf "g" ["y"] ["z"] (some ⟨[⟨"y", [some "j", none, none]⟩], [⟨"z", [some "j"]⟩]⟩)
/-- `z -> s` (a full reduction, no MapSpec) -/
def fS : MFunc := mf "h" ["z"] ["s"] none
def p1 : List MFunc := [fS, fY, fZ]
def in1 : List (String × Val) := [("x", .arr [3] (ints 3)), ("u", .arr [3] (ints 3)), ("w", .arr [2] (ints 2))]

end WholeEx

end PF.C01
