import PfModel.Lemmas.HashableKeys
import PfModel.Props.C15
/-!
C15, the last sentence of the statement: "memoize and the pipeline caches return a stored result only for a call whose
arguments equal those of the call that produced it" — for the keys pipefunc really uses (`Model/HashableKeys.lean`):
`memoKey` (`memoize`: `to_hashable((args, kwargs))`), `pipeKey` (`compute_cache_key`), `mapKey` (`_get_or_set_cache`).
"Equal arguments" is spelled out: `All2 Equiv` on the positional arguments, `KwSame` on the keywords (the same names with
the same values), and — through `bindArgs`, Python's argument binding — the same *effective* arguments of the function.
-/
namespace PF.C15
open PF.Hashable

def nmX : Name := [120]
def nmY : Name := [121]
def vOne : PV := natAtom 1
def vTwo : PV := natAtom 2
def lst (xs : List PV) : PV := .node .list xs

/-! ### `memoize` -/

/-- Two calls with the same `memoize` key were made with the same positional arguments and the same keywords (names and
    values; the order in which the keywords were written is free). -/
theorem C15_memoize_key_sound (args args' : List PV) (kw kw' : List (Name × PV)) (k : PV)
    (hn : (kw.map Prod.fst).Nodup) (hn' : (kw'.map Prod.fst).Nodup)
    (h : memoKey args kw = .ok k) (h' : memoKey args' kw' = .ok k) : All2 Equiv args args' ∧ KwSame kw kw' := by
  obtain ⟨ha, hk⟩ := equiv_callArg_inv (key_injective _ _ k h h')
  exact ⟨ha, kwSame_of_equiv hk hn hn'⟩

/-- … hence with the same effective arguments, whatever the signature of the function: both calls are rejected by
    Python's argument binding, or both bind every parameter to the same value. -/
theorem C15_memoize_effective_args (ps : List Param) (args args' : List PV) (kw kw' : List (Name × PV)) (k : PV)
    (hn : (kw.map Prod.fst).Nodup) (hn' : (kw'.map Prod.fst).Nodup)
    (h : memoKey args kw = .ok k) (h' : memoKey args' kw' = .ok k) :
    BindSame (bindArgs ps args kw) (bindArgs ps args' kw') := by
  obtain ⟨ha, hk⟩ := C15_memoize_key_sound args args' kw kw' k hn hn' h h'
  exact bindArgs_congr ps ha hk

/-- Conversely, calls that pass the same values in the same way — the same positional arguments, the same keywords in
    any order — get the same key (so the second one is a hit). -/
theorem C15_memoize_key_complete (args args' : List PV) (kw kw' : List (Name × PV)) (k : PV)
    (ha : All2 Equiv args args') (hk : KwPerm kw kw') (hwf : wf (callArg args kw) = true)
    (h : memoKey args kw = .ok k) : memoKey args' kw' = .ok k :=
  key_equiv _ _ (equiv_callArg ha (equiv_kwDict_of_perm hk)) hwf k h

/-- non-vacuity: `f([1], y=2, x=1)` after `f([1], x=1, y=2)` is a hit; `f((1,), …)` is not -/
example : memoKey [lst [vOne]] [(nmX, vOne), (nmY, vTwo)] = memoKey [lst [vOne]] [(nmY, vTwo), (nmX, vOne)] ∧
    (∃ k, memoKey [lst [vOne]] [(nmX, vOne), (nmY, vTwo)] = .ok k) ∧
    memoKey [lst [vOne]] [(nmX, vOne), (nmY, vTwo)] ≠ memoKey [tup [vOne]] [(nmX, vOne), (nmY, vTwo)] :=
  ⟨by decide, ⟨_, rfl⟩, by decide⟩
example : wf (callArg [lst [vOne]] [(nmX, vOne), (nmY, vTwo)]) = true ∧
    KwPerm [(nmX, vOne), (nmY, vTwo)] [(nmY, vTwo), (nmX, vOne)] :=
  ⟨by decide, [(nmY, vTwo), (nmX, vOne)], List.Perm.swap _ _ _,
    .cons ⟨rfl, Equiv.refl _⟩ (.cons ⟨rfl, Equiv.refl _⟩ .nil)⟩

/-- The converse does *not* extend to the way an argument is passed: `f(1)`, `f(x=1)` and `f(1, y=<default>)` have the
    same effective arguments and three different keys (a miss that costs a recomputation, never a wrong result). -/
theorem C15_memoize_passing_style_splits :
    let ps : List Param := [⟨nmX, none⟩, ⟨nmY, some vTwo⟩]
    bindArgs ps [vOne] [] = bindArgs ps [] [(nmX, vOne)] ∧ bindArgs ps [vOne] [] = bindArgs ps [vOne] [(nmY, vTwo)] ∧
    bindArgs ps [vOne] [] = some [(nmX, vOne), (nmY, vTwo)] ∧
    memoKey [vOne] [] ≠ memoKey [] [(nmX, vOne)] ∧ memoKey [vOne] [] ≠ memoKey [vOne] [(nmY, vTwo)] := by decide

/-- `memoize` returns a stored result only for a call with the same arguments as the call that produced it (the memo
    table of `Model/Hashable.lean`, the argument being the `(args, kwargs)` pair). -/
theorem C15_memoize_call (m m' : Memo) (args : List PV) (kw : List (Name × PV)) (r : Nat) (hi : m.Inv)
    (hn : (kw.map Prod.fst).Nodup) (h : m.call (callArg args kw) = .ok (r, true, m')) :
    ∃ k a, (k, a, r) ∈ m.entries ∧ Equiv (callArg args kw) a ∧
      ∀ args0 kw0, a = callArg args0 kw0 → (kw0.map Prod.fst).Nodup →
        All2 Equiv args args0 ∧ KwSame kw kw0 ∧ ∀ ps, BindSame (bindArgs ps args kw) (bindArgs ps args0 kw0) := by
  obtain ⟨k, a, hm, he⟩ := C15_memoize m m' (callArg args kw) r hi h
  refine ⟨k, a, hm, he, ?_⟩
  intro args0 kw0 e hn0
  subst e
  obtain ⟨ha, hk⟩ := equiv_callArg_inv he
  have hks := kwSame_of_equiv hk hn hn0
  exact ⟨ha, hks, fun ps => bindArgs_congr ps ha hks⟩

example : Memo.run {} [callArg [lst [vOne]] [(nmX, vOne), (nmY, vTwo)], callArg [lst [vOne]] [(nmY, vTwo), (nmX, vOne)],
      callArg [tup [vOne]] [(nmX, vOne), (nmY, vTwo)]] = [some (0, false), some (0, true), some (1, false)] := by decide

/-! ### the pipeline cache (`compute_cache_key`) -/

/-- Two calls with the same pipeline-cache key ask for the same output, of a function with the same root arguments, and
    supply the same value for every root argument. -/
theorem C15_pipeline_key_sound (out out' : PV) (roots roots' : List Name) (kw kw' : List (Name × PV)) (k : PV)
    (h : pipeKey out roots kw = .ok (some k)) (h' : pipeKey out' roots' kw' = .ok (some k)) :
    out = out' ∧ roots = roots' ∧ ∀ r ∈ roots, ∃ v v', lookupKw r kw = some v ∧ lookupKw r kw' = some v' ∧ Equiv v v' := by
  obtain ⟨l, hl, e⟩ := pipeKey_some h
  obtain ⟨l', hl', e'⟩ := pipeKey_some h'
  rw [e] at e'
  simp only [tup, PV.node.injEq, true_and, List.cons.injEq, and_true] at e'
  obtain ⟨e1, e2⟩ := e'
  subst e1; subst e2
  obtain ⟨hr, hv⟩ := pipeItems_inj hl hl'
  exact ⟨rfl, hr, hv⟩

/-- Conversely: the same output and the same values for the root arguments give the same key — whatever else is in
    `kwargs`, and in whatever order (defaults filled in or given explicitly make no difference: `kwargs` is
    `defaults | supplied`, `_pipeline/_base.py:551`). -/
theorem C15_pipeline_key_complete (out : PV) (roots : List Name) (kw kw' : List (Name × PV)) (k : PV)
    (hv : ∀ r ∈ roots, ∀ v, lookupKw r kw = some v → wf v = true ∧ ∃ v', lookupKw r kw' = some v' ∧ Equiv v v')
    (h : pipeKey out roots kw = .ok (some k)) : pipeKey out roots kw' = .ok (some k) := by
  obtain ⟨l, hl, e⟩ := pipeKey_some h
  simp only [pipeKey, pipeItems_congr hv hl, e]

/-- no key when a root argument is not supplied (the call is computed and not cached) -/
theorem C15_pipeline_key_none (out : PV) (roots : List Name) (kw : List (Name × PV)) (r : Name) (hr : r ∈ roots)
    (hm : lookupKw r kw = none) (k : PV) : pipeKey out roots kw ≠ .ok (some k) := by
  intro h
  obtain ⟨l, hl, _⟩ := pipeKey_some h
  obtain ⟨i, _, v, _, hv, _⟩ := (pipeItems_some hl).mem_left r hr
  rw [hm] at hv; cases hv

example : pipeKey (strAtom nmY) [nmX] [(nmX, lst [vOne])] = pipeKey (strAtom nmY) [nmX] [(nmY, vTwo), (nmX, lst [vOne])] ∧
    (∃ k, pipeKey (strAtom nmY) [nmX] [(nmX, lst [vOne])] = .ok (some k)) ∧
    pipeKey (strAtom nmY) [nmX] [(nmX, lst [vOne])] ≠ pipeKey (strAtom nmY) [nmX] [(nmX, tup [vOne])] ∧
    pipeKey (strAtom nmY) [nmX] [(nmX, lst [vOne])] ≠ pipeKey (strAtom nmX) [nmX] [(nmX, lst [vOne])] ∧
    pipeKey (strAtom nmY) [nmX, nmY] [(nmX, lst [vOne])] = .ok none :=
  ⟨by decide, ⟨_, rfl⟩, by decide, by decide, by decide⟩

/-- the invariant of the pipeline cache: every entry is stored under the key of the call that produced it -/
theorem C15_pipeline_cache_inv (c c' : PCache) (out : PV) (roots : List Name) (kw : List (Name × PV)) (r : Nat) (hit : Bool)
    (hi : c.Inv) (h : c.call out roots kw = .ok (r, hit, c')) : c'.Inv := by
  unfold PCache.call at h
  cases hk : pipeKey out roots kw with
  | error e => rw [hk] at h; cases h
  | ok o =>
    rw [hk] at h
    cases o with
    | none => simp only at h; cases h; exact hi
    | some k =>
      simp only at h
      cases hl : PCache.lookup k c.entries with
      | some p => rw [hl] at h; cases h; exact hi
      | none =>
        rw [hl] at h; cases h
        intro e he
        cases he with
        | head => exact hk
        | tail _ he => exact hi e he

/-- The pipeline cache returns a stored result only for a call that asks for the same output with the same values of the
    root arguments as the call that produced it. -/
theorem C15_pipeline_cache (c c' : PCache) (out : PV) (roots : List Name) (kw : List (Name × PV)) (r : Nat) (hi : c.Inv)
    (h : c.call out roots kw = .ok (r, true, c')) :
    ∃ k kw0, (k, (out, roots, kw0), r) ∈ c.entries ∧
      ∀ x ∈ roots, ∃ v v0, lookupKw x kw = some v ∧ lookupKw x kw0 = some v0 ∧ Equiv v v0 := by
  unfold PCache.call at h
  cases hk : pipeKey out roots kw with
  | error e => rw [hk] at h; cases h
  | ok o =>
    rw [hk] at h
    cases o with
    | none => simp only at h; cases h
    | some k =>
      simp only at h
      cases hl : PCache.lookup k c.entries with
      | none => rw [hl] at h; cases h
      | some p =>
        obtain ⟨⟨out0, roots0, kw0⟩, r'⟩ := p
        rw [hl] at h
        cases h
        have hm := PCache.lookup_some hl
        obtain ⟨e1, e2, hv⟩ := C15_pipeline_key_sound out out0 roots roots0 kw kw0 k hk (hi _ hm)
        subst e1; subst e2
        exact ⟨k, kw0, hm, hv⟩

/-- non-vacuity: the second call (another order, an extra non-root keyword) hits, the look-alike tuple does not, a call
    without the root argument is computed and not stored -/
example : PCache.run {} [(strAtom nmY, [nmX], [(nmX, lst [vOne])]), (strAtom nmY, [nmX], [(nmY, vTwo), (nmX, lst [vOne])]),
      (strAtom nmY, [nmX], [(nmX, tup [vOne])]), (strAtom nmY, [nmX], [])] =
    [some (0, false), some (0, true), some (1, false), some (2, false)] := by decide

/-! ### the cache of `pipeline.map` (`_get_or_set_cache`) -/

/-- Two element calls with the same key belong to the same function (output name) and pass the same keyword values. -/
theorem C15_map_key_sound (out out' : PV) (kw kw' : List (Name × PV)) (k : PV)
    (hn : (kw.map Prod.fst).Nodup) (hn' : (kw'.map Prod.fst).Nodup)
    (h : mapKey out kw = .ok k) (h' : mapKey out' kw' = .ok k) : out = out' ∧ KwSame kw kw' := by
  simp only [mapKey] at h h'
  cases hk : key true (kwDict kw) with
  | error e => rw [hk] at h; cases h
  | ok a =>
    cases hk' : key true (kwDict kw') with
    | error e => rw [hk'] at h'; cases h'
    | ok a' =>
      rw [hk] at h; rw [hk'] at h'
      cases h
      simp only [tup, Except.ok.injEq, PV.node.injEq, true_and, List.cons.injEq, and_true] at h'
      obtain ⟨e1, e2⟩ := h'
      subst e1; subst e2
      exact ⟨rfl, kwSame_of_equiv (key_injective _ _ _ hk hk') hn hn'⟩

/-- … and the same keyword values, in any order, give the same key. -/
theorem C15_map_key_complete (out : PV) (kw kw' : List (Name × PV)) (k : PV) (hk : KwPerm kw kw')
    (hwf : wf (kwDict kw) = true) (h : mapKey out kw = .ok k) : mapKey out kw' = .ok k := by
  simp only [mapKey] at h ⊢
  cases hk1 : key true (kwDict kw) with
  | error e => rw [hk1] at h; cases h
  | ok a =>
    rw [hk1] at h
    rw [key_equiv _ _ (equiv_kwDict_of_perm hk) hwf a hk1]
    exact h

example : mapKey (strAtom nmY) [(nmX, lst [vOne]), (nmY, vTwo)] = mapKey (strAtom nmY) [(nmY, vTwo), (nmX, lst [vOne])] ∧
    (∃ k, mapKey (strAtom nmY) [(nmX, lst [vOne]), (nmY, vTwo)] = .ok k) ∧
    mapKey (strAtom nmY) [(nmX, lst [vOne])] ≠ mapKey (strAtom nmY) [(nmX, tup [vOne])] :=
  ⟨by decide, ⟨_, rfl⟩, by decide⟩

end PF.C15
