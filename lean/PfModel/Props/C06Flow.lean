import PfModel.Lemmas.MapPiecesFlowRun
import PfModel.Props.C06
/-!
C06, round 2 — the data flow of a run in pieces, at pipeline level.  `C06_pieces_partial` (Props/C06.lean) assumes that a part
reads, at the indices it computes, the arguments the full run reads (`hreads`).  Here that hypothesis is DERIVED from the
structure of selections: under the static, decidable well-formedness `flowWF` (Model/MapPiecesFlow.lean: same axis names at the
same positions of an array in producer and consumer, no fixed axis taken whole or sliced with `:`, equal sizes of equally named
axes — what `validate_consistent_axes`, `_validate_fixed_indices` and `MapSpec.shape` enforce; evaluated by the driver on every
generated case) every part of a run in pieces, on a folder that holds only elements of the full run, calls its functions with
arguments the full run calls them with and stores only elements the full run stores.
-/
namespace PF.C06
open PF PF.Map PF.Pieces

/-- **Function level: a part reads what the full run reads.**  When the part's store and the full run's store are related
    (`StoreRel`: same arrays, the part's holding only elements of the full run's and every element its producer's selection
    covers), `_select_kwargs` at a selected index of a well-formed consumer delivers the same arguments in both — this is the
    hypothesis `hreads` of `C06_pieces_partial` with `A` = the full run's arguments. -/
theorem C06_reads_flow (fs : List MFunc) (shapes : List (String × List Nat)) (masks : List (String × List Bool)) (fx : List (String × Sel))
    (inputs : List (String × Val)) (P F : List (String × Slot)) (hrel : StoreRel fs shapes masks fx P F) (g : MFunc) (ms : MSpec)
    (o : String) (hok : funcOK fs shapes masks inputs fx g = true) (hms : g.mapspec = some ms) (hin : ms.inputs.isEmpty = false)
    (ho : g.outputs.head? = some o) (lsG : List (List Nat)) (E : List Nat)
    (hls : selLists (extOf (maskOfName masks o) (ms.outputIndices.map (fixedLookup fx)))
      (extOf (maskOfName masks o) (shapeOfName shapes o)) = .ok lsG)
    (hE : InRange (extOf (maskOfName masks o) (shapeOfName shapes o)) E) (hsel : selected lsG E = true) :
    selectArgs fs { inputs := inputs, store := P } g ms E = selectArgs fs { inputs := inputs, store := F } g ms E :=
  selectArgs_flow fs shapes masks fx inputs P F hrel g ms o hok hms hin ho lsG E hls hE hsel

/-- **Pipeline level: one part.**  `rF`: the full run (nothing fixed, empty folder); `rP`: a part with `fixed_indices = fx`
    on a folder `old` that holds only elements the full run stores.  If the request is well-formed (`flowWF`, decidable, on the
    shapes and masks `map_shapes` computed) and no two functions of the pipeline share an output name, then
    (1) every call of the part is a call of the full run — same function, same arguments: nothing is computed from stale or
        missing upstream data;
    (2) the folder afterwards again holds only elements the full run stores (so the next part may run on it);
    (3) the part's store and the full run's are related position by position (`StoreRel`: every element a function's selection
        covers is present).
    Together with `C06_part` (the indices a part computes are exactly the selected missing ones) this discharges the
    hypothesis of `C06_pieces_partial`. -/
theorem C06_pieces_flow (fs : List MFunc) (inputs : List (String × Val)) (ui : List (String × List Nat)) (fx : List (String × Sel))
    (old : List (String × Slot)) (rF rP : PartResult)
    (hF : runPart fs inputs ui none [] = .ok rF) (hP : runPart fs inputs ui (some fx) old = .ok rP)
    (hwf : flowWF fs rF.res.shapes rF.res.masks inputs fx = true)
    (hnd : (akeys rF.store).Nodup) (hold : OldLe old rF.store) :
    (∀ c ∈ rP.res.calls, c ∈ rF.res.calls) ∧ OldLe rP.store rF.store ∧
    StoreRel fs rF.res.shapes rF.res.masks fx rP.store rF.store := by
  unfold runPart at hF hP
  cases hv : validateInputs fs inputs with
  | error e => rw [hv] at hF; cases hF
  | ok u =>
    rw [hv] at hF hP
    simp only [bind, Except.bind, pure, Except.pure] at hF hP
    by_cases hc : (generations fs).flatten.length ≠ fs.length
    · rw [if_pos hc] at hF; cases hF
    · rw [if_neg hc] at hF hP
      cases hvf : validateFixed fs inputs (some fx) with
      | error e => rw [hvf] at hP; cases hP
      | ok u' =>
        rw [hvf] at hP
        simp only [validateFixed, pure, Except.pure] at hF
        cases hm : mapShapes fs inputs (constructInternal fs ui) with
        | error e => rw [hm] at hF; cases hF
        | ok sm =>
          obtain ⟨shapes, masks⟩ := sm
          rw [hm] at hF hP
          simp only [] at hF hP
          cases h1 : runGensWith (runFuncPart fs shapes masks none []) (generations fs) { inputs := inputs, store := [] } with
          | error e => rw [h1] at hF; cases hF
          | ok r1 =>
            cases h2 : runGensWith (runFuncPart fs shapes masks (some fx) old) (generations fs) { inputs := inputs, store := [] } with
            | error e => rw [h2] at hP; cases hP
            | ok r2 =>
              obtain ⟨rsF, envF⟩ := r1
              obtain ⟨rsP, envP⟩ := r2
              rw [h1] at hF
              rw [h2] at hP
              simp only [Except.ok.injEq] at hF hP
              subst hF; subst hP
              simp only [] at hwf hnd hold ⊢
              have hok : ∀ gen ∈ generations fs, ∀ g ∈ gen, funcOK fs shapes masks inputs fx g = true := by
                intro gen hgen g hg
                have := layers_mem fs (fs.length + 1) [] fs (fun g h => h) gen hgen g hg
                exact (List.all_eq_true.mp hwf) g this
              obtain ⟨a1, a2⟩ := gens_step fs shapes masks fx inputs old envF.store hold hnd (generations fs) [] [] rsF rsP envF envP
                (by simp [StoreRel]) hok h1 h2 (fun kv h => h)
              exact ⟨a2, oldLe_of_storeRel fs shapes masks fx _ _ a1, a1⟩

/-- **Pipeline level: a sequence of parts** (`runPieces`, one `map(fixed_indices=…, cleanup=False)` per part, each on the
    folder the previous one left), in any order, overlapping or not: every call of every part is a call of the full run, and
    the folder never holds anything the full run does not store. -/
theorem C06_pieces_flow_seq (fs : List MFunc) (inputs : List (String × Val)) (ui : List (String × List Nat)) (rF : PartResult)
    (hF : runPart fs inputs ui none [] = .ok rF) (hnd : (akeys rF.store).Nodup) :
    ∀ (parts : List (List (String × Sel))) (old : List (String × Slot)) (rs : List PartResult),
      OldLe old rF.store → (∀ fx ∈ parts, flowWF fs rF.res.shapes rF.res.masks inputs fx = true) →
      runPieces fs inputs ui (parts.map some) old = .ok rs →
      (∀ r ∈ rs, ∀ c ∈ r.res.calls, c ∈ rF.res.calls) ∧ (∀ r ∈ rs, OldLe r.store rF.store) := by
  intro parts
  induction parts with
  | nil =>
    intro old rs _ _ h
    simp only [List.map_nil, runPieces, pure, Except.pure, Except.ok.injEq] at h
    subst h
    simp
  | cons fx rest ih =>
    intro old rs hold hwf h
    simp only [List.map_cons, runPieces, bind, Except.bind] at h
    cases h1 : runPart fs inputs ui (some fx) old with
    | error e => rw [h1] at h; cases h
    | ok r =>
      rw [h1] at h
      simp only [] at h
      cases h2 : runPieces fs inputs ui (rest.map some) r.store with
      | error e => rw [h2] at h; cases h
      | ok rs' =>
        rw [h2] at h
        simp only [pure, Except.pure, Except.ok.injEq] at h
        subst h
        obtain ⟨a1, a2, _⟩ := C06_pieces_flow fs inputs ui fx old rF r hF h1 (hwf fx List.mem_cons_self) hnd hold
        obtain ⟨b1, b2⟩ := ih r.store rs' a2 (fun fx' h' => hwf fx' (List.mem_cons_of_mem _ h')) h2
        constructor
        · intro r' hr'
          rcases List.mem_cons.mp hr' with e | e
          · subst e; exact a1
          · exact b1 r' e
        · intro r' hr'
          rcases List.mem_cons.mp hr' with e | e
          · subst e; exact a2
          · exact b2 r' e

/-! ### non-vacuity -/

private def gY : MFunc := { name := "f", params := [("x", "x")], outputs := ["y"], mapspec := some { inputs := [⟨"x", [some "i"]⟩], outputs := [⟨"y", [some "i"]⟩] }, ret := none, internal := none, defaults := [], bound := [] }
private def gZ : MFunc := { name := "g", params := [("y", "y"), ("w", "w")], outputs := ["z"], mapspec := some { inputs := [⟨"y", [some "i"]⟩, ⟨"w", [some "j"]⟩], outputs := [⟨"z", [some "j", some "i"]⟩] }, ret := none, internal := none, defaults := [], bound := [] }
private def gIn : List (String × Val) := [("x", .arr [3] [.int 0, .int 1, .int 2]), ("w", .arr [2] [.int 7, .int 8])]
private def gFx : List (String × Sel) := [("i", .slice (some 1) none none)]

/-- the hypotheses of `C06_pieces_flow` on `x[i] -> y[i]`, `y[i], w[j] -> z[j, i]` with the part `{"i": slice(1, None)}`: both
    runs succeed, the request is well-formed, output names are unique, and the part makes 2 + 4 of the full run's 3 + 6 calls -/
private def flowDemo : Bool :=
  match runPart [gY, gZ] gIn [] none [], runPart [gY, gZ] gIn [] (some gFx) [] with
  | .ok rF, .ok rP => flowWF [gY, gZ] rF.res.shapes rF.res.masks gIn gFx && decide ((akeys rF.store).Nodup) &&
      (rP.res.calls.length == 6) && (rF.res.calls.length == 9)
  | _, _ => false

example : flowDemo = true := by decide

example : ∃ rF rP, runPart [gY, gZ] gIn [] none [] = .ok rF ∧ runPart [gY, gZ] gIn [] (some gFx) [] = .ok rP ∧
    flowWF [gY, gZ] rF.res.shapes rF.res.masks gIn gFx = true ∧ (akeys rF.store).Nodup ∧ OldLe [] rF.store := by
  have h : flowDemo = true := by decide
  unfold flowDemo at h
  split at h
  · next rF rP hF hP =>
    simp only [Bool.and_eq_true, decide_eq_true_eq] at h
    exact ⟨rF, rP, hF, hP, h.1.1.1, h.1.1.2, by constructor <;> simp [oldCells, alookup, cellLookup]⟩
  · cases h

/-- a fixed axis that a consumer slices with `:` is not well-formed: `flowWF` refuses `{"i": 0}` when `total(y)` takes `y` whole -/
example : flowWF [gY, { name := "t", params := [("y", "y")], outputs := ["t"], mapspec := none, ret := none, internal := none, defaults := [], bound := [] }]
    [("x", [3]), ("y", [3])] [("x", [true]), ("y", [true])] [("x", .arr [3] [.int 0, .int 1, .int 2])] [("i", .idx 0)] = false := by decide

end PF.C06
