/-
Lemmas for `Model/PipelineSession.lean`: the evaluation with the defaults table as a parameter is `run` when the table is the true one;
the cache-coherence invariant of the pipeline object and its preservation by every step.  Core Lean only.
-/
import PfModel.Model.PipelineSession
namespace PF.Pipe
open PF

theorem tableOf_pdefaults (fs : List Func) : tableOf (pdefaults fs) = pdefault fs := rfl

theorem resolveD_eq (fs : List Func) (kw : List (String × Val)) (f : Func) (p : String) :
    resolveD (pdefault fs) fs kw f p = resolve fs kw f p := rfl

theorem argsWithD_eq (fs : List Func) (kw : List (String × Val)) (f : Func)
    (recD rec : String → St → Except Err (Val × St)) (h : ∀ o s, recD o s = rec o s) :
    ∀ (ps : List (String × String)) (s : St), argsWithD (pdefault fs) recD fs kw f ps s = argsWith rec fs kw f ps s := by
  intro ps
  induction ps with
  | nil => intro s; rfl
  | cons po ps ih =>
    intro s
    obtain ⟨p, orig⟩ := po
    simp only [argsWithD, argsWith, resolveD_eq, h, ih]
    cases resolve fs kw f p with
    | missing => rfl
    | val v => rfl
    | upstream => simp only []; cases rec p s <;> rfl

theorem runD_eq (fs : List Func) (kw : List (String × Val)) :
    ∀ (n : Nat) (o : String) (s : St), runD (pdefault fs) fs kw n o s = run fs kw n o s := by
  intro n
  induction n with
  | zero => intro o s; rfl
  | succ n ih =>
    intro o s
    simp only [runD, run]
    cases alookup s.memo o with
    | some v => rfl
    | none =>
      simp only []
      cases producer fs o with
      | none => rfl
      | some f => simp only []; rw [argsWithD_eq fs kw f _ _ (fun o s => ih o s)]; rfl

theorem runTopD_eq (fs : List Func) (kw : List (String × Val)) (req : Req) :
    runTopD (pdefault fs) fs kw req = runTop fs kw req := by
  cases req with
  | name o =>
    simp only [runTopD, runTop, runD_eq]
    rfl
  | whole os =>
    simp only [runTopD, runTop]
    cases fs.find? (fun f => f.outputs = os) with
    | none => rfl
    | some f => simp only []; rw [argsWithD_eq fs kw f _ _ (fun o s => runD_eq fs kw _ o s)]; rfl

/-- every table the object holds is what a fresh computation over the current functions gives -/
structure Coherent (s : PState) : Prop where
  dflt : ∀ d, s.dflt = some d → d = pdefaults s.fs
  roots : ∀ q r, lookupReq s.roots q = some r → reqRootArgs s.fs q = some r
  combos : ∀ o c, lookupCombos s.combos o = some c → argCombinations s.fs o = some c

theorem coherent_init (fs : List Func) : Coherent (PState.init fs) :=
  ⟨(by intro d h; cases h), (by intro q r h; cases h), (by intro o c h; cases h)⟩

theorem Coherent.table {s : PState} (h : Coherent s) : s.table = pdefaults s.fs := by
  unfold PState.table
  cases hd : s.dflt with
  | none => rfl
  | some d => simp [h.dflt d hd]

theorem Coherent.touch {s : PState} (h : Coherent s) (fill : Bool) : Coherent (s.touch fill) ∧ (s.touch fill).fs = s.fs := by
  unfold PState.touch
  cases fill with
  | false => exact ⟨h, rfl⟩
  | true =>
    refine ⟨⟨?_, h.roots, h.combos⟩, rfl⟩
    intro d hd
    simp only [if_true] at hd
    cases hd
    exact h.table

theorem Coherent.rootsOf {s : PState} (h : Coherent s) (q : Req) :
    (s.rootsOf q).1 = reqRootArgs s.fs q ∧ Coherent (s.rootsOf q).2 ∧ (s.rootsOf q).2.fs = s.fs := by
  unfold PState.rootsOf
  cases hl : lookupReq s.roots q with
  | some r => exact ⟨(h.roots q r hl).symm, h, rfl⟩
  | none =>
    cases hr : reqRootArgs s.fs q with
    | none => exact ⟨rfl, h, rfl⟩
    | some r =>
      refine ⟨rfl, ⟨h.dflt, ?_, h.combos⟩, rfl⟩
      intro q' r' hq
      simp only [lookupReq] at hq
      split at hq
      · next e => cases hq; subst e; exact hr
      · exact h.roots q' r' hq

theorem Coherent.combosOf {s : PState} (h : Coherent s) (o : String) :
    (s.combosOf o).1 = argCombinations s.fs o ∧ Coherent (s.combosOf o).2 ∧ (s.combosOf o).2.fs = s.fs := by
  unfold PState.combosOf
  cases hl : lookupCombos s.combos o with
  | some c => exact ⟨(h.combos o c hl).symm, h, rfl⟩
  | none =>
    cases hr : argCombinations s.fs o with
    | none => exact ⟨rfl, h, rfl⟩
    | some c =>
      refine ⟨rfl, ⟨h.dflt, h.roots, ?_⟩, rfl⟩
      intro o' c' hq
      simp only [lookupCombos] at hq
      split at hq
      · next e => cases hq; subst e; exact hr
      · exact h.combos o' c' hq

theorem Coherent.runTopD {s : PState} (h : Coherent s) (kw : List (String × Val)) (req : Req) :
    runTopD (tableOf s.table) s.fs kw req = runTop s.fs kw req := by
  rw [h.table, tableOf_pdefaults, runTopD_eq]

/-- one query: the object answers what a fresh pipeline answers, and its tables stay coherent -/
theorem cachedAnswer_fresh {s : PState} (h : Coherent s) (fill : Bool) (q : Query) :
    (cachedAnswer s fill q).1 = freshAnswer s.fs q ∧ Coherent (cachedAnswer s fill q).2 ∧ (cachedAnswer s fill q).2.fs = s.fs := by
  cases q with
  | run kw req =>
    have e : cachedAnswer s fill (.run kw req) = (.outcome (liftE (runTop s.fs kw req)), s.touch fill) := by
      simp only [cachedAnswer, h.runTopD]
    rw [e]; exact ⟨rfl, h.touch fill⟩
  | func kw req =>
    obtain ⟨h1, h2, h3⟩ := h.rootsOf req
    rcases hro : s.rootsOf req with ⟨r, s1⟩
    rw [hro] at h1 h2 h3
    simp only at h1 h2 h3
    cases r with
    | none =>
      have e : cachedAnswer s fill (.func kw req) = (.outcome (.error (.pipe (.noFunc req.label))), s1) := by
        simp only [cachedAnswer, hro]
      have e2 : freshAnswer s.fs (.func kw req) = .outcome (.error (.pipe (.noFunc req.label))) := by
        simp only [freshAnswer, funcCall, ← h1]; rfl
      rw [e, e2]; exact ⟨rfl, h2, h3⟩
    | some r =>
      have hrt := h2.runTopD kw req
      rw [h3] at hrt
      have e : cachedAnswer s fill (.func kw req) = (.outcome (liftE (runTop s.fs kw req)), s1.touch fill) := by
        simp only [cachedAnswer, hro, h3, hrt]
      have e2 : freshAnswer s.fs (.func kw req) = .outcome (liftE (runTop s.fs kw req)) := by
        simp only [freshAnswer, funcCall, ← h1]
      rw [e, e2]; exact ⟨rfl, (h2.touch fill).1, (h2.touch fill).2.trans h3⟩
  | callRoot req pos kw =>
    obtain ⟨h1, h2, h3⟩ := h.rootsOf req
    rcases hro : s.rootsOf req with ⟨r, s1⟩
    rw [hro] at h1 h2 h3
    simp only at h1 h2 h3
    cases r with
    | none =>
      have e : cachedAnswer s fill (.callRoot req pos kw) = (.outcome (.error (.pipe (.noFunc req.label))), s1) := by
        simp only [cachedAnswer, hro]
      have e2 : freshAnswer s.fs (.callRoot req pos kw) = .outcome (.error (.pipe (.noFunc req.label))) := by
        simp only [freshAnswer, callRoot, ← h1]
      rw [e, e2]; exact ⟨rfl, h2, h3⟩
    | some r =>
      cases hb : bindRoot r pos kw with
      | error er =>
        have e : cachedAnswer s fill (.callRoot req pos kw) = (.outcome (.error er), s1) := by
          simp only [cachedAnswer, hro, hb]
        have e2 : freshAnswer s.fs (.callRoot req pos kw) = .outcome (.error er) := by
          simp only [freshAnswer, callRoot, ← h1, hb]
        rw [e, e2]; exact ⟨rfl, h2, h3⟩
      | ok kw' =>
        have hrt := h2.runTopD kw' req
        rw [h3] at hrt
        have e : cachedAnswer s fill (.callRoot req pos kw) = (.outcome (liftE (runTop s.fs kw' req)), s1.touch fill) := by
          simp only [cachedAnswer, hro, hb, h3, hrt]
        have e2 : freshAnswer s.fs (.callRoot req pos kw) = .outcome (liftE (runTop s.fs kw' req)) := by
          simp only [freshAnswer, callRoot, ← h1, hb]
        rw [e, e2]; exact ⟨rfl, (h2.touch fill).1, (h2.touch fill).2.trans h3⟩
  | callLeaf kw =>
    have e2 : freshAnswer s.fs (.callLeaf kw) = .outcome (callLeaf s.fs kw) := rfl
    rw [e2]
    unfold callLeaf
    simp only [cachedAnswer]
    generalize leafFuncs s.fs = l
    rcases l with _ | ⟨f, _ | ⟨g, t⟩⟩
    · exact ⟨rfl, h, rfl⟩
    · exact ⟨by simp only [h.runTopD], (h.touch fill).1, (h.touch fill).2⟩
    · exact ⟨rfl, h, rfl⟩
  | pfCall req kw => exact ⟨rfl, h, rfl⟩
  | defaults =>
    have e : cachedAnswer s fill .defaults = (.table (pdefaults s.fs), s.touch true) := by
      simp only [cachedAnswer, h.table]
    rw [e]; exact ⟨rfl, h.touch true⟩
  | argCombos o =>
    obtain ⟨h1, h2, h3⟩ := h.combosOf o
    rcases hco : s.combosOf o with ⟨c, s1⟩
    rw [hco] at h1 h2 h3
    simp only at h1 h2 h3
    have e2 : freshAnswer s.fs (.argCombos o) = .combos c (rootArgs s.fs o) := by simp only [freshAnswer, h1]
    rw [e2]
    cases hl : lookupReq s1.roots (.name o) with
    | some r =>
      have hr := h2.roots _ _ hl
      simp only [reqRootArgs, h3] at hr
      have e : cachedAnswer s fill (.argCombos o) = (.combos c (some r), s1) := by simp only [cachedAnswer, hco, hl]
      rw [e, hr]; exact ⟨rfl, h2, h3⟩
    | none =>
      cases c with
      | none =>
        have e : cachedAnswer s fill (.argCombos o) = (.combos none none, s1) := by simp only [cachedAnswer, hco, hl]
        have hr : rootArgs s.fs o = none := by simp only [rootArgs, ← h1]
        rw [e, hr]; exact ⟨rfl, h2, h3⟩
      | some cs =>
        have hr : rootArgs s.fs o = cs.find? (fun c => c.all fun n => (producer s.fs n).isNone) := by
          simp only [rootArgs, ← h1]
        cases hf : cs.find? (fun c => c.all fun n => (producer s.fs n).isNone) with
        | none =>
          have e : cachedAnswer s fill (.argCombos o) = (.combos (some cs) none, s1) := by
            simp only [cachedAnswer, hco, hl, h3, hf]
          rw [e, hr, hf]; exact ⟨rfl, h2, h3⟩
        | some r =>
          have e : cachedAnswer s fill (.argCombos o) = (.combos (some cs) (some r), { s1 with roots := (.name o, r) :: s1.roots }) := by
            simp only [cachedAnswer, hco, hl, h3, hf]
          rw [e, hr, hf]
          refine ⟨rfl, ⟨h2.dflt, ?_, h2.combos⟩, h3⟩
          intro q' r' hq
          simp only [lookupReq] at hq
          split at hq
          · next eq =>
            cases hq; subst eq
            simp only [reqRootArgs, h3, hr, hf]
          · exact h2.roots q' r' hq

/-- one step of the object as implemented -/
theorem cachedStep_fresh {s : PState} (h : Coherent s) (st : Step) :
    (cachedStep s st).1 = (freshStep s.fs st).1 ∧ Coherent (cachedStep s st).2 ∧ (cachedStep s st).2.fs = (freshStep s.fs st).2 := by
  cases st with
  | edit e =>
    have hc : ({} : Invalidation).clears e = true := by cases e <;> rfl
    have e1 : cachedStep s (.edit e) = (.edited (editErr s.fs e), PState.init (editFs s.fs e)) := by
      simp only [cachedStep, cachedStepI, hc, if_true]
    rw [e1]; exact ⟨rfl, coherent_init _, rfl⟩
  | query fill q => exact cachedAnswer_fresh h fill q

/-! the session of the seeded change C02-s4-A: f(a, b=1) → y, h(y, d) → w; ask for `w` with `d`, give `d` a default on the member, ask without -/
def fY : Func := ⟨"f", [("a", "a"), ("b", "b")], ["y"], [("b", .int 1)], []⟩
def fW : Func := ⟨"h", [("y", "y"), ("d", "d")], ["w"], [], []⟩
def demoFs : List Func := [fY, fW]
def demo : List Step :=
  [.query true (.run [("a", .int 0), ("d", .int 5)] (.name "w")),
   .edit (.memberDefaults "h" "d" (.int 8)),
   .query true (.run [("a", .int 0)] (.name "w"))]

end PF.Pipe
