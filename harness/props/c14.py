"""C14 — Cache containers conform to their replacement-policy model.

Correspondence: `pipefunc.cache.{LRUCache, HybridCache, SimpleCache, DiskCache}` driven through their public methods
(`put`, `get`, `in`, `len`, `clear`, the `cache` property, a new `DiskCache` on the same directory, pickling into worker
processes for `shared=True`) against `PF.Cache` (lean/PfModel/Model/CachePolicy.lean).  After **every** operation the
harness probes `k in cache` for the whole key alphabet, `len(cache)` and the public `cache` mapping and compares them with
the model's state; the property's own clauses (nothing raises, `len <= max_size`, present iff `get` returns the value most
recently put) are evaluated on the implementation's answers directly.
"""
from __future__ import annotations

import collections
import copy
import multiprocessing
import os
import pickle
import re
import shutil
import tempfile
import time
from pathlib import Path

import pfimport  # noqa: F401
from pfimport import exc_enum
from pipefunc.cache import DiskCache, HybridCache, LRUCache, SimpleCache

PID = "C14"
PROPS = ["PfModel.Props.C14"]
DRIVER = "C14"
RULE = ("(1) explicit-state exploration: breadth-first over the abstract states of a Python transcription of the policies (used "
        "only to find a shortest history to every reachable state, never for a verdict), 3-4 keys, max_size 1..3; every "
        "transition of every reachable state becomes a case 'shortest history + operation', executed on the real cache with "
        "presence of all keys, len and the cache mapping probed after every step; (2) seeded random histories of length <= 40 "
        "(put-heavy, re-puts of resident keys, clear, reopen for DiskCache with changed max_size / LRU size); (3) shared=True "
        "caches pickled into 2 forked worker processes, every operation issued by a harness-chosen process, probes from the "
        "parent; (4) separate streams: zero durations (HybridCache), unhashable keys, max_size=0, pickling a non-shared cache. "
        "A case is non-trivial when it contains a put that evicts or re-puts a resident key, or a hit; distinct by its JSON")
ASSUMPTIONS = [
    "operations are atomic in the model; shared=True is exercised with harness-serialised interleavings from 3 processes plus an "
    "invariants-only concurrent soak (thorough) — the check-then-lock windows of truly concurrent callers are not proved",
    "HybridCache scores are exact rationals in the model and floats in the code: an eviction whose two lowest scores are closer "
    "than 1e-9 relative without being computed from identical (count, duration) pairs ends the comparison of that case (counted)",
    "DiskCache 'oldest file' is st_ctime_ns order; the harness spaces file writes until a probe file's ctime has advanced "
    "(granularity measured at start-up and reported), so that 'oldest' is unambiguous; the model uses a logical clock",
    "values are never None (get returns None for a miss); keys are picklable hashable atoms/tuples",
    "DiskCache.__contains__/get consult the in-memory LRU first, so a key whose file was evicted stays present while the "
    "LRU holds it: len counts files (documented: 'maximum number of cache files'), presence is LRU-or-file; modelled as such",
]

KEYS = ["a", "b", ("c", 1), 3]          # index in this list = key number in the model
WEIGHTS = [(1, 1), (1, 0), (0, 1), (1, 3), (3, 1), (3, 7)]   # (wa, wd): access_weight = wa/(wa+wd), duration_weight = wd/(wa+wd)


def val(n):
    return ("v", n)


# ------------------------------------------------------------------------------------------------ implementation side
class Spacer:
    """Keeps DiskCache file writes apart in st_ctime_ns: after a write, a probe file outside the cache directory is rewritten
    until its ctime is later than every cache file's.  Timestamps are only used to pace the generator, never compared with
    the model."""

    def __init__(self, base: Path):
        self.probe = base / "ctime-probe"
        self.spins = 0
        stamps = []
        t0 = time.perf_counter()
        for _ in range(300):
            self.probe.write_bytes(b"x")
            stamps.append(os.stat(self.probe).st_ctime_ns)
        self.per_write = (time.perf_counter() - t0) / 300
        diffs = [b - a for a, b in zip(stamps, stamps[1:]) if b > a]
        self.granularity_ns = min(diffs) if diffs else None
        self.distinct = len(set(stamps))

    def after_write(self, cache_dir: Path):
        newest = 0
        with os.scandir(cache_dir) as it:
            for e in it:
                newest = max(newest, e.stat().st_ctime_ns)
        for _ in range(200000):
            self.probe.write_bytes(b"x")
            if os.stat(self.probe).st_ctime_ns > newest:
                return
            self.spins += 1
        raise RuntimeError("ctime does not advance")


def _worker(conn):
    caches = {}
    while True:
        try:
            msg = conn.recv()
        except EOFError:
            return
        if msg[0] == "quit":
            return
        try:
            if msg[0] == "new":
                caches[msg[1]] = pickle.loads(msg[2])
                conn.send(("ok", None))
            elif msg[0] == "drop":
                caches.pop(msg[1], None)
                conn.send(("ok", None))
            elif msg[0] == "op":
                conn.send(("ok", do_op(caches[msg[1]], msg[2], msg[3])))
            elif msg[0] == "soak":
                conn.send(("ok", soak_ops(caches[msg[1]], msg[2], msg[3], msg[4])))
        except BaseException as e:  # noqa: BLE001
            conn.send(("exc", exc_enum(e)))


class Workers:
    """Two forked worker processes that receive pickled shared caches and execute single operations on request."""

    def __init__(self, n=2):
        mp = multiprocessing.get_context("fork")
        self.procs, self.conns = [], []
        for _ in range(n):
            a, b = mp.Pipe()
            p = mp.Process(target=_worker, args=(b,), daemon=True)
            p.start()
            b.close()
            self.procs.append(p)
            self.conns.append(a)

    def call(self, i, *msg, timeout=60):
        c = self.conns[i]
        c.send(msg)
        if not c.poll(timeout):
            return ("exc", "Other:Hang")
        return c.recv()

    def close(self):
        for c in self.conns:
            try:
                c.send(("quit",))
            except Exception:  # noqa: BLE001
                pass
        for p in self.procs:
            p.join(2)
            if p.is_alive():
                p.kill()


def do_op(cache, kind, op):
    """Execute one operation through the public API; the observation in the driver's JSON form or {'err': enum}."""
    try:
        name = op[0]
        if name == "put":
            k = KEYS[op[1]] if isinstance(op[1], int) else op[1]
            if kind == "hybrid":
                cache.put(k, val(op[2]), op[3])
            else:
                cache.put(k, val(op[2]))
            return "unit"
        if name == "get":
            r = cache.get(KEYS[op[1]])
            return ["val", None if r is None else (r[1] if isinstance(r, tuple) and len(r) == 2 and r[0] == "v" else f"garbled:{r!r}")]
        if name == "has":
            return ["bool", bool(KEYS[op[1]] in cache)]
        if name == "len":
            return ["nat", len(cache)]
        if name == "clear":
            cache.clear()
            return "unit"
        if name == "badkey":
            bad = [1, 2] if op[1] == "list" else {"x": 1}
            if op[2] == "put":
                cache.put(bad, val(0), 1) if kind == "hybrid" else cache.put(bad, val(0))
            elif op[2] == "get":
                cache.get(bad)
            else:
                bad in cache  # noqa: B015
            return "unit"
        raise AssertionError(op)
    except Exception as e:  # noqa: BLE001
        return {"err": exc_enum(e)}


def probe(cache, kind, keys):
    """presence of every key, len, and the public `cache` mapping — none of these has a side effect on any of the caches"""
    out = {}
    try:
        out["present"] = [i for i in keys if KEYS[i] in cache]
        out["len"] = len(cache)
        if kind in ("lru", "hybrid", "simple"):
            m = cache.cache
            out["values"] = [(m[KEYS[i]][1] if KEYS[i] in m else None) for i in keys]
            if len(m) != out["len"]:
                out["values"] = f"cache-property-size:{len(m)}"
    except Exception as e:  # noqa: BLE001
        out["err"] = exc_enum(e)
    return out


def bijection(cache, kind):
    """ANCHOR LRUCache._cache_dict + _cache_queue 'must stay a bijection' — read through getattr; absent attributes are
    counted, not reported (the property is about public behaviour)."""
    lru = cache if kind == "lru" else (getattr(cache, "lru_cache", None) if kind == "disk" else None)
    if lru is None:
        return None
    d, q = getattr(lru, "_cache_dict", None), getattr(lru, "_cache_queue", None)
    if d is None or q is None:
        return "no-attr"
    ks, ql = list(d.keys()), list(q)
    if len(ql) != len(set(map(repr, ql))):
        return f"queue holds a key twice: {ql!r}"
    if sorted(map(repr, ks)) != sorted(map(repr, ql)):
        return f"queue {ql!r} and dict keys {ks!r} differ"
    return None


def make_cache(case, base: Path, reopen=None):
    kind, shared = case["kind"], bool(case.get("shared"))
    cp = case.get("cloudpickle", True)
    if kind == "lru":
        return LRUCache(max_size=case["max"], shared=shared, allow_cloudpickle=cp)
    if kind == "hybrid":
        wa, wd = case["weights"]
        return HybridCache(max_size=case["max"], access_weight=wa / (wa + wd), duration_weight=wd / (wa + wd), shared=shared, allow_cloudpickle=cp)
    if kind == "simple":
        return SimpleCache()
    mx, lru = (case["max"], case.get("lru")) if reopen is None else reopen
    return DiskCache(base, max_size=mx, use_cloudpickle=cp, with_lru_cache=lru is not None, lru_cache_size=lru or 128, lru_shared=shared)


class Env:
    def __init__(self):
        self.base = Path(tempfile.mkdtemp(prefix="verif-c14-"))
        self.workers = None
        self.spacer = Spacer(self.base)
        self.n = 0

    def get_workers(self):
        if self.workers is None:
            self.workers = Workers(2)
        return self.workers

    def close(self):
        if self.workers:
            self.workers.close()
        shutil.rmtree(self.base, ignore_errors=True)


def run_impl(env: Env, case):
    """Execute the history; returns (steps, clause failures).  `steps[i]` mirrors the driver's entry for operation i.  The run
    stops at the first exception (that is already a violation of 'no operation raises')."""
    kind, keys = case["kind"], case["keys"]
    shared = bool(case.get("shared"))
    procs = case.get("procs") or [0] * len(case["ops"])
    env.n += 1
    cdir = env.base / f"d{env.n}"
    bad, steps = [], []
    cid = env.n
    sent = False
    cache = None
    try:
        try:
            cache = make_cache(case, cdir)
            if shared and any(procs):
                blob = pickle.dumps(cache)
                for w in (0, 1):
                    r = env.get_workers().call(w, "new", cid, blob)
                    if r[0] != "ok":
                        bad.append(f"unpickling the shared cache in a worker raised {r[1]}")
                sent = True
        except Exception as e:  # noqa: BLE001
            bad.append(f"constructing/pickling the cache raised {exc_enum(e)}")
            return steps, bad
        if bad:
            return steps, bad
        last_put = {}
        max_size = case.get("max")
        present_before = []
        for i, op in enumerate(case["ops"]):
            if op[0] == "reopen":
                try:
                    cache = None
                    cache = make_cache(case, cdir, reopen=(op[1], op[2]))
                    max_size = op[1]
                    if shared and any(procs):
                        blob = pickle.dumps(cache)
                        for w in (0, 1):
                            env.get_workers().call(w, "new", cid, blob)
                    o = "unit"
                except Exception as e:  # noqa: BLE001
                    o = {"err": exc_enum(e)}
            elif procs[i] == 0 or not shared:
                o = do_op(cache, kind, op)
            else:
                r = env.get_workers().call(procs[i] - 1, "op", cid, kind, op)
                o = r[1] if r[0] == "ok" else {"err": r[1]}
            if kind == "disk" and op[0] == "put":
                env.spacer.after_write(cdir)
            st = {"o": o}
            if isinstance(o, dict):
                bad.append(f"step {i} {op[0]} raised {o['err']}")
                steps.append(st)
                break
            pr = probe(cache, kind, keys)
            st.update(pr)
            steps.append(st)
            if "err" in pr:
                bad.append(f"step {i}: probing `in`/len/cache after {op[0]} raised {pr['err']}")
                break
            # ---- clauses of the property, on the implementation's own answers
            if op[0] == "put":
                last_put[op[1]] = op[2]
                if op[1] not in pr["present"]:
                    bad.append(f"step {i}: key {op[1]} is absent right after it was put")
            if max_size is not None and kind != "simple" and (kind != "disk" or op[0] == "put") and pr["len"] > max_size:
                bad.append(f"step {i}: len {pr['len']} exceeds max_size {max_size}")
            if op[0] == "get":
                was = op[1] in present_before
                got = o[1]
                if was != (got is not None):
                    bad.append(f"step {i}: key {op[1]} reported {'present' if was else 'absent'} but get returned {got!r}")
                elif got is not None and got != last_put.get(op[1]):
                    bad.append(f"step {i}: get({op[1]}) returned {got!r}, most recent put was {last_put.get(op[1])!r}")
            if op[0] == "has" and o[1] != (op[1] in present_before):
                bad.append(f"step {i}: `in` answered {o[1]} for key {op[1]}, previous probe said {op[1] in present_before}")
            if op[0] == "len" and i > 0 and o[1] != steps[i - 1].get("len"):
                bad.append(f"step {i}: len() answered {o[1]}, previous probe said {steps[i - 1].get('len')}")
            if op[0] == "clear" and (pr["present"] or pr["len"]):
                bad.append(f"step {i}: after clear {pr['present']} present, len {pr['len']}")
            bj = bijection(cache, kind)
            if bj == "no-attr":
                st["bij"] = "no-attr"
            elif bj:
                bad.append(f"step {i}: after {op[0]}: {bj}")
            present_before = pr["present"]
            if bad:
                break
        return steps, bad
    finally:
        if sent:
            for w in (0, 1):
                env.get_workers().call(w, "drop", cid)
        cache = None
        if kind == "disk":
            shutil.rmtree(cdir, ignore_errors=True)


# ------------------------------------------------------------------------------------------------ reference for exploration
# A transcription of the policies on *abstract* states (keys only), used solely to enumerate reachable states and a shortest
# history to each.  Verdicts never depend on it: every case is compared with the Lean model and with the property clauses.
def ref_lru_put(q, k, mx):
    q = [x for x in q if x != k] + [k]
    return tuple(q[-mx:])


def ref_step(kind, st, op):
    if kind == "lru":
        mx, q = st
        if op[0] == "put":
            return (mx, ref_lru_put(q, op[1], mx))
        if op[0] == "get":
            return (mx, tuple([x for x in q if x != op[1]] + [op[1]]) if op[1] in q else q)
        return (mx, ())
    if kind == "simple":
        if op[0] == "put":
            return tuple(sorted(set(st) | {op[1]}))
        return st if op[0] == "get" else ()
    if kind == "hybrid":
        mx, w, tab = st                      # tab: tuple of (k, ac, du) in insertion order
        tab = list(tab)
        if op[0] == "put":
            if len(tab) >= mx:
                ta, td = sum(t[1] for t in tab), sum(t[2] for t in tab)
                sc = [(w[0] * a * td + w[1] * d * ta) if td else w[0] * a for _, a, d in tab]
                tab.pop(sc.index(min(sc)))
            for j, t in enumerate(tab):
                if t[0] == op[1]:
                    tab[j] = (op[1], 1, op[3])
                    break
            else:
                tab.append((op[1], 1, op[3]))
            return (mx, w, tuple(tab))
        if op[0] == "get":
            return (mx, w, tuple((k, a + 1, d) if k == op[1] else (k, a, d) for k, a, d in tab))
        return (mx, w, ())
    if kind == "disk":
        mx, lsz, files, lq = st              # files: keys oldest first; lq: lru queue or None
        if op[0] == "put":
            files = tuple([x for x in files if x != op[1]] + [op[1]])
            if mx is not None and len(files) > mx:
                files = files[len(files) - mx:]
            return (mx, lsz, files, None if lq is None else ref_lru_put(lq, op[1], lsz))
        if op[0] == "get":
            if lq is not None and op[1] in lq:
                return (mx, lsz, files, tuple([x for x in lq if x != op[1]] + [op[1]]))
            if lq is not None and op[1] in files:
                return (mx, lsz, files, ref_lru_put(lq, op[1], lsz))
            return st
        if op[0] == "clear":
            return (mx, lsz, (), None if lq is None else ())
        if op[0] == "reopen":
            return (op[1], op[2], files, None if op[2] is None else ())
    raise AssertionError((kind, op))


def explore(kind, init, ops, depth, limit):
    """breadth-first: {state: shortest history}; returns the list of histories 'path + op' for every transition found"""
    seen = {init: []}
    frontier = [init]
    cases = []
    for _ in range(depth):
        nxt = []
        for st in frontier:
            for op in ops:
                h = seen[st] + [op]
                cases.append(h)
                if len(cases) >= limit:
                    return cases, len(seen)
                st2 = ref_step(kind, st, op)
                if st2 not in seen:
                    seen[st2] = h
                    nxt.append(st2)
        frontier = nxt
        if not frontier:
            break
    return cases, len(seen)


def concretise(history):
    """give every put a fresh value number (so 'the value most recently put' is identifiable)"""
    out, n = [], 100
    for op in history:
        if op[0] == "put":
            n += 1
            out.append(["put", op[1], n, op[3] if len(op) > 3 else 0])
        else:
            out.append(list(op))
    return out


def exploration_cases(ctx):
    thorough = ctx.tier == "thorough"
    cases = []
    nk = 4
    basic = [("put", k, 0, 0) for k in range(nk)] + [("get", k) for k in range(nk)] + [("clear",)]
    for mx in (1, 2, 3):
        hs, n = explore("lru", (mx, ()), basic, 8 if thorough else 6, 100000)
        ctx.count(f"explore:lru:max{mx}:states", n)
        cases += [{"kind": "lru", "max": mx, "keys": list(range(nk)), "ops": concretise(h), "src": "explore"} for h in hs]
    hs, n = explore("simple", (), [("put", k, 0, 0) for k in range(3)] + [("get", k) for k in range(3)] + [("clear",)], 4, 1000)
    ctx.count("explore:simple:states", n)
    cases += [{"kind": "simple", "max": None, "keys": [0, 1, 2], "ops": concretise(h), "src": "explore"} for h in hs]
    for mx in (1, 2, 3):
        for w in ((1, 1), (1, 3)) if not thorough else WEIGHTS:
            ops = [("put", k, 0, d) for k in range(3) for d in (1, 2)] + [("get", k) for k in range(3)] + [("clear",)]
            hs, n = explore("hybrid", (mx, w, ()), ops, 5 if thorough else 4, 6000 if thorough else 260)
            ctx.count(f"explore:hybrid:max{mx}:states", n)
            cases += [{"kind": "hybrid", "max": mx, "weights": list(w), "keys": [0, 1, 2], "ops": concretise(h), "src": "explore"} for h in hs]
    for mx in (1, 2):
        for lsz in (None, 1, 2):
            ops = ([("put", k, 0, 0) for k in range(3)] + [("get", k) for k in range(3)] + [("clear",), ("reopen", mx, lsz)]
                   + ([("reopen", 1, lsz)] if mx != 1 else []) + [("reopen", None, lsz)])
            hs, n = explore("disk", (mx, lsz, (), None if lsz is None else ()), ops, 6 if thorough else 4, 4000 if thorough else 170)
            ctx.count(f"explore:disk:max{mx}:lru{lsz}:states", n)
            cases += [{"kind": "disk", "max": mx, "lru": lsz, "keys": [0, 1, 2], "ops": concretise(h), "src": "explore"} for h in hs]
    return cases


# ------------------------------------------------------------------------------------------------ random histories
def gen_ops(rng, kind, nk, length, durations):
    ops, n = [], 0
    for _ in range(length):
        r = rng.random()
        k = rng.randrange(nk)
        if ops and ops[-1][0] == "put" and rng.random() < 0.2:
            k = ops[-1][1]                                       # re-put / read the key just written
        if r < 0.5:
            n += 1
            ops.append(["put", k, n, rng.choice(durations)])
        elif r < 0.75:
            ops.append(["get", k])
        elif r < 0.85:
            ops.append(["has", k])
        elif r < 0.92:
            ops.append(["len"])
        elif r < 0.96 or kind != "disk":
            ops.append(["clear"])
        else:
            ops.append(["reopen", rng.choice([None, 1, 2, 3]), rng.choice([None, 1, 2, 128])])
    order = list(range(nk))
    rng.shuffle(order)
    return ops + [["get", k] for k in order]                      # drain: what does every key answer at the end


def gen_case(rng, kind=None, shared=False, maxlen=40):
    kind = kind or rng.choices(["lru", "hybrid", "disk", "simple"], [4, 4, 3, 1])[0]
    nk = rng.choice([3, 4])
    case = {"kind": kind, "max": rng.choice([1, 1, 2, 2, 3]), "keys": list(range(nk)), "src": "random"}
    if kind == "simple":
        case["max"] = None
    if kind == "hybrid":
        case["weights"] = list(rng.choice(WEIGHTS))
    if kind == "disk":
        case["lru"] = rng.choice([None, 1, 2, 128])
        if rng.random() < 0.1:
            case["max"] = None
        case["cloudpickle"] = rng.random() < 0.7
    case["ops"] = gen_ops(rng, kind, nk, rng.randint(1, maxlen), [1, 2, 3, 5, 7, 11])
    if shared:
        case["shared"] = True
        case["cloudpickle"] = rng.random() < 0.7
        case["procs"] = [rng.choice([0, 1, 2]) for _ in case["ops"]]
        case["src"] = "shared"
    return case


# ------------------------------------------------------------------------------------------------ comparison
def to_request(case):
    a = {"kind": case["kind"], "max": case.get("max"), "keys": case["keys"], "ops": case["ops"]}
    if case["kind"] == "hybrid":
        a["weights"] = case["weights"]
    if case["kind"] == "disk":
        a["lru"] = case.get("lru")
    return {"m": "cache.run", "a": a}


def near_tie(case, msteps, i):
    """the eviction performed by put number i was decided between scores too close for floats (see ASSUMPTIONS)"""
    if case["kind"] != "hybrid" or case["ops"][i][0] != "put" or i == 0:
        return False
    st = msteps[i - 1]["state"]
    if len(st["dict"]) < case["max"]:
        return False
    sc = st["scores"]
    ac, du = dict(map(tuple, st["ac"])), dict(map(tuple, st["du"]))
    wa, wd = case["weights"]
    td = sum(du.values())
    kmin, smin = min(sc, key=lambda p: p[1])
    for k, s in sc:
        if k == kmin:
            continue
        same = (ac[k] == ac[kmin] or wa == 0) and (du[k] == du[kmin] or wd == 0 or td == 0)
        if not same and abs(s - smin) <= 1e-9 * max(s, smin, 1):
            return True
    return False


def hybrid_tie_order(case, msteps, i, impl_step):
    """the implementation evicted a different entry than the model, but one whose exact score is also the minimum: the property
    ('lowest score leaves') holds, only the model's tie-break (first in insertion order, as `min` over a dict) differs"""
    if case["kind"] != "hybrid" or case["ops"][i][0] != "put" or i == 0 or "present" not in impl_step:
        return False
    before = msteps[i - 1]
    gone = [k for k in before["present"] if k not in impl_step["present"] and k != case["ops"][i][1]]
    sc = dict(map(tuple, before["state"]["scores"]))
    if set(before["present"]) != set(sc):
        return False
    if case["ops"][i][1] in before["present"] and case["ops"][i][1] not in gone and len(impl_step["present"]) == len(before["present"]):
        gone = gone or [case["ops"][i][1]]          # the re-put key itself was the one expired and stored again
    return len(gone) == 1 and sc[gone[0]] == min(sc.values())


def branches(ctx, case, msteps):
    kind = case["kind"]
    before = {"present": [], "len": 0, "state": None}
    for op, st in zip(case["ops"], msteps):
        tag = op[0]
        if op[0] == "put":
            resident = op[1] in before["present"]
            lost = [k for k in before["present"] if k not in st["present"]]
            tag = f"put:{'resident' if resident else 'new'}:{'evicts' if lost else 'keeps'}"
            if kind == "disk" and before["state"] is not None:
                gone = len(before["state"]["files"]) + (0 if any(f[0] == op[1] for f in before["state"]["files"]) else 1) - len(st["state"]["files"])
                tag += f":unlinked{min(gone, 2)}{'+' if gone > 2 else ''}"
            if kind == "hybrid" and before["state"] is not None and before["state"]["du"] and sum(d for _, d in before["state"]["du"]) == 0 \
                    and len(before["state"]["dict"]) >= case["max"]:
                tag += ":zero-total"
        elif op[0] == "get":
            hit = st["o"][1] is not None
            tag = "get:hit" if hit else "get:miss"
            if kind == "disk" and hit and before["state"] is not None and before["state"]["lru"] is not None:
                tag += ":lru" if op[1] in before["state"]["lru"]["dict"] else ":file"
        ctx.count(f"{kind}:{tag}")
        before = st


def nontrivial(case, msteps):
    seen = set()
    for op, st in zip(case["ops"], msteps):
        if op[0] == "put" and (op[1] in seen):
            return True
        if op[0] == "get" and st["o"][1] is not None:
            return True
        if op[0] == "put":
            seen.add(op[1])
    return len(seen) > (case.get("max") or 99)


def check_cases(ctx, env, cases):
    impls = []
    for case in cases:
        steps, bad = run_impl(env, case)
        impls.append((steps, bad))
    outs = ctx.lean([to_request(c) for c in cases])
    for case, (steps, bad), resp in zip(cases, impls, outs):
        model = resp["r"]
        msteps = model["steps"]
        ctx.count(f"case:{case['kind']}:{case.get('src', 'corpus')}{':shared' if case.get('shared') else ''}")
        ctx.count("transitions", len(steps))
        branches(ctx, case, msteps)
        ctx.record({k: case[k] for k in case if k != "src"}, nontrivial(case, msteps))
        slim = {k: v for k, v in case.items() if k != "src"}
        if not model["spec_ok"]:
            ctx.violation(slim, "the LRU model and its recency-list specification disagree (extraction sanity check)", found_input=False,
                          item="C14_lru_refines")
        if bad:
            cut = dict(slim, ops=case["ops"][:len(steps)])
            if "procs" in cut:
                cut["procs"] = cut["procs"][:len(steps)]
            ctx.violation(cut, f"{case['kind']}{' shared' if case.get('shared') else ''}: {bad[0]}", impl=steps[-3:], model=msteps[max(0, len(steps) - 3):len(steps)],
                          key=case["kind"] + ":" + re.sub(r"[0-9]+|\[.*|\(.*|'.*", "#", bad[0])[:50])
            continue
        if model["err"] is not None:
            ctx.violation(slim, f"the model raises {model['err']} at step {len(msteps)} where the implementation does not", found_input=False,
                          item="correspondence:model-raises", impl=steps[-2:], model=model["err"])
            continue
        for i, (a, b) in enumerate(zip(steps, msteps)):
            if near_tie(case, msteps, i):
                ctx.skip("hybrid-near-tie")
                break
            diff = [f for f in ("o", "present", "len", "values") if f in a and a[f] != b[f]]
            if a.get("bij") == "no-attr":
                ctx.count("bijection-anchor-attributes-missing")
            if diff:
                cut = dict(slim, ops=case["ops"][:i + 1])
                if "procs" in cut:
                    cut["procs"] = cut["procs"][:i + 1]
                f = diff[0]
                what = {"o": f"{case['ops'][i][0]} answered {a['o']}, the policy gives {b['o']}",
                        "present": f"after {case['ops'][i][0]} the keys present are {a.get('present')}, the policy keeps {b['present']}",
                        "len": f"len is {a.get('len')} after {case['ops'][i][0]}, the policy gives {b['len']}",
                        "values": f"the cache mapping holds {a.get('values')} after {case['ops'][i][0]}, most recent puts are {b['values']}"}[f]
                if f == "present" and hybrid_tie_order(case, msteps, i, a):
                    ctx.violation(cut, f"hybrid step {i}: the entry evicted has the lowest score but is not the first such entry in insertion order "
                                  f"(implementation keeps {a.get('present')}, model {b['present']})", found_input=False, item="correspondence:hybrid-tie-order",
                                  impl={k: a.get(k) for k in ("o", "present", "len", "values")}, model=b, key="hybrid-tie-order")
                    break
                ctx.violation(cut, f"{case['kind']}{' shared' if case.get('shared') else ''} step {i}: {what}",
                              impl={k: a.get(k) for k in ("o", "present", "len", "values")}, model=b, key=f"{case['kind']}:{case['ops'][i][0]}:{f}")
                break


# ------------------------------------------------------------------------------------------------ separate streams
def malformed_stream(ctx, env):
    """constructor guard, unhashable keys, pickling guard: each is an expected, specific exception"""
    try:
        LRUCache(max_size=0, shared=False)
        ctx.violation({"malformed": "LRUCache(max_size=0)"}, "LRUCache(max_size=0) is accepted (the constructor documents a ValueError)",
                      found_input=False, item="correspondence:max_size-0")
    except ValueError:
        ctx.count("malformed:max_size0:ValueError")
    except Exception as e:  # noqa: BLE001
        ctx.violation({"malformed": "LRUCache(max_size=0)"}, f"LRUCache(max_size=0) raised {exc_enum(e)}", found_input=False, item="correspondence:max_size-0")
    for kind in ("lru", "hybrid", "simple", "disk"):
        case = {"kind": kind, "max": 2, "weights": [1, 1], "lru": 2, "keys": [0, 1]}
        env.n += 1
        cache = make_cache(case, env.base / f"d{env.n}")
        try:
            pickle.dumps(cache)
            ctx.violation({"malformed": f"pickle non-shared {kind}"}, f"a non-shared {kind} cache pickles silently (the copy would not share entries)",
                          found_input=False, item="correspondence:getstate-guard")
        except RuntimeError:
            ctx.count(f"malformed:pickle-nonshared:{kind}:RuntimeError")
        except Exception as e:  # noqa: BLE001
            ctx.violation({"malformed": f"pickle non-shared {kind}"}, f"pickling a non-shared {kind} cache raised {exc_enum(e)}", found_input=False,
                          item="correspondence:getstate-guard")
        if kind == "disk":
            continue                                  # DiskCache pickles its keys: unhashable keys are legal there
        for bad in ("list", "dict"):
            for how in ("put", "get", "in"):
                do_op(cache, kind, ["put", 0, 1, 1])
                o = do_op(cache, kind, ["badkey", bad, how])
                ctx.count(f"malformed:unhashable:{kind}:{how}:{o['err'] if isinstance(o, dict) else 'accepted'}")
                if o != {"err": "TypeError"}:
                    ctx.violation({"malformed": f"{kind} {how} unhashable {bad}"}, f"{kind}.{how} with an unhashable key: {o}", found_input=False,
                                  item="correspondence:unhashable-key")
                if do_op(cache, kind, ["get", 0]) != ["val", 1]:
                    ctx.violation({"malformed": f"{kind} {how} unhashable {bad}"}, f"{kind}: a failed {how} with an unhashable key lost a resident entry")


def zero_duration_cases(ctx):
    """DF-02 stream: durations 0 (all, or mixed with positive ones)"""
    rng = ctx.rng
    cases = []
    for _ in range(ctx.n(60, 3000)):
        nk = rng.choice([3, 4])
        durs = [0] if rng.random() < 0.5 else [0, 0, 1, 2]
        cases.append({"kind": "hybrid", "max": rng.choice([1, 2, 3]), "weights": list(rng.choice(WEIGHTS)), "keys": list(range(nk)),
                      "ops": gen_ops(rng, "hybrid", nk, rng.randint(2, 14), durs), "src": "zero-duration"})
    return cases


# ------------------------------------------------------------------------------------------------ concurrent soak (invariants only)
def soak_ops(cache, kind, seed, n):
    import random
    rng = random.Random(seed)
    errs = collections.Counter()
    for j in range(n):
        k = KEYS[rng.randrange(4)]
        try:
            r = rng.random()
            if r < 0.5:
                cache.put(k, val(j), 1.0) if kind == "hybrid" else cache.put(k, val(j))
            elif r < 0.9:
                v = cache.get(k)
                if v is not None and not (isinstance(v, tuple) and v[0] == "v"):
                    errs["garbled"] += 1
            elif r < 0.98:
                k in cache  # noqa: B015
            else:
                len(cache)
        except Exception as e:  # noqa: BLE001
            errs[exc_enum(e)] += 1
    return dict(errs)


def soak(ctx, env):
    """truly concurrent callers on shared caches: asserted are 'nothing raises', 'len <= max_size afterwards' and 'queue/dict
    still a bijection' — not conformance to the model (ASSUMPTIONS: atomic operations)"""
    w = env.get_workers()
    for kind in ("lru", "hybrid"):
        for mx in (1, 2):
            case = {"kind": kind, "max": mx, "weights": [1, 1], "shared": True}
            cache = make_cache(case, env.base)
            env.n += 1
            blob = pickle.dumps(cache)
            for i in (0, 1):
                w.call(i, "new", env.n, blob)
            n = ctx.n(100, 4000)
            for i in (0, 1):
                w.conns[i].send(("soak", env.n, kind, ctx.rng.randrange(10**9), n))
            mine = soak_ops(cache, kind, ctx.rng.randrange(10**9), n)
            res = [mine]
            for i in (0, 1):
                res.append(w.conns[i].recv()[1] if w.conns[i].poll(600) else {"Other:Hang": 1})
            for r in res:
                for e, c in (r or {}).items():
                    ctx.count(f"soak:{kind}:raised:{e}", c)
                    ctx.violation({"soak": kind, "max": mx, "ops_per_process": n}, f"{kind} shared: {e} raised {c} times by put/get/in/len issued "
                                  "concurrently from 3 processes", found_input=False, item="correspondence:soak-raises", key=f"soak-raises-{kind}")
            ctx.count(f"soak:{kind}:ops", 3 * n)
            ln = len(cache)
            if ln > mx:
                ctx.violation({"soak": kind, "max": mx, "ops_per_process": n}, f"{kind} shared: len {ln} exceeds max_size {mx} after concurrent use",
                              found_input=False, item="correspondence:soak-len")
            bj = bijection(cache, kind)
            if bj and bj != "no-attr":
                ctx.violation({"soak": kind, "max": mx, "ops_per_process": n}, f"{kind} shared after concurrent use: {bj}", found_input=False,
                              item="correspondence:soak-bijection")
            for i in (0, 1):
                w.call(i, "drop", env.n)


# ------------------------------------------------------------------------------------------------ corpus
CORPUS = [
    # DF-01: a re-put of a resident key queued it twice; the fourth distinct key then popped a key that had left the dict
    {"kind": "lru", "max": 2, "keys": [0, 1, 2, 3], "ops": [["put", 0, 1, 0], ["put", 0, 2, 0], ["put", 1, 3, 0], ["put", 2, 4, 0], ["put", 3, 5, 0]]},
    {"kind": "lru", "max": 1, "keys": [0, 1], "ops": [["put", 0, 1, 0], ["put", 0, 2, 0], ["has", 0], ["get", 0]]},
    {"kind": "lru", "max": 2, "keys": [0, 1, 2], "shared": True, "procs": [1, 2, 0, 1, 2, 0],
     "ops": [["put", 0, 1, 0], ["put", 0, 2, 0], ["put", 1, 3, 0], ["put", 2, 4, 0], ["get", 0], ["get", 2]]},
    # DF-02: every duration 0.0
    {"kind": "hybrid", "max": 1, "weights": [1, 1], "keys": [0, 1], "ops": [["put", 0, 1, 0], ["put", 1, 2, 0], ["get", 1]]},
    {"kind": "hybrid", "max": 2, "weights": [1, 1], "keys": [0, 1, 2], "ops": [["put", 0, 1, 0], ["put", 1, 2, 0], ["get", 0], ["put", 2, 3, 0], ["get", 1], ["get", 0]]},
    # DF-03: a directory holding more than max_size + 1 files
    {"kind": "disk", "max": None, "lru": None, "keys": [0, 1, 2, 3],
     "ops": [["put", 0, 1, 0], ["put", 1, 2, 0], ["put", 2, 3, 0], ["put", 3, 4, 0], ["reopen", 2, None], ["put", 0, 5, 0], ["len"], ["get", 3], ["get", 1]]},
    {"kind": "disk", "max": 3, "lru": 2, "keys": [0, 1, 2, 3],
     "ops": [["put", 0, 1, 0], ["put", 1, 2, 0], ["put", 2, 3, 0], ["reopen", 1, 1], ["put", 3, 4, 0], ["len"], ["get", 2], ["get", 3]]},
    # DiskCache through its LRU: re-put of a resident key (DF-01 reached through DiskCache.put)
    {"kind": "disk", "max": 2, "lru": 1, "keys": [0, 1], "ops": [["put", 0, 1, 0], ["put", 0, 2, 0], ["get", 0], ["put", 1, 3, 0], ["get", 0]]},
    # hybrid: first minimum in insertion order; a hit protects an entry
    {"kind": "hybrid", "max": 2, "weights": [1, 1], "keys": [0, 1, 2], "ops": [["put", 0, 1, 2], ["put", 1, 2, 2], ["get", 0], ["put", 2, 3, 2], ["has", 0], ["has", 1]]},
]


def run(ctx):
    env = Env()
    try:
        ctx.notes.append(f"st_ctime_ns: {env.spacer.distinct}/300 distinct stamps over back-to-back rewrites of one file, smallest step "
                         f"{env.spacer.granularity_ns} ns, {env.spacer.per_write * 1e6:.0f} us per write (measured on {env.base.parent})")
        shared_n = ctx.n(60, 1500)
        cases = [copy.deepcopy(c) for c in CORPUS]
        cases += exploration_cases(ctx)
        cases += [gen_case(ctx.rng) for _ in range(ctx.n(400, 30000))]
        cases += zero_duration_cases(ctx)
        cases += [gen_case(ctx.rng, kind=ctx.rng.choice(["lru", "lru", "hybrid", "hybrid", "disk"]), shared=True, maxlen=16) for _ in range(shared_n)]
        check_cases(ctx, env, cases)
        malformed_stream(ctx, env)
        soak(ctx, env)
        ctx.count("disk:ctime-spacing-spins", env.spacer.spins)
    finally:
        env.close()


def replay(ctx, case):
    env = Env()
    try:
        steps, bad = run_impl(env, case)
        print("implementation:")
        for op, s in zip(case["ops"], steps):
            print("  ", op, "->", {k: s.get(k) for k in ("o", "present", "len", "values") if k in s})
        print("failed clauses:", bad)
        r = ctx.lean([to_request(case)])[0]["r"]
        print("model:")
        for op, s in zip(case["ops"], r["steps"]):
            print("  ", op, "->", {k: s.get(k) for k in ("o", "present", "len", "values")}, s["state"])
        print("model err:", r["err"])
    finally:
        env.close()
