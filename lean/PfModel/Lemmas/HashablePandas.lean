import PfModel.Model.HashablePandas
import PfModel.Lemmas.HashableKeys
/-! Helper lemmas for the pandas branches of `to_hashable` (`Model/HashablePandas.lean`). -/
namespace PF.Hashable

theorem dictSet_fresh (k : Atom) (v : PV) : ∀ (acc : List (Atom × PV)), k ∉ acc.map Prod.fst → dictSet k v acc = acc ++ [(k, v)]
  | [], _ => rfl
  | (k', v') :: r, h => by
    simp only [List.map_cons, List.mem_cons, not_or] at h
    have hne : ¬ k' = k := fun e => h.1 e.symm
    simp only [dictSet, hne, if_false, List.cons_append, dictSet_fresh k v r h.2]

theorem pyDictFrom_nodup : ∀ (rows acc : List (Atom × PV)), ((acc ++ rows).map Prod.fst).Nodup → pyDictFrom acc rows = acc ++ rows
  | [], acc, _ => by simp [pyDictFrom]
  | (k, v) :: r, acc, h => by
    have hk : k ∉ acc.map Prod.fst := by
      intro hm
      simp only [List.map_append, List.map_cons] at h
      have := (List.nodup_append.1 h).2.2 k hm k (List.mem_cons_self ..)
      exact this rfl
    have h' : (((acc ++ [(k, v)]) ++ r).map Prod.fst).Nodup := by simpa using h
    simp only [pyDictFrom, dictSet_fresh k v acc hk, pyDictFrom_nodup r (acc ++ [(k, v)]) h', List.append_assoc,
      List.singleton_append]

/-- pairwise different keys: the dict lists the pairs as they were given -/
theorem pyDict_nodup {rows : List (Atom × PV)} (h : (rows.map Prod.fst).Nodup) : pyDict rows = rows := by
  have := pyDictFrom_nodup rows [] (by simpa using h)
  simpa [pyDict] using this

theorem mem_itemsOf {d : List (Atom × PV)} {l : Atom} {v : PV} (h : (l, v) ∈ d) : tup [.atom l, v] ∈ itemsOf d :=
  List.mem_map.2 ⟨(l, v), h, rfl⟩

/-- equal dicts (as values) hold the same keys with the same values -/
theorem equiv_itemsOf_mem {d d' : List (Atom × PV)} (he : Equiv (.node .dict (itemsOf d)) (.node .dict (itemsOf d')))
    {l : Atom} {v : PV} (h : (l, v) ∈ d) : ∃ v', (l, v') ∈ d' ∧ Equiv v v' := by
  obtain ⟨xs', ys', ys, hb, h1, h2, h3⟩ := equiv_node_inv he
  simp only [PV.node.injEq, true_and] at hb
  subst hb
  obtain ⟨y, hy, hxy⟩ := h2.mem_left _ (permIf_mem' h1 (mem_itemsOf h))
  have hy' := permIf_mem' h3 hy
  obtain ⟨k', v', rfl, hk, hv⟩ := equiv_pair_inv hxy
  obtain ⟨q, hq, hqe⟩ := List.mem_map.1 hy'
  have hk' := equiv_atom_inv hk
  simp only [tup, PV.node.injEq, true_and, List.cons.injEq, and_true] at hqe
  obtain ⟨e1, e2⟩ := hqe
  rw [hk'] at e1
  simp only [PV.atom.injEq] at e1
  refine ⟨v', ?_, hv⟩
  rw [← e1, ← e2]
  exact hq

theorem equiv_itemsOf_length {d d' : List (Atom × PV)} (he : Equiv (.node .dict (itemsOf d)) (.node .dict (itemsOf d'))) :
    d.length = d'.length := by
  obtain ⟨xs', ys', ys, hb, h1, h2, h3⟩ := equiv_node_inv he
  simp only [PV.node.injEq, true_and] at hb
  subst hb
  simp only [Kind.ordered, Bool.false_eq_true, if_false] at h1 h3
  have l1 := h1.length_eq
  have l3 := h3.length_eq
  have l2 : xs'.length = ys'.length := by
    clear h1 h3 l1 l3
    induction h2 with
    | nil => rfl
    | cons _ _ ih => simp [ih]
  simp only [itemsOf, List.length_map] at l1 l3
  omega

/-- a permutation of the items is the same dict value -/
theorem equiv_itemsOf_perm {d d' : List (Atom × PV)} (h : d.Perm d') : Equiv (.node .dict (itemsOf d)) (.node .dict (itemsOf d')) := by
  refine .node .dict _ (itemsOf d') (itemsOf d') _ ?_ (equivL_of_all2 (all2_refl (fun x _ => Equiv.refl x))) ?_
  · simp only [Kind.ordered, Bool.false_eq_true, if_false]; exact h.map _
  · simp [Kind.ordered]

/-- the list node of a column: the same values in the same order -/
theorem equiv_list_inv {xs : List PV} {y : PV} (h : Equiv (.node .list xs) y) : ∃ ys, y = .node .list ys ∧ All2 Equiv xs ys := by
  obtain ⟨xs', ys', ys, hb, h1, h2, h3⟩ := equiv_node_inv h
  simp only [Kind.ordered, if_true] at h1 h3
  subst h1; subst h3
  exact ⟨ys', hb, h2⟩

theorem colPairs_fst (cols : List (Atom × List PV)) :
    (cols.map fun p => (p.1, PV.node .list p.2)).map Prod.fst = cols.map Prod.fst := by
  induction cols with
  | nil => rfl
  | cons p r ih => simp only [List.map_cons, ih]

end PF.Hashable
