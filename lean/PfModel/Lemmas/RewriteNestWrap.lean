/-
Lemmas for `PF.Rw.Wrap` (C10 ext5): the dictionary → tuple → positional pick round trip of a `NestedPipeFunc`, the dictionary of
`call_full_output`, and what an `output_picker` is applied to.
-/
import PfModel.Model.RewriteNestWrap
namespace PF.Rw.Wrap
open PF PF.Pipe PF.Rw

theorem getElem?_idxOf_map {β} (g : String → β) (os : List String) (x : String) (h : x ∈ os) :
    (os.map g)[os.idxOf x]? = some (g x) := by
  induction os with
  | nil => simp at h
  | cons a as ih =>
    by_cases e : a = x
    · subst e; simp [List.idxOf_cons]
    · have hx : x ∈ as := by
        rcases List.mem_cons.mp h with h | h
        · exact absurd h.symm e
        · exact h
      have hb : (a == x) = false := by simp [e]
      simp [List.idxOf_cons, hb, ih hx]

theorem getElem?_idxOf_not_mem {β} (vs : List β) (os : List String) (x : String) (h : x ∉ os) (hl : vs.length = os.length) :
    vs[os.idxOf x]? = none := by
  have : os.idxOf x = os.length := List.idxOf_eq_length h
  rw [this, ← hl]; simp

theorem getItem_ok_iff (rd : RDict) (o : String) (v : Val) : getItem rd o = .ok v ↔ alookup rd o = some v := by
  unfold getItem
  cases alookup rd o <;> simp

/-- every name present: the tuple is the list of the entries -/
theorem getItems_map (rd : RDict) (g : String → Val) (os : List String) (h : ∀ o ∈ os, alookup rd o = some (g o)) :
    getItems rd os = .ok (os.map g) := by
  induction os with
  | nil => rfl
  | cons a as ih =>
    have ha := h a (List.mem_cons_self ..)
    have := ih (fun o ho => h o (List.mem_cons_of_mem _ ho))
    simp [getItems, getItem, ha, this]

/-- the tuple exists only when every name is present, and then it lists the entries in order -/
theorem getItems_ok (rd : RDict) (os : List String) (vs : List Val) (h : getItems rd os = .ok vs) :
    (∀ o ∈ os, alookup rd o = some ((alookup rd o).getD .none)) ∧ vs = os.map (fun o => (alookup rd o).getD .none) := by
  induction os generalizing vs with
  | nil => simp [getItems] at h; simp [h]
  | cons a as ih =>
    simp only [getItems, getItem] at h
    cases ha : alookup rd a with
    | none => simp [ha] at h
    | some v =>
      simp only [ha] at h
      cases hr : getItems rd as with
      | error e => simp [hr] at h
      | ok ws =>
        simp only [hr] at h
        obtain ⟨h1, h2⟩ := ih ws hr
        injection h with h
        subst h
        refine ⟨?_, by simp [ha, h2]⟩
        intro o ho
        rcases List.mem_cons.mp ho with e | e
        · subst e; simp [ha]
        · exact h1 o e

theorem getItems_length (rd : RDict) (os : List String) (vs : List Val) (h : getItems rd os = .ok vs) : vs.length = os.length := by
  rw [(getItems_ok rd os vs h).2]; simp

/-- **pack, then pick positionally = look the name up**: tuple `output_name`, all names present -/
theorem nestOut_tuple (rd : RDict) (os : List String) (name : String)
    (hall : ∀ o ∈ os, (alookup rd o).isSome) (hn : name ∈ os) :
    nestOut (.tuple os) rd name = getItem rd name := by
  have hg : ∀ o ∈ os, alookup rd o = some ((alookup rd o).getD .none) := by
    intro o ho
    have := hall o ho
    cases h : alookup rd o <;> simp_all
  have h1 := getItems_map rd (fun o => (alookup rd o).getD .none) os hg
  simp only [nestOut, wrapperCall, h1, readOut, defaultPicker]
  rw [getElem?_idxOf_map _ os name hn]
  simp only [getItem]
  cases hq : alookup rd name with
  | none => have := hall name hn; simp [hq] at this
  | some v => rfl

/-- whatever the dictionary: an answer of the nested function for a tuple `output_name` is the dictionary's entry -/
theorem nestOut_tuple_ok (rd : RDict) (os : List String) (name : String) (v : Val) (h : nestOut (.tuple os) rd name = .ok v) :
    name ∈ os ∧ alookup rd name = some v := by
  simp only [nestOut, wrapperCall] at h
  cases hr : getItems rd os with
  | error e => simp [hr] at h
  | ok vs =>
    simp only [hr, readOut, defaultPicker] at h
    by_cases hn : name ∈ os
    · refine ⟨hn, ?_⟩
      obtain ⟨h1, h2⟩ := getItems_ok rd os vs hr
      rw [h2, getElem?_idxOf_map _ os name hn] at h
      simp only [Except.ok.injEq] at h
      rw [h1 name hn, h]
    · rw [getElem?_idxOf_not_mem vs os name hn (getItems_length rd os vs hr)] at h
      simp at h

theorem nestOut_single (rd : RDict) (o : String) : nestOut (.single o) rd o = getItem rd o := by
  simp only [nestOut, wrapperCall]
  cases getItem rd o <;> simp [readOut]

theorem nestOut_single_ok (rd : RDict) (o name : String) (v : Val) (h : nestOut (.single o) rd name = .ok v) :
    name = o ∧ alookup rd name = some v := by
  simp only [nestOut, wrapperCall] at h
  cases hr : getItem rd o with
  | error e => simp [hr] at h
  | ok w =>
    simp only [hr, readOut] at h
    by_cases e : name = o
    · subst e
      simp at h
      subst h
      exact ⟨rfl, (getItem_ok_iff rd name w).mp hr⟩
    · simp [e] at h

/-- for either kind of `output_name`: an answer is the dictionary's entry for a listed name -/
theorem nestOut_ok (on : OutName) (rd : RDict) (name : String) (v : Val) (h : nestOut on rd name = .ok v) :
    name ∈ on.names ∧ alookup rd name = some v := by
  cases on with
  | single o =>
    obtain ⟨h1, h2⟩ := nestOut_single_ok rd o name v h
    exact ⟨by simp [OutName.names, h1], h2⟩
  | tuple os => exact nestOut_tuple_ok rd os name v h

theorem nestOut_complete (on : OutName) (rd : RDict) (name : String)
    (hall : ∀ o ∈ on.names, (alookup rd o).isSome) (hn : name ∈ on.names) : nestOut on rd name = getItem rd name := by
  cases on with
  | single o =>
    have : name = o := by simpa [OutName.names] using hn
    subst this
    exact nestOut_single rd name
  | tuple os => exact nestOut_tuple rd os name hall hn

/-! ### the dictionary of `call_full_output` -/

theorem alookup_filterMap_eval (h : String → Except Err Val) (l : List String) (x : String) (v : Val) :
    alookup (l.filterMap fun o => match h o with | .ok v => some (o, v) | .error _ => none) x = some v ↔ x ∈ l ∧ h x = .ok v := by
  induction l with
  | nil => simp [alookup]
  | cons a as ih =>
    simp only [List.filterMap_cons]
    cases ha : h a with
    | error e =>
      simp only [ih, List.mem_cons]
      constructor
      · rintro ⟨h1, h2⟩; exact ⟨Or.inr h1, h2⟩
      · rintro ⟨h1 | h1, h2⟩
        · subst h1; simp [ha] at h2
        · exact ⟨h1, h2⟩
    | ok w =>
      simp only [alookup]
      by_cases e : a = x
      · subst e; simp [ha]
      · simp only [e, if_false, ih, List.mem_cons]
        constructor
        · rintro ⟨h1, h2⟩; exact ⟨Or.inr h1, h2⟩
        · rintro ⟨h1 | h1, h2⟩
          · exact absurd h1.symm e
          · exact ⟨h1, h2⟩

theorem fullOutput_lookup (S : List RFunc) (leaf : String) (args : List (String × Val)) (rd : RDict)
    (h : fullOutput S leaf args = .ok rd) (o : String) (v : Val) :
    alookup rd o = some v ↔ o ∈ allOutputs S ∧ eval S args (fuelOf S) o = .ok v := by
  unfold fullOutput at h
  cases hl : eval S args (fuelOf S) leaf with
  | error e => simp [hl] at h
  | ok w =>
    simp only [hl, Except.ok.injEq] at h
    subst h
    exact alookup_filterMap_eval (eval S args (fuelOf S)) (allOutputs S) o v

theorem fullOutput_ok_iff (S : List RFunc) (leaf : String) (args : List (String × Val)) :
    (∃ rd, fullOutput S leaf args = .ok rd) ↔ ∃ w, eval S args (fuelOf S) leaf = .ok w := by
  unfold fullOutput
  cases eval S args (fuelOf S) leaf <;> simp

/-- soundness, unconditional: what the nested function answers for `name` is what `nestBody` answers -/
theorem nestCall_sound (S : List RFunc) (on : OutName) (leaf : String) (args : List (String × Val)) (name : String) (v : Val)
    (h : nestCall S on leaf args name = .ok v) : name ∈ on.names ∧ nestBody S leaf args name = .ok v := by
  unfold nestCall at h
  cases hf : fullOutput S leaf args with
  | error e => simp [hf] at h
  | ok rd =>
    simp only [hf] at h
    obtain ⟨h1, h2⟩ := nestOut_ok on rd name v h
    refine ⟨h1, ?_⟩
    obtain ⟨w, hw⟩ := (fullOutput_ok_iff S leaf args).mp ⟨rd, hf⟩
    have := ((fullOutput_lookup S leaf args rd hf name v).mp h2).2
    simp [nestBody, hw, this]

/-- completeness: when every exported name is an inner output that evaluates, the nested function answers exactly as `nestBody` -/
theorem nestCall_complete (S : List RFunc) (on : OutName) (leaf : String) (args : List (String × Val)) (name : String)
    (hall : ∀ o ∈ on.names, o ∈ allOutputs S ∧ ∃ w, eval S args (fuelOf S) o = .ok w)
    (hleaf : ∃ w, eval S args (fuelOf S) leaf = .ok w) (hn : name ∈ on.names) :
    nestCall S on leaf args name = nestBody S leaf args name := by
  obtain ⟨rd, hf⟩ := (fullOutput_ok_iff S leaf args).mpr hleaf
  obtain ⟨wl, hwl⟩ := hleaf
  have hsome : ∀ o ∈ on.names, (alookup rd o).isSome := by
    intro o ho
    obtain ⟨h1, w, hw⟩ := hall o ho
    rw [(fullOutput_lookup S leaf args rd hf o w).mpr ⟨h1, hw⟩]; rfl
  obtain ⟨h1, w, hw⟩ := hall name hn
  have hl := (fullOutput_lookup S leaf args rd hf name w).mpr ⟨h1, hw⟩
  simp only [nestCall, hf, nestOut_complete on rd name hsome hn, getItem, hl, nestBody, hwl, hw]

/-! ### pickers -/

/-- a picker applied to the raw value of a multi-output primitive finds `pick (app f args) name` — whichever kind of picker -/
theorem applyPicker_rawOf (pk : Picker) (fname : String) (os : List String) (args : List (String × Val)) (name : String)
    (hl : os.length ≠ 1) (hn : name ∈ os) :
    applyPicker pk os (rawOf pk fname os args) name = .ok (.pick (.app fname args) name) := by
  match os, hl, hn with
  | [], _, hn => simp at hn
  | [_], hl, _ => simp at hl
  | a :: b :: t, _, hn =>
    cases pk with
    | custom => rfl
    | default =>
      simp only [applyPicker, rawOf, defaultPicker]
      rw [getElem?_idxOf_map (fun o => Val.pick (.app fname args) o) (a :: b :: t) name hn]

/-- `PF.Rw.outVal` of a primitive function is "apply the picker to the raw value" (multi-output) -/
theorem outVal_is_picker (pk : Picker) (f : RFunc) (args : List (String × Val)) (o oo : String)
    (hb : f.body = none) (ho : origOf f o = some oo) (hl : f.outOrig.length ≠ 1) (hn : oo ∈ f.outOrig) :
    outVal f args o = applyPicker pk f.outOrig (rawOf pk f.core.name f.outOrig args) oo := by
  rw [applyPicker_rawOf pk f.core.name f.outOrig args oo hl hn]
  simp only [outVal, ho, hb]
  match hf : f.outOrig, hl with
  | [], _ => rfl
  | [_], hl => simp at hl
  | _ :: _ :: _, _ => rfl

/-- `PF.Rw.outVal` of a single-output primitive is the raw value -/
theorem outVal_is_raw (pk : Picker) (f : RFunc) (args : List (String × Val)) (o oo x : String)
    (hb : f.body = none) (ho : origOf f o = some oo) (hl : f.outOrig = [x]) :
    outVal f args o = .ok (rawOf pk f.core.name f.outOrig args) := by
  simp only [outVal, ho, hb, hl, rawOf]

/-- the seeded variant of the wrapper is harmless for a leaf with the DEFAULT picker: its raw tuple is what the wrapper builds -/
theorem wrapperCallSeeded_default (rd : RDict) (fname : String) (os : List String) (args : List (String × Val))
    (hl : os.length ≠ 1) (hrd : ∀ o ∈ os, alookup rd o = some (.pick (.app fname args) o)) :
    wrapperCallSeeded (.tuple os) rd (.tuple os) (rawOf .default fname os args) = wrapperCall (.tuple os) rd := by
  simp only [wrapperCallSeeded, if_true, wrapperCall, getItems_map rd _ os hrd]
  match os, hl with
  | [], _ => rfl
  | [_], hl => simp at hl
  | _ :: _ :: _, _ => rfl

end PF.Rw.Wrap

namespace PF.Rw.Wrap
open PF PF.Pipe PF.Rw

/-- position by position: the current name `c` of the output originally called `o` sits where `o` sits -/
theorem idxOf_zip (cur orig : List String) (c o : String) (hno : orig.Nodup) (hl : cur.length = orig.length)
    (h : alookup (cur.zip orig) c = some o) : cur.idxOf c = orig.idxOf o := by
  induction cur generalizing orig with
  | nil => simp [alookup] at h
  | cons a as ih =>
    cases orig with
    | nil => simp at hl
    | cons b bs =>
      simp only [List.zip_cons_cons, alookup] at h
      by_cases e : a = c
      · simp only [e, if_true, Option.some.injEq] at h
        subst h; subst e
        simp [List.idxOf_cons]
      · simp only [e, if_false] at h
        have hb : (a == c) = false := by simp [e]
        have hmem : o ∈ bs := by
          have := alookup_some_mem _ _ _ h
          exact (List.of_mem_zip this).2
        have hne : b ≠ o := by
          intro hbo; subst hbo
          exact (List.nodup_cons.mp hno).1 hmem
        have hb2 : (b == o) = false := by simp [hne]
        simp only [List.idxOf_cons, hb, hb2, cond_false]
        rw [ih bs (List.nodup_cons.mp hno).2 (by simpa using hl) h]

/-- a renamed nest: reading the current name `c` is reading the inner name `o` it stands for (same value; both fail together) -/
theorem nestOutCur_ok_iff (cur orig : List String) (rd : RDict) (c o : String) (hno : orig.Nodup) (hl : cur.length = orig.length)
    (h : alookup (cur.zip orig) c = some o) (v : Val) : nestOutCur cur orig rd c = .ok v ↔ nestOut (.tuple orig) rd o = .ok v := by
  simp only [nestOutCur, nestOut]
  cases wrapperCall (.tuple orig) rd with
  | error e => simp
  | ok ret =>
    simp only [readOut, defaultPicker]
    rw [idxOf_zip cur orig c o hno hl h]
    cases ret with
    | tup vs => cases hq : vs[List.idxOf o orig]? <;> simp [hq]
    | _ => simp

end PF.Rw.Wrap
