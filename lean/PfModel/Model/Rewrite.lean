/-
Model of the structural rewrites of a pipeline: `Pipeline.copy/join` (`pipefunc/_pipeline/_base.py:1581-1603, 1649-1695`),
`update_renames/update_scope/_flatten_scopes` (`_pipefunc.py:358-499, 704-729`; `_base.py:942-1065`),
`NestedPipeFunc/_NestedFuncWrapper/nest_funcs` (`_pipefunc.py:1046-1214`; `_base.py:1617-1647`),
`simplified_pipeline/_identify_combinable_nodes/_combine_nodes/_output_name` (`_pipeline/_simplify.py:21-250`),
`split_disconnected` (`_base.py:1697-1721`), `add_mapspec_axis` (`_pipeline/_mapspec.py:15-43`; `_base.py:1216-1233`),
`update_defaults/update_bound`.  Built on `PF.Pipe` (call model) and `PF.Map` (map model).  Core Lean only.

A function of a rewritten pipeline (`RFunc`) is a `PF.Pipe.Func` (current parameter names paired with the wrapped
function's ORIGINAL parameter names, current output names, defaults, bound) plus the original output names, the MapSpec,
and its body: primitive (an uninterpreted term is built, recording original names) or nested (a `NestedPipeFunc`: the
evaluation of an inner pipeline).  `eval` is the memo-free composition along the DAG (the specification `PF.Pipe.compose`
extended to nested bodies and renamed outputs); `eval_embed` (Lemmas) shows it is `PF.Pipe.compose` on plain pipelines.
-/
import PfModel.Model.Pipeline
import PfModel.Model.MapRun
namespace PF.Rw
open PF PF.Pipe

/-- a `PipeFunc`/`NestedPipeFunc` of a pipeline under rewriting -/
structure RFunc where
  core : Func                       -- name, params (current, original), outputs (current), defaults, bound
  outOrig : List String             -- `_output_name`: output names before renaming, position by position
  body : Option (List (String × Val) → String → Except Err Val)   -- `none`: primitive; `some b`: nested, `b args originalOutput`
  mapspec : Option PF.Map.MSpec := none
  ret : Option (List Nat) := none          -- shape of the arrays the wrapped function returns (map pipelines)
  internal : Option (List Nat) := none     -- `internal_shape`

instance : Inhabited RFunc := ⟨⟨default, [], none, none, none, none⟩⟩

def cores (fs : List RFunc) : List Func := fs.map (·.core)

/-- `output_to_func[o]` -/
def rproducer (fs : List RFunc) (o : String) : Option RFunc := fs.find? (fun f => o ∈ f.core.outputs)

/-- the original name of the current output name `o` (`_rename_output_name` is positional) -/
def origOf (f : RFunc) (o : String) : Option String := alookup (f.core.outputs.zip f.outOrig) o

/-- the value of output `o` of `f` called with `args` (keyed by ORIGINAL parameter names): the term a primitive builds
    (`PipeFunc.__call__` after inverse renaming; `output_picker` is positional, so the pick records the original output
    name), or the inner pipeline's value (`_NestedFuncWrapper.__call__`) -/
def outVal (f : RFunc) (args : List (String × Val)) (o : String) : Except Err Val :=
  match origOf f o with
  | none => .error (.noFunc o)
  | some oo =>
    match f.body with
    | some b => b args oo
    | none =>
      match f.outOrig with
      | [_] => .ok (.app f.core.name args)
      | _ => .ok (.pick (.app f.core.name args) oo)

/-- composition along the DAG (the specification): `PF.Pipe.compose` with `outVal` in place of `outVals` -/
def eval (fs : List RFunc) (kw : List (String × Val)) : Nat → String → Except Err Val
  | 0, _ => .error .fuel
  | n+1, o =>
    match rproducer fs o with
    | none => .error (.noFunc o)
    | some f =>
      match composeArgsWith (eval fs kw n) (cores fs) kw f.core f.core.params with
      | .error e => .error e
      | .ok args => outVal f args o

/-- a plain `PF.Pipe.Func` as an `RFunc` -/
def embed (g : Func) : RFunc := { core := g, outOrig := g.outputs, body := none }

def fuelOf (fs : List RFunc) : Nat := fs.length + 2

def allOutputs (fs : List RFunc) : List String := fs.flatMap (·.core.outputs)

/-- non-bound parameters of `f` -/
def freeParams (f : RFunc) : List String :=
  f.core.params.filterMap fun (p, _) => if (alookup f.core.bound p).isSome then none else some p

/-- root arguments (string nodes of the graph): non-bound parameters nothing produces -/
def rootArgs (fs : List RFunc) : List String :=
  (fs.flatMap fun f => (freeParams f).filter fun p => (rproducer fs p).isNone).eraseDups

/-! ### copy, pickle, join -/

/-- `Pipeline.copy()`: every function is copied with all its naming state -/
def copy (fs : List RFunc) : List RFunc := fs
/-- `cloudpickle.loads(cloudpickle.dumps(p))` (`__getstate__/__setstate__`) -/
def pickle (fs : List RFunc) : List RFunc := fs

def dupOutputs (fs : List RFunc) : Bool :=
  let os := allOutputs fs
  os.length ≠ os.eraseDups.length

/-- `validate_consistent_defaults` -/
def consistentDefaults (fs : List RFunc) : Bool :=
  let ds := pdefaults (cores fs)
  ds.all fun (p, v) => ds.all fun (q, w) => p ≠ q || toString (repr v) == toString (repr w)

/-- `Pipeline.join` / `|`: the functions of both, re-validated (`validate_unique_output_names`, consistent defaults) -/
def join (fs gs : List RFunc) : Except Err (List RFunc) :=
  let r := fs ++ gs
  if dupOutputs r then .error (.missing "duplicate output") else
  if !consistentDefaults r then .error (.missing "inconsistent defaults") else .ok r

/-! ### update_renames -/

def renameSpec (ρ : String → String) (ms : PF.Map.MSpec) : PF.Map.MSpec :=
  { inputs := ms.inputs.map fun a => { a with name := ρ a.name }, outputs := ms.outputs.map fun a => { a with name := ρ a.name } }

/-- `PipeFunc.update_renames`: parameters, outputs, defaults, bound and the MapSpec are re-keyed together; the original
    names (what the wrapped function is called with) stay -/
def renameF (ρ : String → String) (f : RFunc) : RFunc :=
  { f with
    core := { f.core with
      params := f.core.params.map fun (p, orig) => (ρ p, orig)
      outputs := f.core.outputs.map ρ
      defaults := f.core.defaults.map fun (p, v) => (ρ p, v)
      bound := f.core.bound.map fun (p, v) => (ρ p, v) }
    mapspec := f.mapspec.map (renameSpec ρ) }

def renameAll (ρ : String → String) (fs : List RFunc) : List RFunc := fs.map (renameF ρ)

/-- a renaming dictionary as a total function -/
def rhoOf (m : List (String × String)) : String → String := fun k => (alookup m k).getD k

def allNames (fs : List RFunc) : List String := fs.flatMap fun f => f.core.params.map (·.1) ++ f.core.outputs

/-- `Pipeline.update_renames(m)`: every function takes the entries that name one of its parameters or outputs; an entry
    nobody takes is an error; the result must keep parameter/output names apart per function -/
def updateRenames (m : List (String × String)) (fs : List RFunc) : Except Err (List RFunc) :=
  match (akeys m).filter (fun k => !((allNames fs).contains k)) with
  | k :: _ => .error (.unused [k])
  | [] =>
    if (renameAll (rhoOf m) fs).any (fun f => f.core.params.any fun (p, _) => f.core.outputs.contains p) then .error (.missing "output is a parameter") else
    if (renameAll (rhoOf m) fs).any (fun f => ((f.core.params.map (·.1) ++ f.core.outputs).length ≠ (f.core.params.map (·.1) ++ f.core.outputs).eraseDups.length : Bool)) then
      .error (.missing "renames not one-to-one") else
    .ok (renameAll (rhoOf m) fs)

/-! ### update_scope -/

/-- split at the first dot -/
def dotSplit (s : String) : Option (String × String) :=
  match s.splitOn "." with
  | [] => none
  | [_] => none
  | a :: rest => some (a, ".".intercalate rest)

/-- `_prepend_name_with_scope` -/
def prependScope (scope : Option String) (name : String) : String :=
  match scope with
  | none => match dotSplit name with | some (_, n) => n | none => name
  | some s =>
    if name.startsWith (s ++ ".") then name else
    match dotSplit name with
    | some (_, n) => s ++ "." ++ n
    | none => s ++ "." ++ name

/-- `Pipeline.update_scope(scope, "*", "*")` as a renaming: root arguments and outputs get (or lose) the prefix; a
    parameter that is bound wherever it occurs is left alone -/
def scopeRho (scope : Option String) (fs : List RFunc) : String → String :=
  let names := rootArgs fs ++ allOutputs fs
  fun n => if names.contains n then prependScope scope n else n

def scopesOf (fs : List RFunc) : List String :=
  (fs.flatMap fun f => f.core.params.filterMap fun (p, _) => (dotSplit p).map (·.1)).eraseDups

/-- `validate_scopes` + `PipeFunc.update_scope`'s own check: the scope is a parameter or output name (scoped or not) -/
def scopeClash (scope : Option String) (fs : List RFunc) : Bool :=
  match scope with
  | none => false
  | some s => (allNames fs).any fun n => n = s || (match dotSplit n with | some (_, u) => u = s | none => false)

/-- `Pipeline.update_scope(scope, "*", "*")` -/
def updateScope (scope : Option String) (fs : List RFunc) : Except Err (List RFunc) :=
  if scopeClash scope fs then .error (.missing "scope is a parameter") else
  if dupOutputs (renameAll (scopeRho scope fs) fs) then .error (.missing "duplicate output") else
  .ok (renameAll (scopeRho scope fs) fs)

/-- a keyword argument: a value, or a dictionary for a scope -/
inductive KwArg
  | val (v : Val)
  | scope (items : List (String × Val))

/-- `Pipeline._flatten_scopes`: `{scope: {name: value}}` becomes `{f"{scope}.{name}": value}` for the parameter scopes of
    the pipeline's functions -/
def flattenKw (scopes : List String) (kw : List (String × KwArg)) : List (String × Val) :=
  kw.flatMap fun (k, a) =>
    match a with
    | .val v => [(k, v)]
    | .scope items => if scopes.contains k then items.map fun (n, v) => (k ++ "." ++ n, v) else []

/-! ### NestedPipeFunc, nest_funcs -/

def insertSortedS (x : String) : List String → List String
  | [] => [x]
  | y :: ys => if x < y then x :: y :: ys else if x = y then y :: ys else y :: insertSortedS x ys
/-- `tuple(sorted(set(...)))` -/
def sortDedup (l : List String) : List String := l.foldl (fun acc x => insertSortedS x acc) []

/-- functions of `S` none of whose outputs another function of `S` consumes (`Pipeline.leaf_nodes`) -/
def leaves (S : List RFunc) : List RFunc :=
  S.filter fun f => !(S.any fun g => (freeParams g).any fun p => f.core.outputs.contains p)

/-- `NestedPipeFunc.original_parameters` (after the DF-27 repair): the non-bound parameters of the nested functions
    that none of them produces, sorted -/
def nestParams (S : List RFunc) : List String :=
  sortDedup ((S.flatMap freeParams).filter fun p => !((allOutputs S).contains p))

/-- what calling the nested function returns for the inner output `oo`: `call_full_output` runs the inner pipeline for
    its unique leaf (so every nested function runs) with the arguments as keywords, `_NestedFuncWrapper` looks `oo` up
    in the full output — by `PF.C02.C02_full_output` that entry is the inner composition's value -/
def nestBody (S : List RFunc) (leaf : String) (args : List (String × Val)) (oo : String) : Except Err Val :=
  match eval S args (fuelOf S) leaf with
  | .error e => .error e
  | .ok _ => eval S args (fuelOf S) oo

/-- `NestedPipeFunc(S, output_name=out)` -/
def mkNest (S : List RFunc) (out : Option (List String)) : Except Err RFunc :=
  if S.length < 2 then .error (.missing "at least two functions") else
  if S.any (fun f => f.mapspec.isSome) then .error .mapspec else
  match leaves S with
  | [lf] =>
    let all := sortDedup (allOutputs S)
    let outs := out.getD all
    if outs.isEmpty || !(outs.all all.contains) then .error (.missing "output_name not a subset") else
    let ps := nestParams S
    .ok { core := { name := "NestedPipeFunc_" ++ "_".intercalate outs
                    params := ps.map fun p => (p, p)
                    outputs := outs
                    defaults := (pdefaults (cores S)).filter fun kv => ps.contains kv.1
                    bound := [] }
          outOrig := outs
          body := some (nestBody S (lf.core.outputs.headD "")) }
  | _ => .error (.missing "only one leaf node")

/-- Kahn layering: every function can be scheduled (the graph has no cycle) -/
def layersOk (fs : List RFunc) : Nat → List String → List RFunc → Bool
  | 0, _, rest => rest.isEmpty
  | fuel+1, done, rest =>
    if rest.isEmpty then true else
    let ready := rest.filter fun f => (freeParams f).all fun p => (rproducer fs p).isNone || done.contains p
    if ready.isEmpty then false else
    layersOk fs fuel (done ++ ready.flatMap (·.core.outputs)) (rest.filter fun f => !(ready.any fun g => g.core.outputs = f.core.outputs))

def acyclic (fs : List RFunc) : Bool := layersOk fs (fs.length + 1) [] fs

/-- `Pipeline.nest_funcs(sel, new_output_name=out)` on a copy: the functions producing the selected names are dropped
    and the `NestedPipeFunc` is added at the end -/
def nestFuncs (sel : List String) (out : Option (List String)) (fs : List RFunc) : Except Err (List RFunc) :=
  if sel.any (fun o => (rproducer fs o).isNone) then .error (.noFunc "nest") else
  let S := fs.filter fun f => sel.any fun o => f.core.outputs.contains o
  let rest := fs.filter fun f => !(sel.any fun o => f.core.outputs.contains o)
  match mkNest S out with
  | .error e => .error e
  | .ok N =>
    let r := rest ++ [N]
    if acyclic r then .ok r else .error .fuel

/-! ### simplified_pipeline -/

/-- the functions feeding `f` through a non-bound parameter, in parameter order (`graph.predecessors`) -/
def predFuncs (fs : List RFunc) (f : RFunc) : List RFunc :=
  ((freeParams f).filterMap fun p => rproducer fs p).foldl
    (fun acc g => if acc.any (fun h => h.core.outputs = g.core.outputs) then acc else acc ++ [g]) []

def sameF (f g : RFunc) : Bool := f.core.outputs = g.core.outputs

/-- `all_root_args[f.output_name]` -/
def rootArgsOf (fs : List RFunc) (f : RFunc) : Option (List String) := Pipe.rootArgs (cores fs) (f.core.outputs.headD "")

abbrev Groups := List (RFunc × List RFunc)

/-- `_identify_combinable_nodes._recurse`: depth-first over predecessors; a head is entered with the predecessors that
    share its root arguments (all of them required when `conservative`) -/
def identify (fs : List RFunc) (conservative : Bool) : Nat → RFunc → Groups → Except Err Groups
  | 0, _, _ => .error .fuel
  | fuel+1, head, acc =>
    let rec go (ps : List RFunc) (acc : Groups) (funcs : List RFunc) (i : Nat) : Except Err (Groups × List RFunc × Nat) :=
      match ps with
      | [] => .ok (acc, funcs, i)
      | nd :: rest =>
        if nd.mapspec.isSome then .error .mapspec else
        match identify fs conservative fuel nd acc with
        | .error e => .error e
        | .ok acc' =>
          let funcs' := if rootArgsOf fs nd == rootArgsOf fs head && !(funcs.any (sameF nd)) then funcs ++ [nd] else funcs
          go rest acc' funcs' (i + 1)
    match go (predFuncs fs head) acc [] 0 with
    | .error e => .error e
    | .ok (acc', funcs, i) =>
      if !funcs.isEmpty && (!conservative || i = funcs.length) then
        .ok ((acc'.filter fun kv => !(sameF kv.1 head)) ++ [(head, funcs)])       -- dict assignment (re-assignment keeps the slot; a head is only revisited with the same value)
      else .ok acc'

def unionF (a b : List RFunc) : List RFunc := b.foldl (fun acc g => if acc.any (sameF g) then acc else acc ++ [g]) a

/-- `_combine_nodes`: each entry once, in insertion order: a node that is a dependency of other entries hands its own
    dependencies to them and disappears; otherwise it goes to the back -/
def combineNodes (gs : Groups) : Groups :=
  (List.range gs.length).foldl (fun (d : Groups) _ =>
    match d with
    | [] => []
    | (node, deps) :: rest =>
      if rest.any (fun kv => kv.2.any (sameF node)) then
        rest.map fun kv => if kv.2.any (sameF node) then (kv.1, unionF kv.2 deps) else kv
      else rest ++ [(node, deps)]) gs

def outKey (f : RFunc) : String := ",".intercalate f.core.outputs   -- orders like `at_least_tuple(output_name)` for names without ','

def insertSortedF (x : RFunc) : List RFunc → List RFunc
  | [] => [x]
  | y :: ys => if x.core.outputs < y.core.outputs then x :: y :: ys else y :: insertSortedF x ys
/-- `_sort` (after the DF-23 repair): by `at_least_tuple(output_name)` -/
def sortF (l : List RFunc) : List RFunc := l.foldl (fun acc x => insertSortedF x acc) []

/-- `_output_name`: the base's outputs plus the group's outputs that anything outside the group consumes -/
def groupOutputs (groups : List (List RFunc)) (i : Nat) (otherInputs : List String) : List String :=
  let grp := groups.getD i []
  let cur := allOutputs grp
  let others := ((List.range groups.length).flatMap fun j => if j = i then [] else (groups.getD j []).flatMap fun f => f.core.params.map (·.1)) ++ otherInputs
  let base := (grp.headD default).core.outputs
  sortDedup (base ++ cur.filter others.contains)

/-- the groups `simplified_pipeline` nests, each with the output names its `NestedPipeFunc` exposes -/
def simplifyPlan (o : String) (conservative : Bool) (fs : List RFunc) : Except Err (List (List RFunc × List String)) :=
  match rproducer fs o with
  | none => .error (.noFunc o)
  | some head =>
    match identify fs conservative (fs.length + 1) head [] with
    | .error e => .error e
    | .ok [] => .error (.missing "no combinable nodes")
    | .ok groups0 =>
      let combined := combineNodes groups0
      let keys := sortF (combined.map (·.1))
      let groups : List (List RFunc) := keys.map fun k =>
        k :: sortF ((combined.find? fun kv => sameF kv.1 k).map (·.2) |>.getD [])
      let flat := groups.flatten
      let rest := fs.filter fun f => !(flat.any (sameF f))
      let restInputs := rest.flatMap fun f => f.core.params.map (·.1)
      .ok ((List.range groups.length).map fun i => (groups.getD i [], groupOutputs groups i restInputs))

def buildNests : List (List RFunc × List String) → Except Err (List RFunc)
  | [] => .ok []
  | (g, outs) :: more =>
    match mkNest g (some outs) with
    | .error e => .error e
    | .ok N => match buildNests more with
      | .error e => .error e
      | .ok Ns => .ok (N :: Ns)

/-- every output of a grouped function that a function outside the groups or another nested function consumes is an
    output of one of the nested functions -/
def retainsAll (fs : List RFunc) (inG : RFunc → Bool) (Ns : List RFunc) : Bool :=
  (allOutputs (fs.filter inG)).all fun p =>
    !((fs.any fun f => !inG f && (freeParams f).contains p) || (Ns.any fun N => N.core.params.any fun q => q.1 = p)) ||
      Ns.any fun N => N.core.outputs.contains p

/-- `Pipeline.simplified_pipeline(o, conservatively_combine=c)`: the functions outside the groups, then one
    `NestedPipeFunc` per group (a group selects its functions from the pipeline) -/
def simplify (o : String) (conservative : Bool) (fs : List RFunc) : Except Err (List RFunc) :=
  match simplifyPlan o conservative fs with
  | .error e => .error e
  | .ok plan =>
    match buildNests (plan.map fun (g, outs) => (fs.filter (fun f => g.any (sameF f)), outs)) with
    | .error e => .error e
    | .ok Ns =>
      if dupOutputs (fs.filter (fun f => !((plan.map (·.1)).flatten.any (sameF f))) ++ Ns) then .error (.missing "duplicate output") else
      if acyclic (fs.filter (fun f => !((plan.map (·.1)).flatten.any (sameF f))) ++ Ns) then
        .ok (fs.filter (fun f => !((plan.map (·.1)).flatten.any (sameF f))) ++ Ns)
      else .error .fuel

/-! ### split_disconnected -/

/-- two functions share a graph edge or a root-argument node -/
def linked (fs : List RFunc) (f g : RFunc) : Bool :=
  (freeParams f).any (fun p => g.core.outputs.contains p) || (freeParams g).any (fun p => f.core.outputs.contains p) ||
  (freeParams f).any (fun p => (rproducer fs p).isNone && (freeParams g).contains p)

/-- the connected component of the seed functions (closure under `linked`) -/
def component (fs : List RFunc) : Nat → List RFunc → List RFunc
  | 0, comp => comp
  | fuel+1, comp =>
    let more := fs.filter fun f => !(comp.any (sameF f)) && comp.any (linked fs f)
    if more.isEmpty then comp else component fs fuel (comp ++ more)

/-- `h` has `p` as an output, as a non-bound parameter, or as a non-bound default -/
def mentions (h : RFunc) (p : String) : Bool :=
  h.core.outputs.contains p || (freeParams h).contains p || (h.core.defaults.any (fun kv => kv.1 = p) && (alookup h.core.bound p).isNone)

/-- the selected functions are closed under sharing a name: whoever mentions a non-bound parameter of a selected
    function is selected (what being a union of connected components means for evaluation) -/
def closedPart (fs : List RFunc) (P : RFunc → Bool) : Bool :=
  fs.all fun g => !(P g) || (freeParams g).all fun p => fs.all fun h => !(mentions h p) || P h

/-- the pipeline of `split_disconnected()` that contains output `o`; an error when the pipeline is connected.  The
    component computed by the closure is re-checked to be closed (it always is; the check is what the theorem uses). -/
def splitComponent (o : String) (fs : List RFunc) : Except Err (List RFunc) :=
  match rproducer fs o with
  | none => .error (.noFunc o)
  | some f =>
    let comp := component fs fs.length [f]
    let P : RFunc → Bool := fun g => comp.any (sameF g)
    if !(closedPart fs P) then .error .fuel else
    if (fs.filter P).length = fs.length then .error (.missing "fully connected") else .ok (fs.filter P)

/-! ### update_defaults / update_bound (the mutations) -/

def ainsert (l : List (String × Val)) (k : String) (v : Val) : List (String × Val) :=
  if (alookup l k).isSome then l.map fun kv => if kv.1 = k then (k, v) else kv else l ++ [(k, v)]

/-- `Pipeline.update_defaults(m)` -/
def updateDefaults (m : List (String × Val)) (fs : List RFunc) : Except Err (List RFunc) :=
  let takes (f : RFunc) (k : String) : Bool := (f.core.params.any fun (p, _) => p = k) && (alookup f.core.bound k).isNone
  match (akeys m).filter (fun k => !(fs.any fun f => takes f k)) with
  | k :: _ => .error (.unused [k])
  | [] => .ok (fs.map fun f =>
      { f with core := { f.core with defaults := m.foldl (fun d (k, v) => if takes f k then ainsert d k v else d) f.core.defaults } })

/-- `pipeline[o].update_bound(m)` -/
def updateBound (o : String) (m : List (String × Val)) (fs : List RFunc) : Except Err (List RFunc) :=
  match rproducer fs o with
  | none => .error (.noFunc o)
  | some f =>
    if m.any (fun (k, _) => !(f.core.params.any fun (p, _) => p = k)) then .error (.unused (akeys m)) else
    .ok (fs.map fun g => if sameF g f then { g with core := { g.core with bound := m.foldl (fun b (k, v) => ainsert b k v) g.core.bound } } else g)

/-! ### add_mapspec_axis -/

open PF.Map in
/-- `_axes_from_dims` -/
def axesFromDims (p : String) (dims : List (String × Nat)) (axis : String) : List (Option String) :=
  List.replicate (((dims.find? (·.1 = p)).map (·.2)).getD 1 - 1) none ++ [some axis]

open PF.Map in
/-- `add_mapspec_axis(p, dims, axis, functions)`: every function that takes `p` (un-bound) gets the axis on `p` and on all
    its outputs, then the same for each of its outputs, depth first, with the shared `dims` dictionary; `order` is
    `sorted_functions` (each function named by its first output) -/
def addAxisGo (axis : String) (order : List String) : Nat → String → List RFunc × List (String × Nat) → List RFunc × List (String × Nat)
  | 0, _, st => st
  | fuel+1, p, st =>
    order.foldl (fun (st : List RFunc × List (String × Nat)) fo =>
      let (fs, dims) := st
      match rproducer fs fo with
      | none => st
      | some f =>
        if !(freeParams f).contains p then st else
        let (ins, outs) : List ASpec × List ASpec :=
          match f.mapspec with
          | none => ([⟨p, axesFromDims p dims axis⟩], f.core.outputs.map fun o => ⟨o, [some axis]⟩)
          | some ms =>
            let ins := if ms.inputs.any (·.name = p)
              then ms.inputs.map fun s => if s.name = p && !(s.axes.contains (some axis)) then { s with axes := s.axes ++ [some axis] } else s
              else ms.inputs ++ [⟨p, axesFromDims p dims axis⟩]
            (ins, ms.outputs.map fun s => if s.axes.contains (some axis) then s else { s with axes := s.axes ++ [some axis] })
        let fs' := fs.map fun g => if sameF g f then { g with mapspec := some ⟨ins, outs⟩ } else g
        outs.foldl (fun st o => addAxisGo axis order fuel o.name (st.1, (o.name, o.axes.length) :: st.2)) (fs', dims)) st

/-- topological order of the functions (Kahn layers, listing order within a layer), each named by its first output -/
def topoOrder (fs : List RFunc) : Nat → List String → List RFunc → List String
  | 0, _, _ => []
  | fuel+1, done, rest =>
    if rest.isEmpty then [] else
    let ready := rest.filter fun f => (freeParams f).all fun p => (rproducer fs p).isNone || done.contains p
    if ready.isEmpty then [] else
    ready.map (fun f => f.core.outputs.headD "") ++
      topoOrder fs fuel (done ++ ready.flatMap (·.core.outputs)) (rest.filter fun f => !(ready.any (sameF f)))

/-- `mapspec_dimensions[p]`: the rank `p` has in the MapSpecs that mention it -/
def specRank (fs : List RFunc) (p : String) : Option Nat :=
  (fs.flatMap fun f => match f.mapspec with
    | none => []
    | some ms => (ms.inputs ++ ms.outputs).filterMap fun a => if a.name = p then some a.axes.length else none).head?

/-- `Pipeline.add_mapspec_axis(p, axis=a)`; a parameter that already is an array starts with its rank + 1 in `dims`, so a
    function that takes it whole gets `p[:, …, a]` (the repaired behaviour) -/
def addAxis (p axis : String) (fs : List RFunc) : List RFunc :=
  let dims0 : List (String × Nat) := match specRank fs p with | some r => [(p, r + 1)] | none => []
  (addAxisGo axis (topoOrder fs (fs.length + 1) [] fs) (fs.length + 2) p (fs, dims0)).1

/-- the pipeline as `Pipeline.map` sees it -/
def toMFunc (f : RFunc) : PF.Map.MFunc :=
  { name := f.core.name, params := f.core.params, outputs := f.core.outputs, mapspec := f.mapspec, ret := f.ret,
    internal := f.internal, defaults := f.core.defaults, bound := f.core.bound }

/-! ### histories over an environment `name ↦ pipeline` -/

abbrev Env := List (String × List RFunc)

def envGet (env : Env) (n : String) : Option (List RFunc) := (env.find? (·.1 = n)).map (·.2)
/-- binding a name: a new binding, or replacing that name's own binding -/
def envSet (env : Env) (n : String) (fs : List RFunc) : Env :=
  if env.any (·.1 = n) then env.map fun kv => if kv.1 = n then (n, fs) else kv else env ++ [(n, fs)]

end PF.Rw
