"""C07 round 9 — sessions on one run folder: `persist()` and re-opening as SEPARATE steps.

The main stream of `props/c07.py` knows one step `persist_reopen` that the model treats as the identity.  Here a history is any
interleaving of the array operations with `["persist"]` (`arr.persist()`) and `["reopen"]` (a NEW object of the same class on the
same folder; the old one is dropped), re-opening WITHOUT a preceding persist included.  Every class of `storage_registry` runs the
history through its public API and is compared, step by step, with

  * its own session model (`PF.St.dsStep` with an explicit pickle for the dict classes, `PF.St.fsStep` for `FileArray`) on EVERY
    history (`C07_sess_dict_refines`, `C07_sess_file_refines`) — a correspondence item;
  * the NumPy reference masked array and the other classes on the longest prefix that is "persist-then-reopen" in the sense of the
    property statement (`PF.St.safeFrom`, decided by the Lean driver, never here; `C07_sess_backends_agree`) — a property clause.

Beyond that prefix a `DictArray` has lost what was not persisted and a `FileArray` has not (`C07_sess_unpersisted_witness`,
`C07_sess_reopen_rolls_back`): this is counted (`session:unsafe:…`) and the witness history of the theorem is replayed on the real
classes in every run.
"""
from __future__ import annotations

import copy
import os

import pfimport  # noqa: F401
from pipefunc.map._storage_array._base import storage_registry

# the history of `C07_sess_unpersisted_witness`, then histories around it (persisted prefix kept, empty-slice / rejected dumps are
# not "dirty", persist on an untouched folder, re-opening twice, bare keys)
G2 = {"shape": [2], "internal": [], "mask": [True]}
G_TRAIL = {"shape": [2], "internal": [2], "mask": [True, False]}
G_LEAD = {"shape": [3], "internal": [2], "mask": [False, True]}
WITNESS = {"geom": G2, "ops": [["dump", [0], [7]], ["reopen"], ["has", 0], ["mask_linear"]]}
CORPUS = [
    WITNESS,
    {"geom": G2, "ops": [["dump", [0], [1]], ["persist"], ["dump", [1], [2]], ["dump", [0], [3]], ["reopen"], ["at", 0], ["has", 1], ["to_array", None],
                         ["dump_bare", 1, [4]], ["persist"], ["reopen"], ["reopen"], ["get_bare", ["s", None, None, -1]]]},
    {"geom": G2, "ops": [["persist"], ["reopen"], ["dump", [["s", 1, 1, None]], [6]], ["dump", [2], [7]], ["reopen"], ["mask_linear"], ["dump", [-1], [8]],
                         ["persist_reopen"], ["reopen"], ["get", [1]], ["get", [0]]]},
    {"geom": G_TRAIL, "ops": [["reopen"], ["dump", [1], [3, 4]], ["persist"], ["dump", [1], [5, 6]], ["get", [1, 1]], ["reopen"], ["get", [1, 1]],
                              ["get", [["s", None, None, None], 0]], ["to_array", None], ["at", 1], ["persist"], ["dump", [0], [20, 5]], ["persist"],
                              ["reopen"], ["to_array", False], ["mask"]]},
    # one object persists twice, an overwrite (no new element) in between: the re-opened array holds the second value
    {"geom": G2, "ops": [["dump", [0], [1]], ["persist"], ["dump", [0], [2]], ["persist"], ["reopen"], ["get", [0]], ["at", 0], ["to_array", None]]},
    {"geom": G_TRAIL, "ops": [["dump", [1], [3, 4]], ["persist"], ["dump", [["s", None, None, None]], [6, 7]], ["persist"], ["reopen"], ["get", [1, 0]],
                              ["to_array", None], ["mask_linear"]]},
    # step 0 (ValueError) and wrong rank (IndexError) write nothing: the re-opening after them is still clean
    {"geom": G_TRAIL, "ops": [["dump", [0], [1, 2]], ["persist"], ["dump", [["s", None, None, 0]], [3, 4]], ["dump", [0, 0], [5, 6]], ["reopen"],
                              ["get", [["s", None, None, 0], 0]], ["get", [0]], ["get_bare", 0], ["dump_bare", ["s", None, None, 0], [7, 8]], ["to_array", None]]},
    {"geom": G_LEAD, "ops": [["dump", [2], [1, 2]], ["persist"], ["persist"], ["dump", [["s", None, None, None]], [10, 11]], ["reopen"], ["mask_linear"],
                             ["get", [1, 2]], ["get", [0, 0]], ["has", 2], ["at", 0]]},
]


def session_sequence(gen, g, length, malformed=False):
    """a mostly valid operation sequence with persist / reopen steps sprinkled in, plus (often) one of the two patterns that
    decide the clause: persist -> dumps -> reopen (rolled back in a dict store) and dump -> persist -> reopen (kept)"""
    rng = gen.rng
    ops = []
    for o in gen.sequence(g, length, malformed=malformed):
        r = rng.random()
        if r < 0.13:
            ops.append(["persist"])
        elif r < 0.24:
            ops.append(["reopen"])
        elif r < 0.30:
            ops += [["persist"], ["reopen"]]
        ops.append(o)
    if g["shape"] and rng.random() < 0.5:
        key = [rng.randrange(d) for d in g["shape"]]
        tail = [["dump", key, gen.value(g)]]
        r = rng.random()
        if r < 0.35:
            tail.append(["persist"])
        elif r < 0.6:
            # the SAME object persists twice with an overwrite (same element count) in between: the second persist must write
            tail += [["persist"], ["dump", key, gen.value(g)], ["persist"]]
        tail += [["reopen"], ["mask_linear"], ["get", list(_full_key(g, key, rng))], ["to_array", None]]
        ops += tail
    return ops


def _full_key(g, ext_key, rng):
    e = iter(ext_key)
    i = iter(g["internal"])
    return [next(e) if m else rng.randrange(next(i)) for m in g["mask"]]


def prepare(ctx):
    from props import c07 as base
    gen = base.Gen(ctx.rng)
    gen.next_id = 1000
    geoms = base.all_geoms()
    n = ctx.n(90, 5000)
    maxlen = 10 if ctx.tier == "quick" else 20
    order = geoms[:]
    ctx.rng.shuffle(order)
    cases = [copy.deepcopy(c) for c in CORPUS]
    cases += [{"geom": order[i % len(order)], "ops": session_sequence(gen, order[i % len(order)], ctx.rng.randint(1, maxlen), malformed=(i % 5 == 4))}
              for i in range(n)]
    reqs = [{"m": "storage.session", "a": {"geom": c["geom"], "ops": c["ops"]}} for c in cases]
    # the error class of every key, from the predicates of C07_getitem_error_classes / C07_dump_targets_characterised
    kreqs = []
    for ci, c in enumerate(cases):
        for oi, o in enumerate(c["ops"]):
            if o[0] in ("get", "get_bare", "dump", "dump_bare"):
                kreqs.append((ci, oi))
                reqs.append({"m": "storage.keyclass", "a": {"geom": c["geom"], "key": o[1], "tuple": not o[0].endswith("_bare"),
                                                            "for_dump": o[0].startswith("dump")}})
    return reqs, (cases, kreqs)


def _eval_job(job):
    from props import c07 as base
    case, folder, tag, backends = job
    return base.evaluate(case, folder, tag, backends)


def finish(ctx, basedir, state, outs):
    from props import c07 as base
    cases, kreqs = state
    kclass = {k: o["r"]["class"] for k, o in zip(kreqs, outs[len(cases):])}
    outs = outs[: len(cases)]
    backends_all = [b for b in sorted(storage_registry) if b in base.MODEL_OF]
    jobs = []
    for idx, case in enumerate(cases):
        label = "corpus" if idx < len(CORPUS) else ""
        jobs.append((case, basedir, f"sess{idx}", base.backends_for(ctx, idx, backends_all, label)))
    if ctx.tier == "thorough" and len(jobs) >= 64:
        import concurrent.futures
        import multiprocessing
        with concurrent.futures.ProcessPoolExecutor(max_workers=base.WORKERS, mp_context=multiprocessing.get_context("fork")) as ex:
            results = list(ex.map(_eval_job, jobs, chunksize=8))
    else:
        results = [_eval_job(j) for j in jobs]
    for idx, ((case, _, _, _), (impl, robs), resp) in enumerate(zip(jobs, results, outs)):
        g, ops = case["geom"], case["ops"]
        model = {k: [base.relabel(o) for o in resp["r"][k]] for k in ("dict", "file", "volatile", "spec")}
        safe = resp["r"]["safe"]                     # safe[n]: the first n steps are persist-then-reopen (decided in Lean)
        n_safe = max(n for n, ok in enumerate(safe) if ok)
        rcase = {"stream": "session", "geom": g, "ops": ops}
        ctx.count("stream:session")
        ctx.count("session:history:" + ("persist-then-reopen" if n_safe == len(ops) else "reopens-unpersisted"))
        for b in impl:
            ctx.count(f"session:backend:{b}")
        for i, op in enumerate(ops):
            if op[0] in ("persist", "reopen"):
                ctx.count(f"session:op:{op[0]}")
            if op[0] == "reopen":
                ctx.count("session:reopen:" + ("clean" if safe[i + 1] else "first-dirty" if safe[i] else "after-dirty"))
            if resp["r"]["dirties"][i]:
                ctx.count("session:dump-writes")
            if op[0] in ("get_bare", "dump_bare"):
                ctx.count(f"session:bare-key:{'ok' if 'err' not in (model['dict'][i] if isinstance(model['dict'][i], dict) else {}) else 'rejected'}")
        ctx.record(rcase, any(o == ["reopen"] for o in ops) and base.nontrivial({"ops": [o for o in ops if o[0] not in ("persist", "reopen")]},
                                                                               [m for o, m in zip(ops, model["dict"]) if o[0] not in ("persist", "reopen")]))
        # (1) what the theorems say about the model, re-evaluated on the case
        if model["dict"] != model["volatile"] or model["file"] != model["spec"]:
            ctx.violation(rcase, "Lean model: session back end differs from its reference (contradicts C07_sess_*_refines)", found_input=False,
                          item="model:session-refinement", model=model)
            continue
        if model["dict"][:n_safe] != model["file"][:n_safe]:
            ctx.violation(rcase, "Lean model: dict and file sessions differ on a persist-then-reopen prefix (contradicts C07_sess_backends_agree)",
                          found_input=False, item="model:session-agree", model=model)
            continue
        if n_safe < len(ops) and model["dict"] != model["file"]:
            ctx.count("session:unsafe:model-backends-differ")
        # (2) the property's clauses on the implementation's own answers, on the persist-then-reopen prefix
        pre = {"geom": g, "ops": ops[:n_safe]}
        f = base.first_clause_failure(pre, {b: o[:n_safe] for b, o in impl.items()}, robs[:n_safe])
        if f is not None:
            i = f[0]
            ctx.violation({"stream": "session", "geom": g, "ops": ops[: i + 1]}, "session (persist-then-reopen history): " + f[2],
                          impl={b: o[i] for b, o in impl.items()}, model={"reference": robs[i]}, key=f"session:{f[1]}:{ops[i][0]}")
            continue
        # (3) every history: each class against its own session model
        bad = False
        for b, obs in impl.items():
            mo = model[base.MODEL_OF[b]]
            for i, op in enumerate(ops):
                if obs[i] != mo[i]:
                    ctx.violation({"stream": "session", "geom": g, "ops": ops[: i + 1], "backend": b},
                                  f"session: {b} and its session model disagree on {op[0]}"
                                  + (" (after re-opening with unpersisted elements: outside the property's persist-then-reopen)" if i >= n_safe else ""),
                                  found_input=False, item=f"correspondence:session:{b}:{op[0]}", impl=obs[i], model=mo[i])
                    bad = True
                    break
        if bad:
            continue
        # (4) the error class of every key as the theorems classify it (KeyOK / hasStep0), on every class
        for i, op in enumerate(ops):
            want = kclass.get((idx, i))
            if want is None:
                continue
            ctx.count(f"keyclass:{'dump' if op[0].startswith('dump') else 'get'}:{want}")
            for b, obs in impl.items():
                got = obs[i]["err"] if isinstance(obs[i], dict) and "err" in obs[i] else "ok"
                if got != want:
                    ctx.violation({"stream": "session", "geom": g, "ops": ops[: i + 1], "backend": b},
                                  f"session: {b} answers {got} where the key classification says {want} ({op[0]})", found_input=False,
                                  item=f"correspondence:keyclass:{b}:{op[0]}", impl=obs[i], model=want)
                    bad = True
        if bad:
            continue
        if n_safe < len(ops):
            bs = list(impl)
            if any(impl[b] != impl[bs[0]] for b in bs[1:]):
                ctx.count("session:unsafe:impl-backends-differ")
        # the witness of C07_sess_unpersisted_witness, replayed: dict lost the element, file kept it
        if idx == 0:
            want = {"dict": ["ok", "ok", {"b": False}, {"list": [True, True]}], "file": ["ok", "ok", {"b": True}, {"list": [False, True]}]}
            for b, obs in impl.items():
                ctx.count("session:witness-replayed")
                if obs != want[base.MODEL_OF[b]]:
                    ctx.violation({"stream": "session", "geom": g, "ops": ops, "backend": b},
                                  f"session: {b} does not reproduce C07_sess_unpersisted_witness", found_input=False,
                                  item=f"witness:C07_sess_unpersisted_witness:{b}", impl=obs, model=want[base.MODEL_OF[b]])


def replay(ctx, case, basedir):
    from props import c07 as base
    case = {"geom": case["geom"], "ops": case["ops"]}
    backends = [b for b in sorted(storage_registry) if b in base.MODEL_OF]
    impl, robs = base.evaluate(case, os.path.join(basedir), "replay-sess", backends)
    r = ctx.lean([{"m": "storage.session", "a": {"geom": case["geom"], "ops": case["ops"]}}])[0]["r"]
    for i, op in enumerate(case["ops"]):
        print(f"step {i}: {op}   persist-then-reopen up to here: {r['safe'][i + 1]}")
        print("   reference (NumPy masked array, durable):", robs[i])
        for b in impl:
            print(f"   {b:20s} impl : {impl[b][i]}")
            print(f"   {'':20s} model: {base.relabel(r[base.MODEL_OF[b]][i])}")
        print("   Lean references: volatile (snapshot)", r["volatile"][i], "| durable", r["spec"][i])
