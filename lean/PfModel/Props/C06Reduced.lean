import PfModel.Lemmas.MapPiecesFlowWF
import PfModel.Lemmas.MapPiecesReduced
import PfModel.Props.C06Sub
/-!
C06, round 4 — the clause "requests that fix a reduced axis are rejected", spelled out per KIND of reduction.
`_reduced_axes` (`pipefunc/map/_prepare.py`) finds an axis of array `p` reduced by function `g` in three ways:

* `g` has no MapSpec and takes `p` (a plain reduction);
* `g` HAS a MapSpec — it may be mapped over other axes, even over the same axis through another array — but takes `p` through a
  parameter the MapSpec does not name (`f: x[i] -> y[i]`, `g(y, w): w[k] -> z[k]`: every `z[k]` is computed from all of `y`);
* `g`'s MapSpec names `p` with `:` at some position (`y[i, :]`).

`C06_reject` (clause 3) is stated with `reducedAxes`; the theorems below say what that set IS (`C06_reduced_iff`: exactly these
three ways, nothing else) and that each way leads to the refusal of the request and of the partial run, whatever else the request
and the folder hold.  The seeded change C06-s3-B rewrote `_reduced_axes` so that the second way was lost for functions with
input MapSpecs; nothing generated such a pipeline (fixed in this round: `harness/c06_gen.py`).
-/
namespace PF.C06
open PF PF.Map PF.Pieces

/-- what one function contributes for one array: all named axes when it takes the array whole, the `:` positions otherwise -/
theorem C06_reducedBy_iff (g : MFunc) (p : String) (ax : List (Option String)) (x : String) :
    x ∈ reducedBy g p ax ↔ (TakesWhole g p ∧ some x ∈ ax) ∨ SlicesAxis g p ax x := by
  have hfm : x ∈ ax.filterMap id ↔ some x ∈ ax := by
    rw [List.mem_filterMap]
    constructor
    · rintro ⟨a, ha, e⟩; simp only [id] at e; exact e ▸ ha
    · intro h; exact ⟨some x, h, rfl⟩
  have hzip : ∀ a : ASpec, x ∈ (List.zip ax a.axes).filterMap (fun (gs : Option String × Option String) => if gs.2.isNone then gs.1 else none) ↔
      (some x, none) ∈ List.zip ax a.axes := by
    intro a
    rw [List.mem_filterMap]
    constructor
    · rintro ⟨⟨u, s⟩, hm, e⟩
      cases s with
      | none => simp only [Option.isNone_none, ↓reduceIte] at e; exact e ▸ hm
      | some s => simp at e
    · intro h; exact ⟨(some x, none), h, by simp⟩
  by_cases hp : g.params.any (·.1 = p) = true
  · cases hms : g.mapspec with
    | none =>
      have hw : TakesWhole g p := ⟨hp, Or.inl hms⟩
      rw [reducedBy_whole g p ax hw, hfm]
      constructor
      · intro h; exact Or.inl ⟨hw, h⟩
      · rintro (⟨_, h⟩ | ⟨_, ms, a, h, _⟩)
        · exact h
        · rw [hms] at h; cases h
    | some ms =>
      cases hs : ms.inputSpec p with
      | none =>
        have hw : TakesWhole g p := ⟨hp, Or.inr ⟨ms, hms, hs⟩⟩
        rw [reducedBy_whole g p ax hw, hfm]
        constructor
        · intro h; exact Or.inl ⟨hw, h⟩
        · rintro (⟨_, h⟩ | ⟨_, ms', a, h, h2, _⟩)
          · exact h
          · rw [hms] at h; cases h; rw [hs] at h2; cases h2
      | some a =>
        rw [reducedBy_listed g p ax hp ms hms a hs, hzip a]
        constructor
        · intro h; exact Or.inr ⟨hp, ms, a, hms, hs, h⟩
        · rintro (⟨⟨_, h | ⟨ms', h, h2⟩⟩, _⟩ | ⟨_, ms', a', h, h2, h3⟩)
          · rw [hms] at h; cases h
          · rw [hms] at h; cases h; rw [hs] at h2; cases h2
          · rw [hms] at h; cases h; rw [hs] at h2; cases h2; exact h3
  · have : reducedBy g p ax = [] := by unfold reducedBy; rw [if_neg hp]
    rw [this]
    constructor
    · intro h; cases h
    · rintro (⟨⟨h, _⟩, _⟩ | ⟨h, _⟩) <;> exact absurd h hp

/-- **What `_reduced_axes` contains.**  An axis is reduced exactly when, for some array `p` some MapSpec of the pipeline names,
    some function of the pipeline takes `p` whole (with or without a MapSpec of its own) and the axis is a named axis of `p`, or
    names `p` with `:` at the position of that axis.  Nothing else makes an axis "reduced" (no valid partition is refused for
    another reason under clause 3 of `C06_reject`), and nothing of this is overlooked. -/
theorem C06_reduced_iff (fs : List MFunc) (axes : List (String × List (Option String))) (x : String) :
    x ∈ reducedAxes fs axes ↔
      ∃ p ∈ mapspecNames fs, ∃ g ∈ fs, (TakesWhole g p ∧ some x ∈ (alookup axes p).getD []) ∨ SlicesAxis g p ((alookup axes p).getD []) x := by
  unfold reducedAxes
  simp only [List.mem_flatMap, C06_reducedBy_iff]

/-- **The dictionary `_reduced_axes` returns and the set the validation tests are the same thing**: an axis is in `reducedAxes`
    exactly when it is in some row of `reducedTable` (the executable form the driver hands to the harness, which compares it
    with the dictionary of the real `_reduced_axes(pipeline)`). -/
theorem C06_reducedTable_flat (fs : List MFunc) (x : String) :
    x ∈ reducedAxes fs (mapspecAxes fs) ↔ ∃ row ∈ reducedTable fs, x ∈ row.2 := by
  unfold reducedAxes reducedTable
  constructor
  · intro h
    obtain ⟨p, hp, hx⟩ := List.mem_flatMap.mp h
    exact ⟨_, List.mem_map.mpr ⟨p, List.mem_eraseDups.mpr hp, rfl⟩, hx⟩
  · rintro ⟨row, hrow, hx⟩
    obtain ⟨p, hp, rfl⟩ := List.mem_map.mp hrow
    exact List.mem_flatMap.mpr ⟨p, List.mem_eraseDups.mp hp, hx⟩

/-- **A whole-array parameter makes every axis of the array unfixable — also when the function taking it is mapped.**  If some
    function `g` of the pipeline takes array `p` (named by some MapSpec) through a parameter that its own MapSpec does not name — `g`
    may have no MapSpec, a MapSpec without inputs, or be mapped over any other arrays — then every request that fixes a named
    axis of `p` is refused by `_validate_fixed_indices`, and the partial run is refused whatever the run folder holds, before
    any function runs: a part could only compute `g` from a partially filled `p`. -/
theorem C06_whole_param_refused (fs : List MFunc) (inputs : List (String × Val)) (ui : List (String × List Nat))
    (fx : List (String × Sel)) (old : List (String × Slot)) (g : MFunc) (hg : g ∈ fs) (p : String) (hp : p ∈ mapspecNames fs)
    (hw : TakesWhole g p) (kv : String × Sel) (hkv : kv ∈ fx) (hax : some kv.1 ∈ (alookup (mapspecAxes fs) p).getD []) :
    (∃ e, validateFixed fs inputs (some fx) = .error e) ∧ (∃ e, runPart fs inputs ui (some fx) old = .error e) := by
  have hr : kv.1 ∈ reducedAxes fs (mapspecAxes fs) := (C06_reduced_iff fs _ kv.1).mpr ⟨p, hp, g, hg, Or.inl ⟨hw, hax⟩⟩
  have hv : ∃ e, validateFixed fs inputs (some fx) = .error e := by
    cases h : validateFixed fs inputs (some fx) with
    | error e => exact ⟨e, rfl⟩
    | ok u => exact absurd hr (((C06_reject fs inputs fx).mp h).2.2.1 kv hkv)
  obtain ⟨e, he⟩ := hv
  exact ⟨⟨e, he⟩, C06_run_rejects fs inputs ui (some fx) old e he⟩

/-- **… and so does a `:` in a MapSpec, for the axis at that position.** -/
theorem C06_sliced_axis_refused (fs : List MFunc) (inputs : List (String × Val)) (ui : List (String × List Nat))
    (fx : List (String × Sel)) (old : List (String × Slot)) (g : MFunc) (hg : g ∈ fs) (p : String) (hp : p ∈ mapspecNames fs)
    (kv : String × Sel) (hkv : kv ∈ fx) (hs : SlicesAxis g p ((alookup (mapspecAxes fs) p).getD []) kv.1) :
    (∃ e, validateFixed fs inputs (some fx) = .error e) ∧ (∃ e, runPart fs inputs ui (some fx) old = .error e) := by
  have hr : kv.1 ∈ reducedAxes fs (mapspecAxes fs) := (C06_reduced_iff fs _ kv.1).mpr ⟨p, hp, g, hg, Or.inr hs⟩
  have hv : ∃ e, validateFixed fs inputs (some fx) = .error e := by
    cases h : validateFixed fs inputs (some fx) with
    | error e => exact ⟨e, rfl⟩
    | ok u => exact absurd hr (((C06_reject fs inputs fx).mp h).2.2.1 kv hkv)
  obtain ⟨e, he⟩ := hv
  exact ⟨⟨e, he⟩, C06_run_rejects fs inputs ui (some fx) old e he⟩

/-- **Conversely: a request refused as "reduced" names such a function.**  If the request indexes every input, names only known
    axes, and is nevertheless not accepted although every fixed axis is mapped over, then some fixed axis is an axis of an array
    that some function takes whole or slices with `:` — the refusal is never spurious. -/
theorem C06_refused_as_reduced_has_reducer (fs : List MFunc) (inputs : List (String × Val)) (fx : List (String × Sel))
    (h1 : ∀ pa ∈ mapspecAxes fs, ∀ v sh, alookup inputs pa.1 = some v → shapeOf v = some sh →
          ∀ sd ∈ List.zip (pa.2.map (axisSel fx)) sh, ∃ r, selIndices sd.2 sd.1 = .ok r)
    (h2 : ∀ kv ∈ fx, kv.1 ∈ knownAxes (mapspecAxes fs)) (h4 : ∀ kv ∈ fx, kv.1 ∈ mappedAxes fs)
    (hno : validateFixed fs inputs (some fx) ≠ .ok ()) :
    ∃ kv ∈ fx, ∃ p ∈ mapspecNames fs, ∃ g ∈ fs,
      (TakesWhole g p ∧ some kv.1 ∈ (alookup (mapspecAxes fs) p).getD []) ∨ SlicesAxis g p ((alookup (mapspecAxes fs) p).getD []) kv.1 := by
  apply Classical.byContradiction
  intro hcon
  apply hno
  rw [C06_reject]
  refine ⟨h1, h2, ?_, h4⟩
  intro kv hkv hr
  exact hcon ⟨kv, hkv, (C06_reduced_iff fs _ kv.1).mp hr⟩

/-! ### witnesses -/

private instance {ε α : Type} [DecidableEq ε] [DecidableEq α] : DecidableEq (Except ε α)
  | .ok a, .ok b => if h : a = b then isTrue (by rw [h]) else isFalse (by intro e; cases e; exact h rfl)
  | .error a, .error b => if h : a = b then isTrue (by rw [h]) else isFalse (by intro e; cases e; exact h rfl)
  | .ok _, .error _ => isFalse (by intro e; cases e)
  | .error _, .ok _ => isFalse (by intro e; cases e)

private def fY : MFunc := { name := "f", params := [("x", "x")], outputs := ["y"], mapspec := some { inputs := [⟨"x", [some "i"]⟩], outputs := [⟨"y", [some "i"]⟩] }, ret := none, internal := none, defaults := [], bound := [] }
private def gZ : MFunc := { name := "g", params := [("y", "y"), ("w", "w")], outputs := ["z"], mapspec := some { inputs := [⟨"w", [some "k"]⟩], outputs := [⟨"z", [some "k"]⟩] }, ret := none, internal := none, defaults := [], bound := [] }
private def xw : List (String × Val) := [("x", .arr [3] [.int 1, .int 2, .int 3]), ("w", .arr [2] [.int 10, .int 20])]
private def reducedErr : Err := .value "axis is reduced and cannot be in fixed_indices"

/-- **Witness (the demo of seeded change C06-s3-B).**  `f: x[i] -> y[i]`, `g(y, w): w[k] -> z[k]` with three `x` and two `w`:
    `i` is the one reduced axis; `{"i": 0}` and `{"i": slice(1, None)}` are refused with `ValueError` and nothing runs; `{"k": 1}`
    is accepted and computes all of `y` and one element of `z`; after it `{"k": 0}` computes the other `z` only, and a final full
    run on that folder computes nothing. -/
theorem C06_whole_param_witness :
    reducedAxes [fY, gZ] (mapspecAxes [fY, gZ]) = ["i"] ∧
    validateFixed [fY, gZ] xw (some [("i", .idx 0)]) = .error reducedErr ∧
    validateFixed [fY, gZ] xw (some [("i", .slice (some 1) none none)]) = .error reducedErr ∧
    (runPart [fY, gZ] xw [] (some [("i", .idx 0)]) []).map (fun r => r.res.calls.map (·.name)) = .error reducedErr ∧
    validateFixed [fY, gZ] xw (some [("k", .idx 1)]) = .ok () ∧
    (runPieces [fY, gZ] xw [] [some [("k", .idx 1)], some [("k", .idx 0)], none] []).map (fun rs => rs.map (fun r => r.res.calls.map (·.name))) =
      .ok [["f", "f", "f", "g"], ["g"], []] := by decide

/-! ### non-vacuity -/

/-- the hypotheses of `C06_whole_param_refused` hold for the demo pipeline: `g` is MAPPED (over `w[k]`) and takes `y` whole -/
example : (∃ e, validateFixed [fY, gZ] xw (some [("i", .idx 0)]) = .error e) ∧ (∃ e, runPart [fY, gZ] xw [] (some [("i", .idx 0)]) [] = .error e) :=
  C06_whole_param_refused [fY, gZ] xw [] [("i", .idx 0)] [] gZ (by simp) "y" (by decide)
    ⟨by decide, Or.inr ⟨_, rfl, by decide⟩⟩ ("i", .idx 0) List.mem_cons_self (by decide)

private def hS : MFunc := { name := "h", params := [("y", "y")], outputs := ["s"], mapspec := some { inputs := [⟨"y", [none]⟩], outputs := [⟨"s", []⟩] }, ret := none, internal := none, defaults := [], bound := [] }

/-- the hypotheses of `C06_sliced_axis_refused` hold: `h: y[:] -> s` after `f: x[i] -> y[i]` -/
example : (∃ e, validateFixed [fY, hS] xw (some [("i", .idx 0)]) = .error e) ∧ (∃ e, runPart [fY, hS] xw [] (some [("i", .idx 0)]) [] = .error e) :=
  C06_sliced_axis_refused [fY, hS] xw [] [("i", .idx 0)] [] hS (by simp) "y" (by decide) ("i", .idx 0) List.mem_cons_self
    ⟨by decide, { inputs := [⟨"y", [none]⟩], outputs := [⟨"s", []⟩] }, ⟨"y", [none]⟩, rfl, by decide, by decide⟩

/-- the hypotheses of `C06_refused_as_reduced_has_reducer` hold for `{"i": 0}` on the demo pipeline (indexes `x`, `i` is known and
    mapped over by `f`, the request is refused) -/
example : ∃ kv ∈ [(("i", .idx 0) : String × Sel)], ∃ p ∈ mapspecNames [fY, gZ], ∃ g ∈ [fY, gZ],
      (TakesWhole g p ∧ some kv.1 ∈ (alookup (mapspecAxes [fY, gZ]) p).getD []) ∨ SlicesAxis g p ((alookup (mapspecAxes [fY, gZ]) p).getD []) kv.1 :=
  C06_refused_as_reduced_has_reducer [fY, gZ] xw [("i", .idx 0)]
    ((checkInputs_ok_iff xw [("i", .idx 0)] (mapspecAxes [fY, gZ])).mp (by decide))
    (by decide) (by decide) (by decide)

end PF.C06
