import PfModel.Model.Resources
/-!
How `Resources` reach the functions of a pipeline (C20, second part): `PipeFunc(resources=…)` given as an instance, a dict or a callable
(`Resources.maybe_from_dict`, `resources.py:135-149`), `Pipeline(default_resources=…)` applied when a function is added
(`Resources.maybe_with_defaults`, `resources.py:305-323`, called from `_pipeline/_base.py:238,248`), and `NestedPipeFunc.resources` = the maximum
of its children (`_pipefunc.py:1114,1221-1235,1342-1366`).
-/
namespace PF.ResPipe
open PF.Res

/-- `PipeFunc.resources` after `maybe_from_dict`: an instance, or a callable evaluated later on the call's kwargs (`κ`); `none` = it raises.
    A callable that returns a dict goes through `_ensure_resources` (`Resources(**d)`), which is folded into `g`. -/
inductive PRes (κ : Type)
  | inst (r : R)
  | call (g : κ → Option R)

def PRes.eval {κ} : PRes κ → κ → Option R
  | .inst r, _ => some r
  | .call g, k => g k

/-- the `resources=` argument of `PipeFunc` / the `default_resources=` argument of `Pipeline` -/
inductive Arg (κ : Type)
  | none
  | inst (r : R)
  | dict (d : List Field)
  | callable (g : κ → Option R)

/-- `Resources.maybe_from_dict` (`resources.py:135-149`); outer `none` = `from_dict` raised -/
def maybeFromDict {κ} : Arg κ → Option (Option (PRes κ))
  | .none => some none
  | .inst r => some (some (.inst r))
  | .callable g => some (some (.call g))
  | .dict d => (fromDict? d).map fun r => some (.inst r)

/-- `Resources.maybe_with_defaults` (`resources.py:305-323`); the callable case is `_delayed_resources_with_defaults`
    (`resources.py:337-344`): call, then `with_defaults`.  Outer `none` = raised. -/
def maybeWithDefaults {κ} : Option (PRes κ) → Option R → Option (Option (PRes κ))
  | none, none => some none
  | none, some d => some (some (.inst d))
  | some r, none => some (some r)
  | some (.call g), some d => some (some (.call fun k => (g k).bind fun x => withDefaults? x (some d)))
  | some (.inst r), some d => (withDefaults? r (some d)).map fun w => some (.inst w)

/-- `Pipeline.add(f)` as far as resources go (`_pipeline/_base.py:236-249`): a `PipeFunc` keeps what it set and is filled from the defaults; a
    plain callable gets the defaults themselves (`plain = true`). -/
def pipelineAdd {κ} (plain : Bool) (fres : Option (PRes κ)) (dflt : Option R) : Option (Option (PRes κ)) :=
  if plain then some (dflt.map .inst) else maybeWithDefaults fres dflt

/-! ### NestedPipeFunc -/

inductive NErr | valueError | typeError
  deriving DecidableEq, Repr

def isCall {κ} : Option (PRes κ) → Bool
  | some (.call _) => true
  | _ => false

def instOf {κ} : Option (PRes κ) → Option R
  | some (.inst r) => some r
  | _ => none

/-- `_maybe_max_resources` without a given value (`_pipefunc.py:1229-1235`): no child sets any → `None`; exactly one → THAT child's
    (the object itself); otherwise `combine_max`. -/
def maxOfChildren (l : List R) : Option R :=
  match l with
  | [] => none
  | [r] => some r
  | _ => some (combineMax l)

/-- `NestedPipeFunc(pipefuncs, resources=given).resources`: `_validate_nested_pipefunc` (`_pipefunc.py:1342-1366`: fewer than two functions →
    ValueError; nothing given and a child with callable resources → ValueError; a callable given → TypeError), then `_maybe_max_resources`. -/
def nestedResources {κ} (given : Arg κ) (children : List (Option (PRes κ))) : Except NErr (Option R) :=
  if children.length < 2 then .error .valueError else
  match given with
  | .none => if children.any isCall then .error .valueError else .ok (maxOfChildren (children.filterMap instOf))
  | .callable _ => .error .typeError
  | .inst r => .ok (some r)
  | .dict d => match fromDict? d with
    | some r => .ok (some r)
    | none => .error .valueError

end PF.ResPipe
